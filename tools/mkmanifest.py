#!/usr/bin/env python3
"""Regenerates /verif/MANIFEST.json from the table below (keeps it valid at all times)."""
import json
import os
import subprocess

VERIF = os.path.dirname(os.path.dirname(os.path.abspath(__file__)))

# one JSON file per claimed property in tools/manifest.d/<ID>.json:
# {"technique": ..., "text": ..., "note": ..., "design_ref": ..., "not_applicable": optional reason}
CHECKS = {}
_d = os.path.join(VERIF, "tools", "manifest.d")
for _f in sorted(os.listdir(_d)):
    if _f.endswith(".json"):
        _e = json.load(open(os.path.join(_d, _f)))
        CHECKS[_f[:-5]] = (_e["technique"], _e["text"], _e["note"], _e.get("design_ref", "DESIGN.md 5"))

NOT_YET = "check not built yet in this round (see DESIGN.md section 10 for the build order)"


def main():
    props = [json.loads(l)["id"] for l in open(os.path.join(VERIF, "properties.jsonl"))]
    try:
        commits = subprocess.run(["git", "-C", "/repo", "log", "--format=%h %s", "7a629ca..HEAD"],
                                 capture_output=True, text=True).stdout.strip().splitlines()
    except Exception:
        commits = []
    hook_commits = [c.split()[0] for c in commits if c.split(" ", 1)[1].startswith("verif:")]
    m = {
        "version": 1,
        "setup_cmd": "./setup.sh",
        "hooks": {
            "guard": "verif",
            "enable": "go build -tags verif (the harness module /verif/harness replaces evylang.dev/evy with /repo and is always built with -tags verif)",
            "baseline_off_cmd": "for m in . ./learn; do (cd /repo/$m && go test -mod=mod -json -vet=off -count=1 -timeout 25m ./...); done",
            "source_commits": hook_commits,
            "add_only": True,
        },
        "engines": [
            {"name": "tlc", "path": "/opt/veriftools/tla/tla2tools.jar", "serves_properties": sorted(CHECKS),
             "kind_free_text": "explicit-state model checker for the TLA+ specifications in /verif/spec"},
            {"name": "evyverif", "path": "/verif/harness", "serves_properties": sorted(CHECKS),
             "kind_free_text": "Go conformance harness: replays TLC behaviours into the real packages, records traces for trace validation"},
        ],
        "checks": [],
        "not_applicable": [],
        "notes": "Every check: ./check <ID> <quick|thorough>. Exit 0 held / 1 VIOLATION reproduced on the real code / 2 machinery trouble. Known findings: known-findings.jsonl.",
    }
    for p in props:
        if p in CHECKS:
            tech, text, note, ref = CHECKS[p]
            m["checks"].append({
                "property_id": p,
                "quick_cmd": "./check %s quick" % p,
                "thorough_cmd": "./check %s thorough" % p,
                "evidence_file": "evidence/%s.json" % p,
                "replay_cmd_template": "./check %s --replay {path}" % p,
                "engine": "tlc",
                "level_claimed": {"category": "model_checking", "text": text, "design_ref": ref},
                "level_note": note,
                "technique": tech,
            })
        else:
            m["not_applicable"].append({"property_id": p, "reason": NOT_YET})
    with open(os.path.join(VERIF, "MANIFEST.json"), "w") as f:
        json.dump(m, f, indent=1)
    print("MANIFEST.json: %d checks, %d not_applicable" % (len(m["checks"]), len(m["not_applicable"])))


if __name__ == "__main__":
    main()
