#!/usr/bin/env python3
"""seeded/MATRIX.md from seeded/MATRIX.rows (appended by tools/seeded.sh; the last row of an id wins)
and the meta.json of every seeded change."""
import json
import os

root = os.path.join(os.path.dirname(os.path.abspath(__file__)), "..", "seeded")
last, first = {}, {}
for line in open(os.path.join(root, "MATRIX.rows")):
    p = [x.strip() for x in line.strip().strip("|").split("|")]
    if len(p) >= 3:
        first.setdefault(p[0], p[2])
        last[p[0]] = p[2]
first = {}
for line in open(os.path.join(root, "FIRSTRUN.rows")):
    p = [x.strip() for x in line.strip().strip("|").split("|")]
    if len(p) >= 2:
        first[p[0]] = p[1]
# the second round (ids -C, -D): first run recorded in FIRSTRUN2.rows in the row format of MATRIX.rows
for fr in ("FIRSTRUN2.rows", "FIRSTRUN3.rows", "FIRSTRUN4.rows"):
    if not os.path.exists(os.path.join(root, fr)):
        continue
    for line in open(os.path.join(root, fr)):
        p = [x.strip() for x in line.strip().strip("|").split("|")]
        if len(p) >= 3:
            first[p[0]] = p[2]
out = ["# Seeded changes and the checks that catch them", "",
       "Each change was written by an independent sub-agent that saw only the property text and a scratch worktree;",
       "it compiles, passes the repository's tests and comes with a demonstration (`seeded/<id>/`).",
       "Four sets: ids -A -B, -C -D, -E -F, -G -H; each later set was written after the earlier ones had been used to strengthen the checks, by agents",
       "told to use other sites and triggers. `first run` (FIRSTRUN.rows ... FIRSTRUN4.rows) is the result before any check was strengthened for that set, `now` the result of the last run of",
       "`tools/seeded.sh <id>` (quick tier, `VERIF_REPO=<scratch copy with the patch>`).", "",
       "| Id | Property | Change | first run | now |", "|---|---|---|---|---|"]
n = det = 0
for d in sorted(os.listdir(root)):
    mp = os.path.join(root, d, "meta.json")
    if not os.path.exists(mp):
        continue
    m = json.load(open(mp))
    s = m.get("summary", "").replace("|", "/").replace("\n", " ")
    if len(s) > 230:
        s = s[:227] + "..."
    n += 1
    det += "DETECTED" in last.get(d, "")
    out.append("| %s | %s | %s | %s | %s |" % (d, m["property"], s, first.get(d, "-").rstrip(";"), last.get(d, "not run").rstrip(";")))
out += ["", "%d of %d seeded changes are detected by the quick tier of the property's own check." % (det, n), ""]
open(os.path.join(root, "MATRIX.md"), "w").write("\n".join(out))
print("%d/%d" % (det, n))
