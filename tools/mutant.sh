#!/bin/sh
# usage: tools/mutant.sh <patch-or-sed-script> <check id> [tier]
# Applies a mutation to a scratch copy of /repo and runs one check against it (VERIF_REPO).
# $1: a file containing a unified diff (applied with git apply) or a line "sed FILE EXPR"
set -e
M=/tmp/mut.$$
rm -rf $M && mkdir -p $M && cp -r /repo $M/repo
cd $M/repo
if head -1 "$1" | grep -q '^sed '; then
  while read -r _ f expr; do sed -i "$expr" "$f"; done < "$1"
else
  git apply "$1"
fi
git diff --stat | tail -1
cd /verif
VERIF_REPO=$M/repo ./check "$2" "${3:-quick}" | tail -4 || true
rm -rf $M /verif/out/harness-alt
