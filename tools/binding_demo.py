#!/usr/bin/env python3
"""Demonstration that the trace specifications are bound to the code (not a registered check).

For ScopeStackTrace and EvyVM: record the trace of one program from the real code, show that the specification
accepts it, then (a) corrupt one recorded field, (b) remove one recorded event (= a hook that did not fire) and show
that the specification rejects both.  Prints one line per experiment; exit 0 iff every experiment came out as stated."""
import json
import os
import subprocess
import sys

sys.path.insert(0, os.path.join(os.path.dirname(os.path.abspath(__file__)), ".."))
os.chdir(os.path.join(os.path.dirname(os.path.abspath(__file__)), ".."))
from vlib import common  # noqa: E402

PROG = ('x := 1\nfunc f n:num\n    x := n + 1\n    if x > 1\n        y := x * 2\n        print x y\n    end\n    return\nend\n'
        'for i := range 2\n    f i\nend\nprint x\n')
VMPROG = 'acc := 0\nfor i := range 3\n    acc = acc + i * 2\nend\ns := "ab" + "c"\nm := {a:1}\nm["a"] = acc\ns = s\nm = m\n'


def scope_accepts(lines):
    data = ("\n".join(lines) + "\n").encode()
    res = common.run_tlc("ScopeStackTrace", "ScopeStackTrace.cfg", workers=1, timeout=300, extra_files=[(data, "trace.ndjson")],
                         allow_violation=True, name="bind-scope")
    return (not res.violation) and res.depth == len(lines) + 1


def vm_verdict(prog):
    d = common.scratch("bind-vm")
    p = os.path.join(d, "vmprogs.ndjson")
    open(p, "w").write(json.dumps(prog) + "\n")
    res = common.run_tlc("EvyVM", "EvyVM.cfg", extra_files=[(p, "vmprogs.ndjson")], timeout=300, name="bind-evyvm")
    return res.cases[0]["verdict"]


def main():
    common.build_harness()
    ok = True

    def say(what, got, want):
        nonlocal ok
        good = got == want
        ok = ok and good
        print("%-78s %s%s" % (what, got, "" if good else "   <-- expected " + str(want)))

    d = common.scratch("bind")
    src = os.path.join(d, "src.ndjson")
    open(src, "w").write(json.dumps({"id": "demo", "src": PROG, "maxEvents": 0, "rounds": 0}) + "\n")
    out = os.path.join(d, "trace.ndjson")
    subprocess.run([common.HARNESS, "record-scope", "-in", src, "-out", out], check=True)
    lines = [l for l in open(out).read().splitlines() if l.strip()]
    say("ScopeStackTrace: recorded trace (%d events)" % len(lines), "accepted" if scope_accepts(lines) else "rejected", "accepted")
    i = next(k for k, l in enumerate(lines) if '"Get"' in l and '"s":"x"' in l and '"n":0' in l)
    ev = json.loads(lines[i])
    ev["v"] = '"41"'
    say("  one Get event reports another value", "accepted" if scope_accepts(lines[:i] + [json.dumps(ev)] + lines[i + 1:]) else "rejected", "rejected")
    ev = json.loads(lines[i])
    ev["n"] = ev["n"] + 1
    say("  one Get event reports a binding one scope further out", "accepted" if scope_accepts(lines[:i] + [json.dumps(ev)] + lines[i + 1:]) else "rejected", "rejected")
    j = next(k for k, l in enumerate(lines) if '"PopScope"' in l)
    say("  one PopScope event missing (a hook that did not fire)", "accepted" if scope_accepts(lines[:j] + lines[j + 1:]) else "rejected", "rejected")
    j = next(k for k, l in enumerate(lines) if '"PushFuncScope"' in l)
    say("  one PushFuncScope event missing", "accepted" if scope_accepts(lines[:j] + lines[j + 1:]) else "rejected", "rejected")

    open(src, "w").write(json.dumps({"id": "demo", "src": VMPROG}) + "\n")
    vout = os.path.join(d, "vm.ndjson")
    subprocess.run([common.HARNESS, "record-vm", "-in", src, "-out", vout], check=True)
    prog = json.loads(open(vout).read().splitlines()[0])
    say("EvyVM: recorded step trace (%d steps)" % len(prog["trace"]), vm_verdict(prog), "ok")
    k = next(i for i, st in enumerate(prog["trace"]) if st["top"][:1] == [110] and i > 3)
    bad = json.loads(json.dumps(prog))
    bad["trace"][k]["top"][-1] += 1
    say("  one step reports another number on top of the stack", "ok" if vm_verdict(bad) == "ok" else "rejected", "rejected")
    bad = json.loads(json.dumps(prog))
    bad["trace"][k]["sp"] += 1
    say("  one step reports another stack height", "ok" if vm_verdict(bad) == "ok" else "rejected", "rejected")
    bad = json.loads(json.dumps(prog))
    del bad["trace"][k]
    say("  one step missing", "ok" if vm_verdict(bad) == "ok" else "rejected", "rejected")
    bad = json.loads(json.dumps(prog))
    bad["globals"][0] = [ord(c) for c in "7"]
    say("  final value of a global differs", "ok" if vm_verdict(bad) == "ok" else "rejected", "rejected")
    return 0 if ok else 1


if __name__ == "__main__":
    sys.exit(main())
