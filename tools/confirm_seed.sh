#!/bin/bash
# usage: tools/confirm_seed.sh <property id> <A|B>
# Confirms an independently produced seeded change (patch applies to the current /repo, builds with and without the
# verif tag, the full unedited test suite passes, the demonstration fails with the change and passes without it) and,
# if confirmed, stores it under seeded/<id>-<A|B>/.
cd "$(dirname "$0")/.."
export GOFLAGS=-mod=mod GOPROXY=off GOSUMDB=off GOTOOLCHAIN=local
id=$1; v=$2; src=/tmp/seed/out/$id/$v
[ -f $src/patch.diff ] || { echo "$id-$v: no patch"; exit 1; }
S=/tmp/confirm.$$; rm -rf $S; mkdir -p $S; cp -r /repo $S/repo; cd $S/repo
log=$S/log.txt
if ! git apply $src/patch.diff 2>>$log; then echo "$id-$v: PATCH DOES NOT APPLY"; rm -rf $S; exit 1; fi
if git diff --stat | grep -q "_test.go"; then echo "$id-$v: patch edits tests"; rm -rf $S; exit 1; fi
if ! (go build ./... && go build -tags verif ./... && (cd learn && go build ./...)) >>$log 2>&1; then echo "$id-$v: DOES NOT BUILD"; tail -5 $log; rm -rf $S; exit 1; fi
if ! (go test -vet=off -count=1 ./... && (cd learn && go test -vet=off -count=1 ./...)) >>$log 2>&1; then echo "$id-$v: TESTS FAIL WITH CHANGE"; grep -m5 "FAIL" $log; rm -rf $S; exit 1; fi
demo=$(ls $src/demo.sh 2>/dev/null)
with=skip; without=skip
if [ -n "$demo" ]; then
  sed "s#/tmp/seed/$id\\b#$S/repo#g" $demo > $src/.demo_run.sh
  (cd $S/repo && timeout 900 bash $src/.demo_run.sh >>$log 2>&1); with=$?
  git checkout -q -- . ; git clean -fdq
  (cd $S/repo && timeout 900 bash $src/.demo_run.sh >>$log 2>&1); without=$?
fi
cd /verif
if [ "$with" != "0" ] && [ "$without" = "0" ]; then
  d=seeded/$id-$v; mkdir -p $d; cp $src/* $d/ 2>/dev/null; rm -f $d/.demo_run.sh $d/fulltest.log
  python3 - "$d" "$id" "$with" <<'PY'
import json,sys
d,idp,w=sys.argv[1:4]
try: m=json.load(open(d+'/meta.json'))
except Exception: m={}
m['property']=idp
m['confirmed_by_coordinator']={"patch_applies":True,"builds":True,"tests_pass_with_change":True,"demo_exit_with_change":int(w),"demo_exit_without_change":0,
  "ran":"tools/confirm_seed.sh (scratch copy of /repo: git apply, go build ./... with and without -tags verif, go test ./... in . and learn/, demo.sh with and without the change)"}
json.dump(m,open(d+'/meta.json','w'),indent=1)
PY
  echo "$id-$v: CONFIRMED (demo exit $with with change, 0 without)"
else
  echo "$id-$v: NOT CONFIRMED (demo with=$with without=$without)"; tail -5 $log
fi
rm -rf $S
