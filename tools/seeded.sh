#!/bin/bash
# usage: tools/seeded.sh [<seeded-id> ...]   (default: all under seeded/)
# For every seeded change: scratch copy of /repo, apply patch, confirm build, run the checks named in
# meta.json ("checks", default: the property's own check) with VERIF_REPO, and append a row to seeded/MATRIX.md.
cd "$(dirname "$0")/.."
export GOFLAGS=-mod=mod GOPROXY=off GOSUMDB=off GOTOOLCHAIN=local
ids=("$@")
[ ${#ids[@]} -eq 0 ] && ids=($(ls seeded | grep -v MATRIX))
for id in "${ids[@]}"; do
  d=seeded/$id
  [ -f $d/patch.diff ] || continue
  prop=$(python3 -c "import json;print(json.load(open('$d/meta.json'))['property'])")
  checks=$(python3 -c "import json;m=json.load(open('$d/meta.json'));print(' '.join(m.get('checks',[m['property']])))")
  tier=$(python3 -c "import json;m=json.load(open('$d/meta.json'));print(m.get('tier','quick'))")
  M=/tmp/seedrun.$$.$RANDOM
  rm -rf $M && mkdir -p $M && cp -r /repo $M/repo
  if ! git -C $M/repo apply $PWD/$d/patch.diff; then echo "$id: patch does not apply"; rm -rf $M; continue; fi
  if ! (cd $M/repo && go build ./... && go build -tags verif ./...) 2>/dev/null; then echo "$id: does not build"; rm -rf $M; continue; fi
  row="| $id | $prop |"
  for c in $checks; do
    out=$(VERIF_REPO=$M/repo ./check $c $tier 2>&1)
    rc=$?
    nv=$(echo "$out" | grep -c "^VIOLATION")
    if [ $rc -eq 1 ]; then res="$c: DETECTED ($nv)"; elif [ $rc -eq 0 ]; then res="$c: missed"; else res="$c: exit $rc"; fi
    echo "$id $res"
    echo "$out" | grep -A1 "^VIOLATION" | head -4 | cut -c1-220
    row="$row $res;"
  done
  echo "$row" >> ${ROWS:-seeded/MATRIX.rows}
  rm -rf $M out/harness-alt
done
