INIT MInit
NEXT MNext
INVARIANTS AtMostOneEffectAfterStop SeenOnlyIfRaised
CHECK_DEADLOCK FALSE
