-------------------------------- MODULE Seal --------------------------------
(***************************************************************************)
(* C20, first half: the sealed-answer envelope of learn/pkg/learn/encrypt.go *)
(*                                                                         *)
(*   Encrypt = base64( ver(1) || rsaLen(2, big endian) || RSA-OAEP(sessionKey) *)
(*                     || AES-256-GCM(sessionKey, nonce = 0, text) )       *)
(*                                                                         *)
(* The last part is ciphertext (as long as the text) followed by the GCM   *)
(* tag.  There is NO nonce in the envelope (hybridEncrypt uses the all-zero *)
(* nonce with a one-time key) - so the model has no nonce region either.   *)
(*                                                                         *)
(* The envelope is a sequence of abstract cells; every cell stands for a   *)
(* contiguous block of real bytes (the replayer expands a cell to EVERY    *)
(* byte of its block).  The two length cells are interpreted as digits of  *)
(* the 16 bit length exactly as hybridDecrypt does.  Cryptography is       *)
(* symbolic:                                                               *)
(*   OAEP:  decryption yields the session key iff the private key is the   *)
(*          matching one and the block handed to it is, cell by cell, the  *)
(*          block that was produced; anything else is an error;            *)
(*   GCM:   Open yields the text iff the session key is right and the      *)
(*          bytes handed to it are exactly ciphertext||tag as produced.    *)
(* Constant Authenticated = FALSE replaces GCM by an unauthenticated mode  *)
(* (negative control: the invariant must then fail).                       *)
(*                                                                         *)
(* Actions, one per step of the code / of the adversary:                   *)
(*   Seal(tc)            hybridEncrypt + base64                            *)
(*   Flip, Trunc, Extend, SetLen           corruptions of the bytes        *)
(*   ASubst, ATrunc, AExt, ABad, AWs, ATrail   corruptions of the armour   *)
(*   Unseal(key)         Decrypt: base64, the two length checks, split,    *)
(*                       DecryptOAEP, gcm.Open                             *)
(* Deliberate deviations of the code from its documentation that the model *)
(* reproduces: the version byte is written but never checked by            *)
(* hybridDecrypt (a flipped version byte still unseals); base64 decoding   *)
(* ignores CR/LF and non-zero trailing bits.                               *)
(* Not modelled: an adversary who MAKES a new sealed value with the public *)
(* key (no secret needed; outside the property's quantifier, which is over *)
(* corruptions of a sealed value).                                         *)
(***************************************************************************)
EXTENDS Naturals, Sequences, FiniteSets, TLC, Json

CONSTANTS Tier,          \* "quick" | "thorough" | "deep"
          Authenticated  \* TRUE: AES-GCM as in the code

L == 2    \* cells of the RSA block
T == 2    \* cells of the GCM tag
B == 4    \* base of the two length digits: rsaLen = hi * B + lo
MaxTamper == IF Tier = "quick" THEN 1 ELSE IF Tier = "thorough" THEN 2 ELSE 3
EmitOn == Tier # "deep"

\* the class matters to the model only through the number of ciphertext cells;
\* the deep run therefore keeps one class per size
TextClasses == IF Tier = "deep" THEN {"empty", "one", "ascii"}
               ELSE {"empty", "one", "ascii", "multibyte", "ctl", "mixed"}
CtCells(tc) == IF tc = "empty" THEN 0 ELSE IF tc = "one" THEN 1 ELSE 2

\* v: 0 = as produced, 1 = corrupted, 2 = appended junk; for "len" cells the digit
Cell(r, k, v) == [r |-> r, k |-> k, v |-> v]
Cells(r, n) == [k \in 1..n |-> Cell(r, k, 0)]

OrigRsa == Cells("rsa", L)
OrigAes(tc) == Cells("ct", CtCells(tc)) \o Cells("tag", T)
OrigEnv(tc) == <<Cell("ver", 1, 0), Cell("len", 1, L \div B), Cell("len", 2, L % B)>> \o OrigRsa \o OrigAes(tc)

Step(kind, region, part, arg) == [kind |-> kind, region |-> region, part |-> part, arg |-> arg]

VARIABLES phase,   \* "plain" | "sealed" | "done"
          tc,      \* class of the answer text
          env,     \* the bytes inside the armour
          arm,     \* "ok" | "same" (armour altered, bytes unchanged) | "bad" (does not decode)
          closed,  \* no further tampering (an armour-only corruption was applied)
          sched,   \* the tamper schedule so far
          key,     \* key used by Unseal
          result   \* "pending" | "original" | "reject" | "different"
vars == <<phase, tc, env, arm, closed, sched, key, result>>

Init == /\ phase = "plain" /\ tc \in TextClasses /\ env = <<>> /\ arm = "ok" /\ closed = FALSE
        /\ sched = <<>> /\ key = "none" /\ result = "pending"

Seal == /\ phase = "plain"
        /\ phase' = "sealed" /\ env' = OrigEnv(tc)
        /\ UNCHANGED <<tc, arm, closed, sched, key, result>>

CanTamper == phase = "sealed" /\ ~closed /\ Len(sched) < MaxTamper

\* the value a cell takes when one of its bytes is corrupted
Corrupted(c) == IF c.r = "len" THEN {Cell(c.r, c.k, d) : d \in (0..(B - 1)) \ {c.v}}
                ELSE IF c.v = 1 THEN {Cell(c.r, c.k, 1), Cell(c.r, c.k, 0)}   \* second hit may restore
                ELSE IF c.v = 0 THEN {Cell(c.r, c.k, 1)} ELSE {c}

Tampered(e, s) == /\ env' = e /\ sched' = Append(sched, s)
                  /\ UNCHANGED <<phase, tc, arm, closed, key, result>>

Flip == /\ CanTamper
        /\ \E p \in 1..Len(env) : \E c \in Corrupted(env[p]) :
             Tampered([env EXCEPT ![p] = c], Step("flip", env[p].r, env[p].k, ""))

Trunc == /\ CanTamper
         /\ \E k \in 0..(Len(env) - 1) :
              Tampered(SubSeq(env, 1, k), Step("trunc", env[k + 1].r, env[k + 1].k, ""))

Junk(m) == [k \in 1..m |-> Cell("junk", k, 2)]
Extend == /\ CanTamper
          /\ \A p \in 1..Len(env) : env[p].r # "junk"
          /\ \E m \in 1..2 : Tampered(env \o Junk(m), Step("extend", "", 0, ToString(m)))

CurLen(e) == e[2].v * B + e[3].v
LenClass(x, n) == (IF x = 0 THEN "zero" ELSE IF x < L THEN "less" ELSE IF x = L THEN "orig" ELSE "more")
                  \o "/" \o (IF x + 3 < n THEN "in" ELSE IF x + 3 = n THEN "exact" ELSE "over")
SetLen == /\ CanTamper /\ Len(env) >= 3
          /\ \E x \in 0..(B * B - 1) :
               /\ x # CurLen(env)
               /\ Tampered([env EXCEPT ![2] = Cell("len", 1, x \div B), ![3] = Cell("len", 2, x % B)],
                           Step("setlen", "", 0, LenClass(x, Len(env))))

\* one armour character replaced by another of the alphabet: 6 bits of one
\* byte or of two neighbouring bytes change (the step names the cell of the
\* first byte that changes)
ASubst == /\ CanTamper
          /\ \E p \in 1..Len(env) : \E c \in Corrupted(env[p]) :
               \/ Tampered([env EXCEPT ![p] = c], Step("a_subst", env[p].r, env[p].k, ""))
               \/ /\ p < Len(env)
                  /\ \E d \in Corrupted(env[p + 1]) :
                       Tampered([env EXCEPT ![p] = c, ![p + 1] = d], Step("a_subst", env[p].r, env[p].k, ""))

Close(a, e, s) == /\ arm' = a /\ env' = e /\ closed' = TRUE /\ sched' = Append(sched, s)
                  /\ UNCHANGED <<phase, tc, key, result>>

\* armour cut: at a 4-character boundary the bytes are cut, elsewhere it no longer decodes
ATrunc == /\ CanTamper
          /\ \/ \E k \in 0..(Len(env) - 1) : Close("ok", SubSeq(env, 1, k), Step("a_trunc", "", 0, "quantum"))
             \/ Close("bad", env, Step("a_trunc", "", 0, "inner"))
\* characters appended: a whole group after an unpadded value adds bytes, anything else does not decode
AExt == /\ CanTamper
        /\ \/ Close("ok", env \o Junk(2), Step("a_ext", "", 0, "quantum"))
           \/ Close("bad", env, Step("a_ext", "", 0, "inner"))
\* a character outside the alphabet, a deleted/inserted character, broken padding
\* ('=' written over the tail can also give a valid shorter value)
ABad == /\ CanTamper
        /\ \/ \E a \in {"char", "indel", "pad"} : Close("bad", env, Step("a_bad", "", 0, a))
           \/ \E k \in 0..(Len(env) - 1) : Close("ok", SubSeq(env, 1, k), Step("a_bad", "", 0, "pad"))
\* CR/LF inserted, unused trailing bits of the last character changed: same bytes
AWs == CanTamper /\ Close("same", env, Step("a_ws", "", 0, ""))
ATrail == CanTamper /\ Close("same", env, Step("a_trail", "", 0, ""))

(* Decrypt / hybridDecrypt, statement by statement *)
Decrypt(e, a, k, t) ==
  IF a = "bad" THEN "reject"                                     \* base64.DecodeString
  ELSE IF Len(e) < 3 THEN "reject"                               \* ErrSealedTooShort
  ELSE LET rsaLen == CurLen(e) IN
       IF Len(e) < rsaLen + 3 THEN "reject"                      \* ErrSealedTooShort
       ELSE LET rsaCt == SubSeq(e, 4, rsaLen + 3)
                aesCt == SubSeq(e, rsaLen + 4, Len(e))
            IN IF ~(k = "right" /\ rsaCt = OrigRsa) THEN "reject" \* rsa.DecryptOAEP
               ELSE IF aesCt = OrigAes(t) THEN "original"        \* gcm.Open
               ELSE IF Authenticated THEN "reject" ELSE "different"

Unseal == /\ phase = "sealed"
          /\ \E k \in {"right", "wrong"} :
               /\ key' = k /\ result' = Decrypt(env, arm, k, tc)
          /\ phase' = "done"
          /\ UNCHANGED <<tc, env, arm, closed, sched>>

Next == Seal \/ Flip \/ Trunc \/ Extend \/ SetLen \/ ASubst \/ ATrunc \/ AExt \/ ABad \/ AWs \/ ATrail \/ Unseal

Spec == Init /\ [][Next]_vars

---------------------------------------------------------------------------
TypeOK == /\ phase \in {"plain", "sealed", "done"} /\ arm \in {"ok", "same", "bad"}
          /\ result \in {"pending", "original", "reject", "different"}
          /\ Len(sched) <= MaxTamper

\* the property: never a different text
NeverDifferent == result # "different"
\* round trip: an untouched sealed value unsealed with the matching key is the original
RoundTrip == (phase = "done" /\ sched = <<>> /\ key = "right") => result = "original"
\* another key never unseals
WrongKeyRejected == (phase = "done" /\ key = "wrong") => result = "reject"
\* whatever unseals has an intact key block, intact length and intact ciphertext||tag
OriginalOnlyIfIntact ==
  (phase = "done" /\ result = "original") =>
     /\ Len(env) = Len(OrigEnv(tc)) /\ CurLen(env) = L
     /\ \A p \in 2..Len(env) : env[p] = OrigEnv(tc)[p]

Emit == (EmitOn /\ phase = "done") =>
          PrintT(ToJson([tc |-> tc, key |-> key, sched |-> sched, outcome |-> result]))
=============================================================================
