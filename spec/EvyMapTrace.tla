------------------------------ MODULE EvyMapTrace ------------------------------
(***************************************************************************)
(* Trace validation for C12 (direction B): events recorded by the verif     *)
(* hooks in mapVal.SetKey / Delete, mapRange.next, newRange, evalMapLiteral *)
(* and evalFor while real programs run.  Every event carries the map's id,  *)
(* the key, and the key order (Go slice) and key set (Go map, sorted) after *)
(* the step; the order must be the specification's at every step and the    *)
(* set must be exactly the keys of the order.                               *)
(***************************************************************************)
EXTENDS EvyMap, Json, TLC

Trace == ndJsonDeserialize("trace.ndjson")
VARIABLE l
tvars == <<mapvars, l>>

TInit == MInit /\ l = 1
Is(e) == l <= Len(Trace) /\ Trace[l].ev = e /\ l' = l + 1
Ev == Trace[l]
\* the logged order equals the model's after the step (computed from the current state: priming an
\* expression that mentions Ev would also prime l); the logged key set has the same elements
AfterSet(id, k) == IF Has(KeysOf(id), k) THEN KeysOf(id) ELSE Append(KeysOf(id), k)
AfterDel(id, k) == Without(KeysOf(id), k)
SameSet == Len(Ev.keys) = Len(Ev.order) /\ \A i \in DOMAIN Ev.order : Has(Ev.keys, Ev.order[i])
\* an id seen for the first time is a map created by a zero value, a parameter copy ... : adopt its logged state
Adopt(id) == ~Known(id) /\ maps' = Append(maps, [id |-> id, ks |-> Ev.order]) /\ UNCHANGED loops

TNext ==
  \/ Is("MapLit") /\ NewMap(Ev.map, Ev.order) /\ SameSet
  \/ Is("SetKey") /\ SameSet /\
       (IF Known(Ev.map) THEN SetKey(Ev.map, Ev.key) /\ AfterSet(Ev.map, Ev.key) = Ev.order
        ELSE Adopt(Ev.map) /\ Has(Ev.order, Ev.key))
  \/ Is("Delete") /\ SameSet /\
       (IF Known(Ev.map) THEN Delete(Ev.map, Ev.key) /\ AfterDel(Ev.map, Ev.key) = Ev.order
        ELSE Adopt(Ev.map) /\ ~Has(Ev.order, Ev.key))
  \/ Is("ForEnter") /\ ForEnter
  \/ Is("ForExit") /\ ForExit
  \/ Is("RangeStart") /\ SameSet /\
       (IF Known(Ev.map) THEN RangeStart(Ev.map) /\ KeysOf(Ev.map) = Ev.order
        ELSE /\ Len(loops) > 0 /\ loops[Len(loops)].id = ""
             /\ maps' = Append(maps, [id |-> Ev.map, ks |-> Ev.order])
             /\ loops' = [loops EXCEPT ![Len(loops)] = [id |-> Ev.map, snap |-> Ev.order, i |-> 1]])
  \/ Is("RangeNext") /\ RangeNext(Ev.map, Ev.key) /\ KeysOf(Ev.map) = Ev.order
  \/ Is("RangeEnd") /\ RangeEnd(Ev.map)
  \/ Is("Reset") /\ maps' = <<>> /\ loops' = <<>>

TraceAccepted == TLCGet("stats").diameter = Len(Trace) + 1
=============================================================================
