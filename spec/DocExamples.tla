---------------------------- MODULE DocExamples ----------------------------
(***************************************************************************)
(* The documented examples as a family: every ```evy block of               *)
(* docs/builtins.md and docs/spec.md that has an ```evy:output block is     *)
(* parsed by the real parser, its syntax tree exported in the shape of      *)
(* EvyAst.tla (harness command export-ast) and run by the abstract machine. *)
(* The check then compares three things: the output the documentation      *)
(* shows, the effects the machine produces, and what the implementation     *)
(* does.  A disagreement between machine and documentation is a defect of   *)
(* the specification (reported as a tool error, never as a violation).      *)
(* The source text travels in the case's tag field.                         *)
(* The same module runs the repository's example programs                   *)
(* (examples/human-eval/*.evy: functions with their own `test` calls) for   *)
(* C10: whole programs through the same machine, compared with evy.         *)
(***************************************************************************)
EXTENDS EvyMachine

CONSTANT MaxSteps      \* programs that need more machine steps are left unfinished (no case is printed for them)
WithinSteps == st.ns <= MaxSteps

DocCases == ndJsonDeserialize("examples.ndjson")

DocInit == LET C == DocCases
           IN \E i \in DOMAIN C :
                /\ cs = [fam |-> C[i].fam, class |-> C[i].class, prog |-> C[i].prog, inputs |-> C[i].inputs,
                         events |-> C[i].events, failFast |-> FALSE, noSummary |-> FALSE, tag |-> C[i].text]
                /\ st = Block([InitState EXCEPT !.inq = cs.inputs], cs.prog.main)
=============================================================================
