------------------------------ MODULE FamTypes ------------------------------
(***************************************************************************)
(* Family for C04: the matrix of static typing cells.  A cell is a small    *)
(* program that puts a value of some type and kind (variable, literal,      *)
(* untyped empty literal, constant expression) into a context that          *)
(* requires a type (assignment, parameter, variadic parameter, return,      *)
(* map field, inferred declaration) or applies an operator / index / slice  *)
(* / field access / type assertion / condition / range to operands of given *)
(* types.  EvyTypes decides whether the cell is accepted and what typeof     *)
(* prints; the real parser (and evaluator) must agree.                      *)
(***************************************************************************)
EXTENDS EvyTypes, Json, TLC

CONSTANT Tier

VARIABLE cell
Universe == IF Tier = "quick" THEN Types1 \cup {TArr(TArr(T_num)), TArr(TArr(T_any)), TArr(TMap(T_any)), TMap(TArr(T_any))} ELSE Types2

Pr(xs) == [k |-> "callst", x |-> [k |-> "call", f |-> "print", xs |-> xs, ty |-> T_none, cn |-> FALSE]]
TypeOf(e) == [k |-> "call", f |-> "typeof", xs |-> <<e>>, ty |-> T_str, cn |-> FALSE]
RawAsg(tg, x) == [k |-> "asg", tg |-> tg, x |-> x]
RawInfer(nm, x) == [k |-> "infer", nm |-> nm, x |-> x]
RawCall(f, xs, rt) == [k |-> "call", f |-> f, xs |-> xs, ty |-> rt, cn |-> FALSE]
RawRet(x) == [k |-> "ret", xs |-> <<x>>]
Prog(main, funcs) == [Program(main, funcs, <<>>) EXCEPT !.fl = TRUE]
GDef(t) == FuncDef("g", <<>>, <<>>, t, <<[k |-> "ret", xs |-> <<Witness(t)>>]>>)
\* the function g that "callresult" sources call
WithG(s, funcs) == IF s.nm = "callresult" THEN funcs \o <<GDef(s.ty)>> ELSE funcs

\* ---- value sources: [nm, pre, e, ty, cn]
Src(nm, pre, e, cn) == [nm |-> nm, pre |-> pre, e |-> e, ty |-> e.ty, cn |-> cn]
VarSrc(t) == Src("var", <<SDecl("v", t)>>, EVar("v", t), FALSE)
LitSrc(t) == Src("lit", <<>>, Witness(t), TRUE)
Empties == { Src("empty", <<>>, EArr(<<>>), TRUE), Src("empty", <<>>, EMap(<<>>, <<>>), TRUE),
             Src("empty", <<>>, EArr(<<EArr(<<>>)>>), TRUE), Src("empty", <<>>, EArr(<<EMap(<<>>, <<>>)>>), TRUE),
             Src("empty", <<>>, EMap(<<K_k>>, <<EArr(<<>>)>>), TRUE), Src("empty", <<>>, EMap(<<K_k>>, <<EMap(<<>>, <<>>)>>), TRUE) }
\* constant expressions built from the literal witness w of type t
ConstExprs(t) ==
  LET w == Witness(t)
  IN (IF IsArr(t) THEN { Src("concat", <<>>, EBin("+", w, w), TRUE), Src("rep", <<>>, EBin("*", w, ENum(I(2))), TRUE),
                         Src("slice", <<>>, ESlice(w, <<>>, <<ENum(I(1))>>), TRUE) } ELSE {})
     \cup (IF t = T_str THEN { Src("concat", <<>>, EBin("+", w, w), TRUE), Src("slice", <<>>, ESlice(w, <<>>, <<ENum(I(1))>>), TRUE) } ELSE {})
     \cup (IF t = T_num THEN { Src("arith", <<>>, EBin("+", w, w), TRUE), Src("neg", <<>>, EUn("-", w), TRUE) } ELSE {})
     \cup (IF t = T_bool THEN { Src("logic", <<>>, EBin("and", w, w), TRUE), Src("cmp", <<>>, EBin("<", ENum(I(1)), ENum(I(2))), TRUE) } ELSE {})
     \cup { Src("index", <<>>, EIdx(EArr(<<w>>), ENum(I(0))), TRUE), Src("dot", <<>>, EDot(EMap(<<K_k>>, <<w>>), K_k), TRUE),
            Src("group", <<>>, EGrp(w), TRUE) }
\* expressions over a variable are variables
VarExprs(t) ==
  LET v == EVar("v", t)
  IN { Src("vargroup", <<SDecl("v", t)>>, EGrp(v), FALSE) }
     \cup (IF IsArr(t) THEN { Src("varconcat", <<SDecl("v", t)>>, EBin("+", v, v), FALSE), Src("varslice", <<SDecl("v", t)>>, ESlice(v, <<>>, <<>>), FALSE) } ELSE {})

\* a literal that directly contains a composite-typed variable is not a constant (spec.md Assignability).
\* (A variable nested two literals deep, [[v]], is NOT observed: the documentation calls it a non-constant,
\* the implementation converts it element-wise; see DESIGN.md Appendix B.)
LitVar(t) == { Src("litvar", <<SDecl("v", t)>>, EArr(<<EVar("v", t)>>), FALSE),
               Src("litvar", <<SDecl("v", t)>>, EMap(<<K_k>>, <<EVar("v", t)>>), FALSE),
               Src("litvar-mixed", <<SDecl("v", t)>>, EArr(<<EVar("v", t), Witness(t)>>), FALSE),
               \* ... nor is an expression built from such a literal: concatenated on either side with a literal of
               \* constants, repeated, sliced, grouped
               Src("litvar-concat-right", <<SDecl("v", t)>>, EBin("+", Witness(TArr(t)), EArr(<<EVar("v", t)>>)), FALSE),
               Src("litvar-concat-left", <<SDecl("v", t)>>, EBin("+", EArr(<<EVar("v", t)>>), Witness(TArr(t))), FALSE),
               Src("litvar-rep", <<SDecl("v", t)>>, EBin("*", EArr(<<EVar("v", t)>>), ENum(I(2))), FALSE),
               Src("litvar-slice", <<SDecl("v", t)>>, ESlice(EArr(<<EVar("v", t)>>), <<>>, <<ENum(I(1))>>), FALSE),
               Src("litvar-group", <<SDecl("v", t)>>, EGrp(EArr(<<EVar("v", t)>>)), FALSE) }
\* a variable declared by inference from an untyped empty value is a variable of the any-based type
InferredEmptyVar ==
  { Src("infvar", <<SInfer("v", EArr(<<>>))>>, EVar("v", TArr(T_any)), FALSE),
    Src("infvar", <<SInfer("v", EMap(<<>>, <<>>))>>, EVar("v", TMap(T_any)), FALSE),
    Src("infvar-lit", <<SInfer("v", EArr(<<>>))>>, EArr(<<EVar("v", TArr(T_any))>>), FALSE),
    Src("infvar-mixed", <<SInfer("v", EArr(<<>>))>>, EArr(<<EVar("v", TArr(T_any)), EArr(<<ENum(I(1))>>)>>), FALSE),
    Src("infvar-mixed", <<SInfer("v", EMap(<<>>, <<>>))>>, EMap(<<K_k, <<106>>>>, <<EVar("v", TMap(T_any)), EMap(<<<<120>>>>, <<ENum(I(1))>>)>>), FALSE),
    Src("infvar-group", <<SInfer("v", EGrp(EArr(<<>>)))>>, EArr(<<EVar("v", TArr(T_any)), EArr(<<ENum(I(1))>>)>>), FALSE) }

\* values derived from variables are variables: element / field of a variable, a function's return value,
\* a loop variable (declared by the surrounding loop in pre/post), the result of a type assertion
Derived(t) ==
  { Src("varindex", <<SDecl("v", TArr(t))>>, EIdx(EVar("v", TArr(t)), ENum(I(0))), FALSE),
    Src("vardot", <<SDecl("v", TMap(t))>>, EDot(EVar("v", TMap(t)), K_k), FALSE),
    Src("varindex2", <<SDecl("v", TArr(TArr(t)))>>, EIdx(EIdx(EVar("v", TArr(TArr(t))), ENum(I(0))), ENum(I(0))), FALSE),
    Src("assertion", <<SDecl("v", T_any)>>, EAssert(EVar("v", T_any), t), FALSE),
    Src("callresult", <<>>, [k |-> "call", f |-> "g", xs |-> <<>>, ty |-> t, cn |-> FALSE], FALSE) }
\* the result of a BUILT-IN function is a variable like the result of any other call
BuiltinResults == { Src("builtinresult", <<>>, RawCall("split", <<EStr(<<97, 32, 98>>), EStr(<<32>>)>>, TArr(T_str)), FALSE),
                    Src("builtinresult-group", <<>>, EGrp(RawCall("split", <<EStr(<<97, 32, 98>>), EStr(<<32>>)>>, TArr(T_str))), FALSE),
                    Src("builtinresult-lit", <<>>, EArr(<<RawCall("split", <<EStr(<<97, 32, 98>>), EStr(<<32>>)>>, TArr(T_str))>>), FALSE) }

\* literals whose elements have different types or are untyped empties, in every order (strictest common type:
\* "an array composed of different types becomes an array of type any"), and concatenations of empties of different depth
MixEls == << ENum(I(1)), EStr(<<97>>), EArr(<<>>), EMap(<<>>, <<>>), EArr(<<ENum(I(1))>>), EMap(<<K_k>>, <<ENum(I(1))>>), EArr(<<EArr(<<>>)>>) >>
MixLits == { Src("mixlit", <<>>, EArr(<<MixEls[i], MixEls[j]>>), TRUE) : i \in DOMAIN MixEls, j \in DOMAIN MixEls }
           \cup { Src("mixlit", <<>>, EMap(<<K_k, <<106>>>>, <<MixEls[i], MixEls[j]>>), TRUE) : i \in DOMAIN MixEls, j \in DOMAIN MixEls }
           \cup { Src("mixlit3", <<>>, EArr(<<MixEls[i], MixEls[j], MixEls[i]>>), TRUE) : i \in 1..4, j \in 3..7 }
           \cup { Src("emptyconcat", <<>>, EBin("+", ab[1], ab[2]), TRUE) :
                    ab \in { xy \in {EArr(<<>>), EArr(<<EArr(<<>>)>>), EArr(<<EMap(<<>>, <<>>)>>), EArr(<<EArr(<<EArr(<<>>)>>)>>), EArr(<<EArr(<<ENum(I(1))>>)>>)}
                                      \X {EArr(<<>>), EArr(<<EArr(<<>>)>>), EArr(<<EArr(<<ENum(I(1))>>)>>)} : BinOpType("+", xy[1].ty, xy[2].ty).ok } }
\* a variable two or more literals deep, next to literals of constants, in both orders: the documentation does not
\* settle whether such a literal is still "a literal of constants" (Appendix B); whatever the verdict, it is a verdict
DeepV == EVar("v", TArr(T_num))
DeepLits == { Src("deeplitvar", <<SInfer("v", EArr(<<ENum(I(1))>>))>>, e, FALSE) :
                e \in { EArr(<<EArr(<<EArr(<<ENum(I(2))>>)>>), EArr(<<DeepV>>)>>), EArr(<<EArr(<<DeepV>>), EArr(<<EArr(<<ENum(I(2))>>)>>)>>),
                        EArr(<<EArr(<<DeepV>>)>>), EArr(<<EArr(<<EArr(<<DeepV>>)>>), EArr(<<EArr(<<EArr(<<ENum(I(2))>>)>>)>>)>>),
                        EMap(<<K_k, <<106>>>>, <<EArr(<<EArr(<<ENum(I(2))>>)>>), EArr(<<DeepV>>)>>), EMap(<<K_k, <<106>>>>, <<EArr(<<DeepV>>), EArr(<<EArr(<<ENum(I(2))>>)>>)>>),
                        EArr(<<EArr(<<EArr(<<ENum(I(2))>>)>>), EArr(<<DeepV>>), EArr(<<EArr(<<>>)>>)>>), EArr(<<EArr(<<>>), EArr(<<DeepV>>)>>), EArr(<<EArr(<<EArr(<<>>)>>), EArr(<<DeepV>>)>>),
                        EBin("+", EArr(<<EArr(<<EArr(<<ENum(I(2))>>)>>)>>), EArr(<<EArr(<<DeepV>>)>>)) } }
DeepTargets == {TArr(TArr(TArr(T_any))), TArr(TArr(TArr(T_num))), TArr(TArr(T_any)), TArr(T_any), T_any, TMap(TArr(TArr(T_any))), TMap(T_any)}

MixTargets == {TArr(T_num), TArr(T_any), TArr(T_str), TArr(TArr(T_num)), TArr(TArr(T_any)), TMap(T_num), TMap(T_any), T_any}

Sources == BuiltinResults \cup UNION {LitVar(t) : t \in {TArr(T_num), TMap(T_num), TArr(T_any), TArr(TArr(T_num))}} \cup InferredEmptyVar
           \cup UNION {Derived(t) : t \in {T_num, TArr(T_num), TMap(T_num), TArr(T_str)}}
           \cup {VarSrc(t) : t \in Universe} \cup {LitSrc(t) : t \in Universe \ {T_any}} \cup Empties
           \cup UNION {ConstExprs(t) : t \in (Types1 \ {T_any}) \cup {TArr(TArr(T_num))}}
           \cup UNION {VarExprs(t) : t \in {T_num, TArr(T_num), TArr(T_any), TMap(T_num)}}

\* ---- contexts that require a type t
X(t) == EVar("x", t)
Cell(ctx, cls, prog, ok, out) == [ctx |-> ctx, class |-> cls, prog |-> prog, accept |-> ok, out |-> [i \in DOMAIN out |-> [cp |-> out[i]]]]
\* what typeof reports for a value of static type ty stored in an any: its dynamic type
\* (the zero value of an any variable holds false)
DynOf(ty) == IF Inferred(ty) = T_any THEN T_bool ELSE Inferred(ty)
Shown(t, ty) == IF t = T_any THEN DynOf(ty) ELSE t
Line(cp) == cp \o <<10>>

AssignCell(t, s) == Cell("assign", s.nm, Prog(<<SDecl("x", t)>> \o s.pre \o <<RawAsg(X(t), s.e), Pr(<<TypeOf(X(t))>>)>>, WithG(s, <<>>)),
                         Accepts(t, s.ty, s.cn), <<Line(TypeCps(Shown(t, s.ty)))>>)
FieldCell(t, s) == Cell("field", s.nm, Prog(<<SDecl("m", TMap(t))>> \o s.pre \o <<RawAsg(EDot(EVar("m", TMap(t)), K_k), s.e), Pr(<<TypeOf(EDot(EVar("m", TMap(t)), K_k))>>)>>, WithG(s, <<>>)),
                        Accepts(t, s.ty, s.cn), <<Line(TypeCps(Shown(t, s.ty)))>>)
ParamCell(t, s) == Cell("param", s.nm,
                        Prog(s.pre \o <<[k |-> "callst", x |-> RawCall("f", <<s.e>>, T_none)]>>,
                             WithG(s, <<FuncDef("f", <<Param("p", t)>>, <<>>, T_none, <<Pr(<<TypeOf(EVar("p", t))>>)>>)>>)),
                        Accepts(t, s.ty, s.cn), <<Line(TypeCps(Shown(t, s.ty)))>>)
VariadicCell(t, s) == Cell("variadic", s.nm,
                           Prog(s.pre \o <<[k |-> "callst", x |-> RawCall("f", <<s.e, s.e>>, T_none)]>>,
                                WithG(s, <<FuncDef("f", <<>>, <<Param("ps", t)>>, T_none, <<Pr(<<TypeOf(EVar("ps", TArr(t)))>>)>>)>>)),
                           Accepts(t, s.ty, s.cn), <<Line(TypeCps(TArr(t)))>>)
ReturnCell(t, s) == Cell("return", s.nm,
                         Prog(s.pre \o <<Pr(<<TypeOf(RawCall("f", <<>>, t))>>)>>,
                              WithG(s, <<FuncDef("f", <<>>, <<>>, t, <<RawRet(s.e)>>)>>)),
                         Accepts(t, s.ty, s.cn), <<Line(TypeCps(Shown(t, s.ty)))>>)
InferCell(s) == Cell("infer", s.nm, Prog(s.pre \o <<RawInfer("x", s.e), Pr(<<TypeOf(X(Inferred(s.ty)))>>)>>, WithG(s, <<>>)),
                     TRUE, <<Line(TypeCps(Shown(Inferred(s.ty), s.ty)))>>)

\* the loop variable of a range over a constant array (a literal, a concatenation, a repetition, a slice of literals)
\* is a variable: assignable to an identical type or to any only
LoopLits == { EArr(<<EArr(<<ENum(I(1)), ENum(I(2))>>), EArr(<<ENum(I(3))>>)>>), EBin("*", EArr(<<EArr(<<ENum(I(1))>>)>>), ENum(I(2))),
              ESlice(EArr(<<EArr(<<ENum(I(1)), ENum(I(2))>>)>>), <<>>, <<>>), EBin("+", EArr(<<EArr(<<ENum(I(1))>>)>>), EArr(<<EArr(<<ENum(I(2))>>)>>)),
              EArr(<<EMap(<<K_k>>, <<ENum(I(1))>>)>>), EArr(<<EArr(<<EStr(<<97>>)>>)>>) }
LoopVarCell(t, lit) ==
  LET et == Tail(lit.ty)
  IN Cell("loopvar", "loopvar", Prog(<<SDecl("x", t), SFor("v", "arr", <<lit>>, <<RawAsg(X(t), EVar("v", et))>>), Pr(<<TypeOf(X(t))>>)>>, <<>>),
          Accepts(t, et, FALSE), IF Accepts(t, et, FALSE) THEN <<Line(TypeCps(Shown(t, et)))>> ELSE <<>>)
LoopVarMix(lit) == Cell("loopvar", "loopvar-mix", Prog(<<SFor("v", "arr", <<lit>>, <<RawInfer("x", EArr(<<EVar("v", Tail(lit.ty)), EArr(<<EStr(<<122>>)>>)>>)), Pr(<<TypeOf(X(TArr(T_any)))>>)>>)>>, <<>>), TRUE, <<>>)

\* quick tier: every source against every target in the assignment context; the other contexts on fewer targets
Universe2 == IF Tier = "quick" THEN {T_num, T_any, TArr(T_num), TArr(T_any), TMap(T_any), TArr(TArr(T_any))} ELSE Universe
ContextCells == UNION {{AssignCell(t, s)} : t \in Universe, s \in Sources}
                \cup UNION {{FieldCell(t, s), ParamCell(t, s), VariadicCell(t, s), ReturnCell(t, s)} : t \in Universe2, s \in Sources}
                \cup {InferCell(s) : s \in Sources}
                \cup {InferCell(s) : s \in MixLits} \cup {AssignCell(t, s) : t \in MixTargets, s \in MixLits}
                \cup {LoopVarCell(t, l) : t \in {TArr(T_num), TArr(T_any), T_any, TMap(T_num), TMap(T_any), TArr(T_str)}, l \in LoopLits}
                \cup {InferCell(s) : s \in DeepLits} \cup {AssignCell(t, s) : t \in DeepTargets, s \in DeepLits}
                \cup {ParamCell(t, s) : t \in DeepTargets, s \in DeepLits} \cup {ReturnCell(t, s) : t \in DeepTargets, s \in DeepLits}

\* ---- operators, index, slice, field, assertion, condition, range on variables of given types
OpTypes == Types1 \cup {TArr(TArr(T_num))}
A(t) == EVar("a", t)
B(t) == EVar("b", t)
RawBin(op, l, r) == [k |-> "bin", op |-> op, l |-> l, r |-> r, ty |-> T_none, cn |-> FALSE]
AllOps == {"+", "-", "*", "/", "%", "<", "<=", ">", ">=", "==", "!=", "and", "or"}
BinCell(op, l, r) ==
  LET res == BinOpType(op, l, r)
  IN Cell("binary", op, Prog(<<SDecl("a", l), SDecl("b", r), RawInfer("x", RawBin(op, A(l), B(r))), Pr(<<TypeOf(X(res.ty))>>)>>, <<>>),
          res.ok, <<Line(TypeCps(res.ty))>>)
\* one operand an untyped empty literal
EmptyBinCell(op, l, left) ==
  LET e == IF IsMap(l) THEN EMap(<<>>, <<>>) ELSE EArr(<<>>)
      res == IF left THEN BinOpType(op, e.ty, l) ELSE BinOpType(op, l, e.ty)
  IN Cell("binary-empty", op, Prog(<<SDecl("a", l), RawInfer("x", IF left THEN RawBin(op, e, A(l)) ELSE RawBin(op, A(l), e)), Pr(<<TypeOf(X(Inferred(res.ty)))>>)>>, <<>>),
          res.ok, <<Line(TypeCps(Inferred(res.ty)))>>)
UnCell(op, t) == Cell("unary", op, Prog(<<SDecl("a", t), RawInfer("x", [k |-> "un", op |-> op, x |-> A(t), ty |-> t, cn |-> FALSE]), Pr(<<TypeOf(X(UnOpType(op, t).ty))>>)>>, <<>>),
                      UnOpType(op, t).ok, <<Line(TypeCps(UnOpType(op, t).ty))>>)
IdxCell(v, i) == LET r == IndexType(v, i)
                 IN Cell("index", "idx", Prog(<<SDecl("a", v), SDecl("b", i), Pr(<<TypeOf([k |-> "idx", x |-> A(v), i |-> B(i), ty |-> r.ty, cn |-> FALSE])>>)>>, <<>>),
                         r.ok, <<>>)
SliceCell(v, i, j) == Cell("slice", "slice", Prog(<<SDecl("a", v), SDecl("b", i), SDecl("c", j),
                                 RawInfer("x", [k |-> "slice", x |-> A(v), lo |-> <<B(i)>>, hi |-> <<EVar("c", j)>>, ty |-> v, cn |-> FALSE]), Pr(<<TypeOf(X(v))>>)>>, <<>>),
                           SliceType(v, i, j).ok, <<Line(TypeCps(v))>>)
DotCell(v) == Cell("dot", "dot", Prog(<<SDecl("a", v), Pr(<<TypeOf([k |-> "dot", x |-> A(v), key |-> K_k, ty |-> T_none, cn |-> FALSE])>>)>>, <<>>), DotType(v).ok, <<>>)
AssertCell(v, t) == Cell("assert", "assert", Prog(<<SDecl("a", v), RawInfer("x", [k |-> "assert", x |-> A(v), ty |-> t, cn |-> FALSE]), Pr(<<TypeOf(X(t))>>)>>, <<>>),
                         AssertType(v, t).ok, <<>>)
CondCell(t, wh) == Cell("cond", IF wh THEN "while" ELSE "if",
                        Prog(<<SDecl("a", t), IF wh THEN [k |-> "while", c |-> A(t), ss |-> <<SBrk>>] ELSE SIf(<<A(t)>>, <<<<Pr(<<ENum(I(1))>>)>>>>, <<>>)>>, <<>>),
                        CondOK(t), <<>>)
RangeCell(ts) == Cell("range", "range",
                      Prog([i \in DOMAIN ts |-> SDecl(<<"a", "b", "c">>[i], ts[i])]
                           \o <<SFor("", IF Len(ts) > 1 \/ ts[1] = T_num THEN "num" ELSE "arr", [i \in DOMAIN ts |-> EVar(<<"a", "b", "c">>[i], ts[i])], <<SBrk>>)>>, <<>>),
                      RangeOK(ts), <<>>)

OpCells == {BinCell(op, l, r) : op \in AllOps, l \in OpTypes, r \in OpTypes}
           \cup {EmptyBinCell(op, l, lf) : op \in {"+", "==", "!=", "*", "<"}, l \in {T_num, TArr(T_num), TArr(T_any), TMap(T_num), T_str}, lf \in BOOLEAN}
           \cup {UnCell(op, t) : op \in {"-", "!"}, t \in OpTypes}
           \cup {IdxCell(v, i) : v \in OpTypes, i \in Base}
           \cup {SliceCell(v, i, j) : v \in OpTypes, i \in {T_num, T_str, T_any}, j \in {T_num, T_bool}}
           \cup {DotCell(v) : v \in OpTypes}
           \cup {AssertCell(v, t) : v \in {T_any, T_num, TArr(T_any), TMap(T_any), T_str}, t \in Universe}
           \cup {CondCell(t, wh) : t \in OpTypes, wh \in BOOLEAN}
           \cup {RangeCell(<<t>>) : t \in OpTypes} \cup {RangeCell(<<t, u>>) : t \in Base, u \in Base}
           \cup {RangeCell(<<T_num, T_num, t>>) : t \in Base}

Cells == ContextCells \cup OpCells

Init == cell \in Cells
Next == FALSE /\ UNCHANGED cell
Emit == PrintT(ToJson([ctx |-> cell.ctx, class |-> cell.class, accept |-> cell.accept, out |-> cell.out,
                          srcs |-> [canon |-> RProg(cell.prog, "canon")]]))

\* in-model sanity: the relation has the properties spec.md states
RelationOK == AcceptsReflexive /\ AnyAcceptsAll /\ VariablesAreStrict /\ NoAnyArrayFromVariable /\ WitnessTyped
              /\ CombineCommutes /\ CombineAssoc /\ MatchesSymmetric
=============================================================================
