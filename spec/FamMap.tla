------------------------------- MODULE FamMap -------------------------------
(***************************************************************************)
(* Family for C12: histories of map operations over the keys a b c (d),     *)
(* on one map reached through two names (m and its alias n), including      *)
(* loops that iterate over the map while their body changes it.  After      *)
(* every operation the map, its length and has for every key are printed.   *)
(* A history is addressed by a number (mixed-radix digits = operations), so *)
(* the check can ask for all histories up to a length and for a seed-chosen *)
(* sample of longer ones (constant Sample).                                 *)
(***************************************************************************)
EXTENDS EvyMachine

CONSTANTS Tier,
          ExhLen,       \* all histories up to this length
          Sample        \* set of numbers len * 200000000 + h: additional longer histories

TM == TMap(T_num)
M == EVar("m", TM)
N == EVar("n", TM)
KV == EVar("k", T_str)
Key(c) == <<c>>
Pr(xs) == SCall(ECallB("print", xs))
Has(c) == ECallB("has", <<M, EStr(Key(c))>>)
Obs == Pr(<<M, ECallB("len", <<N>>), Has(97), Has(98), Has(99), Has(100)>>)
Set(v, c, val) == IF v = "m" THEN SAsg(EDot(M, Key(c)), ENum(I(val)))
                  ELSE SAsg(EIdx(N, EStr(Key(c))), ENum(I(val)))
Del(v, c) == SCall(ECallB("del", <<IF v = "m" THEN M ELSE N, EStr(Key(c))>>))
Get(c) == Pr(<<EDot(M, Key(c))>>)
GetI(c) == Pr(<<EIdx(N, EStr(Key(c)))>>)
Loop(body) == SFor("k", "map", <<M>>, <<Pr(<<EStr(<<107>>), KV>>)>> \o body)

\* the operations; j = position in the history (makes stored values distinct)
Ops(j) == <<
  <<Set("m", 97, 10 * j)>>, <<Set("m", 98, 10 * j + 1)>>, <<Set("m", 99, 10 * j + 2)>>,
  <<Set("n", 97, 10 * j + 3)>>, <<Set("n", 98, 10 * j + 4)>>, <<Set("n", 100, 10 * j + 5)>>,
  <<Del("m", 97)>>, <<Del("m", 98)>>, <<Del("m", 99)>>,
  <<Del("n", 97)>>, <<Del("n", 98)>>, <<Del("n", 100)>>,
  <<Get(97)>>, <<Get(98)>>, <<GetI(99)>>,
  <<Loop(<<SCall(ECallB("del", <<M, KV>>))>>)>>,                          \* delete the key under the iterator
  <<Loop(<<Del("m", 99)>>)>>,                                             \* delete a fixed (later / earlier) key
  <<Loop(<<Del("n", 97)>>)>>,
  <<Loop(<<Set("m", 100, 10 * j + 6)>>)>>,                                \* add a key while iterating
  <<Loop(<<Set("n", 97, 10 * j + 7)>>)>>,                                 \* overwrite while iterating
  <<Loop(<<SCall(ECallB("del", <<M, KV>>)), SAsg(EIdx(M, KV), ENum(I(10 * j + 8)))>>)>>,  \* delete and re-insert current
  <<Loop(<<Del("n", 98), Set("n", 98, 10 * j + 9)>>)>>,                   \* delete and re-insert a fixed key
  <<Loop(<<SIf(<<EBin("==", KV, EStr(Key(98)))>>, <<<<SBrk>>>>, <<>>)>>)>>,                \* leave the loop early
  <<Loop(<<Del("m", 99), Set("n", 100, 10 * j + 1)>>)>>,                                    \* delete a later key and add a new one
  <<Loop(<<Del("n", 98), Del("m", 99), Set("m", 100, 10 * j + 2), Set("n", 101, 10 * j + 3)>>)>>,  \* two out, two in
  <<Loop(<<SCall(ECallB("del", <<M, KV>>)), Set("m", 100, 10 * j + 4)>>)>>                 \* drain while refilling
>>
NOps == 26

Inits == << <<SDecl("m", TM)>>,
            <<SInfer("m", EMap(<<Key(97), Key(98)>>, <<ENum(I(1)), ENum(I(2))>>))>>,
            <<SInfer("m", EMap(<<Key(98), Key(99), Key(97)>>, <<ENum(I(2)), ENum(I(3)), ENum(I(1))>>))>> >>

RECURSIVE HistStmts(_, _, _)
\* statements of the history number h (digits base NOps) of length len, from position j
HistStmts(h, len, j) == IF j > len THEN <<>>
                        ELSE Ops(j)[(h % NOps) + 1] \o <<Obs>> \o HistStmts(h \div NOps, len, j + 1)

Prog(init, len, h) == Program(Inits[init] \o <<SInfer("n", M), Obs>> \o HistStmts(h, len, 1), <<>>, <<>>)

\* the same literal evaluated several times (loop body, function body) gives independent maps
LitKeys(n) == SubSeq(<<Key(97), Key(98), Key(99), Key(100), Key(101), Key(102)>>, 1, n)
LitN(n) == EMap(LitKeys(n), [i \in 1..n |-> ENum(I(i))])
TV == EVar("t", TM)
LitTwiceLoop(n, op) ==
  Program(<<SFor("i", "num", <<ENum(I(3))>>, <<SInfer("t", LitN(n))>> \o op \o <<Pr(<<EVar("i", T_num), TV, ECallB("len", <<TV>>), ECallB("has", <<TV, EStr(Key(97))>>), EBin("==", TV, LitN(n))>>)>>)>>, <<>>, <<>>)
LitTwiceFunc(n, op) ==
  LET mk == FuncDef("mk", <<>>, <<>>, TM, <<SInfer("t", LitN(n))>> \o op \o <<SRetV(TV, TM)>>)
      sg == FSig(mk)
  IN [Program(<<SInfer("p", ECallU("mk", sg, <<>>)), SInfer("q", ECallU("mk", sg, <<>>)), SAsg(EDot(EVar("p", TM), Key(122)), ENum(I(9))),
                SInfer("r", ECallU("mk", sg, <<>>)), Pr(<<EVar("p", TM), EVar("q", TM), EVar("r", TM)>>)>>, <<mk>>, <<>>) EXCEPT !.fl = TRUE]
LitOps == { <<SCall(ECallB("del", <<TV, EStr(Key(97))>>))>>, <<SCall(ECallB("del", <<TV, EStr(Key(98))>>))>>,
            <<SAsg(EDot(TV, Key(120)), ENum(I(7)))>>, <<SAsg(EDot(TV, Key(120)), ENum(I(7))), SCall(ECallB("del", <<TV, EStr(Key(98))>>))>>, <<>> }
LitTwice == UNION {{LitTwiceLoop(n, op), LitTwiceFunc(n, op)} : n \in {2, 3, 5, 6}, op \in LitOps}

\* equality ignores order and compares values deeply: every pair of maps over the keys a b c built by insertion in
\* every order (one side by a literal in sorted order or by assignments, the other by assignments in any order,
\* optionally after deleting and re-inserting its first key), compared directly, nested in arrays and in maps
Ks3 == {Key(97), Key(98), Key(99)}
RECURSIVE SeqsOf(_)
\* all sequences without repetition over the set S
SeqsOf(S) == {<<>>} \cup UNION {{<<x>> \o t : t \in SeqsOf(S \ {x})} : x \in S}
ValOf(k, w) == IF w = 0 THEN 1 ELSE IF k = Key(w + 96) THEN 2 ELSE 1      \* w = 0: all values 1; w = 1..3: that key holds 2
P_ == EVar("p", TM)
Q_ == EVar("q", TM)
Build(v, ks, w) == <<SDecl(v.nm, TM)>> \o [i \in DOMAIN ks |-> SAsg(EIdx(v, EStr(ks[i])), ENum(I(ValOf(ks[i], w))))]
Reinsert(v, ks, w) == IF Len(ks) = 0 THEN <<>> ELSE <<SCall(ECallB("del", <<v, EStr(ks[1])>>)), SAsg(EDot(v, ks[1]), ENum(I(ValOf(ks[1], w))))>>
EqObs == Pr(<<EBin("==", P_, Q_), EBin("!=", P_, Q_), EBin("==", Q_, P_), EBin("==", EArr(<<P_>>), EArr(<<Q_>>)),
              EBin("==", EMap(<<Key(120)>>, <<P_>>), EMap(<<Key(120)>>, <<Q_>>)), EBin("!=", EArr(<<Q_, P_>>), EArr(<<P_, Q_>>)), P_, Q_>>)
SortedSeqs == {<<>>, <<Key(97)>>, <<Key(97), Key(98)>>, <<Key(97), Key(99)>>, <<Key(98), Key(99)>>, <<Key(97), Key(98), Key(99)>>}
EqProg(ks1, w1, ks2, w2, re) ==
  Program((IF w1 = 0 /\ Len(ks1) > 0 THEN <<SInfer("p", EMap(ks1, [i \in DOMAIN ks1 |-> ENum(I(1))]))>> ELSE Build(P_, ks1, w1))
          \o Build(Q_, ks2, w2) \o (IF re THEN Reinsert(Q_, ks2, w2) ELSE <<>>) \o <<EqObs>>, <<>>, <<>>)
EqProgs == {EqProg(ks1, w1, ks2, w2, re) : ks1 \in SortedSeqs, w1 \in {0, 2}, ks2 \in SeqsOf(Ks3), w2 \in {0, 2, 3}, re \in BOOLEAN}

\* a range over a map in a function that calls itself from the loop body (iterations left after the call returns),
\* the inner activation changing the map: every activation visits the keys the map had when IT started that are
\* still present
RecSig == Sig(<<T_num>>, <<>>, T_none)
DV == EVar("d", T_num)
RecProg(initKeys, innerOps) ==
  [Program(<<SInfer("m", EMap(initKeys, [i \in DOMAIN initKeys |-> ENum(I(i))])), SCall(ECallU("walk", RecSig, <<ENum(I(0))>>)), Obs>>,
           <<FuncDef("walk", <<Param("d", T_num)>>, <<>>, T_none,
                     <<SFor("k", "map", <<M>>,
                            <<Pr(<<DV, KV, ECallB("len", <<M>>)>>),
                              SIf(<<EBin("<", DV, ENum(I(2)))>>, << innerOps \o <<SCall(ECallU("walk", RecSig, <<EBin("+", DV, ENum(I(1)))>>))>> >>, <<>>)>>)>>)>>, <<>>) EXCEPT !.fl = TRUE]
RecProgs == { RecProg(ks, ops) : ks \in { <<Key(97), Key(98), Key(99)>>, <<Key(97), Key(98), Key(99), Key(100)>> },
                                  ops \in { <<>>, <<SIf(<<EBin("==", KV, EStr(Key(97)))>>, << <<SCall(ECallB("del", <<M, EStr(Key(98))>>))>> >>, <<>>)>>,
                                            <<SCall(ECallB("del", <<M, KV>>))>>,
                                            <<SIf(<<EBin("==", DV, ENum(I(0)))>>, << <<SAsg(EDot(M, Key(122)), ENum(I(26)))>> >>, <<>>)>>,
                                            <<SCall(ECallB("del", <<M, KV>>)), SAsg(EIdx(M, KV), ENum(I(5)))>> } }

\* the same map reachable twice from one printed value (no cycle): printing, repr, iteration and has agree everywhere
SharedProgs ==
  LET TMM == TMap(TMap(T_num))
      inner == EVar("inner", TM)   outer == EVar("outer", TMM)   lst == EVar("lst", TArr(TM))   deep == EVar("deep", TMap(TMM))
  IN { Program(<<SInfer("inner", EMap(<<Key(97), Key(98)>>, <<ENum(I(1)), ENum(I(2))>>)),
                 SInfer("outer", EMap(<<<<108>>, <<114>>>>, <<inner, inner>>)), SInfer("lst", EArr(<<inner, inner, inner>>)),
                 SInfer("deep", EMap(<<<<120>>, <<121>>>>, <<outer, outer>>)),
                 Pr(<<outer>>), Pr(<<lst>>), Pr(<<deep>>), Pr(<<ECallB("repr", <<outer>>), ECallB("sprint", <<lst>>)>>), Pr(<<inner, inner>>),
                 SFor("k", "map", <<outer>>, <<Pr(<<KV, EIdx(outer, KV), ECallB("len", <<EIdx(outer, KV)>>), ECallB("has", <<EIdx(outer, KV), EStr(Key(98))>>)>>)>>),
                 SCall(ECallB("del", <<inner, EStr(Key(97))>>)), SAsg(EDot(inner, Key(99)), ENum(I(3))), Pr(<<outer, lst>>), Pr(<<deep>>),
                 Pr(<<EBin("==", EDot(outer, <<108>>), EDot(outer, <<114>>)), EBin("==", outer, EMap(<<<<114>>, <<108>>>>, <<inner, inner>>))>>)>>, <<>>, <<>>) }

Exh == UNION {{<<len, h>> : h \in 0..(NOps ^ len - 1)} : len \in 1..ExhLen}
Smp == {<<c \div 200000000, c % 200000000>> : c \in Sample}
FamCases == {MkCase("FamMap", "hist", Prog(init, p[1], p[2])) : init \in 1..3, p \in Exh \cup Smp}
            \cup {MkCase("FamMap", "literal-twice", p) : p \in LitTwice}
            \cup {MkCase("FamMap", "equality", p) : p \in EqProgs} \cup {MkCase("FamMap", "shared", p) : p \in SharedProgs}
            \cup {MkCase("FamMap", "recursion", [p EXCEPT !.main = <<SInfer("m", p.main[1].x), SInfer("n", M)>> \o Tail(p.main)]) : p \in RecProgs}
FamInit == InitWith(FamCases)
=============================================================================
