CONSTANTS
  Tier = "@TIER@"
INIT Init
NEXT Next
INVARIANT RelationOK
CONSTRAINT Emit
CHECK_DEADLOCK FALSE
