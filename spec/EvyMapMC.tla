------------------------------- MODULE EvyMapMC -------------------------------
(* Exhaustive exploration of EvyMap for small constants: 2 maps, keys a b c,  *)
(* nested loops to depth 2, histories bounded by MaxOps; checks MapsWF,       *)
(* LoopsWF and the iteration laws: a key added during the loop is never       *)
(* visited, a visited key was present at loop entry and is present now.       *)
EXTENDS EvyMap, TLC
CONSTANTS MaxOps
VARIABLES n, visited
Ids == {"m1", "m2"}
Keys == {"a", "b", "c"}
Init == MInit /\ n = 0 /\ visited = <<>>
Step(A) == n < MaxOps /\ A /\ n' = n + 1
Next ==
  \/ \E id \in Ids, ks \in {<<>>, <<"a">>, <<"b", "a">>} : Step(NewMap(id, ks)) /\ UNCHANGED visited
  \/ \E id \in Ids, k \in Keys : Step(SetKey(id, k)) /\ UNCHANGED visited
  \/ \E id \in Ids, k \in Keys : Step(Delete(id, k)) /\ UNCHANGED visited
  \/ Len(loops) < 2 /\ Step(ForEnter) /\ UNCHANGED visited
  \/ \E id \in Ids : Step(RangeStart(id)) /\ UNCHANGED visited
  \/ \E id \in Ids, k \in Keys : Step(RangeNext(id, k)) /\ visited' = Append(visited, <<Len(loops), id, k>>)
  \/ \E id \in Ids : Step(RangeEnd(id)) /\ UNCHANGED visited
  \/ Step(ForExit) /\ UNCHANGED visited
\* a key handed out by RangeNext is in the snapshot and still in the map
VisitLaw == [][\A id \in Ids, k \in Keys : RangeNext(id, k) => (Has(loops[Len(loops)].snap, k) /\ Has(KeysOf(id), k))]_<<mapvars, n, visited>>
\* within one loop no key is visited twice (positions only move forward)
NoRevisit == \A l \in DOMAIN loops : loops[l].id # "" => loops[l].i >= 1
=============================================================================
