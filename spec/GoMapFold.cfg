CONSTANT Site = "@SITE@"
INIT Init
NEXT Next
INVARIANT OrderIndependent
CHECK_DEADLOCK FALSE
