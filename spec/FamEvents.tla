------------------------------ MODULE FamEvents ------------------------------
(***************************************************************************)
(* Family for C15: event handlers.  Programs with every subset of the       *)
(* handlers key / down / animate / input (+ up, move in some), each in the  *)
(* signatures the language allows (all parameters, none, `_`), whose bodies *)
(* update shared globals, declare locals (also with the names of globals)   *)
(* and print; all event sequences up to a length bound.  Every case has a   *)
(* twin in which the handlers are ordinary procedures called in the same    *)
(* order: the cumulative effects must be the same.                          *)
(***************************************************************************)
EXTENDS EvyMachine

CONSTANTS Tier, MaxEvents

Num(n) == ENum(I(n))
Pr(xs) == SCall(ECallB("print", xs))
Cnt == EVar("count", T_num)
Last == EVar("last", T_str)
S(cp) == EStr(cp)
GX == EVar("x", T_num)

\* handler bodies, parameterised by the parameter list (so that `_` and omitted parameters are covered)
KeyBody(named) == <<SAsg(Cnt, EBin("+", Cnt, Num(1)))>>
                  \o (IF named THEN <<SAsg(Last, EVar("k", T_str))>> ELSE <<>>)
                  \o <<SInfer("tmp", EBin("*", Cnt, Num(10))), Pr(<<S(<<107>>), Cnt, EVar("tmp", T_num), Last>>)>>
DownBody(hx, hy) == <<SAsg(Cnt, EBin("+", Cnt, Num(100)))>>
                    \o <<Pr(<<S(<<100>>)>> \o (IF hx THEN <<EVar("x", T_num)>> ELSE <<>>) \o (IF hy THEN <<EVar("y", T_num)>> ELSE <<>>) \o <<Cnt>>)>>
AnimBody(named) == <<SAsg(Cnt, EBin("+", Cnt, Num(1000))), SInfer("last", S(<<115, 104>>)),      \* local that shadows the global
                     Pr(<<S(<<97>>), Cnt, Last>> \o (IF named THEN <<EVar("n", T_num)>> ELSE <<>>))>>
InputBody(hid) == <<SAsg(Last, EBin("+", Last, EVar("val", T_str))),
                    Pr(<<S(<<105>>)>> \o (IF hid THEN <<EVar("id", T_str)>> ELSE <<>>) \o <<EVar("val", T_str), Last>>)>>
UpBody == <<SInfer("tmp", S(<<117>>)), Pr(<<EVar("tmp", T_str), Cnt>>), SIf(<<EBin(">", Cnt, Num(150))>>, <<<<SRet(<<>>)>>>>, <<>>), Pr(<<Num(9)>>)>>

PS(n, t) == Param(n, t)
Hs == [ key1 |-> Handler("key", <<PS("k", T_str)>>, KeyBody(TRUE)),
        key0 |-> Handler("key", <<>>, KeyBody(FALSE)),
        down2 |-> Handler("down", <<PS("x", T_num), PS("y", T_num)>>, DownBody(TRUE, TRUE)),
        downx |-> Handler("down", <<PS("x", T_num), PS("_", T_num)>>, DownBody(TRUE, FALSE)),
        downy |-> Handler("down", <<PS("_", T_num), PS("y", T_num)>>, DownBody(FALSE, TRUE)),
        down0 |-> Handler("down", <<>>, DownBody(FALSE, FALSE)),
        anim1 |-> Handler("animate", <<PS("n", T_num)>>, AnimBody(TRUE)),
        anim0 |-> Handler("animate", <<>>, AnimBody(FALSE)),
        input2 |-> Handler("input", <<PS("id", T_str), PS("val", T_str)>>, InputBody(TRUE)),
        inputv |-> Handler("input", <<PS("_", T_str), PS("val", T_str)>>, InputBody(FALSE)),
        up0 |-> Handler("up", <<>>, UpBody),
        \* handlers without parameters whose bodies use GLOBALS that have the names the events' payloads have in the
        \* documentation (x y n s id val): they ignore the payload, so these are the globals
        downg |-> Handler("down", <<>>, <<SAsg(GX, EBin("+", GX, Num(1))), Pr(<<S(<<100>>), GX, EVar("y", T_num)>>)>>),
        animg |-> Handler("animate", <<>>, <<SAsg(EVar("n", T_num), EBin("+", EVar("n", T_num), Num(1))), Pr(<<S(<<97>>), EVar("n", T_num)>>)>>),
        keyg |-> Handler("key", <<>>, <<SAsg(EVar("s", T_str), EBin("+", EVar("s", T_str), S(<<33>>))), Pr(<<S(<<107>>), EVar("s", T_str)>>)>>),
        inputg |-> Handler("input", <<>>, <<Pr(<<S(<<105>>), EVar("id", T_str), EVar("val", T_str)>>), SAsg(EVar("val", T_str), S(<<119>>))>>),
        moveg |-> Handler("move", <<PS("_", T_num), PS("y", T_num)>>, <<Pr(<<S(<<109>>), GX, EVar("y", T_num)>>)>>),
        \* err and errmsg are globals like any other: what earlier code left in them is what a handler reads
        keyerr |-> Handler("key", <<PS("k", T_str)>>, <<SInfer("nn", ECallB("str2num", <<EVar("k", T_str)>>)), Pr(<<EVar("nn", T_num), EVar("err", T_bool)>>)>>),
        uperr |-> Handler("up", <<>>, <<Pr(<<S(<<117>>), EVar("err", T_bool), EVar("errmsg", T_str)>>)>>),
        downerr |-> Handler("down", <<>>, <<Pr(<<S(<<100>>), EVar("err", T_bool)>>), SAsg(EVar("err", T_bool), EBool(TRUE)), SAsg(EVar("errmsg", T_str), S(<<111, 119, 110>>))>>) ]

HandlerSets == << <<"downg", "animg", "keyg", "inputg", "moveg">>, <<"keyerr", "uperr", "downerr">>, <<"key1", "down2", "anim1", "input2">>, <<"key0", "downx", "anim0">>, <<"downy", "inputv", "up0">>,
                  <<"key1">>, <<"down0", "up0">>, <<"anim1", "key0", "down2", "input2", "up0">>, <<>> >>

Main == <<SInfer("count", Num(0)), SInfer("last", S(<<45>>)), Pr(<<S(<<109>>), Cnt, Last>>),
          SInfer("x", Num(100)), SInfer("y", Num(200)), SInfer("n", Num(300)), SInfer("s", S(<<103>>)), SInfer("id", S(<<71>>)), SInfer("val", S(<<86>>)),
          Pr(<<GX, EVar("y", T_num), EVar("n", T_num), EVar("s", T_str), EVar("id", T_str), EVar("val", T_str)>>)>>

Events == << [ev |-> "key", args |-> <<VStr(<<97>>)>>], [ev |-> "key", args |-> <<VStr(<<228, 8364>>)>>],
             [ev |-> "down", args |-> <<I(1), Fin(5, 1)>>], [ev |-> "up", args |-> <<I(3), I(4)>>],
             [ev |-> "animate", args |-> <<I(16)>>], [ev |-> "input", args |-> <<VStr(<<115, 49>>), VStr(<<118>>)>>],
             [ev |-> "move", args |-> <<I(7), I(8)>>],
             \* payloads that look like quoted literals are strings like any other
             [ev |-> "key", args |-> <<VStr(<<34, 52, 50, 34>>)>>], [ev |-> "input", args |-> <<VStr(<<96, 105, 96>>), VStr(<<39, 99, 39>>)>>],
             [ev |-> "input", args |-> <<VStr(<<115, 49>>), VStr(<<34, 118, 92, 110, 34>>)>>] >>
NE == 10

RECURSIVE EvSeq(_, _)
EvSeq(code, len) == IF len = 0 THEN <<>> ELSE <<Events[(code % NE) + 1]>> \o EvSeq(code \div NE, len - 1)
EvCodes == UNION {{<<len, c>> : c \in 0..(NE ^ len - 1)} : len \in 0..MaxEvents}

HsOf(names) == [i \in DOMAIN names |-> Hs[names[i]]]
OnProg(hset) == Program(Main, <<>>, HsOf(HandlerSets[hset]))

\* the twin: handlers as procedures h_<event>, called after the top-level code in the order of the events
ProcName(ev) == "h" \o ev
AsFunc(h) == FuncDef(ProcName(h.ev), h.ps, <<>>, T_none, h.ss)
ValExpr(v) == IF v.t = "str" THEN EStr(v.cp) ELSE ENum(v)
CallFor(hs, e) ==
  LET j == CHOOSE j \in DOMAIN hs : hs[j].ev = e.ev
      h == hs[j]
  IN SCall(ECallU(ProcName(e.ev), FSig(AsFunc(h)), [i \in DOMAIN h.ps |-> ValExpr(e.args[i])]))
RECURSIVE Calls(_, _)
Calls(hs, es) == IF Len(es) = 0 THEN <<>>
                 ELSE (IF \E j \in DOMAIN hs : hs[j].ev = es[1].ev THEN <<CallFor(hs, es[1])>> ELSE <<>>) \o Calls(hs, Tail(es))
TwinProg(hset, es) ==
  LET hs == HsOf(HandlerSets[hset])
  IN [Program(Main \o Calls(hs, es), [i \in DOMAIN hs |-> AsFunc(hs[i])], <<>>) EXCEPT !.fl = TRUE]

FamCases ==
  UNION {{[MkCase("FamEvents", "on", OnProg(h)) EXCEPT !.events = EvSeq(p[2], p[1]), !.tag = <<h, p[1], p[2]>>],
          [MkCase("FamEvents", "twin", TwinProg(h, EvSeq(p[2], p[1]))) EXCEPT !.tag = <<h, p[1], p[2]>>]}
         : h \in DOMAIN HandlerSets, p \in EvCodes}
FamInit == InitWith(FamCases)
=============================================================================
