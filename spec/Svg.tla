-------------------------------- MODULE Svg --------------------------------
(***************************************************************************)
(* The Evy canvas as docs/builtins.md (section "Graphics") defines it: a   *)
(* pen with a position and a style, and the list of shapes drawn so far.   *)
(* One action per graphics built-in.  The specification is written from    *)
(* the documentation ONLY; pkg/cli/svg is the system under test.           *)
(*                                                                         *)
(* Numbers are integers in units of 1/(10*U) canvas unit (TLC has no       *)
(* reals).  With U = 1 they are TENTHS: the documented canvas 0..100 is    *)
(* 0..1000, which is also the "scaled by ten" user space of the SVG        *)
(* document; the y flip is NOT part of this model, it is undone uniformly  *)
(* by the flattener of the binding (harness/svgflat.go).                   *)
(* NaN is a sentinel that absorbs arithmetic, like IEEE NaN.               *)
(*                                                                         *)
(* Deliberate deviations / not modelled (nothing is observed there):       *)
(*  - gridn with a unit that is not > 0: the documentation does not say    *)
(*    what is drawn; only termination is demanded (status "unspec");       *)
(*  - the width of the thin grid lines under a non default pen width;      *)
(*  - order and direction of the lines of one grid (they are compared as  *)
(*    a set of undirected segments), their dash/linecap/fill;              *)
(*  - stroke/width/dash/linecap of text                                    *)
(*    ("stroke has no effect" on text) and of the background of `clear`;   *)
(*  - the direction of the tilt and of the start/end angles of an ellipse  *)
(*    (only magnitudes; either orientation of the arc is accepted);        *)
(*  - the default font family ("the browser default").                     *)
(***************************************************************************)
EXTENDS Integers, Sequences, FiniteSets, TLC

CONSTANT U    \* resolution: model units per tenth of a canvas unit (1 for the family, 10000 for recorded traces)

VARIABLES pen,      \* [x, y] cursor position
          style,    \* [stroke, fill, width, dash, cap] pen style
          tstyle,   \* [family, size, weight, fstyle, ls, align, baseline] text style
          drawn,    \* Seq of shapes, one per drawing command, with the style in effect
          status,   \* "ok" | "panic:badargs" | "unspec"
          raw,      \* ghost: last string given to stroke/fill/linecap, valid or not (classification only)
          ncmd      \* number of commands executed

svars == <<pen, style, tstyle, drawn, status, raw, ncmd>>

---------------------------------------------------------------------------
(* numbers *)
NaN == 2000000000
Add(a, b) == IF a = NaN \/ b = NaN THEN NaN ELSE a + b
MinN(a, b) == IF a = NaN \/ b = NaN THEN NaN ELSE IF a <= b THEN a ELSE b
MaxN(a, b) == IF a = NaN \/ b = NaN THEN NaN ELSE IF a >= b THEN a ELSE b
AbsN(a) == IF a = NaN THEN NaN ELSE IF a < 0 THEN 0 - a ELSE a

(* strings: "MARKUP" stands for a string full of XML markup characters    *)
(* (the driver substitutes it); like "" and "bogus" it is no CSS colour    *)
(* and no linecap style.                                                   *)
InvalidStr == {"", "MARKUP", "bogus"}
ValidColor(s) == s \notin InvalidStr
ValidCap(s) == s \in {"round", "butt", "square"}

(* hsl: 1 to 4 numbers (tenths of whole numbers) -> CSS hsl() string       *)
HslOk(hs) == /\ Len(hs) \in 1..4
             /\ hs[1] # NaN /\ hs[1] >= 0 /\ hs[1] <= 3600 * U
             /\ \A i \in 2..Len(hs) : hs[i] # NaN /\ hs[i] >= 0 /\ hs[i] <= 1000 * U
HslString(hs) ==
  LET v(i, d) == IF Len(hs) >= i THEN hs[i] \div (10 * U) ELSE d
  IN "hsl(" \o ToString(v(1, 0)) \o "deg " \o ToString(v(2, 100)) \o "% "
       \o ToString(v(3, 50)) \o "% / " \o ToString(v(4, 100)) \o "%)"

DefaultStyle == [stroke |-> "black", fill |-> "black", width |-> U, dash |-> <<>>, cap |-> "round"]
DefaultText  == [family |-> "default", size |-> 60 * U, weight |-> 4000 * U, fstyle |-> "normal",
                 ls |-> 0, align |-> "left", baseline |-> "alphabetic"]
DefaultRaw   == [stroke |-> "black", fill |-> "black", cap |-> "round"]

---------------------------------------------------------------------------
(* A command c is a record                                                 *)
(*   [op, n : Seq(Int), s : STRING, ns : 0..1, hs : Seq(Int),              *)
(*    fp : Seq([k, num, str]), vl : Seq(Int)]                              *)
(* n numeric arguments; s the string argument (ns = 1 iff one is given);   *)
(* hs # <<>> means the string argument is the call (hsl hs...); fp the     *)
(* font properties; vl the lengths of the vertex arrays of poly.           *)

StrArgPanics(c) == c.hs # <<>> /\ ~HslOk(c.hs)
StrArg(c) == IF c.hs # <<>> THEN HslString(c.hs) ELSE c.s

Tick == ncmd' = ncmd + 1
Panic == /\ status' = "panic:badargs"
         /\ UNCHANGED <<pen, style, tstyle, drawn, raw>>
         /\ Tick

(* ghost: the style fields whose value a string-storing implementation     *)
(* would have lost (last given string invalid, retained value not the      *)
(* default) -- used only to name the class of a case.                      *)
IVFields == {f \in {"stroke", "fill"} : ~ValidColor(raw[f]) /\ style[f] # DefaultStyle[f]}
            \cup {f \in {"cap"} : ~ValidCap(raw[f]) /\ style[f] # DefaultStyle[f]}
IVTags(fields) == {<<f, "invalid-reset">> : f \in IVFields \cap fields}

ShapeObs == <<"stroke", "fill", "width", "dash", "cap">>
LineObs  == <<"stroke", "width", "dash", "cap">>
TextObs  == <<"fill", "family", "size", "weight", "fstyle", "ls", "align", "baseline">>

Shape(k, g, t, st, obs, tg) ==
  [k |-> k, g |-> g, t |-> t, st |-> st, ts |-> tstyle, obs |-> obs, tg |-> tg, ci |-> ncmd + 1]

Draw(e) == /\ drawn' = Append(drawn, e)
           /\ status' = status
           /\ UNCHANGED <<style, tstyle, raw>>
           /\ Tick

---------------------------------------------------------------------------
(* position *)
Move(c) == /\ c.op = "move"
           /\ pen' = [x |-> c.n[1], y |-> c.n[2]]
           /\ UNCHANGED <<style, tstyle, drawn, status, raw>>
           /\ Tick

(* shapes *)
Line(c) == /\ c.op = "line"
           /\ Draw(Shape("line", <<pen.x, pen.y, c.n[1], c.n[2]>>, "", style, LineObs,
                         IVTags({"stroke", "cap"})))
           /\ pen' = [x |-> c.n[1], y |-> c.n[2]]

Rect(c) == /\ c.op = "rect"
           /\ LET x2 == Add(pen.x, c.n[1])
                  y2 == Add(pen.y, c.n[2])
              IN /\ Draw(Shape("rect", <<MinN(pen.x, x2), MinN(pen.y, y2), MaxN(pen.x, x2), MaxN(pen.y, y2)>>,
                               "", style, ShapeObs, IVTags({"stroke", "fill", "cap"})))
                 /\ pen' = [x |-> x2, y |-> y2]

Circle(c) == /\ c.op = "circle"
             /\ Draw(Shape("circle", <<pen.x, pen.y, c.n[1]>>, "", style, ShapeObs,
                           IVTags({"stroke", "fill", "cap"})))
             /\ pen' = pen

Poly(c) == /\ c.op = "poly"
           /\ IF \E i \in DOMAIN c.vl : c.vl[i] # 2
              THEN Panic      \* "If the array does not have two elements, a panic occurs."
              ELSE /\ Draw(Shape("poly", c.n, "", style, ShapeObs, IVTags({"stroke", "fill", "cap"})))
                   /\ pen' = pen

(* ellipse x y rx [ry [tilt [start end]]]: 3, 4, 5 or 7 arguments          *)
Ellipse(c) ==
  /\ c.op = "ellipse"
  /\ IF Len(c.n) \notin {3, 4, 5, 7}
     THEN Panic
     ELSE LET a == c.n
              ry == IF Len(a) >= 4 THEN a[4] ELSE a[3]
              tilt == IF Len(a) >= 5 THEN AbsN(a[5]) ELSE 0
              sa == IF Len(a) = 7 THEN a[6] ELSE 0
              ea == IF Len(a) = 7 THEN a[7] ELSE 3600 * U
              tg == IVTags({"stroke", "fill", "cap"})
                    \cup (IF a[2] \notin {500 * U, NaN} THEN {<<"y", "ellipse-y">>} ELSE {})
                    \cup (IF <<sa, ea>> # <<0, 3600 * U>> THEN {<<"start", "ellipse-arc">>, <<"end", "ellipse-arc">>} ELSE {})
          IN /\ Draw(Shape("ellipse", <<a[1], a[2], a[3], ry, tilt, sa, ea>>, "", style, ShapeObs, tg))
             /\ pen' = pen

(* "Only fill and color have an effect on the text; stroke has no effect." *)
Text(c) ==
  /\ c.op = "text"
  /\ LET tg == (IF style.fill # style.stroke \/ raw.fill # raw.stroke
                THEN {<<"fill", "text-fill-stroke">>} ELSE {})
               \cup IVTags({"fill"})
               \cup (IF tstyle.baseline \in {"top", "bottom"} THEN {<<"baseline", "baseline-raw">>} ELSE {})
               \cup (IF tstyle.ls # 0 THEN {<<"ls", "letterspacing-unscaled">>} ELSE {})
     IN Draw(Shape("text", <<pen.x, pen.y>>, c.s, style, TextObs, tg))
  /\ pen' = pen

(* clear [c]: the whole canvas in colour c (default "white"); neither the  *)
(* pen position nor the pen style change.  The built-in hands the platform *)
(* the empty string when no colour is given, so `clear ""` is `clear`: the  *)
(* documents are silent on the empty colour and the specification follows  *)
(* the interface of the code (never the pen colour: "clear" does not read   *)
(* the pen).                                                               *)
Clear(c) ==
  /\ c.op = "clear"
  /\ IF StrArgPanics(c) THEN Panic
     ELSE LET col == IF c.ns = 0 THEN "white" ELSE IF StrArg(c) = "" THEN "white" ELSE StrArg(c)
          IN /\ Draw(Shape("clear", <<>>, "", [style EXCEPT !.fill = col], <<"fill">>, {}))
             /\ pen' = pen

(* gridn n c:  for i := range 0 101 n { move i 0; line i 100; move 0 i;    *)
(* line 100 i } in colour c, width 0.1, every fifth pair 0.2; pen, colour  *)
(* and width are not affected.  grid = gridn 10 "hsl(0deg 100% 0% / 50%)". *)
(* A grid line is a "gline": a line whose direction is not observed.       *)
GridLines(u, col) ==
  LET K == (1000 * U) \div u
  IN [j \in 1..(2 * (K + 1)) |->
        LET i == (j - 1) \div 2
            p == i * u
            thick == (i % 5) = 0
            vert == (j % 2) = 1
        IN Shape("gline", IF vert THEN <<p, 0, p, 1000 * U>> ELSE <<0, p, 1000 * U, p>>, "",
                 [style EXCEPT !.stroke = col, !.width = IF thick THEN 2 * U ELSE U],
                 IF thick \/ style.width = U THEN <<"stroke", "width">> ELSE <<"stroke">>,
                 IF vert THEN {} ELSE {<<"y1", "gridn-yflip">>, <<"y2", "gridn-yflip">>, <<"width", "gridn-yflip">>})]

GridColor == "hsl(0deg 100% 0% / 50%)"

Gridn(c) ==
  /\ c.op \in {"grid", "gridn"}
  /\ IF c.op = "gridn" /\ StrArgPanics(c) THEN Panic
     ELSE LET u == IF c.op = "grid" THEN 100 * U ELSE c.n[1]
              col == IF c.op = "grid" THEN GridColor ELSE StrArg(c)
          IN IF u = NaN \/ u <= 0
             THEN /\ status' = "unspec"     \* not documented: only termination is demanded
                  /\ UNCHANGED <<pen, style, tstyle, drawn, raw>>
                  /\ Tick
             ELSE /\ drawn' = drawn \o GridLines(u, col)
                  /\ UNCHANGED <<pen, style, tstyle, status, raw>>
                  /\ Tick

(* style *)
NoDraw == UNCHANGED <<pen, drawn, status>> /\ Tick

(* "If the color string c is not recognized as a valid CSS color, the      *)
(* color does not change."                                                 *)
Color(c) ==
  /\ c.op \in {"color", "colour"}
  /\ IF StrArgPanics(c) THEN Panic
     ELSE LET col == StrArg(c)
          IN /\ style' = IF ValidColor(col) THEN [style EXCEPT !.stroke = col, !.fill = col] ELSE style
             /\ raw' = [raw EXCEPT !.stroke = col, !.fill = col]
             /\ UNCHANGED tstyle
             /\ NoDraw

Stroke(c) ==
  /\ c.op = "stroke"
  /\ IF StrArgPanics(c) THEN Panic
     ELSE LET col == StrArg(c)
          IN /\ style' = IF ValidColor(col) THEN [style EXCEPT !.stroke = col] ELSE style
             /\ raw' = [raw EXCEPT !.stroke = col]
             /\ UNCHANGED tstyle
             /\ NoDraw

Fill(c) ==
  /\ c.op = "fill"
  /\ IF StrArgPanics(c) THEN Panic
     ELSE LET col == StrArg(c)
          IN /\ style' = IF ValidColor(col) THEN [style EXCEPT !.fill = col] ELSE style
             /\ raw' = [raw EXCEPT !.fill = col]
             /\ UNCHANGED tstyle
             /\ NoDraw

Width(c) == /\ c.op = "width"
            /\ style' = [style EXCEPT !.width = c.n[1]]
            /\ UNCHANGED <<tstyle, raw>>
            /\ NoDraw

(* "If the number of arguments is odd, they are copied and concatenated.   *)
(* If no arguments are given, the line returns to being solid."            *)
Dash(c) == /\ c.op = "dash"
           /\ style' = [style EXCEPT !.dash = IF Len(c.n) % 2 = 1 THEN c.n \o c.n ELSE c.n]
           /\ UNCHANGED <<tstyle, raw>>
           /\ NoDraw

(* "An invalid style takes no effect." *)
Linecap(c) == /\ c.op = "linecap"
              /\ style' = IF ValidCap(c.s) THEN [style EXCEPT !.cap = c.s] ELSE style
              /\ raw' = [raw EXCEPT !.cap = c.s]
              /\ UNCHANGED tstyle
              /\ NoDraw

RECURSIVE ApplyFont(_, _)
ApplyFont(ts, fp) ==
  IF fp = <<>> THEN ts
  ELSE LET p == Head(fp)
           t2 == CASE p.k = "family"        -> [ts EXCEPT !.family = p.str]
                   [] p.k = "size"          -> [ts EXCEPT !.size = p.num]
                   [] p.k = "weight"        -> [ts EXCEPT !.weight = p.num]
                   [] p.k = "style"         -> [ts EXCEPT !.fstyle = p.str]
                   [] p.k = "letterspacing" -> [ts EXCEPT !.ls = p.num]
                   [] p.k = "align"         -> [ts EXCEPT !.align = p.str]
                   [] p.k = "baseline"      -> [ts EXCEPT !.baseline = p.str]
       IN ApplyFont(t2, Tail(fp))

Font(c) == /\ c.op = "font"
           /\ tstyle' = ApplyFont(tstyle, c.fp)
           /\ UNCHANGED <<style, raw>>
           /\ NoDraw

Step(c) == /\ status = "ok"
           /\ \/ Move(c) \/ Line(c) \/ Rect(c) \/ Circle(c) \/ Poly(c) \/ Ellipse(c) \/ Text(c)
              \/ Clear(c) \/ Gridn(c)
              \/ Color(c) \/ Stroke(c) \/ Fill(c) \/ Width(c) \/ Dash(c) \/ Linecap(c) \/ Font(c)

(* "Initially the canvas is cleared to white"; cursor 0 0; black, 0.1,     *)
(* solid, round; font size 6, weight 400, normal, left, alphabetic.        *)
SvgInit == /\ pen = [x |-> 0, y |-> 0]
           /\ style = DefaultStyle
           /\ tstyle = DefaultText
           /\ raw = DefaultRaw
           /\ ncmd = 0
           /\ status = "ok"
           /\ drawn = << [k |-> "clear", g |-> <<>>, t |-> "", st |-> [DefaultStyle EXCEPT !.fill = "white"],
                          ts |-> DefaultText, obs |-> <<"fill">>, tg |-> {}, ci |-> 0] >>

---------------------------------------------------------------------------
(* what a command is, for the counting invariants *)
DrawOps  == {"line", "rect", "circle", "poly", "ellipse", "text", "clear", "grid", "gridn"}
StyleOps == {"color", "colour", "stroke", "fill", "width", "dash", "linecap", "font"}

(* classification of the known weak spot "a lone pending element is        *)
(* restyled when it is flushed": the background of clear / the lines of a  *)
(* grid drawn directly after a style change and directly followed by a     *)
(* style change or the end of the program (cs = the commands executed).    *)
RECURSIVE PrevIsStyle(_, _)
PrevIsStyle(cs, j) == IF j < 1 THEN FALSE
                      ELSE IF cs[j].op = "move" THEN PrevIsStyle(cs, j - 1)
                      ELSE cs[j].op \in StyleOps
RECURSIVE NextIsFlush(_, _)
NextIsFlush(cs, j) == IF j > Len(cs) THEN TRUE
                      ELSE IF cs[j].op = "move" THEN NextIsFlush(cs, j + 1)
                      ELSE IF cs[j].op \in StyleOps THEN TRUE
                      ELSE j = Len(cs) /\ status = "panic:badargs"
Solo(cs, e) == /\ e.ci >= 1
               /\ cs[e.ci].op \in {"clear", "grid", "gridn"}
               /\ PrevIsStyle(cs, e.ci - 1)
               /\ NextIsFlush(cs, e.ci + 1)
SoloTags(cs, e) == IF Solo(cs, e) THEN {<<IF e.k = "clear" THEN "fill" ELSE "stroke", "push1">>} ELSE {}

Slim(cs, e) == IF e.k = "text"
               THEN [k |-> e.k, g |-> e.g, t |-> e.t, st |-> e.st, ts |-> e.ts, obs |-> e.obs,
                     tg |-> e.tg \cup SoloTags(cs, e), ci |-> e.ci]
               ELSE [k |-> e.k, g |-> e.g, st |-> e.st, obs |-> e.obs, tg |-> e.tg \cup SoloTags(cs, e), ci |-> e.ci]

(* the property, on the model: *)
(* shapes are only ever appended, and what was drawn keeps its style *)
DrawnGrows == [][Len(drawn') >= Len(drawn) /\ SubSeq(drawn', 1, Len(drawn)) = drawn]_svars
(* a panic or an unspecified command leaves canvas, pen and style alone *)
PanicIsClean == [][status' # "ok" => UNCHANGED <<pen, style, tstyle, drawn>>]_svars
(* the shapes are in the order of the commands that drew them *)
InOrder == \A i \in 1..(Len(drawn) - 1) : drawn[i].ci <= drawn[i + 1].ci
(* the recorded style of the last shape is the style in effect (colour of  *)
(* clear and grids excepted) when its command ran                          *)
StyleInEffect == [][(Len(drawn') > Len(drawn) /\ drawn'[Len(drawn')].k \notin {"clear"} /\ Len(drawn') = Len(drawn) + 1)
                     => (drawn'[Len(drawn')].st = style /\ drawn'[Len(drawn')].ts = tstyle)]_svars
=============================================================================
