------------------------------ MODULE FamAlias ------------------------------
(***************************************************************************)
(* Family for C09: copy and reference (spec.md "Copy and Reference").       *)
(* Triples: how an alias of the variable a is made  x  how an update        *)
(* happens  x  where it is observed, for the basic types (which are         *)
(* copied), composites (which are shared, also inside an any) and the       *)
(* operations that build fresh containers (slice, concatenation,           *)
(* repetition).  After every update all names are printed.                  *)
(***************************************************************************)
EXTENDS EvyMachine

CONSTANT Tier

Pr(xs) == SCall(ECallB("print", xs))
Num(n) == ENum(I(n))
K_k == <<107>>

\* type descriptors: name, type, two different values
TDs == { [nm |-> "num", ty |-> T_num, v1 |-> Num(1), v2 |-> Num(2)],
         [nm |-> "str", ty |-> T_str, v1 |-> EStr(<<120>>), v2 |-> EStr(<<121, 228>>)],
         [nm |-> "bool", ty |-> T_bool, v1 |-> EBool(TRUE), v2 |-> EBool(FALSE)],
         [nm |-> "arr", ty |-> TArr(T_num), v1 |-> EArr(<<Num(1), Num(2)>>), v2 |-> EArr(<<Num(3)>>)],
         [nm |-> "map", ty |-> TMap(T_num), v1 |-> EMap(<<K_k>>, <<Num(1)>>), v2 |-> EMap(<<K_k, <<106>>>>, <<Num(3), Num(4)>>)],
         [nm |-> "arr2", ty |-> TArr(TArr(T_num)), v1 |-> EArr(<<EArr(<<Num(1)>>), EArr(<<Num(2)>>)>>), v2 |-> EArr(<<EArr(<<Num(3)>>)>>)],
         [nm |-> "anynum", ty |-> T_any, v1 |-> Num(1), v2 |-> EStr(<<115>>)] }

IsComp(td) == td.nm \in {"arr", "map", "arr2"}

\* the update statements on the variable / target expression X
\* kind "assign": X = v2 ; kind "inplace": change the container X refers to
Upd(td, X, kind) ==
  IF kind = "assign" THEN <<SAsg(X, td.v2)>>
  ELSE CASE td.nm = "arr"  -> <<SAsg(EIdx(X, Num(0)), Num(9))>>
         [] td.nm = "map"  -> <<SAsg(EDot(X, K_k), Num(9))>>
         [] td.nm = "arr2" -> <<SAsg(EIdx(EIdx(X, Num(0)), Num(0)), Num(9))>>
         [] OTHER -> <<>>
Kinds(td) == IF IsComp(td) THEN {"assign", "inplace"} ELSE {"assign"}

A(td) == EVar("a", td.ty)
B(td) == EVar("b", td.ty)
\* declaration of a with value v1
Pre(td) == IF td.ty = T_any THEN <<SDecl("a", T_any), SAsg(A(td), td.v1)>> ELSE <<SInfer("a", td.v1)>>

P(main, funcs) == [Program(main, funcs, <<>>) EXCEPT !.fl = TRUE]

\* 1. b := a          2. b:T ; b = a         3. b := v2 ; b = a
ByDecl(td, who, kind) ==
  P(Pre(td) \o <<SInfer("b", A(td)), Pr(<<A(td), B(td)>>)>>
      \o Upd(td, IF who = "a" THEN A(td) ELSE B(td), kind) \o <<Pr(<<A(td), B(td)>>)>>, <<>>)
ByAssign(td, who, kind) ==
  P(Pre(td) \o <<SDecl("b", td.ty), SAsg(B(td), A(td))>>
      \o Upd(td, IF who = "a" THEN A(td) ELSE B(td), kind) \o <<Pr(<<A(td), B(td)>>)>>, <<>>)
ByReassign(td, who, kind) ==
  P(Pre(td) \o (IF td.ty = T_any THEN <<SDecl("b", T_any)>> ELSE <<SInfer("b", td.v2)>>) \o <<SAsg(B(td), A(td))>>
      \o Upd(td, IF who = "a" THEN A(td) ELSE B(td), kind) \o <<Pr(<<A(td), B(td)>>)>>
      \o Upd(td, IF who = "a" THEN B(td) ELSE A(td), kind) \o <<Pr(<<A(td), B(td)>>)>>, <<>>)

\* 4. parameter: the callee updates its parameter (or the global) and both are observed
ByParam(td, who, kind) ==
  LET p == EVar("p", td.ty)
      f == FuncDef("f", <<Param("p", td.ty)>>, <<>>, T_none,
                   Upd(td, IF who = "a" THEN A(td) ELSE p, kind) \o <<Pr(<<p, A(td)>>)>>)
  IN P(Pre(td) \o <<SCall(ECallU("f", FSig(f), <<A(td)>>)), Pr(<<A(td)>>)>>, <<f>>)

\* 5. variadic parameter: ps[0] is the argument
ByVariadic(td, who, kind) ==
  LET ps == EVar("ps", TArr(td.ty))
      f == FuncDef("f", <<>>, <<Param("ps", td.ty)>>, T_none,
                   Upd(td, IF who = "a" THEN A(td) ELSE EIdx(ps, Num(0)), kind) \o <<Pr(<<ps, A(td)>>)>>)
  IN P(Pre(td) \o <<SCall(ECallU("f", FSig(f), <<A(td), A(td)>>)), Pr(<<A(td)>>)>>, <<f>>)

\* 6. return value
ByReturn(td, who, kind) ==
  LET g == FuncDef("g", <<>>, <<>>, td.ty, <<SRetV(A(td), td.ty)>>)
  IN P(Pre(td) \o <<SInfer("b", ECallU("g", FSig(g), <<>>))>>
         \o Upd(td, IF who = "a" THEN A(td) ELSE B(td), kind) \o <<Pr(<<A(td), B(td)>>)>>, <<g>>)

\* 7. element of an array literal   8. value of a map literal
ByElem(td, who, kind) ==
  LET arr == EVar("arr", TArr(td.ty))
  IN P(Pre(td) \o <<SInfer("arr", EArr(<<A(td), A(td)>>))>>
         \o Upd(td, IF who = "a" THEN A(td) ELSE EIdx(arr, Num(0)), kind) \o <<Pr(<<A(td), arr>>)>>, <<>>)
ByMapVal(td, who, kind) ==
  LET mp == EVar("mp", TMap(td.ty))
  IN P(Pre(td) \o <<SInfer("mp", EMap(<<K_k, <<122>>>>, <<A(td), A(td)>>))>>
         \o Upd(td, IF who = "a" THEN A(td) ELSE EDot(mp, <<122>>), kind) \o <<Pr(<<A(td), mp>>)>>, <<>>)

\* 9. held in an any variable (composites stay shared inside an any)
ByAny(td, kind) ==
  LET x == EVar("x", T_any)
  IN P(Pre(td) \o <<SDecl("x", T_any), SAsg(x, A(td))>> \o Upd(td, A(td), kind)
         \o <<Pr(<<A(td), x, ECallB("typeof", <<x>>)>>)>>, <<>>)
ByAnyElem(td, kind) ==
  LET xs == EVar("xs", TArr(T_any))
  IN P(Pre(td) \o <<SDecl("xs", TArr(T_any)), SAsg(xs, EArr(<<Num(0), EStr(<<115>>)>>)), SAsg(EIdx(xs, Num(0)), A(td))>>
         \o Upd(td, A(td), kind) \o <<Pr(<<A(td), xs>>)>>, <<>>)

\* 10. loop variable over an array of a's
ByLoop(td, who, kind) ==
  LET arr == EVar("arr", TArr(td.ty))
      e == EVar("e", td.ty)
  IN P(Pre(td) \o <<SInfer("arr", EArr(<<A(td), A(td)>>)),
                    SFor("e", "arr", <<arr>>, Upd(td, IF who = "a" THEN A(td) ELSE e, kind) \o <<Pr(<<e, arr, A(td)>>)>>),
                    Pr(<<arr, A(td)>>)>>, <<>>)

\* 11. fresh containers: slice, concatenation, repetition (arrays only)
Fresh(td, how, kind) ==
  LET e == CASE how = "slice"  -> ESlice(A(td), <<>>, <<>>)
             [] how = "slice1" -> ESlice(A(td), <<Num(0)>>, <<Num(1)>>)
             [] how = "concat" -> EBin("+", A(td), A(td))
             [] OTHER          -> EBin("*", A(td), Num(2))
  IN P(Pre(td) \o <<SInfer("b", e), Pr(<<A(td), B(td)>>)>> \o Upd(td, A(td), kind) \o <<Pr(<<A(td), B(td)>>)>>
         \o Upd(td, B(td), "inplace") \o <<Pr(<<A(td), B(td)>>)>>, <<>>)

\* 11b. fresh containers whatever the operands are (empty or not, variables or literals, in a function): the result
\* is then grown and changed in place, the operands are changed, and every name is printed after every step
FreshOps ==
  LET TN == TArr(T_num)
      a == EVar("a", TN)   e == EVar("e", TN)   b == EVar("b", TN)   c == EVar("c", TN)   p == EVar("p", TN)
      app == FuncDef("app", <<Param("p", TN)>>, <<>>, TN, <<SRetV(EBin("+", p, EArr(<<Num(1)>>)), TN)>>)
      pre == FuncDef("pre", <<Param("p", TN)>>, <<>>, TN, <<SRetV(EBin("+", EArr(<<Num(1)>>), p), TN)>>)
      cut == FuncDef("cut", <<Param("p", TN)>>, <<>>, TN, <<SRetV(ESlice(p, <<>>, <<>>), TN)>>)
      Obs == Pr(<<a, e, b, c>>)
      Results == { EBin("+", e, a), EBin("+", a, e), EBin("+", e, e), EBin("+", e, EArr(<<Num(1)>>)), EBin("+", EArr(<<Num(1)>>), e),
                   EBin("+", e, EArr(<<>>)), EBin("+", a, EArr(<<>>)), EBin("+", EArr(<<>>), a),
                   ESlice(e, <<>>, <<>>), ESlice(a, <<Num(0)>>, <<Num(0)>>), ESlice(a, <<Num(2)>>, <<>>), ESlice(a, <<Num(0)>>, <<Num(2)>>),
                   EBin("*", a, Num(1)), EBin("*", a, Num(0)), EBin("*", e, Num(3)),
                   ECallU("app", FSig(app), <<e>>), ECallU("app", FSig(app), <<a>>), ECallU("pre", FSig(pre), <<e>>), ECallU("cut", FSig(cut), <<a>>), ECallU("cut", FSig(cut), <<e>>) }
  IN { P(<<SInfer("a", EArr(<<Num(1), Num(2)>>)), SDecl("e", TN), SInfer("b", r), SInfer("c", r), Obs,
           SAsg(b, EBin("+", b, EArr(<<Num(5)>>))), SAsg(EIdx(b, Num(0)), Num(9)), Obs,
           SAsg(e, EBin("+", e, EArr(<<Num(6)>>))), SAsg(EIdx(a, Num(1)), Num(8)), Obs,
           SAsg(c, EBin("+", c, EArr(<<Num(7)>>))), SAsg(EIdx(c, EUn("-", Num(1))), Num(4)), Obs>>, <<app, pre, cut>>) : r \in Results }

\* 11c. the loop variable of a range over an array of composites refers to the element of the current iteration: a
\* reference taken from it keeps referring to THAT element when the loop goes on; assigning another composite to the
\* loop variable leaves that composite alone in the next iteration
LoopRefs ==
  LET TN == TArr(T_num)   TNN == TArr(TArr(T_num))   TM == TMap(T_num)   TAM == TArr(TMap(T_num))
      arr == EVar("arr", TNN)   row == EVar("row", TN)   keep == EVar("keep", TN)   picked == EVar("picked", TNN)   spare == EVar("spare", TN)
      ms == EVar("ms", TAM)   mr == EVar("mr", TM)   mk == EVar("mk", TM)   byname == EVar("byname", TMap(TMap(T_num)))
      Obs1 == Pr(<<arr, keep, picked, spare>>)
      Obs2 == Pr(<<ms, mk, byname>>)
  IN { P(<<SInfer("arr", EArr(<<EArr(<<Num(1)>>), EArr(<<Num(2)>>), EArr(<<Num(3)>>)>>)), SDecl("keep", TN), SDecl("picked", TNN), SInfer("spare", EArr(<<Num(7)>>)),
           SFor("row", "arr", <<arr>>, <<SIf(<<EBin("==", EIdx(row, Num(0)), Num(k))>>, << <<SAsg(keep, row)>> >>, <<>>),
                                          SAsg(picked, EBin("+", picked, EArr(<<row>>))), Pr(<<row, keep>>)>>),
           Obs1, SAsg(EIdx(keep, Num(0)), Num(9)), SAsg(EIdx(EIdx(picked, Num(0)), Num(0)), Num(8)), Obs1>>, <<>>) : k \in 1..3 }
     \cup { P(<<SInfer("arr", EArr(<<EArr(<<Num(1)>>), EArr(<<Num(2)>>), EArr(<<Num(3)>>)>>)), SDecl("keep", TN), SDecl("picked", TNN), SInfer("spare", EArr(<<Num(7)>>)),
               SFor("row", "arr", <<arr>>, <<Pr(<<row>>), SIf(<<EBin("==", EIdx(row, Num(0)), Num(k))>>, << <<SAsg(row, spare), SAsg(EIdx(row, Num(0)), Num(70))>> >>, <<>>), Pr(<<row, spare>>)>>),
               Obs1>>, <<>>) : k \in 1..3 }
     \cup { P(<<SInfer("ms", EArr(<<EMap(<<K_k>>, <<Num(1)>>), EMap(<<K_k>>, <<Num(2)>>), EMap(<<K_k>>, <<Num(3)>>)>>)), SDecl("mk", TM), SDecl("byname", TMap(TMap(T_num))),
               SFor("mr", "arr", <<ms>>, <<SIf(<<EBin("==", EDot(mr, K_k), Num(k))>>, << <<SAsg(mk, mr)>> >>, <<>>),
                                            SAsg(EIdx(byname, ECallB("sprint", <<EDot(mr, K_k)>>)), mr)>>),
               Obs2, SAsg(EDot(mk, K_k), Num(9)), Obs2>>, <<>>) : k \in 1..3 }

\* 11d. a literal makes a new container every time it is evaluated: in a function called several times, in a loop;
\* deleting from / adding to / storing into one of them shows in no other
LitFresh ==
  LET TM == TMap(T_num)   TN == TArr(T_num)
      mkm(n) == FuncDef("mk", <<>>, <<>>, TM, <<SRetV(EMap(SubSeq(<<<<97>>, <<98>>, <<99>>, <<100>>, <<101>>, <<102>>>>, 1, n), [i \in 1..n |-> Num(i)]), TM)>>)
      mka(n) == FuncDef("mk", <<>>, <<>>, TN, <<SRetV(EArr([i \in 1..n |-> Num(i)]), TN)>>)
      p == EVar("p", TM)   q == EVar("q", TM)   r == EVar("r", TM)
      pa == EVar("p", TN)   qa == EVar("q", TN)   ra == EVar("r", TN)
      Call(f) == ECallU("mk", FSig(f), <<>>)
  IN { P(<<SInfer("p", Call(mkm(n))), SCall(ECallB("del", <<p, EStr(<<97>>)>>)), SInfer("q", Call(mkm(n))), SAsg(EDot(q, <<122>>), Num(26)), SAsg(EDot(p, <<121>>), Num(25)),
           SInfer("r", Call(mkm(n))), Pr(<<p, q, r, ECallB("len", <<r>>), ECallB("has", <<r, EStr(<<97>>)>>)>>),
           SFor("k", "map", <<r>>, <<Pr(<<EVar("k", T_str), EIdx(r, EVar("k", T_str))>>)>>), Pr(<<p, q>>)>>, <<mkm(n)>>) : n \in 2..6 }
     \cup { P(<<SInfer("p", Call(mka(n))), SAsg(EIdx(pa, Num(0)), Num(9)), SInfer("q", Call(mka(n))), SAsg(qa, EBin("+", qa, EArr(<<Num(8)>>))),
               SInfer("r", Call(mka(n))), Pr(<<pa, qa, ra>>)>>, <<mka(n)>>) : n \in 1..3 }
     \cup { P(<<SDecl("all", TArr(TM)),
               SFor("i", "num", <<Num(3)>>, <<SInfer("t", EMap(<<<<97>>, <<98>>, <<99>>>>, <<Num(1), Num(2), Num(3)>>)),
                                              SIf(<<EBin("==", EVar("i", T_num), Num(0))>>, << <<SCall(ECallB("del", <<EVar("t", TM), EStr(<<97>>)>>))>> >>, << <<SAsg(EDot(EVar("t", TM), <<122>>), EVar("i", T_num))>> >>),
                                              SAsg(EVar("all", TArr(TM)), EBin("+", EVar("all", TArr(TM)), EArr(<<EVar("t", TM)>>))), Pr(<<EVar("t", TM)>>)>>),
               Pr(<<EVar("all", TArr(TM))>>)>>, <<>>) }

\* 11e. a basic value that has been read (an operand waiting for the other operand, a value being returned) is a copy:
\* an assignment to the variable it was read from, made by a function called meanwhile, does not change it
Pending ==
  LET tot == EVar("total", T_num)   word == EVar("word", T_str)   rdy == EVar("ready", T_bool)
      bump == FuncDef("bump", <<>>, <<>>, T_num, <<SAsg(tot, EBin("+", tot, Num(10))), SRetV(tot, T_num)>>)
      cur == FuncDef("current", <<>>, <<>>, T_num, <<SRetV(tot, T_num)>>)
      ren == FuncDef("rename", <<>>, <<>>, T_str, <<SAsg(word, EBin("+", word, EStr(<<33>>))), SRetV(word, T_str)>>)
      dis == FuncDef("disarm", <<>>, <<>>, T_bool, <<SAsg(rdy, EBool(FALSE)), SRetV(EBool(TRUE), T_bool)>>)
      Bu == ECallU("bump", FSig(bump), <<>>)   Cu == ECallU("current", FSig(cur), <<>>)   Rn == ECallU("rename", FSig(ren), <<>>)   Di == ECallU("disarm", FSig(dis), <<>>)
      Exprs == { EBin("+", tot, Bu), EBin("+", Bu, tot), EBin("+", Cu, Bu), EBin("==", Cu, Bu), EBin("<", tot, Bu), EBin("-", EBin("*", tot, Num(2)), Bu),
                 EBin("+", word, Rn), EBin("==", word, Rn), EBin("and", rdy, Di), EBin("==", rdy, EBin("and", Di, rdy)), EArr(<<tot, Bu, tot>>), EArr(<<Cu, Bu, Cu>>) }
  IN { P(<<SInfer("total", Num(1)), SInfer("word", EStr(<<119>>)), SInfer("ready", EBool(TRUE)), Pr(<<e>>), Pr(<<tot, word, rdy>>)>>, <<bump, cur, ren, dis>>) : e \in Exprs }
\* 11f. concatenation is fresh also when its left operand is itself the result of (repeated) concatenation
AccFresh ==
  LET TN == TArr(T_num)
      base == EVar("base", TN)   five == EVar("five", TN)   six == EVar("six", TN)   snap == EVar("snap", TN)
  IN { P(<<SDecl("base", TN), SFor("i", "num", <<Num(n)>>, <<SAsg(base, EBin("+", base, EArr(<<EVar("i", T_num)>>)))>>), SInfer("snap", base),
           SInfer("five", EBin("+", base, EArr(<<Num(5)>>))), SInfer("six", EBin("+", base, EArr(<<Num(6)>>))), Pr(<<base, five, six, snap>>),
           SAsg(EIdx(five, Num(0)), Num(100)), SAsg(base, EBin("+", base, EArr(<<Num(7)>>))), Pr(<<base, five, six, snap>>)>>, <<>>) : n \in 1..7 }

\* 12. err and errmsg are ordinary bool / string variables that conversions update
ErrV == EVar("err", T_bool)
ErrM == EVar("errmsg", T_str)
S2N(cp) == SInfer("n", ECallB("str2num", <<EStr(cp)>>))
ErrProgsOf(EV, EM, fs) ==
  LET b == EVar("b", T_bool)
      s == EVar("s", T_str)
      n == EVar("n", T_num)
      arr == EVar("arr", TArr(T_bool))
      mp == EVar("mp", TMap(T_str))
      x == EVar("x", T_any)
      Fail == <<SAsg(n, ECallB("str2num", <<EStr(<<113>>)>>))>>
      Good == <<SAsg(n, ECallB("str2num", <<EStr(<<49>>)>>))>>
      ObsE == Pr(<<ErrV, ErrM, n>>)
      Conv2(first, second, obs) == <<SInfer("n", Num(5))>> \o first \o <<ObsE, obs>> \o second \o <<ObsE, obs>>
  IN { \* b := err before / after a failure
       P(<<SInfer("b", EV), SInfer("s", EM)>> \o Conv2(Fail, Good, Pr(<<b, s>>)), fs),
       P(<<SInfer("n", Num(5))>> \o Fail \o <<SInfer("b", EV), SInfer("s", EM)>> \o Good \o <<ObsE, Pr(<<b, s>>)>>, fs),
       \* b = err (assignment, not declaration)
       P(<<SInfer("b", EBool(TRUE)), SInfer("s", EStr(<<122>>)), SAsg(b, EV), SAsg(s, EM)>> \o Conv2(Fail, Good, Pr(<<b, s>>)), fs),
       P(<<SInfer("b", EBool(FALSE)), SInfer("s", EStr(<<122>>)), SInfer("n", Num(5))>> \o Fail
           \o <<SAsg(b, EV), SAsg(s, EM)>> \o Good \o <<ObsE, Pr(<<b, s>>)>>, fs),
       \* stored into an array element / a map value / an any
       P(<<SInfer("arr", EArr(<<EBool(TRUE), EBool(TRUE)>>)), SAsg(EIdx(arr, Num(0)), EV)>> \o Conv2(Fail, Good, Pr(<<arr>>)), fs),
       P(<<SInfer("arr", EArr(<<EV, EV>>))>> \o Conv2(Fail, Good, Pr(<<arr>>)), fs),
       P(<<SInfer("mp", EMap(<<K_k>>, <<EStr(<<122>>)>>)), SAsg(EDot(mp, K_k), EM)>> \o Conv2(Fail, Good, Pr(<<mp>>)), fs),
       P(<<SInfer("mp", EMap(<<K_k>>, <<EM>>))>> \o Conv2(Fail, Good, Pr(<<mp>>)), fs),
       P(<<SDecl("x", T_any), SAsg(x, EV)>> \o Conv2(Fail, Good, Pr(<<x>>)), fs),
       \* the program sets err itself; a later success resets it
       P(<<SAsg(ErrV, EBool(TRUE)), SAsg(ErrM, EStr(<<109>>)), SInfer("n", Num(5)), ObsE>> \o Good \o <<ObsE>> \o Fail \o <<ObsE>>, fs) }

\* ... also when err / errmsg reach the variable through the return value of a function or through a parameter
GErr == FuncDef("gerr", <<>>, <<>>, T_bool, <<SRetV(ErrV, T_bool)>>)
GMsg == FuncDef("gmsg", <<>>, <<>>, T_str, <<SRetV(ErrM, T_str)>>)
IdB == FuncDef("idb", <<Param("p", T_bool)>>, <<>>, T_bool, <<SRetV(EVar("p", T_bool), T_bool)>>)
IdS == FuncDef("ids", <<Param("p", T_str)>>, <<>>, T_str, <<SRetV(EVar("p", T_str), T_str)>>)
ErrProgs == ErrProgsOf(ErrV, ErrM, <<>>)
            \cup ErrProgsOf(ECallU("gerr", FSig(GErr), <<>>), ECallU("gmsg", FSig(GMsg), <<>>), <<GErr, GMsg>>)
            \cup ErrProgsOf(ECallU("idb", FSig(IdB), <<ErrV>>), ECallU("ids", FSig(IdS), <<ErrM>>), <<IdB, IdS>>)
            \cup ErrProgsOf(EGrp(ECallU("gerr", FSig(GErr), <<>>)), EGrp(ECallU("gmsg", FSig(GMsg), <<>>)), <<GErr, GMsg>>)

\* 13. repetition deep-copies composites also when they are held in an any
RepAnyProgs ==
  LET TA == TArr(T_any)
      a == EVar("a", TA)
      b == EVar("b", TA)
      c == EVar("c", TArr(T_num))
      d == EVar("d", TArr(T_num))
      m == EVar("m", TMap(T_any))
      arr == EVar("arr", TArr(TMap(T_any)))
      inner == EVar("inner", TArr(T_num))
  IN { P(<<SInfer("a", EArr(<<EArr(<<Num(0), Num(0)>>), EStr(<<120>>)>>)), SInfer("b", EBin("*", a, Num(2))),
           SInfer("c", EAssert(EIdx(b, Num(0)), TArr(T_num))), SAsg(EIdx(c, Num(0)), Num(9)), Pr(<<a, b, c>>),
           SInfer("d", EAssert(EIdx(a, Num(0)), TArr(T_num))), SAsg(EIdx(d, Num(1)), Num(8)), Pr(<<a, b>>),
           Pr(<<ECallB("typeof", <<EIdx(b, Num(2))>>), ECallB("typeof", <<EIdx(b, Num(3))>>), EBin("==", EIdx(b, Num(0)), EIdx(b, Num(2))), EBin("==", EIdx(b, Num(1)), EIdx(b, Num(0)))>>)>>, <<>>),
       P(<<SDecl("m", TMap(T_any)), SAsg(m, EMap(<<K_k, <<106>>>>, <<EArr(<<Num(1)>>), Num(2)>>)), SInfer("arr", EBin("*", EArr(<<m>>), Num(2))),
           SInfer("inner", EAssert(EDot(EIdx(arr, Num(0)), K_k), TArr(T_num))), SAsg(EIdx(inner, Num(0)), Num(5)),
           SAsg(EDot(EIdx(arr, Num(1)), <<106>>), Num(7)), Pr(<<arr, m>>),
           SFor("e", "arr", <<arr>>, <<SFor("q", "map", <<EVar("e", TMap(T_any))>>, <<Pr(<<EVar("q", T_str), ECallB("typeof", <<EIdx(EVar("e", TMap(T_any)), EVar("q", T_str))>>)>>)>>)>>)>>, <<>>) }

Who == {"a", "b"}
Basic == {td \in TDs : ~IsComp(td)}
Comp == {td \in TDs : IsComp(td)}
Arrs == {td \in TDs : td.nm \in {"arr", "arr2"}}

Progs ==
  UNION {{ByDecl(td, w, kd), ByAssign(td, w, kd), ByReassign(td, w, kd), ByParam(td, w, kd), ByVariadic(td, w, kd),
          ByReturn(td, w, kd), ByElem(td, w, kd), ByMapVal(td, w, kd), ByLoop(td, w, kd)} : td \in TDs, w \in Who, kd \in {"assign"}}
  \cup UNION {{ByDecl(td, w, "inplace"), ByAssign(td, w, "inplace"), ByReassign(td, w, "inplace"), ByParam(td, w, "inplace"),
               ByVariadic(td, w, "inplace"), ByReturn(td, w, "inplace"), ByElem(td, w, "inplace"), ByMapVal(td, w, "inplace"),
               ByLoop(td, w, "inplace")} : td \in Comp, w \in Who}
  \cup UNION {{ByAny(td, kd), ByAnyElem(td, kd)} : td \in TDs \ {td \in TDs : td.ty = T_any}, kd \in {"assign"}}
  \cup UNION {{ByAny(td, "inplace"), ByAnyElem(td, "inplace")} : td \in Comp}
  \cup UNION {{Fresh(td, how, kd) : how \in {"slice", "slice1", "concat", "rep"}, kd \in {"assign", "inplace"}} : td \in Arrs}
  \cup ErrProgs \cup RepAnyProgs \cup FreshOps \cup LoopRefs \cup LitFresh \cup Pending \cup AccFresh

FamCases == {MkCase("FamAlias", IF p \in ErrProgs THEN "err" ELSE "alias", p) : p \in Progs}
FamInit == InitWith(FamCases)
=============================================================================
