INIT TInit
NEXT TNext
INVARIANTS AtMostOneEffectAfterStop SeenOnlyIfRaised
POSTCONDITION TraceAccepted
CHECK_DEADLOCK FALSE
