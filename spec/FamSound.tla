------------------------------ MODULE FamSound ------------------------------
(***************************************************************************)
(* Family for C02: programs that the type checker accepts and that walk     *)
(* the edges of the type system: untyped empty literals in every context,   *)
(* conversion of constants to any-based composites, any-wrapping, type      *)
(* assertions that hold and that fail, every built-in on extreme            *)
(* arguments.  Where the documentation defines the outcome the machine      *)
(* predicts it exactly (typeof of every variable included); elsewhere the   *)
(* behaviour is emitted "soundOnly": the run may end in any documented way  *)
(* but must never go wrong.                                                 *)
(***************************************************************************)
EXTENDS EvyMachine

CONSTANT Tier

Num(n) == ENum(I(n))
Pr(xs) == SCall(ECallB("print", xs))
P1(ss) == Program(ss, <<>>, <<>>)
TypeOf(e) == ECallB("typeof", <<e>>)
K(c) == <<c>>
Div(a, b) == EGrp(EBin("/", ENum(I(a)), ENum(I(b))))
NaNE == Div(0, 0)
InfE == Div(1, 0)

\* --- (a) empty literals and inference: x := e ; print (typeof x) x
Lits == { EArr(<<>>), EMap(<<>>, <<>>), EArr(<<EArr(<<>>)>>), EArr(<<EArr(<<>>), EArr(<<Num(1)>>)>>),
          EArr(<<EMap(<<>>, <<>>), EMap(<<K(97)>>, <<Num(1)>>)>>), EMap(<<K(97), K(98)>>, <<EArr(<<>>), EArr(<<Num(2)>>)>>),
          EMap(<<K(97), K(98)>>, <<EArr(<<>>), EMap(<<>>, <<>>)>>), EArr(<<Num(1), EArr(<<>>)>>),
          EBin("+", EArr(<<>>), EArr(<<Num(1)>>)), EBin("+", EArr(<<Num(1)>>), EArr(<<>>)), EBin("+", EArr(<<>>), EArr(<<>>)),
          EGrp(EArr(<<>>)), EBin("*", EArr(<<>>), Num(2)), ESlice(EArr(<<Num(1), Num(2)>>), <<Num(1)>>, <<>>),
          EArr(<<EArr(<<Num(1)>>), EArr(<<EStr(<<97>>)>>)>>), EArr(<<Num(1), EStr(<<97>>), EBool(TRUE)>>),
          EMap(<<K(97), K(98)>>, <<Num(1), EStr(<<120>>)>>), EArr(<<EArr(<<EArr(<<>>)>>)>>) }
InferProgs == {P1(<<SInfer("x", e), Pr(<<TypeOf(EVar("x", InferTy(e.ty))), EVar("x", InferTy(e.ty))>>)>>) : e \in Lits}
              \cup {P1(<<Pr(<<TypeOf(e), e>>)>>) : e \in Lits}

\* --- (b) constants converted to the any-based composite the context requires
Targets == {TArr(T_any), TMap(T_any), TArr(TArr(T_any)), TArr(TMap(T_any)), TMap(TArr(T_any)), T_any, TArr(T_num), TArr(TArr(T_num))}
RECURSIVE Fits(_, _)
\* can literal e be given (converted to) type ty?  (spec.md Assignability of constant values)
Fits(e, ty) ==
  IF ty = T_any THEN TRUE
  ELSE IF e.k = "arr" /\ ty[1] = "arr" THEN \A i \in DOMAIN e.xs : Fits(e.xs[i], Tail(ty))
  ELSE IF e.k = "map" /\ ty[1] = "map" THEN \A i \in DOMAIN e.xs : Fits(e.xs[i], Tail(ty))
  ELSE IF e.k = "wrap" THEN Fits(e.x, ty)
  ELSE e.k \in {"num", "str", "bool"} /\ e.ty = ty
PureLits == {e \in Lits : e.k \in {"arr", "map"}}
AssignProg(e, ty) ==
  LET x == EVar("x", ty)
      first == IF ty[1] = "arr" THEN <<SFor("e", "arr", <<x>>, <<Pr(<<TypeOf(EVar("e", Tail(ty)))>>)>>)>>
               ELSE IF ty[1] = "map" THEN <<SFor("k", "map", <<x>>, <<Pr(<<EVar("k", T_str), TypeOf(EIdx(x, EVar("k", T_str)))>>)>>)>>
               ELSE <<>>
  IN P1(<<SDecl("x", ty), SAsg(x, e), Pr(<<TypeOf(x), x>>)>> \o first)
ParamProg(e, ty) ==
  LET f == FuncDef("f", <<Param("p", ty)>>, <<>>, ty, <<Pr(<<TypeOf(EVar("p", ty)), EVar("p", ty)>>), SRetV(e, ty)>>)
  IN Program(<<SInfer("r", ECallU("f", FSig(f), <<e>>)), Pr(<<TypeOf(EVar("r", ty)), EVar("r", ty)>>)>>, <<f>>, <<>>)
ConvProgs == UNION {UNION {{AssignProg(e, ty), ParamProg(e, ty)} : e \in {x \in PureLits : Fits(x, ty)}} : ty \in Targets}

\* --- (c) any: dynamic types, assertions that hold and that fail
XA == EVar("x", T_any)
AssertProg(v, ty) == P1(<<SDecl("x", T_any), SAsg(XA, v), Pr(<<TypeOf(XA)>>), SInfer("y", EAssert(XA, ty)), Pr(<<TypeOf(EVar("y", ty)), EVar("y", ty)>>)>>)
AVals == {Num(1), EStr(<<97>>), EBool(TRUE), EArr(<<Num(1)>>), EArr(<<>>), EMap(<<K(97)>>, <<Num(1)>>), EArr(<<Num(1), EStr(<<97>>)>>), EMap(<<>>, <<>>)}
ATys == {T_num, T_str, T_bool, TArr(T_num), TArr(T_any), TMap(T_num), TMap(T_any), TArr(T_str)}
AssertProgs == {AssertProg(v, ty) : v \in AVals, ty \in ATys}
AnyProgs ==
  { \* zero value of any; any array elements; assignment of any to any; comparison of any values
    P1(<<SDecl("x", T_any), Pr(<<TypeOf(XA), XA>>), SDecl("a", TArr(T_any)), SDecl("m", TMap(T_any)),
         Pr(<<TypeOf(EVar("a", TArr(T_any))), TypeOf(EVar("m", TMap(T_any))), ECallB("len", <<EVar("a", TArr(T_any))>>)>>)>>),
    P1(<<SDecl("x", T_any), SDecl("y", T_any), SAsg(XA, Num(1)), SAsg(EVar("y", T_any), XA), SAsg(XA, EStr(<<115>>)),
         Pr(<<TypeOf(XA), TypeOf(EVar("y", T_any)), EBin("==", XA, EVar("y", T_any))>>),
         SAsg(EVar("y", T_any), EStr(<<115>>)), Pr(<<EBin("==", XA, EVar("y", T_any))>>),
         SAsg(XA, EArr(<<Num(1)>>)), SAsg(EVar("y", T_any), EArr(<<Num(1)>>)), Pr(<<EBin("==", XA, EVar("y", T_any))>>),
         SAsg(EVar("y", T_any), EArr(<<Num(1), EStr(<<97>>)>>)), Pr(<<EBin("==", XA, EVar("y", T_any)), TypeOf(EVar("y", T_any))>>)>>),
    P1(<<SInfer("a", EArr(<<Num(1), EStr(<<97>>), EArr(<<Num(2)>>)>>)),
         Pr(<<EBin("+", EAssert(EIdx(EVar("a", TArr(T_any)), Num(0)), T_num), Num(1))>>),
         Pr(<<EIdx(EAssert(EIdx(EVar("a", TArr(T_any)), Num(2)), TArr(T_num)), Num(0))>>),
         Pr(<<EAssert(EIdx(EVar("a", TArr(T_any)), Num(1)), T_num)>>)>>),
    \* the documented example: arr:[]{}any
    P1(<<SDecl("arr", TArr(TMap(T_any))),
         SAsg(EVar("arr", TArr(TMap(T_any))), EArr(<<EMap(<<K(97)>>, <<Num(1)>>), EMap(<<K(98)>>, <<EArr(<<Num(1), Num(2), EMap(<<>>, <<>>)>>)>>), EMap(<<>>, <<>>)>>)),
         Pr(<<TypeOf(EVar("arr", TArr(TMap(T_any))))>>), Pr(<<TypeOf(EIdx(EVar("arr", TArr(TMap(T_any))), Num(0)))>>),
         Pr(<<TypeOf(EDot(EIdx(EVar("arr", TArr(TMap(T_any))), Num(0)), K(97)))>>),
         Pr(<<TypeOf(EDot(EIdx(EVar("arr", TArr(TMap(T_any))), Num(1)), K(98)))>>)>>),
    \* variadic any parameter receives wrapped values
    Program(<<SCall(ECallU("va", Sig(<<>>, <<T_any>>, T_none), <<Num(1), EStr(<<97>>), EArr(<<>>), EArr(<<Num(1)>>)>>)),
              SCall(ECallU("va", Sig(<<>>, <<T_any>>, T_none), <<>>))>>,
            <<FuncDef("va", <<>>, <<Param("xs", T_any)>>, T_none,
                      <<Pr(<<ECallB("len", <<EVar("xs", TArr(T_any))>>)>>),
                        SFor("e", "arr", <<EVar("xs", TArr(T_any))>>, <<Pr(<<TypeOf(EVar("e", T_any)), EVar("e", T_any)>>)>>)>>)>>, <<>>) }

\* --- (c1) == and != on any values of every pair of dynamic types (composites of the same length with different
\*          element types included), directly, inside []any and inside {}any: a bool, never a crash
EqVals == { Num(1), EStr(<<97>>), EBool(TRUE), EArr(<<Num(1), Num(2)>>), EArr(<<EStr(<<120>>), EStr(<<121>>)>>), EArr(<<EBool(TRUE), EBool(FALSE)>>),
            EArr(<<EArr(<<Num(1)>>), EStr(<<97>>)>>), EArr(<<EArr(<<EBool(TRUE)>>), EStr(<<97>>)>>), EArr(<<>>), EArr(<<EArr(<<Num(1)>>), EArr(<<Num(2)>>)>>),
            EMap(<<K(97)>>, <<Num(1)>>), EMap(<<K(97)>>, <<EStr(<<115>>)>>), EMap(<<K(97)>>, <<EArr(<<Num(1)>>)>>), EMap(<<>>, <<>>) }
YA == EVar("y", T_any)
AnyEqProg(v, w) ==
  P1(<<SDecl("x", T_any), SDecl("y", T_any), SAsg(XA, v), SAsg(YA, w),
       Pr(<<EBin("==", XA, YA), EBin("!=", XA, YA), EBin("==", YA, XA), EBin("==", EArr(<<XA, Num(1)>>), EArr(<<YA, Num(1)>>)),
            EBin("==", EMap(<<K(107)>>, <<XA>>), EMap(<<K(107)>>, <<YA>>)), TypeOf(XA), TypeOf(YA)>>)>>)
AnyEqProgs == {AnyEqProg(v, w) : v \in EqVals, w \in EqVals}

\* --- (c2) a block-local variable that shadows an outer variable of ANOTHER type, in every kind of block;
\*          the outer variable is used with its own type afterwards
ShadowBlocks(inner) ==
  { SIf(<<EBool(TRUE)>>, << inner >>, <<>>),
    SIf(<<EBool(FALSE)>>, << <<Pr(<<Num(0)>>)>> >>, << inner >>),
    SIf(<<EBool(FALSE), EBool(TRUE)>>, << <<Pr(<<Num(0)>>)>>, inner >>, << <<Pr(<<Num(0)>>)>> >>),
    SWhile(EBin("<", EVar("w", T_num), Num(1)), <<SAsg(EVar("w", T_num), Num(1))>> \o inner),
    SFor("", "num", <<Num(2)>>, inner),
    SFor("q", "arr", <<EArr(<<Num(1)>>)>>, <<Pr(<<EVar("q", T_num)>>)>> \o inner),
    SFor("q", "map", <<EMap(<<K(97)>>, <<Num(1)>>)>>, <<Pr(<<EVar("q", T_str)>>)>> \o inner) }
ShadowProgs ==
  { P1(<<SInfer("w", Num(0)), SInfer("count", Num(1)), blk, Pr(<<EBin("+", EVar("count", T_num), Num(1)), TypeOf(EVar("count", T_num)), EVar("w", T_num)>>)>>) :
      blk \in ShadowBlocks(<<SInfer("count", EStr(<<115>>)), Pr(<<EBin("+", EVar("count", T_str), EStr(<<33>>))>>)>>) }
  \cup { P1(<<SInfer("w", Num(0)), SInfer("v", EArr(<<Num(1)>>)), blk, Pr(<<EIdx(EVar("v", TArr(T_num)), Num(0)), TypeOf(EVar("v", TArr(T_num))), EVar("w", T_num)>>)>>) :
      blk \in ShadowBlocks(<<SInfer("v", EMap(<<K(97)>>, <<EBool(TRUE)>>)), Pr(<<EDot(EVar("v", TMap(T_bool)), K(97))>>)>>) }
  \cup { Program(<<SInfer("count", Num(1)), SCall(ECallU("f", Sig(<<T_str>>, <<>>, T_none), <<EStr(<<97>>)>>)), Pr(<<EBin("+", EVar("count", T_num), Num(1))>>)>>,
                  <<FuncDef("f", <<Param("count", T_str)>>, <<>>, T_none, <<Pr(<<EBin("+", EVar("count", T_str), EStr(<<33>>))>>)>>)>>, <<>>) }
\* --- (c3) any values keep their dynamic type through repetition, slicing, concatenation and loops
KeepTag ==
  LET a == EVar("a", TArr(T_any))
      e == EVar("e", T_any)
      Show(x) == <<SFor("e", "arr", <<x>>, <<Pr(<<TypeOf(e), e>>)>>),
                   Pr(<<EBin("==", EIdx(x, Num(0)), EIdx(x, Num(1))), EBin("==", EIdx(x, Num(0)), EIdx(x, Num(0))),
                        EBin("+", EAssert(EIdx(x, Num(0)), T_num), Num(1)), EAssert(EIdx(x, Num(1)), T_str)>>)>>
      Base == SInfer("a", EArr(<<Num(1), EStr(<<120>>), EArr(<<Num(2)>>), EMap(<<K(97)>>, <<Num(3)>>)>>))
  IN { P1(<<Base, SInfer("b", EBin("*", a, Num(2)))>> \o Show(EVar("b", TArr(T_any)))),
       P1(<<Base, SInfer("b", ESlice(a, <<>>, <<Num(3)>>))>> \o Show(EVar("b", TArr(T_any)))),
       P1(<<Base, SInfer("b", EBin("+", a, a))>> \o Show(EVar("b", TArr(T_any)))),
       P1(<<Base, SInfer("b", EBin("*", EArr(<<a, a>>), Num(1)))>> \o Show(EIdx(EVar("b", TArr(TArr(T_any))), Num(1)))) }

\* --- (d) built-ins and operators on extreme arguments (mostly soundOnly)
Ext == {NaNE, InfE, EUn("-", InfE), ENum(Big), EUn("-", ENum(Big)), ENum(I(2147483647)), EUn("-", ENum(Fin(1, 1))), ENum(Fin(1, 8)), Num(0)}
NumBuiltins1 == {"sleep", "exit", "circle", "width", "rand", "abs", "floor", "ceil", "round", "log", "sqrt", "sin", "cos"}
NumBuiltins2 == {"min", "max", "pow", "atan2", "move", "line", "rect"}
UseNum(f, xs) == IF BuiltinSig(f).rt = T_none THEN P1(<<SCall(ECallB(f, xs)), Pr(<<Num(1)>>)>>)
                 ELSE P1(<<SInfer("r", ECallB(f, xs)), Pr(<<EBin("==", EVar("r", T_num), EVar("r", T_num))>>)>>)
Extreme ==
  {UseNum(f, <<a>>) : f \in NumBuiltins1, a \in Ext}
  \cup {UseNum(f, <<a, b>>) : f \in NumBuiltins2, a \in {NaNE, InfE, ENum(Big), Num(0)}, b \in {NaNE, EUn("-", InfE), Num(2)}}
  \cup {P1(<<SInfer("a", EBin("*", EArr(<<Num(1), Num(2)>>), n)), Pr(<<ECallB("len", <<EVar("a", TArr(T_num))>>)>>)>>) :
          n \in {NaNE, InfE, EUn("-", InfE), ENum(Fin(1, 1)), EUn("-", Num(1)), Num(0), ENum(Big)}}
  \cup {P1(<<SInfer("s", EStr(<<97, 228>>)), Pr(<<EIdx(EVar("s", T_str), n)>>)>>) : n \in Ext}
  \cup {P1(<<SInfer("s", EStr(<<97, 228>>)), Pr(<<ESlice(EVar("s", T_str), <<n>>, <<>>)>>)>>) : n \in Ext}
  \* every slice bound around the ends of an array and a string of length 3 (one beyond included), in both positions
  \cup {P1(<<SInfer("a", EArr(<<Num(1), Num(2), Num(3)>>)), SInfer("s", EStr(<<97, 228, 99>>)),
             Pr(<<ECallB("len", <<ESlice(EVar("a", TArr(T_num)), lo, hi)>>)>>), Pr(<<ESlice(EVar("s", T_str), lo, hi)>>)>>) :
          lo \in {<<>>} \cup {<<IF i < 0 THEN EUn("-", Num(-i)) ELSE Num(i)>> : i \in -5..5}, hi \in {<<>>} \cup {<<IF i < 0 THEN EUn("-", Num(-i)) ELSE Num(i)>> : i \in {-5, -4, -3, 0, 3, 4, 5}}}
  \cup {P1(<<SInfer("a", EArr(<<Num(1), Num(2), Num(3)>>)), SAsg(EIdx(EVar("a", TArr(T_num)), IF i < 0 THEN EUn("-", Num(-i)) ELSE Num(i)), Num(9)), Pr(<<EVar("a", TArr(T_num))>>)>>) : i \in -5..5}
  \cup {P1(<<SFor("i", "num", <<n>>, <<Pr(<<EBin("==", EVar("i", T_num), EVar("i", T_num))>>), SBrk>>), Pr(<<Num(1)>>)>>) : n \in Ext}
  \cup {P1(<<SFor("", "num", <<Num(0), Num(2), n>>, <<Pr(<<Num(7)>>), SBrk>>), Pr(<<Num(1)>>)>>) : n \in Ext}
  \cup {P1(<<Pr(<<ECallB("hsl", xs)>>)>>) : xs \in {<<>>, <<Num(0)>>, <<Num(360), Num(100), Num(100), Num(100)>>, <<Num(361)>>, <<NaNE>>, <<Num(1), NaNE>>, <<Num(1), Num(2), Num(3), Num(4), Num(5)>>, <<EUn("-", Num(1))>>}}
  \cup {P1(<<SCall(ECallB("poly", xs)), Pr(<<Num(1)>>)>>) : xs \in {<<>>, <<EArr(<<Num(1), Num(2)>>)>>, <<EArr(<<Num(1)>>)>>, <<EArr(<<Num(1), Num(2), Num(3)>>)>>, <<EArr(<<NaNE, InfE>>), EArr(<<Num(1), Num(2)>>)>>}}
  \cup {P1(<<SCall(ECallB("ellipse", xs)), Pr(<<Num(1)>>)>>) : xs \in {<<>>, <<Num(1)>>, <<Num(1), Num(2)>>, <<Num(1), Num(2), Num(3)>>, <<Num(1), Num(2), Num(3), Num(4)>>,
                                                                       <<Num(1), Num(2), Num(3), Num(4), Num(5)>>, <<Num(1), Num(2), Num(3), Num(4), Num(5), Num(6)>>,
                                                                       <<Num(1), Num(2), Num(3), Num(4), Num(5), Num(6), Num(7)>>, <<NaNE, NaNE, NaNE>>}}
  \cup {P1(<<SCall(ECallB("dash", xs)), SCall(ECallB("clear", ys)), Pr(<<Num(1)>>)>>) : xs \in {<<>>, <<Num(1)>>, <<NaNE, EUn("-", Num(1))>>}, ys \in {<<>>, <<EStr(<<114>>)>>, <<EStr(<<>>), EStr(<<>>)>>}}
  \cup {P1(<<SCall(ECallB("font", <<m>>)), Pr(<<Num(1)>>)>>) :
          m \in {EMap(<<>>, <<>>), EMap(<<<<115, 105, 122, 101>>>>, <<Num(2)>>), EMap(<<<<115, 105, 122, 101>>>>, <<EStr(<<120>>)>>),
                 EMap(<<<<115, 105, 122, 101>>>>, <<EUn("-", Num(1))>>), EMap(<<<<120>>>>, <<Num(1)>>),
                 EMap(<<<<115, 105, 122, 101>>, <<102, 97, 109, 105, 108, 121>>>>, <<NaNE, EBool(TRUE)>>)}}
  \cup {P1(<<SCall(ECallB("gridn", <<n, EStr(<<114>>)>>)), SCall(ECallB("grid", <<>>)), SCall(ECallB("text", <<EStr(<<60, 38>>)>>)), Pr(<<Num(1)>>)>>) : n \in {Num(10), Num(0), NaNE, EUn("-", Num(5))}}
  \cup {P1(<<SCall(ECallB("printf", <<EStr(f), Num(1)>>)), Pr(<<Num(1)>>)>>) :
          f \in {<<37, 100>>, <<37, 42, 100>>, <<37, 91, 53, 93, 118>>, <<37>>, <<37, 118, 37, 118>>, <<37, 33>>, <<37, 57, 57, 57, 57, 118>>, <<37, 46, 42, 102>>}}
  \* test with every number of arguments, a third argument that is / is not a string, a comparison that holds / fails
  \cup {P1(<<SCall(ECallB("test", SubSeq(<<a, b, c, Num(4), EStr(<<122>>)>>, 1, n))), Pr(<<Num(1)>>)>>) :
          n \in 2..5, a \in {Num(1)}, b \in {Num(1), Num(2)}, c \in {EStr(<<109, 37, 118>>), Num(3), EArr(<<Num(1)>>), EBool(TRUE)}}
  \cup {P1(<<SCall(ECallB("test", <<Num(1), Num(2), EStr(<<37, 100, 37, 118>>), EStr(<<120>>)>>)), Pr(<<Num(1)>>)>>),
        P1(<<Pr(<<ECallB("split", <<EStr(<<97, 228, 98>>), EStr(<<>>)>>)>>), Pr(<<ECallB("repr", <<ECallB("replace", <<EStr(<<97, 98>>), EStr(<<>>), EStr(<<120>>)>>)>>)>>)>>),
        P1(<<SDecl("m", TMap(T_num)), SCall(ECallB("del", <<EVar("m", TMap(T_num)), EStr(<<120>>)>>)), Pr(<<EVar("m", TMap(T_num))>>)>>),
        P1(<<Pr(<<ECallB("upper", <<EStr(<<223, 228, 105>>)>>), ECallB("lower", <<EStr(<<304, 196>>)>>)>>)>>),
        P1(<<Pr(<<ECallB("str2num", <<EStr(<<49, 101, 52, 48, 48>>)>>), EVar("err", T_bool)>>), Pr(<<ECallB("str2num", <<EStr(<<48, 120, 49, 102>>)>>), ECallB("str2num", <<EStr(<<105, 110, 102>>)>>)>>)>>)}

FamCases == {MkCase("FamSound", "infer", p) : p \in InferProgs}
            \cup {MkCase("FamSound", "conv", p) : p \in ConvProgs}
            \cup {MkCase("FamSound", "assert", p) : p \in AssertProgs \cup AnyProgs \cup KeepTag}
            \cup {MkCase("FamSound", "any-equality", p) : p \in AnyEqProgs}
            \cup {MkCase("FamSound", "shadow", p) : p \in ShadowProgs}
            \cup {MkCase("FamSound", "extreme", p) : p \in Extreme}
FamInit == InitWith(FamCases)
=============================================================================
