CONSTANTS
  U = 1
  Tier = "@TIER@"
  MaxLen = @MAXLEN@
INIT FamInit
NEXT Next
INVARIANTS OnePerCommand Counted InOrder EmitSim
CHECK_DEADLOCK FALSE
