CONSTANTS
  Variant = "intended"
INIT Init
NEXT Next
INVARIANTS TypeOK Atomic ParseFailSafe CheckNeverWrites CheckTruth ExitTruth
PROPERTIES CheckIsPure OnlyRename
CONSTRAINT Emit
CHECK_DEADLOCK FALSE
