CONSTANTS
  Variant = "all"
INIT Init
NEXT Next
INVARIANTS TypeOK AtomicIntended ParseFailSafe CheckNeverWrites CheckTruth ExitTruth
PROPERTIES CheckIsPure OnlyRename
CONSTRAINT Emit
CONSTRAINT Refuted
CHECK_DEADLOCK FALSE
