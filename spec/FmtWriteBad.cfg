CONSTANTS
  Variant = "@VARIANT@"
INIT Init
NEXT Next
INVARIANTS TypeOK Atomic
CHECK_DEADLOCK FALSE
