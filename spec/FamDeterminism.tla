--------------------------- MODULE FamDeterminism ---------------------------
(***************************************************************************)
(* Family for C08: programs that put two or more entries through every      *)
(* place where the implementation enumerates a Go map (see GoMapFold.tla):  *)
(* several unused variables in one scope, map literals whose values have    *)
(* different types / are variables / have side effects, maps compared and   *)
(* printed, font property maps with several bad properties, several         *)
(* handlers.  Every program - accepted or rejected - is parsed, formatted   *)
(* and run many times; everything observable must be identical.             *)
(***************************************************************************)
EXTENDS EvySeeds, Json, TLC

CONSTANT Tier
VARIABLE pr

K(c) == <<c>>
TyOf == [x |-> TArr(T_num), s |-> T_str, n |-> T_num]
\* values for map literals: variables, literals, empties, calls with effects
TNsig == Sig(<<T_num>>, <<>>, T_num)
Tr(i) == ECallU("tr", TNsig, <<Num(i)>>)
TrDef == FuncDef("tr", <<Param("i", T_num)>>, <<>>, T_num, <<Pr(<<EStr(<<116>>), EVar("i", T_num)>>), SRetV(EVar("i", T_num), T_num)>>)
Vals == << EVar("x", TArr(T_num)), EArr(<<Num(1)>>), EArr(<<>>), EArr(<<EStr(<<97>>)>>), Num(1), EStr(<<115>>), EMap(<<>>, <<>>), EVar("n", T_num) >>
Keys == << K(97), K(98), K(99), K(100) >>

MapLitProg(i, j, k) ==
  [Program(<<SInfer("x", EArr(<<Num(1)>>)), SInfer("n", Num(5)),
             SInfer("m", EMap(SubSeq(Keys, 1, 3), <<Vals[i], Vals[j], Vals[k]>>)),
             Pr(<<ECallB("typeof", <<EVar("m", TMap(T_any))>>), EVar("m", TMap(T_any)), EVar("x", TArr(T_num)), EVar("n", T_num)>>)>>, <<>>, <<>>) EXCEPT !.fl = TRUE]
MapLits == {MapLitProg(i, j, k) : i \in DOMAIN Vals, j \in DOMAIN Vals, k \in DOMAIN Vals}

\* map literal values with side effects: evaluation order
EffProgs == { [Program(<<SInfer("m", EMap(Keys, <<Tr(1), Tr(2), Tr(3), Tr(4)>>)), Pr(<<EVar("m", TMap(T_num))>>),
                          SFor("k", "map", <<EVar("m", TMap(T_num))>>, <<Pr(<<EVar("k", T_str)>>)>>),
                          Pr(<<EBin("==", EVar("m", TMap(T_num)), EMap(<<K(100), K(99), K(98), K(97)>>, <<Num(4), Num(3), Num(2), Num(1)>>)),
                               ECallB("repr", <<EVar("m", TMap(T_num))>>), ECallB("sprint", <<EVar("m", TMap(T_num))>>)>>),
                          SCall(ECallB("test", <<EMap(<<K(98), K(97)>>, <<Num(2), Num(1)>>), EMap(<<K(97), K(98)>>, <<Num(1), Num(3)>>)>>))>>, <<TrDef>>, <<>>) EXCEPT !.fl = TRUE] }

\* several unused variables in one scope: top level, function body, nested block
Unused(n, where) ==
  LET decls == [i \in 1..n |-> SInfer(<<"u1", "u2", "u3", "u4", "u5">>[i], Num(i))]
  IN CASE where = "top" -> Program(<<Pr(<<Num(0)>>)>> \o decls, <<>>, <<>>)
       [] where = "block" -> Program(<<SIf(<<EBool(TRUE)>>, << decls \o <<Pr(<<Num(0)>>)>> >>, <<>>)>>, <<>>, <<>>)
       [] OTHER -> Program(<<SCall(ECallU("f", Sig(<<>>, <<>>, T_none), <<>>))>>, <<FuncDef("f", <<>>, <<>>, T_none, decls \o <<Pr(<<Num(0)>>)>>)>>, <<>>)
\* unused parameters: several diagnostics on ONE line
UnusedParams(n, how) ==
  LET ps == [i \in 1..n |-> Param(<<"p1", "p2", "p3", "p4">>[i], T_num)]
  IN IF how = "func" THEN Program(<<SCall(ECallU("f", Sig([i \in 1..n |-> T_num], <<>>, T_none), [i \in 1..n |-> Num(i)]))>>,
                                  <<FuncDef("f", ps, <<>>, T_none, <<Pr(<<Num(0)>>)>>)>>, <<>>)
     ELSE Program(<<Pr(<<Num(0)>>)>>, <<>>, <<Handler("down", <<Param("x", T_num), Param("y", T_num)>>, <<Pr(<<Num(1)>>)>>)>>)
UnusedProgs == {Unused(n, w) : n \in 2..5, w \in {"top", "block", "func"}} \cup {UnusedParams(n, "func") : n \in 2..4} \cup {UnusedParams(2, "on")}

\* copies of maps made by array repetition keep their key order
RepMapProgs ==
  LET m == EVar("m", TMap(T_num))
      arr == EVar("arr", TArr(TMap(T_num)))
  IN { Program(<<SInfer("m", EMap(<<K(100), K(98), K(97), K(99), K(101)>>, <<Num(4), Num(2), Num(1), Num(3), Num(5)>>)),
                 SInfer("arr", EBin("*", EArr(<<m>>), Num(3))), Pr(<<arr>>),
                 SFor("k", "map", <<EIdx(arr, Num(1))>>, <<Pr(<<EVar("k", T_str)>>)>>),
                 Pr(<<ECallB("repr", <<EIdx(arr, Num(2))>>), EBin("==", EIdx(arr, Num(0)), m)>>)>>, <<>>, <<>>),
       Program(<<SInfer("arr", EBin("*", EArr(<<EArr(<<EMap(<<K(122), K(121), K(120)>>, <<Num(1), Num(2), Num(3)>>)>>)>>), Num(2))),
                 Pr(<<arr>>), SCall(ECallB("font", <<EIdx(EIdx(EVar("arr", TArr(TArr(TMap(T_any)))), Num(1)), Num(0))>>))>>, <<>>, <<>>) }

\* font with several bad properties; several handlers; several other errors in one program
S(cp) == EStr(cp)
FontProgs ==
  { Program(<<Pr(<<Num(1)>>), SCall(ECallB("font", <<EMap(ks, vs)>>)), Pr(<<Num(2)>>)>>, <<>>, <<>>) :
      ks \in { << <<115, 105, 122, 101>>, <<119, 101, 105, 103, 104, 116>>, <<102, 97, 109, 105, 108, 121>> >> },
      vs \in { <<EUn("-", Num(1)), Num(0), Num(5)>>, <<S(<<120>>), S(<<121>>), Num(1)>>, <<Num(12), Num(400), S(<<115>>)>>, <<EUn("-", Num(1)), S(<<120>>), EBool(TRUE)>> } }
  \cup { Program(<<SCall(ECallB("font", <<EMap(<< <<120, 120>>, <<121, 121>>, <<122, 122>> >>, <<Num(1), Num(2), Num(3)>>)>>))>>, <<>>, <<>>) }
ManyErrors ==
  { Program(<<Raw(<<"a := 1">>), Raw(<<"b := \"s\"">>), Raw(<<"c := a + b">>), Raw(<<"d := zz">>), Raw(<<"print (len 1 2)">>), Raw(<<"e := [1] + {}">>)>>, <<>>, <<>>),
    [Seed(NoIns) EXCEPT !.hs = <<Handler("key", <<>>, <<Pr(<<Num(1)>>)>>), Handler("down", <<>>, <<Pr(<<Num(2)>>)>>),
                                 Handler("up", <<>>, <<Pr(<<Num(3)>>)>>), Handler("animate", <<>>, <<Pr(<<Num(4)>>)>>)>>] }

\* the random seed is the only source of the rand / rand1 values; nothing a run leaves behind (err, errmsg, the
\* position in the random stream, test counts) is seen by the next run: every program reads the state first and
\* changes it last
StateProgs ==
  { Program(<<Raw(<<"print (rand 1000) (rand1) (rand 7) (rand1) (rand1)">>), Raw(<<"for range 3">>), Raw(<<"    print (rand1) (rand 100)">>), Raw(<<"end">>)>>, <<>>, <<>>),
    Program(<<Raw(<<"print (rand1)">>)>>, <<>>, <<>>),
    Program(<<Raw(<<"print err \"[\"+errmsg+\"]\"">>), Raw(<<"n := str2num \"12x\"">>), Raw(<<"print n err errmsg">>)>>, <<>>, <<>>),
    Program(<<Raw(<<"print err errmsg (rand 50)">>), Raw(<<"b := str2bool \"maybe\"">>), Raw(<<"print b err errmsg (rand1)">>),
              Raw(<<"test 1 2">>), Raw(<<"test true">>)>>, <<>>, <<>>),
    Program(<<Raw(<<"ok := str2num \"1\"">>), Raw(<<"print ok err \"[\"+errmsg+\"]\"">>), Raw(<<"bad := str2num \"x\"">>), Raw(<<"print bad">>),
              Raw(<<"on key k:string">>), Raw(<<"    print k err errmsg (rand 9)">>), Raw(<<"    z := str2num k">>), Raw(<<"    print z err">>), Raw(<<"end">>)>>, <<>>, <<>>) }

\* several definitions that clash with predefined names (rejected before anything else is parsed); format verbs
\* applied to composite arguments (whatever text that gives, it is the same text every time)
ClashProgs ==
  { Program(<<Raw(<<"func len s:string">>), Raw(<<"    print s">>), Raw(<<"end">>), Raw(<<"func abs n:num">>), Raw(<<"    print n">>), Raw(<<"end">>),
              Raw(<<"func join a:[]string">>), Raw(<<"    print a">>), Raw(<<"end">>), Raw(<<"func pi">>), Raw(<<"    print 3">>), Raw(<<"end">>),
              Raw(<<"func err">>), Raw(<<"    print 1">>), Raw(<<"end">>), Raw(<<"func print">>), Raw(<<"    cls">>), Raw(<<"end">>), Raw(<<"len \"x\"">>)>>, <<>>, <<>>),
    Program(<<Raw(<<"func f">>), Raw(<<"    print 1">>), Raw(<<"end">>), Raw(<<"func f">>), Raw(<<"    print 2">>), Raw(<<"end">>), Raw(<<"func g x:num x:num">>), Raw(<<"    print x">>), Raw(<<"end">>),
              Raw(<<"func h:bad">>), Raw(<<"end">>), Raw(<<"func k y:bad z:worse">>), Raw(<<"end">>), Raw(<<"on key">>), Raw(<<"end">>), Raw(<<"on key">>), Raw(<<"end">>), Raw(<<"on nokey">>), Raw(<<"end">>)>>, <<>>, <<>>),
    Program(<<Raw(<<"a := [21.5 19]">>), Raw(<<"m := {k:[1 2] j:{x:true}}">>), Raw(<<"printf \"%f %t %d %x %p %e %c %U %b %o %T\\n\" a a a a a a a a a a a">>),
              Raw(<<"printf \"%f %d %p %x %#v %+v %6.2f\\n\" m m m m m m m">>), Raw(<<"s := sprintf \"%d %p %#v\" a m [[1] [2]]">>), Raw(<<"print s">>),
              Raw(<<"test 1 2 \"%d %p\" a m">>)>>, <<>>, <<>>) }

Progs == ClashProgs \cup StateProgs \cup MapLits \cup EffProgs \cup RepMapProgs \cup UnusedProgs \cup FontProgs \cup ManyErrors \cup {Seed(NoIns), Seed2}
ClassOf(p) == CASE p \in ClashProgs -> "run-state" [] p \in StateProgs -> "run-state" [] p \in MapLits -> "maplit-types" [] p \in RepMapProgs -> "map-copy" [] p \in EffProgs -> "maplit-effects" [] p \in UnusedProgs -> "unused"
                [] p \in FontProgs -> "fontprops" [] OTHER -> "other"

Init == pr \in Progs
Next == FALSE /\ UNCHANGED pr
Emit == PrintT(ToJson([class |-> ClassOf(pr), src |-> RProg(pr, "canon")]))
=============================================================================
