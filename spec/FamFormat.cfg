CONSTANTS
  Tier = "@TIER@"
  Codes = @CODES@
INIT Init
NEXT Next
CONSTRAINT Emit
CHECK_DEADLOCK FALSE
