CONSTANTS
  MaxLen = @MAXLEN@
  SampleLen = @SAMPLELEN@
  Sample = @SAMPLE@
INIT Init
NEXT Next
INVARIANTS PositionsRight Tiling Progress
CONSTRAINT Emit
CHECK_DEADLOCK FALSE
