-------------------------------- MODULE EvyMap --------------------------------
(***************************************************************************)
(* The map object of Evy as a component specification (C12): an insertion-  *)
(* ordered dictionary with iterators that run over a snapshot of the keys   *)
(* taken at loop entry and skip keys deleted meanwhile.  Values are not     *)
(* modelled (EvyMachine does that); this module is about the key order and  *)
(* the iteration protocol, and is the specification the hook-recorded       *)
(* traces of real programs are validated against (EvyMapTrace.tla).         *)
(*                                                                         *)
(*   maps   sequence of [id, ks]  (ks: keys in insertion order)             *)
(*   loops  stack of active for loops: [id, snap, i] for a map range,       *)
(*          [id |-> "", snap |-> <<>>, i |-> 0] for any other loop          *)
(***************************************************************************)
EXTENDS Naturals, Sequences, FiniteSets

VARIABLES maps, loops
mapvars == <<maps, loops>>

RECURSIVE IdxOf(_, _, _)
IdxOf(s, x, i) == IF i > Len(s) THEN 0 ELSE IF s[i] = x THEN i ELSE IdxOf(s, x, i + 1)
Has(s, x) == IdxOf(s, x, 1) # 0
Without(s, x) == LET j == IdxOf(s, x, 1) IN IF j = 0 THEN s ELSE SubSeq(s, 1, j - 1) \o SubSeq(s, j + 1, Len(s))

MapIdx(id) == IdxOf([i \in DOMAIN maps |-> maps[i].id], id, 1)
Known(id) == MapIdx(id) # 0
KeysOf(id) == maps[MapIdx(id)].ks
SetKeys(id, ks) == [maps EXCEPT ![MapIdx(id)].ks = ks]

MInit == maps = <<>> /\ loops = <<>>

\* a map literal / zero value creates a new object (an id seen for the first time)
\* (an id - an address - may be reused after the earlier object has become garbage: the new object replaces it)
NewMap(id, ks) == /\ maps' = IF Known(id) THEN SetKeys(id, ks) ELSE Append(maps, [id |-> id, ks |-> ks])
                  /\ UNCHANGED loops
\* m[k] = v / m.k = v : overwrite keeps the position, a new key goes last
SetKey(id, k) == Known(id) /\ maps' = SetKeys(id, IF Has(KeysOf(id), k) THEN KeysOf(id) ELSE Append(KeysOf(id), k)) /\ UNCHANGED loops
\* del m k : no-op for a missing key
Delete(id, k) == Known(id) /\ maps' = SetKeys(id, Without(KeysOf(id), k)) /\ UNCHANGED loops

\* loops
ForEnter == loops' = Append(loops, [id |-> "", snap |-> <<>>, i |-> 0]) /\ UNCHANGED maps
RangeStart(id) == /\ Known(id) /\ Len(loops) > 0 /\ loops[Len(loops)].id = ""
                  /\ loops' = [loops EXCEPT ![Len(loops)] = [id |-> id, snap |-> KeysOf(id), i |-> 1]]
                  /\ UNCHANGED maps
\* next snapshot key from position i that is still present
RECURSIVE NextLive(_, _, _)
NextLive(snap, cur, i) == IF i > Len(snap) THEN 0 ELSE IF Has(cur, snap[i]) THEN i ELSE NextLive(snap, cur, i + 1)
RangeNext(id, k) == /\ Len(loops) > 0 /\ loops[Len(loops)].id = id /\ Known(id)
                    /\ LET L == loops[Len(loops)]
                           j == NextLive(L.snap, KeysOf(id), L.i)
                       IN j # 0 /\ L.snap[j] = k /\ loops' = [loops EXCEPT ![Len(loops)].i = j + 1]
                    /\ UNCHANGED maps
RangeEnd(id) == /\ Len(loops) > 0 /\ loops[Len(loops)].id = id /\ Known(id)
                /\ NextLive(loops[Len(loops)].snap, KeysOf(id), loops[Len(loops)].i) = 0
                /\ loops' = [loops EXCEPT ![Len(loops)].i = Len(loops[Len(loops)].snap) + 1]
                /\ UNCHANGED maps
ForExit == Len(loops) > 0 /\ loops' = SubSeq(loops, 1, Len(loops) - 1) /\ UNCHANGED maps

\* every map keeps its keys without duplicates
NoDup(s) == \A i, j \in DOMAIN s : i # j => s[i] # s[j]
MapsWF == \A m \in DOMAIN maps : NoDup(maps[m].ks)
\* an iterator never points outside its snapshot and its snapshot has no duplicates
LoopsWF == \A l \in DOMAIN loops : loops[l].id # "" => (NoDup(loops[l].snap) /\ loops[l].i <= Len(loops[l].snap) + 1)
=============================================================================
