----------------------------- MODULE FamCompile -----------------------------
(***************************************************************************)
(* Family for C16: top-level programs without user functions whose results  *)
(* end up in global variables.  The machine gives the final value of every  *)
(* global (or the panic class); the harness compares three ways: machine,   *)
(* tree-walking evaluator, compiler + VM.  A compile-time rejection is      *)
(* always acceptable; a statement silently left out shows as a missing or   *)
(* different global.                                                        *)
(***************************************************************************)
EXTENDS EvyMachine

CONSTANT Tier

Num(n) == ENum(I(n))
NumE(v) == IF IsNeg(v) THEN EUn("-", ENum(NumNeg(v))) ELSE ENum(v)
\* every top-level variable is used once at the end (v = v), as the language requires
RECURSIVE Uses(_)
Uses(ss) == IF Len(ss) = 0 THEN <<>>
            ELSE (CASE ss[1].k = "infer" -> <<SAsg(EVar(ss[1].nm, ss[1].x.ty), EVar(ss[1].nm, ss[1].x.ty))>>
                    [] ss[1].k = "decl"  -> <<SAsg(EVar(ss[1].nm, ss[1].ty), EVar(ss[1].nm, ss[1].ty))>>
                    [] OTHER -> <<>>) \o Uses(Tail(ss))
P1(ss) == Program(ss \o Uses(ss), <<>>, <<>>)
R(e) == P1(<<SInfer("r", e)>>)

Arith == {"+", "-", "*", "/", "%"}
Cmp   == {"<", "<=", ">", ">="}
Eq    == {"==", "!="}
NumLits == {I(0), I(1), I(2), I(7), Fin(1, 1), Fin(5, 2), NumNeg(I(3))}
StrLits == {<<>>, <<97>>, <<97, 98>>, <<98>>, <<228>>, <<97, 228, 8364>>, <<65>>}
Exprs ==
  {EBin(op, NumE(a), NumE(b)) : op \in Arith \cup Cmp \cup Eq, a \in NumLits, b \in NumLits}
  \cup {EBin(op, EStr(a), EStr(b)) : op \in {"+"} \cup Cmp \cup Eq, a \in StrLits, b \in StrLits}
  \cup {EBin(op, EBool(a), EBool(b)) : op \in {"and", "or", "==", "!="}, a \in BOOLEAN, b \in BOOLEAN}
  \cup {EUn("!", EBool(a)) : a \in BOOLEAN} \cup {EUn("-", Num(2)), EUn("-", EGrp(EBin("-", Num(1), Num(3))))}
  \cup {EBin(o1, EBin(o2, Num(8), Num(2)), Num(4)) : o1 \in Arith, o2 \in Arith}
  \cup {EBin(o1, Num(8), EBin(o2, Num(2), Num(4))) : o1 \in Arith, o2 \in Arith}
  \cup {EBin(o1, EBin(o2, Num(3), Num(2)), EBin("*", Num(2), Num(2))) : o1 \in Cmp \cup Eq, o2 \in {"+", "*"}}
  \cup {EBin(o1, EBin("<", Num(1), Num(2)), EBin(o2, EBool(a), EBool(FALSE))) : o1 \in {"and", "or"}, o2 \in {"and", "or"}, a \in BOOLEAN}

NumArrs == {EArr(<<Num(1)>>), EArr(<<Num(1), Num(2)>>), EArr(<<Num(2), Num(1)>>), EArr(<<Num(1), Num(2), Num(3)>>)}
ArrExprs ==
  {EBin(op, a, b) : op \in {"+", "==", "!="}, a \in NumArrs, b \in NumArrs}
  \cup {EBin("*", a, NumE(n)) : a \in NumArrs, n \in {I(0), I(1), I(2), Fin(1, 1), NumNeg(I(1))}}
  \cup {EBin("==", EMap(<<<<97>>, <<98>>>>, <<Num(1), Num(2)>>), EMap(<<<<98>>, <<97>>>>, <<Num(2), Num(1)>>)),
        EBin("==", EMap(<<<<97>>>>, <<Num(1)>>), EMap(<<<<97>>>>, <<Num(2)>>)),
        EArr(<<EArr(<<Num(1)>>), EArr(<<Num(2), Num(3)>>)>>), EMap(<<<<97>>, <<98>>>>, <<EArr(<<Num(1)>>), EArr(<<Num(2)>>)>>),
        EArr(<<EStr(<<97>>), EStr(<<228>>)>>), EArr(<<EBool(TRUE)>>)}

\* index and slice on arrays and strings
A3 == EArr(<<Num(10), Num(20), Num(30)>>)
S4 == EStr(<<97, 228, 8364, 98>>)
IdxVals == {I(-4), I(-3), I(-1), I(0), I(2), I(3), Fin(1, 1)}
IdxArrRead == {P1(<<SInfer("a", A3), SInfer("r", EIdx(EVar("a", TArr(T_num)), NumE(i)))>>) : i \in IdxVals}
IdxStrRead == {P1(<<SInfer("s", S4), SInfer("r", EIdx(EVar("s", T_str), NumE(i)))>>) : i \in IdxVals \cup {I(-5), I(4)}}
IdxAsciiRead == {P1(<<SInfer("s", EStr(<<97, 98, 99>>)), SInfer("r", EIdx(EVar("s", T_str), NumE(i)))>>) : i \in IdxVals}
IdxArrStore == {P1(<<SInfer("a", A3), SAsg(EIdx(EVar("a", TArr(T_num)), NumE(i)), Num(99))>>) : i \in IdxVals}
IdxArrSlice == {P1(<<SInfer("a", A3), SInfer("r", ESlice(EVar("a", TArr(T_num)), lo, hi))>>) :
                  lo \in {<<>>, <<Num(1)>>, <<EUn("-", Num(1))>>, <<Num(4)>>}, hi \in {<<>>, <<Num(2)>>, <<Num(0)>>, <<EUn("-", Num(1))>>}}
IdxStrSlice == {P1(<<SInfer("s", S4), SInfer("r", ESlice(EVar("s", T_str), lo, hi))>>) :
                  lo \in {<<>>, <<Num(1)>>, <<EUn("-", Num(1))>>}, hi \in {<<>>, <<Num(2)>>, <<Num(0)>>, <<Num(5)>>}}
IdxAsciiSlice == {P1(<<SInfer("s", EStr(<<97, 98, 99>>)), SInfer("r", ESlice(EVar("s", T_str), lo, hi))>>) :
                  lo \in {<<>>, <<Num(1)>>, <<EUn("-", Num(1))>>}, hi \in {<<>>, <<Num(2)>>, <<Num(0)>>, <<Num(5)>>}}
IdxAlias == {P1(<<SInfer("a", A3), SInfer("b", EVar("a", TArr(T_num))), SAsg(EIdx(EVar("a", TArr(T_num)), Num(0)), Num(9)),
                  SInfer("c", ESlice(EVar("a", TArr(T_num)), <<>>, <<>>)), SAsg(EIdx(EVar("c", TArr(T_num)), Num(1)), Num(8))>>)}

\* maps
M == EVar("m", TMap(T_num))
MapProgs ==
  {P1(<<SInfer("m", EMap(<<<<97>>, <<98>>>>, <<Num(1), Num(2)>>))>> \o ops) :
     ops \in { <<SAsg(EIdx(M, EStr(<<99>>)), Num(3))>>,
               <<SAsg(EIdx(M, EStr(<<97>>)), Num(5))>>,
               <<SAsg(EIdx(M, EStr(<<97>>)), Num(5)), SAsg(EIdx(M, EStr(<<99>>)), Num(6)), SAsg(EIdx(M, EStr(<<97>>)), Num(7))>>,
               <<SInfer("r", EIdx(M, EStr(<<98>>)))>>, <<SInfer("r", EDot(M, <<97>>))>>, <<SInfer("r", EIdx(M, EStr(<<122>>)))>>,
               <<SInfer("n", M), SAsg(EIdx(EVar("n", TMap(T_num)), EStr(<<100>>)), Num(4)), SAsg(EIdx(M, EStr(<<98>>)), Num(0))>>,
               <<SInfer("k", EStr(<<>>)), SFor("e", "map", <<M>>, <<SAsg(EVar("k", T_str), EBin("+", EVar("k", T_str), EVar("e", T_str)))>>)>>,
               <<SAsg(EIdx(M, EStr(<<98>>)), Num(9)), SInfer("k", EStr(<<>>)), SFor("e", "map", <<M>>, <<SAsg(EVar("k", T_str), EBin("+", EVar("k", T_str), EVar("e", T_str)))>>)>> }}

\* control flow with accumulators
Acc == EVar("acc", T_num)
IV == EVar("i", T_num)
Str == EVar("s", T_str)
RangeVals == {I(-2), Fin(-1, 1), I(0), Fin(1, 1), I(1), I(3)}
CtlNumRange ==
  {P1(<<SInfer("acc", Num(0)), SFor("i", "num", xs, <<SAsg(Acc, EBin("+", EBin("*", Acc, Num(2)), IV))>>)>>) :
      xs \in {<<NumE(a)>> : a \in RangeVals} \cup {<<NumE(a), NumE(b)>> : a \in RangeVals, b \in RangeVals}
             \cup {<<NumE(a), NumE(b), NumE(c)>> : a \in {I(0), I(3)}, b \in {I(0), I(2)}, c \in RangeVals}}
CtlStrRange ==
  {P1(<<SInfer("s", EStr(<<>>)), SFor("c", "str", <<EStr(cp)>>, <<SAsg(Str, EBin("+", EBin("+", Str, EVar("c", T_str)), EStr(<<45>>)))>>)>>) :
          cp \in {<<>>, <<97, 98>>, <<97, 228, 8364>>}}
CtlOther ==
  {P1(<<SInfer("acc", Num(0)), SFor("e", "arr", <<EArr(<<Num(4), Num(5), Num(6)>>)>>, <<SAsg(Acc, EBin("+", EBin("*", Acc, Num(10)), EVar("e", T_num)))>>)>>),
        P1(<<SInfer("acc", Num(0)), SInfer("w", Num(0)),
             SWhile(EBin("<", EVar("w", T_num), Num(4)), <<SAsg(EVar("w", T_num), EBin("+", EVar("w", T_num), Num(1))), SAsg(Acc, EBin("+", Acc, EVar("w", T_num)))>>)>>),
        P1(<<SInfer("acc", Num(0)),
             SFor("i", "num", <<Num(4)>>, <<SIf(<<EBin("==", IV, Num(2))>>, <<<<SBrk>>>>, <<>>), SAsg(Acc, EBin("+", Acc, Num(1)))>>)>>),
        P1(<<SInfer("acc", Num(0)),
             SFor("i", "num", <<Num(3)>>,
                <<SFor("j", "num", <<Num(3)>>, <<SIf(<<EBin("==", EVar("j", T_num), Num(1))>>, <<<<SBrk>>>>, <<>>), SAsg(Acc, EBin("+", Acc, Num(1)))>>),
                  SIf(<<EBin("==", IV, Num(1))>>, <<<<SBrk>>>>, <<>>), SAsg(Acc, EBin("+", Acc, Num(10)))>>)>>),
        P1(<<SInfer("acc", Num(0)), SInfer("w", Num(0)),
             SWhile(EBool(TRUE), <<SAsg(EVar("w", T_num), EBin("+", EVar("w", T_num), Num(1))), SIf(<<EBin(">", EVar("w", T_num), Num(3))>>, <<<<SBrk>>>>, <<>>), SAsg(Acc, EBin("+", Acc, EVar("w", T_num)))>>)>>),
        \* an outer break textually BEFORE a nested loop that also breaks (for in for, for in while)
        P1(<<SInfer("acc", Num(0)),
             SFor("i", "num", <<Num(4)>>,
                <<SIf(<<EBin("==", IV, Num(2))>>, <<<<SBrk>>>>, <<>>),
                  SFor("j", "num", <<Num(3)>>, <<SIf(<<EBin("==", EVar("j", T_num), Num(1))>>, <<<<SBrk>>>>, <<>>), SAsg(Acc, EBin("+", Acc, Num(1)))>>),
                  SAsg(Acc, EBin("+", Acc, Num(10)))>>),
             SInfer("done", EBool(TRUE))>>),
        P1(<<SInfer("acc", Num(0)), SInfer("w", Num(0)),
             SWhile(EBool(TRUE),
                <<SAsg(EVar("w", T_num), EBin("+", EVar("w", T_num), Num(1))), SIf(<<EBin(">", EVar("w", T_num), Num(2))>>, <<<<SBrk>>>>, <<>>),
                  SFor("e", "arr", <<EArr(<<Num(5), Num(6), Num(7)>>)>>, <<SIf(<<EBin("==", EVar("e", T_num), Num(6))>>, <<<<SBrk>>>>, <<>>), SAsg(Acc, EBin("+", Acc, EVar("e", T_num)))>>),
                  SAsg(Acc, EBin("+", Acc, Num(100)))>>),
             SInfer("done", EBool(TRUE))>>),
        \* concatenation gives fresh arrays: results never alias their operands or each other
        P1(<<SInfer("a", EArr(<<Num(1), Num(2), Num(3), Num(4)>>)), SInfer("b", EBin("+", EVar("a", TArr(T_num)), EArr(<<Num(5)>>))),
             SInfer("c", EBin("+", EVar("b", TArr(T_num)), EArr(<<Num(6)>>))), SInfer("d", EBin("+", EVar("b", TArr(T_num)), EArr(<<Num(7)>>))),
             SInfer("e", EBin("+", EVar("a", TArr(T_num)), EArr(<<>>))), SAsg(EIdx(EVar("a", TArr(T_num)), Num(0)), Num(100)),
             SAsg(EIdx(EVar("c", TArr(T_num)), Num(1)), Num(200)), SInfer("f", EBin("+", EVar("c", TArr(T_num)), EVar("c", TArr(T_num))))>>),
        \* block-local variables in nested blocks, shadowing
        P1(<<SInfer("acc", Num(0)), SInfer("x", Num(1)),
             SIf(<<EBool(TRUE)>>, <<<<SInfer("t", Num(5)), SInfer("x", Num(2)), SIf(<<EBool(TRUE)>>, <<<<SInfer("u", Num(7)), SAsg(Acc, EBin("+", EBin("+", EVar("t", T_num), EVar("u", T_num)), EVar("x", T_num)))>>>>, <<>>)>>>>, <<>>),
             SIf(<<EBool(TRUE)>>, <<<<SInfer("v", Num(100)), SAsg(Acc, EBin("+", Acc, EBin("+", EVar("v", T_num), EVar("x", T_num))))>>>>, <<>>)>>),
        P1(<<SInfer("acc", Num(0)),
             SFor("i", "num", <<Num(2)>>, <<SInfer("t", EBin("*", IV, Num(10))), SFor("j", "num", <<Num(2)>>, <<SInfer("u", EBin("+", EVar("t", T_num), EVar("j", T_num))), SAsg(Acc, EBin("+", Acc, EVar("u", T_num)))>>)>>)>>)}
CtlIf ==
  {P1(<<SInfer("r", Num(0)), SIf(<<EBin("<", NumE(a), Num(0)), EBin("==", NumE(a), Num(0))>>, <<<<SAsg(EVar("r", T_num), Num(1))>>, <<SAsg(EVar("r", T_num), Num(2))>>>>, el)>>) :
          a \in {I(-1), I(0), I(1)}, el \in {<<>>, <<<<SAsg(EVar("r", T_num), Num(3))>>>>}}

\* one minimal program per node kind the compiler may not support: either a compile error or the right globals
Kinds ==
  { P1(<<SDecl("x", T_num), SAsg(EVar("x", T_num), Num(5))>>),
    P1(<<SDecl("x", T_str), SInfer("y", EBin("+", EVar("x", T_str), EStr(<<97>>)))>>),
    P1(<<SDecl("a", TArr(T_num)), SInfer("n", EBin("+", EVar("a", TArr(T_num)), EArr(<<Num(1)>>)))>>),
    P1(<<SInfer("m", EMap(<<<<97>>>>, <<Num(1)>>)), SAsg(EDot(M, <<97>>), Num(2))>>),
    P1(<<SInfer("m", EMap(<<<<97>>>>, <<Num(1)>>)), SAsg(EDot(M, <<98>>), Num(2)), SInfer("r", EDot(M, <<98>>))>>),
    P1(<<SDecl("x", T_any), SAsg(EVar("x", T_any), Num(1)), SInfer("y", EAssert(EVar("x", T_any), T_num))>>),
    P1(<<SInfer("a", EArr(<<Num(1), EStr(<<97>>)>>)), SInfer("n", EIdx(EVar("a", TArr(T_any)), Num(0)))>>),
    P1(<<SInfer("x", Num(1)), SCall(ECallB("print", <<EVar("x", T_num)>>)), SAsg(EVar("x", T_num), Num(2))>>),
    P1(<<SInfer("n", ECallB("len", <<EStr(<<97, 98>>)>>))>>),
    P1(<<SInfer("s", ECallB("sprint", <<Num(1), Num(2)>>))>>),
    P1(<<SInfer("x", EArr(<<>>)), SInfer("y", EMap(<<>>, <<>>))>>),
    P1(<<SInfer("x", Num(1)), SIf(<<EBool(TRUE)>>, <<<<SCall(ECallB("exit", <<Num(0)>>))>>>>, <<>>), SAsg(EVar("x", T_num), Num(2))>>),
    Program(<<SInfer("x", Num(1)), SCall(ECallU("f", Sig(<<>>, <<>>, T_none), <<>>)), SAsg(EVar("x", T_num), EVar("x", T_num))>>,
            <<FuncDef("f", <<>>, <<>>, T_none, <<SInfer("y", Num(2)), SCall(ECallB("print", <<EVar("y", T_num)>>))>>)>>, <<>>),
    Program(<<SInfer("x", ECallU("g", Sig(<<T_num>>, <<>>, T_num), <<Num(2)>>)), SAsg(EVar("x", T_num), EVar("x", T_num))>>,
            <<FuncDef("g", <<Param("n", T_num)>>, <<>>, T_num, <<SRetV(EBin("*", EVar("n", T_num), Num(2)), T_num)>>)>>, <<>>) }

\* constants of different types that print alike (0 and "0", 2.5 and "2.5", true and "true"), each used where its
\* type matters, in both textual orders: a constant keeps its own type and value wherever it is stored
Clash == { [n |-> I(0), cp |-> <<48>>], [n |-> I(1), cp |-> <<49>>], [n |-> I(2), cp |-> <<50>>], [n |-> I(12), cp |-> <<49, 50>>], [n |-> Fin(5, 1), cp |-> <<50, 46, 53>>] }
ClashNum(c) == <<SInfer("a", ENum(c.n)), SInfer("u", EBin("+", EVar("a", T_num), ENum(c.n))),
                 SInfer("w", EBin("+", EIdx(EArr(<<ENum(c.n), Num(7)>>), Num(0)), EVar("a", T_num))), SInfer("f", EBin("==", EVar("a", T_num), ENum(c.n)))>>
ClashStr(c) == <<SInfer("s", EStr(c.cp)), SInfer("t", EBin("+", EVar("s", T_str), EStr(<<120>>))), SInfer("cnt", Num(0)),
                 SFor("ch", "str", <<EStr(c.cp)>>, <<SAsg(EVar("cnt", T_num), EBin("+", EVar("cnt", T_num), Num(1))), SAsg(EVar("t", T_str), EBin("+", EVar("t", T_str), EVar("ch", T_str)))>>),
                 SInfer("m", EMap(<<<<107>>>>, <<EStr(c.cp)>>)), SInfer("v", EBin("+", EDot(EVar("m", TMap(T_str)), <<107>>), EVar("s", T_str))),
                 SInfer("e", EBin("==", EVar("s", T_str), EStr(c.cp))), SInfer("lt", EBin("<", EStr(c.cp), EStr(<<57>>)))>>
ClashBool == { P1(<<SInfer("b", EBool(TRUE)), SInfer("s", EStr(<<116, 114, 117, 101>>)), SInfer("t", EBin("+", EVar("s", T_str), EStr(<<33>>))), SInfer("c", EBin("and", EVar("b", T_bool), EBool(TRUE)))>>),
               P1(<<SInfer("s", EStr(<<102, 97, 108, 115, 101>>)), SInfer("b", EBool(FALSE)), SInfer("c", EBin("or", EVar("b", T_bool), EBool(FALSE))), SInfer("t", EBin("+", EStr(<<102, 97, 108, 115, 101>>), EVar("s", T_str)))>>) }
ClashProgs == {P1(ClashNum(c) \o ClashStr(c)) : c \in Clash} \cup {P1(ClashStr(c) \o ClashNum(c)) : c \in Clash} \cup ClashBool
              \cup {P1(<<SInfer("s", EStr(c.cp)), SInfer("cnt", Num(0)), SFor("", "str", <<EVar("s", T_str)>>, <<SAsg(EVar("cnt", T_num), EBin("+", EVar("cnt", T_num), Num(1)))>>),
                          SFor("e", "arr", <<EArr(<<ENum(c.n), ENum(c.n)>>)>>, <<SAsg(EVar("cnt", T_num), EBin("+", EVar("cnt", T_num), EVar("e", T_num)))>>)>>) : c \in Clash}

\* a loop variable is a variable of the for statement: one with the name of a variable outside the loop leaves that
\* variable alone (all four kinds of range; the outer variable read in the loop header, in the body, after the loop)
LoopShadow ==
  LET K == EVar("k", T_num)   KS == EVar("k", T_str)   A == EVar("acc", T_num)   SA == EVar("sacc", T_str)
  IN { P1(<<SInfer("k", Num(5)), SInfer("acc", Num(0)), SFor("k", "num", <<Num(3)>>, <<SAsg(A, EBin("+", A, K))>>), SInfer("r", K)>>),
       P1(<<SInfer("k", Num(5)), SInfer("acc", Num(0)), SFor("k", "arr", <<EArr(<<Num(7), Num(8)>>)>>, <<SAsg(A, EBin("+", A, K))>>), SInfer("r", K)>>),
       P1(<<SInfer("k", EStr(<<122>>)), SInfer("sacc", EStr(<<>>)), SFor("k", "str", <<EStr(<<97, 98>>)>>, <<SAsg(SA, EBin("+", SA, KS))>>), SInfer("r", KS)>>),
       P1(<<SInfer("k", EStr(<<122>>)), SInfer("sacc", EStr(<<>>)), SFor("k", "map", <<EMap(<<<<97>>, <<98>>>>, <<Num(1), Num(2)>>)>>, <<SAsg(SA, EBin("+", SA, KS))>>), SInfer("r", KS)>>),
       P1(<<SInfer("k", Num(5)), SInfer("acc", Num(0)),
            SIf(<<EBool(TRUE)>>, <<<<SFor("k", "num", <<Num(2)>>, <<SAsg(A, EBin("+", A, K))>>), SAsg(A, EBin("+", EBin("*", A, Num(10)), K))>>>>, <<>>), SInfer("r", K)>>),
       P1(<<SInfer("acc", Num(0)), SFor("k", "num", <<Num(2)>>, <<SFor("k", "num", <<Num(3)>>, <<SAsg(A, EBin("+", A, K))>>), SAsg(A, EBin("+", EBin("*", A, Num(10)), K))>>)>>) }

\* a block that first READS an outer variable and then declares one of that name: the outer one is unchanged after the block
ReadThenShadow ==
  LET Xn == EVar("x", T_num)   Ac == EVar("acc", T_num)   Lm == EVar("limit", T_num)
  IN { P1(<<SInfer("x", Num(1)), SInfer("acc", Num(0)), SIf(<<EBool(TRUE)>>, <<<<SInfer("y", EBin("+", Xn, Num(1))), SInfer("x", EBin("*", EVar("y", T_num), Num(2))), SAsg(Ac, Xn)>>>>, <<>>), SInfer("r", Xn)>>),
       P1(<<SInfer("limit", Num(10)), SInfer("acc", Num(0)),
            SFor("i", "num", <<Num(3)>>, <<SInfer("step", EBin("/", Lm, Num(5))), SInfer("limit", EBin("*", EVar("step", T_num), EVar("i", T_num))), SAsg(Ac, EBin("+", Ac, Lm))>>), SInfer("r", Lm)>>),
       P1(<<SInfer("x", Num(1)), SInfer("acc", Num(0)), SInfer("w", Num(0)),
            SWhile(EBin("<", EVar("w", T_num), Num(2)), <<SAsg(EVar("w", T_num), EBin("+", EVar("w", T_num), Num(1))), SAsg(Ac, EBin("+", Ac, Xn)), SInfer("x", Num(50)), SAsg(Ac, EBin("+", Ac, Xn))>>), SInfer("r", Xn)>>),
       P1(<<SInfer("x", Num(1)), SInfer("acc", Num(0)),
            SIf(<<EBin(">", Xn, Num(5)), EBin(">", Xn, Num(0))>>, <<<<SAsg(Ac, Num(1))>>, <<SAsg(Ac, Xn), SInfer("x", Num(7)), SIf(<<EBool(TRUE)>>, <<<<SAsg(Ac, EBin("+", Ac, Xn)), SInfer("x", Num(9)), SAsg(Ac, EBin("+", Ac, Xn))>>>>, <<>>)>>>>, <<>>), SInfer("r", Xn)>>) }
\* a branch of an if / else-if / else statement that ENDS with a nested if-break (or a bare break), inside a loop
BreakAtBranchEnd ==
  LET Iv == EVar("i", T_num)   Ev == EVar("evens", T_num)   Od == EVar("odds", T_num)
      Body(cut, els) == <<SIf(<<EBin("==", EBin("%", Iv, Num(2)), Num(0))>>,
                              <<<<SAsg(Ev, EBin("+", Ev, Num(1))), SIf(<<EBin(">", Iv, Num(cut))>>, <<<<SBrk>>>>, <<>>)>>>>, els)>>
  IN { P1(<<SInfer("evens", Num(0)), SInfer("odds", Num(0)), SFor("i", "num", <<Num(7)>>, Body(cut, <<<<SAsg(Od, EBin("+", Od, Num(1)))>>>>)), SInfer("done", EBool(TRUE))>>) : cut \in {3, 10} }
     \cup { P1(<<SInfer("evens", Num(0)), SInfer("odds", Num(0)), SInfer("i", Num(0)),
                 SWhile(EBin("<", Iv, Num(7)), <<SAsg(Iv, EBin("+", Iv, Num(1)))>> \o Body(4, <<<<SAsg(Od, EBin("+", Od, Num(1)))>>>>)), SInfer("done", EBool(TRUE))>>),
            P1(<<SInfer("evens", Num(0)), SInfer("odds", Num(0)),
                 SFor("i", "num", <<Num(7)>>, <<SIf(<<EBin("==", Iv, Num(9)), EBin("==", EBin("%", Iv, Num(2)), Num(0))>>,
                                                    <<<<SAsg(Od, Num(100))>>, <<SAsg(Ev, EBin("+", Ev, Num(1))), SIf(<<EBin("==", Iv, Num(4))>>, <<<<SBrk>>>>, <<>>)>>>>,
                                                    <<<<SAsg(Od, EBin("+", Od, Num(1)))>>>>)>>), SInfer("done", EBool(TRUE))>>) }

FamCases == {MkCase("FamCompile", "expr", R(e)) : e \in Exprs \cup ArrExprs} \cup {MkCase("FamCompile", "constant-clash", p) : p \in ClashProgs}
            \cup {MkCase("FamCompile", "read-then-shadow", p) : p \in ReadThenShadow} \cup {MkCase("FamCompile", "break-at-branch-end", p) : p \in BreakAtBranchEnd}
            \cup {MkCase("FamCompile", "nested-repeat", P1(<<SInfer("a", EBin("*", EArr(<<EArr(<<Num(1)>>)>>), Num(2))), SAsg(EIdx(EIdx(EVar("a", TArr(TArr(T_num))), Num(0)), Num(0)), Num(9))>>))}
            \cup {MkCase("FamCompile", "loop-variable-shadows", p) : p \in LoopShadow}
            \cup {MkCase("FamCompile", "index/arr-read", p) : p \in IdxArrRead} \cup {MkCase("FamCompile", "index/str-read", p) : p \in IdxStrRead}
            \cup {MkCase("FamCompile", "index/ascii-read", p) : p \in IdxAsciiRead} \cup {MkCase("FamCompile", "index/arr-store", p) : p \in IdxArrStore}
            \cup {MkCase("FamCompile", "index/arr-slice", p) : p \in IdxArrSlice} \cup {MkCase("FamCompile", "index/str-slice", p) : p \in IdxStrSlice}
            \cup {MkCase("FamCompile", "index/ascii-slice", p) : p \in IdxAsciiSlice} \cup {MkCase("FamCompile", "index/alias", p) : p \in IdxAlias}
            \cup {MkCase("FamCompile", "map", p) : p \in MapProgs}
            \cup {MkCase("FamCompile", "control/num-range", p) : p \in CtlNumRange} \cup {MkCase("FamCompile", "control/str-range", p) : p \in CtlStrRange}
            \cup {MkCase("FamCompile", "control/other", p) : p \in CtlOther} \cup {MkCase("FamCompile", "control/if", p) : p \in CtlIf}
            \cup {MkCase("FamCompile", "kind", p) : p \in Kinds}
FamInit == InitWith(FamCases)
=============================================================================
