CONSTANTS
  Tier = "@TIER@"
INIT Init
NEXT Next
CONSTRAINT Emit
CHECK_DEADLOCK FALSE
