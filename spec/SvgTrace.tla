------------------------------ MODULE SvgTrace ------------------------------
(***************************************************************************)
(* Direction B for C19: the graphics platform calls the real evaluator     *)
(* made while it ran a drawing program of the repository (recorded by the  *)
(* harness stage "svgrec" in front of the real pkg/cli/svg platform) are   *)
(* replayed as actions of Svg.tla.  Every recorded call must be a step of  *)
(* the specification (IsEvent pattern: the next event of the trace selects *)
(* the action); at the end of each trace the shapes the specification has  *)
(* on its canvas are printed, and the binding compares them with the       *)
(* flattened SVG document the same run produced.                           *)
(*                                                                         *)
(* svgtrace.ndjson: one line per program,                                  *)
(*   {"id": "...", "calls": [command records as in FamSvg.tla]}            *)
(* Numbers are integers in units of 1/(10*U) canvas unit.                  *)
(***************************************************************************)
EXTENDS Svg, Json

VARIABLES tr,   \* which trace
          i     \* events of it consumed so far

tvars == <<pen, style, tstyle, drawn, status, raw, ncmd, tr, i>>

Traces == ndJsonDeserialize("svgtrace.ndjson")

Calls == Traces[tr].calls

TraceInit == /\ TLCSet(1, 0)
             /\ SvgInit
             /\ tr \in 1..Len(Traces)
             /\ i = 0

IsEvent(c) == /\ i < Len(Calls)
              /\ c = Calls[i + 1]
              /\ i' = i + 1
              /\ UNCHANGED tr

TraceNext == \E c \in {Calls[j] : j \in {i + 1} \cap DOMAIN Calls} : IsEvent(c) /\ Step(c)

Done == i = Len(Calls) \/ status # "ok"

(* a trace is accepted iff all its calls were steps of the specification   *)
(* (a call after the specification panicked has no step)                   *)
Report == [id |-> Traces[tr].id, consumed |-> i, total |-> Len(Calls), outcome |-> status,
           drawn |-> [j \in 1..Len(drawn) |-> Slim(SubSeq(Calls, 1, i), drawn[j])]]

Emit == Done => (PrintT(ToJson(Report)) /\ TLCSet(1, TLCGet(1) + 1))

(* every trace was driven to its end (acceptance itself is decided from    *)
(* the reports: consumed = total)                                          *)
TraceAccepted == TLCGet(1) = Len(Traces)
=============================================================================
