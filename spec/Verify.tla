------------------------------- MODULE Verify -------------------------------
(***************************************************************************)
(* C20, second half: verification of a choice question                      *)
(* (learn/pkg/learn/question.go getVerifiedAnswer / verifyMatch /           *)
(* verifyChoiceMatch, answer.go NewAnswer / correctAnswerIndices).          *)
(*                                                                         *)
(* A question has n choices (2 <= n <= MaxN; the package refuses a single   *)
(* choice), every choice produces one of three outputs, output 0 is the    *)
(* output of the question itself.  The front matter marks a non-empty set   *)
(* of letters (an empty answer is refused when the front matter is read,    *)
(* before verification); nothing in the front-matter grammar ties a letter  *)
(* to an existing choice (validateSingle accepts a..z), so letters beyond   *)
(* the last choice are part of the input space.  answer-type single-choice  *)
(* can only write one letter.                                               *)
(*                                                                         *)
(* Steps, as in the code:  ReadAnswer (getAnswer/NewAnswer -> the marked    *)
(* set), RunOutputs (Question.RenderOutput, generateAnserOutputs -> the     *)
(* matching set), Compare.  The verdict the property prescribes:           *)
(*      accept  <=>  marked = {c \in 1..n : out[c] = 0}                    *)
(***************************************************************************)
EXTENDS Naturals, Sequences, FiniteSets, TLC, Json

CONSTANT Tier   \* "quick" | "thorough"

MaxN    == IF Tier = "quick" THEN 3 ELSE 4
\* a .. one past the last possible choice; thorough: also z, in one form (the
\* form does not take part in the comparison)
LettersOf(f) == 1..(MaxN + 1) \cup (IF Tier # "quick" /\ f = "evyq_text" THEN {26} ELSE {})
Letters == 1..(MaxN + 1) \cup {26}
Outputs == 0..2
\* in the forms whose choices are programs a choice can also print the question's text WITHOUT the final
\* line break (printf): output 3 differs from output 0 only in that newline - and is therefore not a match
OutputsOf(f) == IF f \in {"textq_evy", "link"} THEN 0..3 ELSE Outputs
Forms   == IF Tier = "quick" THEN {"evyq_text", "textq_evy", "svg"}
           ELSE {"evyq_text", "evyq_inline", "textq_evy", "link", "svg"}

Marks(a, f) == {s \in SUBSET LettersOf(f) : s # {} /\ (a = "single-choice" => Cardinality(s) = 1)}
\* how the marked letters are spelled in the front matter: all in lower case (the defined form), or the first /
\* the last of them in upper case.  Whether an upper-case letter is refused when the question is read or stands
\* for its choice is not laid down; what the property lays down is that the question is never ACCEPTED unless
\* the letters, read as choices, are exactly the matching ones
Spellings == {"lower", "upperfirst", "upperlast"}
Question(f, a, n, o, m, sp) == [form |-> f, atype |-> a, n |-> n, out |-> o, marked |-> m, spell |-> sp]

VARIABLES pc, q, marked, matching, verdict
vars == <<pc, q, marked, matching, verdict>>

\* every cell: form x answer type x number of choices x assignment of outputs x marked set
Init == /\ \E n \in 2..MaxN : \E a \in {"single-choice", "multiple-choice"} : \E f \in Forms :
             \E o \in [1..n -> OutputsOf(f)] : \E m \in Marks(a, f) : \E sp \in Spellings : q = Question(f, a, n, o, m, sp)
        /\ pc = "read" /\ marked = {} /\ matching = {} /\ verdict = "none"

ReadAnswer == /\ pc = "read" /\ marked' = q.marked /\ pc' = "run"
              /\ UNCHANGED <<q, matching, verdict>>
RunOutputs == /\ pc = "run" /\ matching' = {c \in 1..q.n : q.out[c] = 0} /\ pc' = "compare"
              /\ UNCHANGED <<q, marked, verdict>>
Compare == /\ pc = "compare"
           /\ verdict' = IF marked = matching THEN "accept" ELSE "reject"
           /\ pc' = "done"
           /\ UNCHANGED <<q, marked, matching>>
Next == ReadAnswer \/ RunOutputs \/ Compare

\* the same rule choice by choice (what a false positive / false negative is)
FalsePositive(c) == c \in marked /\ ~(c \in 1..q.n /\ q.out[c] = 0)   \* marked, but not a matching choice
FalseNegative(c) == c \in 1..q.n /\ q.out[c] = 0 /\ c \notin marked   \* matching, but not marked
Exact == pc = "done" =>
           (verdict = "accept" <=> ~\E c \in Letters \cup (1..q.n) : FalsePositive(c) \/ FalseNegative(c))
SingleHasOne == q.atype = "single-choice" => Cardinality(q.marked) = 1

\* features of the cell that matter for triage
Beyond   == \E c \in q.marked : c > q.n
InRangeExact == (q.marked \cap (1..q.n)) = {c \in 1..q.n : q.out[c] = 0}
Class == "verify:" \o (IF q.atype = "single-choice" THEN "single" ELSE "multi")
         \o ":" \o (IF Beyond THEN "beyond" ELSE "inrange")
         \o ":" \o (IF InRangeExact THEN "rest-exact" ELSE "rest-differs")
         \o ":expect=" \o verdict

Emit == pc = "done" =>
          PrintT(ToJson([form |-> q.form, atype |-> q.atype, n |-> q.n, out |-> q.out, marked |-> q.marked,
                         matching |-> matching, expect |-> verdict, spell |-> q.spell,
                         class |-> Class \o (IF q.spell = "lower" THEN "" ELSE ":" \o q.spell)]))
=============================================================================
