CONSTANTS
  Variant = "intended"
INIT TInitR
NEXT TNext
CONSTRAINT Mark
POSTCONDITION TraceAccepted
CHECK_DEADLOCK FALSE
