------------------------------ MODULE VMStack ------------------------------
(***************************************************************************)
(* C17: a bytecode verifier for the code emitted by pkg/bytecode's compiler *)
(* as a TLA+ state machine.                                                 *)
(*                                                                          *)
(* The code is DATA: the harness compiles Evy sources with the real         *)
(* compiler and writes one JSON object per program into c17progs.ndjson:    *)
(*   bytes   the raw instruction bytes (Bytecode.Instructions)              *)
(*   instrs  the records [ip, op, w (operand widths), a (operands)] that    *)
(*           the REAL decoder (bytecode.Lookup/ReadOperands) yields         *)
(*   ipx     ip -> index into instrs (0 where the decoder saw no boundary)  *)
(*   nconst, globals, locals   len(Constants), GlobalCount, LocalCount      *)
(* The decoding is NOT trusted: action Decode re-derives every record from  *)
(* the raw bytes with the specification's own opcode table (written from    *)
(* the opcode documentation in code.go) and checks that the records chain   *)
(* from 0 to the end of the code.                                           *)
(*                                                                          *)
(* Abstract state of the VM (vm.go): the instruction pointer and the HEIGHT *)
(* of the operand stack (sp).  One action per opcode gives the stack effect *)
(* and the successors.  The walk is the classic verifier work-list:         *)
(*   seen[i]  entry height recorded when instruction i was first reached    *)
(*            (-1: not reached); tagR[i]: reached with a range result on    *)
(*            top (see below)                                               *)
(*   work     instructions reached but not yet executed abstractly          *)
(* TLC executes the instruction with the smallest index in work (the order  *)
(* does not matter for the result; a fixed order keeps the state graph      *)
(* linear: `seen' in the state would otherwise make the graph exponential   *)
(* in the number of branches).  BOTH successors of every conditional jump   *)
(* are followed; loops are followed until `seen' saturates.                 *)
(*                                                                          *)
(* Deliberate deviation from "one height per instruction": OpStepRange and  *)
(* OpIterRange with a loop variable (operand # 0) push the loop value ONLY  *)
(* when they push true.  The instruction after them is therefore reached    *)
(* with height H (false on top) or H+1 (value, true on top), by design of   *)
(* the VM.  This is the tag R.  The only instruction that may consume an    *)
(* R state is OpJumpOnFalse: it continues with height H (value left for the *)
(* OpSetLocal/OpSetGlobal that follows) or jumps with height H-1.  Any      *)
(* other instruction in an R state is reported (range-result-untested).     *)
(*                                                                          *)
(* A jump target equal to the code length is the end of the program (the    *)
(* run loop of the VM terminates there).                                    *)
(*                                                                          *)
(* The result for each program is a VERDICT, not a TLC invariant violation: *)
(* many programs are checked in one run and the first failed check of each  *)
(* is printed as JSON together with the successor relation, which the       *)
(* harness uses to check recorded VM traces ((ip, sp) of every step).       *)
(***************************************************************************)
EXTENDS Integers, Sequences, FiniteSets, TLC, Json

Progs == ndJsonDeserialize("c17progs.ndjson")

VARIABLES
  p,        \* index of the program under verification
  phase,    \* "decode" | "walk" | "done"
  seen,     \* instruction index (1..N+1, N+1 = end of code) -> entry height or -1
  tagR,     \* set of instruction indices entered in an R state
  work,     \* set of instruction indices to execute
  cur,      \* the instruction executed next: the smallest index in work (0: none)
  verdict,  \* "" while running, "ok" or the first failed check
  last      \* what the last step did (for emission): [ip, al]

vars == <<p, phase, seen, tagR, work, cur, verdict, last>>

P == Progs[p]
N == Len(P.instrs)
CodeLen == Len(P.bytes)
Byte(i) == P.bytes[i + 1]          \* ip is 0-based

---------------------------------------------------------------------------
(* The instruction set, from the documentation of the opcodes in code.go.  *)
OpNames == <<"OpConstant", "OpGetGlobal", "OpSetGlobal", "OpDrop", "OpGetLocal", "OpSetLocal",
             "OpAdd", "OpSubtract", "OpMultiply", "OpDivide", "OpModulo", "OpTrue", "OpFalse",
             "OpNot", "OpMinus", "OpEqual", "OpNotEqual", "OpNumLessThan", "OpNumLessThanEqual",
             "OpNumGreaterThan", "OpNumGreaterThanEqual", "OpStringLessThan", "OpStringLessThanEqual",
             "OpStringGreaterThan", "OpStringGreaterThanEqual", "OpStringConcatenate", "OpArray",
             "OpArrayConcatenate", "OpArrayRepeat", "OpMap", "OpIndex", "OpSetIndex", "OpSlice",
             "OpNone", "OpJump", "OpJumpOnFalse", "OpStepRange", "OpIterRange">>
NumOps == Len(OpNames)
Known(op) == op \in 0..(NumOps - 1)
Name(op) == OpNames[op + 1]

WithOperand == {"OpConstant", "OpGetGlobal", "OpSetGlobal", "OpDrop", "OpGetLocal", "OpSetLocal",
                "OpArray", "OpMap", "OpJump", "OpJumpOnFalse", "OpStepRange", "OpIterRange"}
\* operand widths of an opcode (every operand is a big-endian uint16)
Widths(op) == IF Name(op) \in WithOperand THEN <<2>> ELSE <<>>
Size(op) == IF Known(op) /\ Name(op) \in WithOperand THEN 3 ELSE 1

Binary == {"OpAdd", "OpSubtract", "OpMultiply", "OpDivide", "OpModulo", "OpEqual", "OpNotEqual",
           "OpNumLessThan", "OpNumLessThanEqual", "OpNumGreaterThan", "OpNumGreaterThanEqual",
           "OpStringLessThan", "OpStringLessThanEqual", "OpStringGreaterThan",
           "OpStringGreaterThanEqual", "OpStringConcatenate", "OpArrayConcatenate", "OpArrayRepeat"}
Unary == {"OpNot", "OpMinus"}
Pushers == {"OpTrue", "OpFalse", "OpNone"}

---------------------------------------------------------------------------
(* Decoding check: record k of the real decoder against the raw bytes.     *)
StartOf(k) == IF k = 1 THEN 0 ELSE P.instrs[k - 1].ip + Size(P.instrs[k - 1].op)

RecordProblem(k) ==
  LET r == P.instrs[k] IN
  IF r.ip # StartOf(k) THEN "decoder-chain"
  ELSE IF r.ip >= CodeLen THEN "decoder-chain"
  ELSE IF Byte(r.ip) # r.op THEN "decoder-opcode"
  ELSE IF ~Known(r.op) THEN "unknown-opcode"
  ELSE IF r.ip + Size(r.op) > CodeLen THEN "truncated"
  ELSE IF r.w # Widths(r.op) THEN "decoder-widths"
  ELSE IF Len(r.a) # Len(r.w) THEN "decoder-operands"
  ELSE IF Len(r.w) = 1 /\ r.a[1] # Byte(r.ip + 1) * 256 + Byte(r.ip + 2) THEN "decoder-operands"
  ELSE IF P.ipx[r.ip + 1] # k THEN "decoder-index"
  ELSE ""

\* where the linear decoding (with the specification's table) stops
DecodedEnd == IF N = 0 THEN 0 ELSE P.instrs[N].ip + Size(P.instrs[N].op)

TailProblem ==
  IF DecodedEnd = CodeLen THEN ""
  ELSE IF DecodedEnd > CodeLen THEN "truncated"
  ELSE IF ~Known(Byte(DecodedEnd)) THEN "unknown-opcode"
  ELSE IF DecodedEnd + Size(Byte(DecodedEnd)) > CodeLen THEN "truncated"
  ELSE "decoder-stopped-early"

At(s, ip) == s \o "@" \o ToString(ip)

DecodeVerdict ==
  LET badk == {k \in 1..N : RecordProblem(k) # ""} IN
  IF badk # {} THEN
    LET k == CHOOSE x \in badk : \A y \in badk : x <= y IN
    At(RecordProblem(k), IF P.instrs[k].ip = StartOf(k) THEN P.instrs[k].ip ELSE StartOf(k))
  ELSE IF TailProblem # "" THEN At(TailProblem, DecodedEnd)
  ELSE ""

\* instruction boundaries (valid only after Decode succeeded)
IsBoundary(t) == /\ t \in 0..(CodeLen - 1)
                 /\ P.ipx[t + 1] > 0
                 /\ P.instrs[P.ipx[t + 1]].ip = t
Idx(t) == IF t = CodeLen THEN N + 1 ELSE P.ipx[t + 1]
IpOf(i) == IF i = N + 1 THEN CodeLen ELSE P.instrs[i].ip

---------------------------------------------------------------------------
Init == /\ p \in 1..Len(Progs)
        /\ phase = "decode"
        /\ seen = <<>>
        /\ tagR = {}
        /\ work = {}
        /\ cur = 0
        /\ verdict = ""
        /\ last = [ip |-> -1, al |-> {}]

Decode ==
  /\ phase = "decode"
  /\ LET v == DecodeVerdict IN
     IF v # "" THEN /\ verdict' = v
                    /\ phase' = "done"
                    /\ UNCHANGED <<seen, tagR, work, cur>>
     ELSE /\ verdict' = ""
          /\ phase' = "walk"
          \* the VM starts at ip 0 with sp = LocalCount (NewVM)
          /\ seen' = [i \in 1..(N + 1) |-> IF i = 1 THEN P.locals ELSE -1]
          /\ tagR' = {}
          /\ work' = {1}
          /\ cur' = 1
  /\ UNCHANGED <<p, last>>

\* the instruction executed next
Cur == cur
MinOf(S) == IF S = {} THEN 0 ELSE CHOOSE i \in S : \A j \in S : i <= j
CurIns == P.instrs[Cur]
CurOp == Name(CurIns.op)
H == seen[Cur]
InR == Cur \in tagR
Arg == CurIns.a[1]
NextIp == CurIns.ip + Size(CurIns.op)

Fail(why) == /\ verdict' = At(why, IpOf(Cur)) \o ":" \o (IF Cur = N + 1 THEN "end" ELSE CurOp)
             /\ phase' = "done"
             /\ UNCHANGED <<p, seen, tagR, work, cur, last>>

(* Merge the successors <<ip, height, tag>> (a sequence of one or two) into  *)
(* seen / work.  al = the (sp, next ip) pairs the VM may show at this        *)
(* instruction.                                                              *)
Flow(pops, succs, al) ==
  IF H - pops < P.locals THEN Fail("underflow")
  ELSE IF \E j \in 1..Len(succs) : ~(succs[j][1] = CodeLen \/ IsBoundary(succs[j][1]))
    THEN Fail("jump-off-boundary")
  ELSE
    LET s1 == succs[1]
        i1 == Idx(s1[1])
        conflict1 == seen[i1] # -1 /\ (seen[i1] # s1[2] \/ ((i1 \in tagR) # s1[3]))
        seen1 == IF seen[i1] = -1 THEN [seen EXCEPT ![i1] = s1[2]] ELSE seen
        tag1 == IF seen[i1] = -1 /\ s1[3] THEN tagR \cup {i1} ELSE tagR
        new1 == IF seen[i1] = -1 THEN {i1} ELSE {}
    IN
    IF conflict1 THEN Fail("height-conflict")
    ELSE IF Len(succs) = 1 THEN
      /\ seen' = seen1 /\ tagR' = tag1 /\ work' = (work \ {Cur}) \cup new1
      /\ cur' = MinOf(work')
      /\ last' = [ip |-> CurIns.ip, al |-> al]
      /\ UNCHANGED <<p, phase, verdict>>
    ELSE
      LET s2 == succs[2]
          i2 == Idx(s2[1])
          conflict2 == seen1[i2] # -1 /\ (seen1[i2] # s2[2] \/ ((i2 \in tag1) # s2[3]))
          seen2 == IF seen1[i2] = -1 THEN [seen1 EXCEPT ![i2] = s2[2]] ELSE seen1
          tag2 == IF seen1[i2] = -1 /\ s2[3] THEN tag1 \cup {i2} ELSE tag1
          new2 == IF seen1[i2] = -1 THEN {i2} ELSE {}
      IN
      IF conflict2 THEN Fail("height-conflict")
      ELSE /\ seen' = seen2 /\ tagR' = tag2 /\ work' = (work \ {Cur}) \cup new1 \cup new2
           /\ cur' = MinOf(work')
           /\ last' = [ip |-> CurIns.ip, al |-> al]
           /\ UNCHANGED <<p, phase, verdict>>

\* straight-line instruction: pops values, pushes values, continues at the next instruction
Straight(pops, pushes) ==
  Flow(pops, <<<<NextIp, H - pops + pushes, FALSE>>>>, {<<H, NextIp>>})

Walking == phase = "walk" /\ work # {} /\ Cur <= N
Plain == Walking /\ ~InR

---------------------------------------------------------------------------
(* One action per opcode (vm.go, Run).                                      *)

DoConstant == /\ Plain /\ CurOp = "OpConstant"
              /\ IF Arg >= P.nconst THEN Fail("constant-range") ELSE Straight(0, 1)
DoGetGlobal == /\ Plain /\ CurOp = "OpGetGlobal"
               /\ IF Arg >= P.globals THEN Fail("global-range") ELSE Straight(0, 1)
DoSetGlobal == /\ Plain /\ CurOp = "OpSetGlobal"
               /\ IF Arg >= P.globals THEN Fail("global-range") ELSE Straight(1, 0)
DoGetLocal == /\ Plain /\ CurOp = "OpGetLocal"
              /\ IF Arg >= P.locals THEN Fail("local-range") ELSE Straight(0, 1)
DoSetLocal == /\ Plain /\ CurOp = "OpSetLocal"
              /\ IF Arg >= P.locals THEN Fail("local-range") ELSE Straight(1, 0)
DoDrop == /\ Plain /\ CurOp = "OpDrop" /\ Straight(Arg, 0)
DoBinary == /\ Plain /\ CurOp \in Binary /\ Straight(2, 1)
DoUnary == /\ Plain /\ CurOp \in Unary /\ Straight(1, 1)
DoPush == /\ Plain /\ CurOp \in Pushers /\ Straight(0, 1)
DoArray == /\ Plain /\ CurOp = "OpArray" /\ Straight(Arg, 1)
DoMap == /\ Plain /\ CurOp = "OpMap" /\ Straight(2 * Arg, 1)
DoIndex == /\ Plain /\ CurOp = "OpIndex" /\ Straight(2, 1)
DoSetIndex == /\ Plain /\ CurOp = "OpSetIndex" /\ Straight(3, 0)
DoSlice == /\ Plain /\ CurOp = "OpSlice" /\ Straight(3, 1)
DoJump == /\ Plain /\ CurOp = "OpJump"
          /\ Flow(0, <<<<Arg, H, FALSE>>>>, {<<H, Arg>>})
\* pops the condition; falls through on true, jumps on false
DoJumpOnFalse == /\ Plain /\ CurOp = "OpJumpOnFalse"
                 /\ Flow(1, <<<<NextIp, H - 1, FALSE>>, <<Arg, H - 1, FALSE>>>>,
                         {<<H, NextIp>>, <<H, Arg>>})
\* the same instruction consuming a range result: sp = H+1 (value, true) or H (false)
DoJumpOnRange == /\ Walking /\ InR /\ CurOp = "OpJumpOnFalse"
                 /\ Flow(1, <<<<NextIp, H, FALSE>>, <<Arg, H - 1, FALSE>>>>,
                         {<<H + 1, NextIp>>, <<H, Arg>>})
\* pops stop, step, index; pushes stop, step, index+step, [index if still going and loop var], bool
DoStepRange == /\ Plain /\ CurOp = "OpStepRange"
               /\ Flow(3, <<<<NextIp, H + 1, Arg # 0>>>>, {<<H, NextIp>>})
\* pops iterable, index; pushes iterable, index+1, [element if still going and loop var], bool
DoIterRange == /\ Plain /\ CurOp = "OpIterRange"
               /\ Flow(2, <<<<NextIp, H + 1, Arg # 0>>>>, {<<H, NextIp>>})
\* a range result (with loop variable) reaches something that is not OpJumpOnFalse
DoUntested == /\ Walking /\ InR /\ CurOp # "OpJumpOnFalse" /\ Fail("range-result-untested")

\* the end of the code: the stack must be back to the locals
AtEnd == /\ phase = "walk" /\ work # {} /\ Cur = N + 1
         /\ IF InR THEN Fail("range-result-untested")
            ELSE IF H # P.locals THEN Fail("end-height")
            ELSE /\ work' = work \ {Cur}
                 /\ cur' = MinOf(work')
                 /\ last' = [ip |-> CodeLen, al |-> {}]
                 /\ UNCHANGED <<p, phase, seen, tagR, verdict>>

Finish == /\ phase = "walk" /\ work = {}
          /\ phase' = "done" /\ verdict' = "ok"
          /\ UNCHANGED <<p, seen, tagR, work, cur, last>>

Next == \/ Decode
        \/ DoConstant \/ DoGetGlobal \/ DoSetGlobal \/ DoGetLocal \/ DoSetLocal \/ DoDrop
        \/ DoBinary \/ DoUnary \/ DoPush \/ DoArray \/ DoMap \/ DoIndex \/ DoSetIndex \/ DoSlice
        \/ DoJump \/ DoJumpOnFalse \/ DoJumpOnRange \/ DoStepRange \/ DoIterRange \/ DoUntested
        \/ AtEnd \/ Finish

Spec == Init /\ [][Next]_vars

---------------------------------------------------------------------------
(* Sanity invariants of the verifier itself (a violation is a spec bug).    *)
TypeOK == /\ phase \in {"decode", "walk", "done"}
          /\ phase = "done" => verdict # ""
          /\ phase # "done" => verdict = ""
          /\ phase = "walk" => /\ work \subseteq 1..(N + 1)
                               /\ cur = MinOf(work)
                               \* every recorded height is at least LocalCount
                               /\ \A i \in work : seen[i] >= P.locals
                               /\ \A i \in tagR : seen[i] # -1

---------------------------------------------------------------------------
(* Emission (always TRUE; used as a state CONSTRAINT).                      *)
Emit ==
  /\ (phase = "walk" /\ last.ip >= 0 /\ last.ip < CodeLen) =>
        PrintT(ToJson([k |-> "e", p |-> p, ip |-> last.ip, al |-> last.al]))
  /\ (phase = "done") =>
        PrintT(ToJson([k |-> "v", p |-> p, id |-> P.id, verdict |-> verdict,
                       reached |-> IF seen = <<>> THEN 0 ELSE Cardinality({i \in 1..(N + 1) : seen[i] # -1}),
                       n |-> N]))
=============================================================================
