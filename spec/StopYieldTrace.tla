--------------------------- MODULE StopYieldTrace ---------------------------
(***************************************************************************)
(* Trace validation for C14: the events recorded from the real evaluator    *)
(* (hooks under build tag verif) must be a behaviour of StopYield.  Many    *)
(* runs are concatenated; a Reset event starts the next one.                *)
(***************************************************************************)
EXTENDS StopYield, Sequences, Json, TLC

Trace == ndJsonDeserialize("trace.ndjson")

VARIABLE l
tvars == <<mvars, l>>

TInit == MInit /\ l = 1
Is(e) == l <= Len(Trace) /\ Trace[l].ev = e /\ l' = l + 1

ResultClass(r) == IF r \in {"ok", "stopped", "exit", "testfail"} THEN r
                  ELSE IF r = "cut" THEN "cut" ELSE "panic"

TNext ==
  \/ Is("Yield") /\ Yield
  \/ Is("Iter") /\ Iter
  \/ Is("Call") /\ Call
  \/ Is("StopRaised") /\ RaiseStop
  \/ Is("Effect") /\ (IF Trace[l].kind = "summary" THEN Summary ELSE Effect)
  \/ Is("StopSeen") /\ StopSeen
  \/ Is("End") /\ (IF ResultClass(Trace[l].result) = "cut"
                   THEN ended' = TRUE /\ UNCHANGED <<yI, yC, stop, seen, eas>>     \* recording was cut short
                   ELSE End(ResultClass(Trace[l].result)))
  \/ Is("Reset") /\ yI' = FALSE /\ yC' = FALSE /\ stop' = FALSE /\ seen' = FALSE /\ eas' = 0 /\ ended' = FALSE

TSpec == TInit /\ [][TNext]_tvars

\* every line of the trace was matched by an action of the monitor
TraceAccepted == TLCGet("stats").diameter = Len(Trace) + 1
=============================================================================
