----------------------------- MODULE ScopeStack -----------------------------
(***************************************************************************)
(* C10, run-time side of lexical scoping (spec.md Scope, Functions, Event   *)
(* Handlers) as a stand-alone component specification, usable on the trace  *)
(* of ANY program.                                                          *)
(*                                                                         *)
(*   g       the global scope: name -> value                                *)
(*   loc     the local scopes of the current activation, innermost last;    *)
(*           each [kind, fresh, closed, vars]                               *)
(*             kind   "block" (if / else / while body, body of one for      *)
(*                    iteration), "for" (holds the loop variable), "func"   *)
(*                    (parameters and locals of a call or handler)          *)
(*             fresh  no statement list has started in this scope yet       *)
(*             closed (for) the loop has ended                              *)
(*   saved   the local scopes of the suspended callers                      *)
(*                                                                         *)
(* Values are opaque strings: the repr of a num, string or bool, "any:" +   *)
(* repr for such a value held in an any, and "ref" for every array and map  *)
(* (composites are shared and change without passing through a scope).      *)
(* err and errmsg are rewritten by the library, not by assignments: their   *)
(* values are not tracked.                                                  *)
(*                                                                         *)
(* What the specification says:                                            *)
(*   - a name resolves to its innermost binding in loc, then to g; the      *)
(*     scopes of suspended callers are never searched (lexical, not         *)
(*     dynamic scoping);                                                    *)
(*   - every statement list (Block) starts in a scope of its own: a scope   *)
(*     pushed since the previous statement list started;                    *)
(*   - a declaration binds a NEW name in the innermost scope (the body of   *)
(*     a loop gets a new scope on every iteration);                         *)
(*   - scopes are popped in the reverse order of their creation; a for      *)
(*     scope is popped after its loop ended, with every body scope gone;    *)
(*   - a call returns with exactly the scope of its parameters and locals   *)
(*     left, from any nesting depth (return unwinds every block), and the   *)
(*     caller's scopes are back unchanged;                                  *)
(*   - when the run ends no local scope is left.                            *)
(***************************************************************************)
EXTENDS Naturals, Sequences, FiniteSets

VARIABLES g, loc, saved
svars == <<g, loc, saved>>

Untracked == {"err", "errmsg"}

NewScope(kind) == [kind |-> kind, fresh |-> TRUE, closed |-> FALSE, vars |-> <<>>]
Bind(f, n, v) == [m \in (DOMAIN f) \cup {n} |-> IF m = n THEN v ELSE f[m]]
Front(s) == SubSeq(s, 1, Len(s) - 1)
Last(s) == s[Len(s)]

RECURSIVE FindIn(_, _, _)
\* index of the innermost scope of L[1..i] binding n; 0 when none does
FindIn(L, n, i) == IF i = 0 THEN 0 ELSE IF n \in DOMAIN L[i].vars THEN i ELSE FindIn(L, n, i - 1)
Find(n, i) == FindIn(loc, n, i)

Bound(n) == Find(n, Len(loc)) # 0 \/ n \in DOMAIN g
Resolve(n) == LET i == Find(n, Len(loc)) IN IF i # 0 THEN loc[i].vars[n] ELSE g[n]

\* once a loop has ended its scope admits nothing but the pop
Open == IF Len(loc) = 0 THEN TRUE ELSE ~Last(loc).closed

SInit == g = <<>> /\ loc = <<>> /\ saved = <<>>

Push == Open /\ loc' = Append(loc, NewScope("block")) /\ UNCHANGED <<g, saved>>

\* the scope just pushed is the scope of a for statement
ForEnter == /\ Len(loc) > 0 /\ Last(loc).kind = "block" /\ Last(loc).fresh /\ DOMAIN Last(loc).vars = {}
            /\ loc' = [loc EXCEPT ![Len(loc)].kind = "for"]
            /\ UNCHANGED <<g, saved>>

\* the loop has ended: every scope of its body is gone
ForExit == /\ Len(loc) > 0 /\ Last(loc).kind = "for" /\ ~Last(loc).closed
           /\ loc' = [loc EXCEPT ![Len(loc)].closed = TRUE]
           /\ UNCHANGED <<g, saved>>

Pop == /\ Len(loc) > 0
       /\ \/ Last(loc).kind = "block"
          \/ Last(loc).kind = "for" /\ Last(loc).closed
       /\ loc' = Front(loc)
       /\ UNCHANGED <<g, saved>>

\* a call or an event handler starts: its body sees the globals and nothing of the caller
PushFunc == /\ Open
            /\ saved' = Append(saved, loc)
            /\ loc' = <<NewScope("func")>>
            /\ UNCHANGED g

\* the call returns: from whatever depth, exactly its own scope is left
PopFunc == /\ Len(loc) = 1 /\ loc[1].kind = "func" /\ Len(saved) > 0
           /\ loc' = Last(saved)
           /\ saved' = Front(saved)
           /\ UNCHANGED g

\* a statement list starts: in a scope made for it
Block == /\ Len(loc) > 0 /\ Last(loc).fresh /\ Open
         /\ Last(loc).kind = "block" => DOMAIN Last(loc).vars = {}
         /\ loc' = [loc EXCEPT ![Len(loc)].fresh = FALSE]
         /\ UNCHANGED <<g, saved>>

Declare(n, v) ==
  Open /\
  IF Len(loc) = 0
  THEN /\ n \notin DOMAIN g
       /\ g' = Bind(g, n, v) /\ UNCHANGED <<loc, saved>>
  ELSE /\ n \notin DOMAIN Last(loc).vars
       /\ loc' = [loc EXCEPT ![Len(loc)].vars = Bind(Last(loc).vars, n, v)]
       /\ UNCHANGED <<g, saved>>
\* the number of names the innermost scope holds (what a scope that was really made for this block holds)
TopSize == IF Len(loc) = 0 THEN Cardinality(DOMAIN g) ELSE Cardinality(DOMAIN Last(loc).vars)

Update(n, v) ==
  LET i == Find(n, Len(loc))
  IN Open /\ IF i # 0 THEN loc' = [loc EXCEPT ![i].vars = Bind(loc[i].vars, n, v)] /\ UNCHANGED <<g, saved>>
     ELSE n \in DOMAIN g /\ g' = Bind(g, n, v) /\ UNCHANGED <<loc, saved>>

\* how many scopes lie between the innermost scope and the binding of n (the globals come after all of loc)
Distance(n) == LET i == Find(n, Len(loc)) IN IF i # 0 THEN Len(loc) - i ELSE Len(loc)

\* reading a variable gives the value of its innermost binding
Get(n, v) == /\ Open /\ Bound(n)
             /\ n \notin Untracked => Resolve(n) = v
             /\ UNCHANGED svars

\* the run (top-level code or a handler) has returned
End == loc = <<>> /\ saved = <<>> /\ UNCHANGED svars

---------------------------------------------------------------------------
\* well-formedness of the stack, checked in every state
KindsOK == /\ \A i \in DOMAIN loc : loc[i].kind \in {"block", "for", "func"}
           /\ \A i \in DOMAIN loc : loc[i].kind = "func" => i = 1
           /\ Len(saved) > 0 => (Len(loc) > 0 /\ loc[1].kind = "func")
           /\ Len(saved) = 0 => \A i \in DOMAIN loc : loc[i].kind # "func"
ClosedOnlyFor == \A i \in DOMAIN loc : loc[i].closed => (loc[i].kind = "for" /\ i = Len(loc))
=============================================================================
