CONSTANT MaxOps = @MAXOPS@
INIT Init
NEXT Next
INVARIANTS MapsWF LoopsWF NoRevisit
PROPERTY VisitLaw
CHECK_DEADLOCK FALSE
