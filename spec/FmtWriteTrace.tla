--------------------------- MODULE FmtWriteTrace ---------------------------
(***************************************************************************)
(* Direction B of C18: the system calls of real `evy fmt -w` runs (strace,  *)
(* reduced by vlib/c18.py to the calls that touch the target, its           *)
(* directory or a file created by the process) must be a behaviour of       *)
(* FmtWrite (Variant "intended").  Many runs are concatenated; a "begin"    *)
(* event resets the FmtWrite state for the next run.  Every event maps to   *)
(* exactly one FmtWrite action, so a run is either followed to its end or   *)
(* rejected at the first event without a matching action; a rejection is    *)
(* printed as a JSON record (and the rest of that run skipped) - the        *)
(* POSTCONDITION only demands that the whole file was consumed.             *)
(*                                                                         *)
(* Events (all fields always present):                                      *)
(*   ev    "begin" | "call" | "killed" | "end"                              *)
(*   t     run number          label  name of the run (for the report)      *)
(*   call  FmtWrite call name, or "bad:..." for a call FmtWrite has no      *)
(*         action for (O_TRUNC / O_WRONLY open, chmod, unlink, truncate of  *)
(*         the target, rename of the target away, ...)                      *)
(*   ok    the call succeeded  errno  its error otherwise                   *)
(*   n     bytes written | exit status | begin: length of formatted text    *)
(*   mode  mode of create/chmod | begin: mode of the target | end: mode seen*)
(*   flag  create_tmp: in the target's directory; rename: source is the     *)
(*         temp file created by this run in the target's directory          *)
(*   kind  end: content seen (orig|fmt|both|damaged)                        *)
(*   op, kinds   begin: "write"|"check"|"checkstdin", kinds of the files    *)
(***************************************************************************)
EXTENDS FmtWrite

Trace == ndJsonDeserialize("fmtwrite_trace.ndjson")

VARIABLES i,        \* next event
          written,  \* bytes written to the temp file so far
          flen,     \* length of the formatted text of this run
          skipping  \* the current run was rejected

tvars == <<i, written, flen, skipping>>

TInit == /\ InitFor("write", <<"unfmt">>, "0644")
         /\ i = 1 /\ written = 0 /\ flen = 0 /\ skipping = FALSE

Reset(e) == /\ variant' = "intended" /\ op' = e.op /\ files' = e.kinds /\ cur' = 1 /\ omode' = e.mode
            /\ target' = Target0(e.mode) /\ temp' = NoTemp /\ srcopen' = FALSE
            /\ pc' = "start" /\ fault' = NoFault /\ exit' = "none"
            /\ written' = 0 /\ flen' = e.n

FailT(c, errno) == Fail(c, errno) /\ (c = "write_tmp" => temp'.content = "partial")

MatchCall(e) ==
  IF ~e.ok THEN FailT(e.call, e.errno) /\ written' = written
  ELSE
    \/ e.call = "open_src"   /\ OpenSrc /\ written' = written
    \/ e.call = "stat_src"   /\ StatSrc /\ written' = written
    \/ e.call = "read_src"   /\ ReadSrc /\ written' = written
    \/ e.call = "close_src"  /\ CloseSrc /\ written' = written
    \/ e.call = "stat_tgt"   /\ StatTgt /\ written' = written
    \/ e.call = "create_tmp" /\ e.flag /\ CreateTemp(e.mode) /\ written' = written
    \/ e.call = "write_tmp"  /\ written + e.n < flen /\ WritePart /\ written' = written + e.n
    \/ e.call = "write_tmp"  /\ written + e.n = flen /\ WriteAll /\ written' = flen
    \/ e.call = "chmod_tmp"  /\ Chmod(e.mode) /\ written' = written
    \/ e.call = "close_tmp"  /\ CloseTmp /\ written' = written
    \/ e.call = "rename"     /\ e.flag /\ Rename /\ written' = written
    \/ e.call = "unlink_tmp" /\ Cleanup /\ written' = written
    \/ e.call = "exit"       /\ Exit(IF e.n = 0 THEN "zero" ELSE "nonzero") /\ written' = written

\* the parse steps make no system call: they happen silently before the next call
Silent == ParseOK \/ ParseFail \/ NoChange \/ CheckMode \/ ReadStdin

Match(e) ==
  \/ e.ev = "call"   /\ MatchCall(e)
  \/ e.ev = "killed" /\ Kill(e.call) /\ written' = written
  \/ e.ev = "end"    /\ exit # "none" /\ e.mode = target.mode /\ e.kind \in {target.content, "both"}
                     /\ UNCHANGED vars /\ written' = written

\* why an event has no matching action (only used for the report)
Why(e) ==
  IF e.ev = "call" /\ e.ok /\ e.call = "rename" /\ e.flag /\ pc = "written" /\ ~temp.open
     /\ temp.content = "fmt" /\ temp.mode # omode
  THEN "mode-change"
  ELSE IF e.ev = "end" THEN "final-state"
  ELSE IF e.ev = "call" /\ e.call = "exit" THEN "exit"
  ELSE "protocol"

RejectJson(e) == [t |-> e.t, label |-> e.label, idx |-> i, ev |-> e.ev, call |-> e.call, ok |-> e.ok,
                  n |-> e.n, emode |-> e.mode, ekind |-> e.kind, flag |-> e.flag, why |-> Why(e),
                  pc |-> pc, omode |-> omode, tmpmode |-> temp.mode, tmpcontent |-> temp.content,
                  tmpopen |-> temp.open, tcontent |-> target.content, tmode |-> target.mode,
                  fault |-> fault, exit |-> exit, written |-> written, flen |-> flen]

TNext ==
  /\ i <= Len(Trace)
  /\ LET e == Trace[i] IN
       \/ /\ e.ev = "begin" /\ Reset(e) /\ skipping' = FALSE /\ i' = i + 1
       \/ /\ e.ev # "begin" /\ skipping /\ i' = i + 1 /\ UNCHANGED <<vars, written, flen, skipping>>
       \/ /\ e.ev # "begin" /\ ~skipping /\ Match(e) /\ i' = i + 1 /\ UNCHANGED <<flen, skipping>>
       \/ /\ e.ev # "begin" /\ ~skipping /\ ~ENABLED Match(e) /\ Silent /\ UNCHANGED tvars
       \/ /\ e.ev # "begin" /\ ~skipping /\ ~ENABLED Match(e) /\ ~ENABLED Silent
          /\ PrintT(ToJson(RejectJson(e)))
          /\ skipping' = TRUE /\ i' = i + 1 /\ UNCHANGED <<vars, written, flen>>

\* bookkeeping for the POSTCONDITION: some state has consumed the whole file
TInitR == TInit /\ TLCSet(1, 0)
Mark == (i > Len(Trace)) => TLCSet(1, Len(Trace))
TraceAccepted == TLCGet(1) = Len(Trace)
=============================================================================
