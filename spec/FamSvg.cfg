CONSTANTS
  U = 1
  Tier = "@TIER@"
  MaxLen = @MAXLEN@
INIT FamInit
NEXT Next
INVARIANTS OnePerCommand Counted InOrder
PROPERTIES DrawnGrows PanicIsClean StyleInEffect Separation
CONSTRAINT Emit
CHECK_DEADLOCK FALSE
