\* emission run: histories of exactly MaxOps operations, one JSON case each.
\* The invariants are checked by Symtab.cfg (state based, longer histories).
CONSTANTS
  NNames = 3
  MaxOps = @MAXOPS@
  WithHist = TRUE
  Part = @PART@
INIT Init
NEXT Next
INVARIANTS TypeOK
CONSTRAINT Emit
CHECK_DEADLOCK FALSE
