----------------------------- MODULE FamControl -----------------------------
(***************************************************************************)
(* Family for C10: lexical scoping and structured control flow.            *)
(*  (a) all nestings to depth D of if / else / else-if, while, the four     *)
(*      for-range kinds and calls, with a tracer print at every block       *)
(*      entry and exit and, innermost, a print, a shadowing declaration,    *)
(*      an update of the enclosing x, a break or a return;                  *)
(*  (b) numeric ranges over all operand triples;                            *)
(*  (c) hand-picked programs: recursion, call before definition, loop       *)
(*      operands evaluated once, loop variable assignment, while condition  *)
(*      evaluated before every iteration, code-point ranges.                *)
(***************************************************************************)
EXTENDS EvyMachine

CONSTANTS Tier, Depth

Num(n) == ENum(I(n))
NumE(v) == IF IsNeg(v) THEN EUn("-", ENum(NumNeg(v))) ELSE ENum(v)
Pr(xs) == SCall(ECallB("print", xs))
X == EVar("x", T_num)
Nm(p, d) == CASE d = 1 -> p \o "1" [] d = 2 -> p \o "2" [] d = 3 -> p \o "3" [] OTHER -> p \o "4"
NoSig == Sig(<<>>, <<>>, T_none)

Leaves(inLoop, inFunc) ==
  { [ss |-> <<Pr(<<Num(3)>>)>>, fs |-> <<>>],
    [ss |-> <<SInfer("y", Num(77)), SAsg(X, EBin("+", X, EVar("y", T_num))), Pr(<<Num(4), X>>)>>, fs |-> <<>>],
    [ss |-> <<SAsg(X, EBin("+", X, Num(1)))>>, fs |-> <<>>] }
  \cup (IF inLoop THEN { [ss |-> <<SIf(<<EBin(">=", X, Num(0))>>, <<<<SBrk>>>>, <<>>)>>, fs |-> <<>>],
                         [ss |-> <<SAsg(X, EBin("+", X, Num(1))), SIf(<<EBin(">=", X, Num(2))>>, <<<<SBrk>>>>, <<>>)>>, fs |-> <<>>] }
        ELSE {})
  \cup (IF inFunc THEN { [ss |-> <<SIf(<<EBin(">=", X, Num(0))>>, <<<<SRet(<<>>)>>>>, <<>>)>>, fs |-> <<>>],
                         [ss |-> <<SAsg(X, EBin("+", X, Num(1))), SIf(<<EBin(">=", X, Num(2))>>, <<<<SRet(<<>>)>>>>, <<>>)>>, fs |-> <<>>] }
        ELSE {})

Kinds == {"ifT", "ifElse", "elif", "while", "forN", "forA", "forS", "forM", "call"}
IsLoop(c) == c \in {"while", "forN", "forA", "forS", "forM"}

\* construct c at depth d around the inner fragment
Wrap(c, d, inner, sh) ==
  LET body(lv) == <<Pr(<<Num(1), Num(d)>> \o lv)>> \o (IF sh THEN <<SInfer("x", Num(10 * d))>> ELSE <<>>)
                    \o inner.ss \o <<Pr(<<Num(2), Num(d), X>>)>>
      W == EVar(Nm("w", d), T_num)
      Other == <<Pr(<<Num(9), Num(d)>>)>>
  IN CASE c = "ifT"    -> [ss |-> <<SIf(<<EBin(">=", X, Num(0))>>, <<body(<<>>)>>, <<>>)>>, fs |-> inner.fs]
       [] c = "ifElse" -> [ss |-> <<SIf(<<EBin("<", X, Num(0))>>, <<Other>>, <<body(<<>>)>>)>>, fs |-> inner.fs]
       [] c = "elif"   -> [ss |-> <<SIf(<<EBin("<", X, Num(0)), EBin(">=", X, Num(0))>>, <<Other, body(<<>>)>>, <<Other>>)>>, fs |-> inner.fs]
       [] c = "while"  -> [ss |-> <<SInfer(Nm("w", d), Num(0)),
                                    SWhile(EBin("<", W, Num(2)), <<SAsg(W, EBin("+", W, Num(1)))>> \o body(<<W>>))>>, fs |-> inner.fs]
       [] c = "forN"   -> [ss |-> <<SFor(Nm("i", d), "num", <<Num(2)>>, body(<<EVar(Nm("i", d), T_num)>>))>>, fs |-> inner.fs]
       [] c = "forA"   -> [ss |-> <<SFor(Nm("e", d), "arr", <<EArr(<<Num(7), Num(8)>>)>>, body(<<EVar(Nm("e", d), T_num)>>))>>, fs |-> inner.fs]
       [] c = "forS"   -> [ss |-> <<SFor(Nm("c", d), "str", <<EStr(<<97, 228>>)>>, body(<<EVar(Nm("c", d), T_str)>>))>>, fs |-> inner.fs]
       [] c = "forM"   -> [ss |-> <<SFor(Nm("k", d), "map", <<EMap(<<<<97>>, <<98>>>>, <<Num(1), Num(2)>>)>>, body(<<EVar(Nm("k", d), T_str)>>))>>, fs |-> inner.fs]
       [] OTHER        -> [ss |-> <<SCall(ECallU(Nm("f", d), NoSig, <<>>))>>,
                           fs |-> inner.fs \o <<FuncDef(Nm("f", d), <<>>, <<>>, T_none, body(<<>>))>>]

RECURSIVE Gen(_, _, _)
Gen(d, inLoop, inFunc) ==
  IF d = 0 THEN Leaves(inLoop, inFunc)
  ELSE UNION {{Wrap(c, d, inner, sh) : inner \in Gen(d - 1, IF c = "call" THEN FALSE ELSE (inLoop \/ IsLoop(c)), inFunc \/ c = "call"),
                                       sh \in (IF Tier = "quick" /\ d < Depth THEN {FALSE} ELSE BOOLEAN)}
              : c \in Kinds}

NestProg(fr) == [Program(<<SInfer("x", Num(0)), Pr(<<Num(0)>>)>> \o fr.ss \o <<Pr(<<Num(5), X>>)>>, fr.fs, <<>>) EXCEPT !.fl = TRUE]
Nest == UNION {{NestProg(fr) : fr \in Gen(d, FALSE, FALSE)} : d \in 1..Depth}

---------------------------------------------------------------------------
(* (b) numeric ranges: 1, 2 and 3 operands *)

IV == EVar("i", T_num)
RangeProg(xs) == Program(<<SFor("i", "num", xs, <<Pr(<<IV>>)>>), Pr(<<Num(5)>>)>>, <<>>, <<>>)
\* operands written as expressions (grouped when negative: range arguments are tight)
RV == IF Tier = "quick" THEN {I(-2), Fin(-1, 1), I(0), Fin(1, 1), I(1), I(3)}
      ELSE {I(-2), I(-1), Fin(-1, 1), I(0), Fin(1, 1), I(1), I(2), I(3)}
Ranges == {RangeProg(<<NumE(a)>>) : a \in RV}
          \cup {RangeProg(<<NumE(a), NumE(b)>>) : a \in RV, b \in RV}
          \cup {RangeProg(<<NumE(a), NumE(b), NumE(c)>>) : a \in RV, b \in RV, c \in RV}

---------------------------------------------------------------------------
(* (c) hand-picked programs *)

NV == EVar("n", T_num)
FactSig == Sig(<<T_num>>, <<>>, T_num)
Fact == FuncDef("fact", <<Param("n", T_num)>>, <<>>, T_num,
                <<Pr(<<Num(1), NV>>),
                  SIf(<<EBin("<=", NV, Num(1))>>, <<<<SRetV(Num(1), T_num)>>>>, <<>>),
                  SRetV(EBin("*", NV, ECallU("fact", FactSig, <<EBin("-", NV, Num(1))>>)), T_num)>>)
EvenSig == Sig(<<T_num>>, <<>>, T_bool)
Even == FuncDef("even", <<Param("n", T_num)>>, <<>>, T_bool,
                <<SIf(<<EBin("==", NV, Num(0))>>, <<<<SRetV(EBool(TRUE), T_bool)>>>>, <<>>),
                  SRetV(ECallU("odd", EvenSig, <<EBin("-", NV, Num(1))>>), T_bool)>>)
Odd == FuncDef("odd", <<Param("n", T_num)>>, <<>>, T_bool,
               <<SIf(<<EBin("==", NV, Num(0))>>, <<<<SRetV(EBool(FALSE), T_bool)>>>>, <<>>),
                 SRetV(ECallU("even", EvenSig, <<EBin("-", NV, Num(1))>>), T_bool)>>)
\* a function that declares a local with the name of a caller's local and of a global
GV == EVar("g", T_num)
LV == EVar("l", T_num)
Locals == FuncDef("locals", <<>>, <<>>, T_none,
                  <<SInfer("l", Num(50)), SAsg(GV, EBin("+", GV, LV)), Pr(<<Num(6), GV, LV>>)>>)
\* return from inside nested loops
FindSig == Sig(<<TArr(TArr(T_num)), T_num>>, <<>>, T_num)
Find == FuncDef("find", <<Param("rows", TArr(TArr(T_num))), Param("n", T_num)>>, <<>>, T_num,
                <<SFor("r", "arr", <<EVar("rows", TArr(TArr(T_num)))>>,
                     <<SFor("v", "arr", <<EVar("r", TArr(T_num))>>,
                          <<Pr(<<Num(1), EVar("v", T_num)>>),
                            SIf(<<EBin("==", EVar("v", T_num), NV)>>, <<<<SRetV(EVar("v", T_num), T_num)>>>>, <<>>)>>),
                       Pr(<<Num(2)>>)>>),
                  SRetV(EUn("-", Num(1)), T_num)>>)
Rows == EArr(<<EArr(<<Num(1), Num(2)>>), EArr(<<Num(3), Num(4)>>), EArr(<<Num(5)>>)>>)
\* while condition evaluated before every iteration: the condition is a call that prints
CV == EVar("c", T_num)
ChkSig == Sig(<<>>, <<>>, T_bool)
Chk == FuncDef("chk", <<>>, <<>>, T_bool, <<Pr(<<Num(7), CV>>), SRetV(EBin("<", CV, Num(2)), T_bool)>>)

Picked ==
  { \* recursion, before and after the definition
    [Program(<<Pr(<<ECallU("fact", FactSig, <<Num(4)>>)>>)>>, <<Fact>>, <<>>) EXCEPT !.fl = TRUE],
    Program(<<Pr(<<ECallU("fact", FactSig, <<Num(3)>>)>>)>>, <<Fact>>, <<>>),
    [Program(<<Pr(<<ECallU("even", EvenSig, <<Num(3)>>), ECallU("odd", EvenSig, <<Num(3)>>)>>)>>, <<Even, Odd>>, <<>>) EXCEPT !.fl = TRUE],
    \* locals of a function are its own; globals are shared
    [Program(<<SInfer("g", Num(1)), SIf(<<EBool(TRUE)>>, <<<<SInfer("l", Num(2)), SCall(ECallU("locals", NoSig, <<>>)), Pr(<<GV, LV>>)>>>>, <<>>),
               SCall(ECallU("locals", NoSig, <<>>)), Pr(<<GV>>)>>, <<Locals>>, <<>>) EXCEPT !.fl = TRUE],
    \* names resolve lexically: a function reads the global x, not the caller's shadowing local
    [Program(<<SInfer("x", Num(1)),
               SIf(<<EBool(TRUE)>>, <<<<SInfer("x", Num(2)), SCall(ECallU("show", NoSig, <<>>)), Pr(<<X>>)>>>>, <<>>),
               SFor("x", "num", <<Num(5), Num(7)>>, <<SCall(ECallU("show", NoSig, <<>>)), Pr(<<X>>)>>),
               SCall(ECallU("show", NoSig, <<>>))>>,
             <<FuncDef("show", <<>>, <<>>, T_none, <<Pr(<<Num(6), X>>), SAsg(X, EBin("+", X, Num(100)))>>)>>, <<>>) EXCEPT !.fl = TRUE],
    \* return leaves exactly the current call from nested loops
    Program(<<Pr(<<ECallU("find", FindSig, <<Rows, Num(3)>>)>>), Pr(<<ECallU("find", FindSig, <<Rows, Num(9)>>)>>)>>, <<Find>>, <<>>),
    \* while tests its condition before every iteration
    [Program(<<SInfer("c", Num(0)), SWhile(ECallU("chk", ChkSig, <<>>), <<SAsg(CV, EBin("+", CV, Num(1))), Pr(<<Num(8), CV>>)>>), Pr(<<Num(5)>>)>>,
             <<Chk>>, <<>>) EXCEPT !.fl = TRUE],
    [Program(<<SInfer("c", Num(5)), SWhile(ECallU("chk", ChkSig, <<>>), <<Pr(<<Num(8)>>)>>), Pr(<<Num(5), CV>>)>>, <<Chk>>, <<>>) EXCEPT !.fl = TRUE],
    \* range operands are evaluated once at loop entry
    Program(<<SInfer("n", Num(3)), SFor("i", "num", <<NV>>, <<SAsg(NV, Num(10)), Pr(<<IV, NV>>)>>), Pr(<<NV>>)>>, <<>>, <<>>),
    Program(<<SInfer("n", Num(1)), SFor("i", "num", <<Num(0), Num(6), NV>>, <<SAsg(NV, EBin("+", NV, Num(1))), Pr(<<IV, NV>>)>>)>>, <<>>, <<>>),
    \* assigning the loop variable does not change the iteration
    Program(<<SFor("i", "num", <<Num(3)>>, <<Pr(<<IV>>), SAsg(IV, Num(10)), Pr(<<IV>>)>>)>>, <<>>, <<>>),
    Program(<<SFor("c", "str", <<EStr(<<97, 228, 8364, 128512, 98>>)>>, <<Pr(<<EVar("c", T_str), ECallB("len", <<EVar("c", T_str)>>)>>), SAsg(EVar("c", T_str), EStr(<<122>>))>>)>>, <<>>, <<>>),
    \* a loop without variable; zero step; empty array and string
    Program(<<SFor("", "num", <<Num(2)>>, <<Pr(<<Num(1)>>)>>)>>, <<>>, <<>>),
    Program(<<Pr(<<Num(0)>>), SFor("i", "num", <<Num(0), Num(3), Num(0)>>, <<Pr(<<IV>>)>>), Pr(<<Num(5)>>)>>, <<>>, <<>>),
    Program(<<SDecl("a", TArr(T_num)), SFor("e", "arr", <<EVar("a", TArr(T_num))>>, <<Pr(<<EVar("e", T_num)>>)>>),
              SFor("c", "str", <<EStr(<<>>)>>, <<Pr(<<EVar("c", T_str)>>)>>), Pr(<<Num(5)>>)>>, <<>>, <<>>),
    \* shadowing in nested blocks restores the outer variable; block locals end with the block
    Program(<<SInfer("x", Num(1)),
              SIf(<<EBool(TRUE)>>, <<<<SInfer("x", Num(2)), SIf(<<EBool(TRUE)>>, <<<<SInfer("x", Num(3)), SAsg(X, EBin("+", X, Num(10))), Pr(<<X>>)>>>>, <<>>), Pr(<<X>>)>>>>, <<>>),
              Pr(<<X>>),
              SWhile(EBin("<", X, Num(3)), <<SAsg(X, EBin("+", X, Num(1))), SInfer("y", EBin("*", X, Num(2))), Pr(<<X, EVar("y", T_num)>>)>>),
              SInfer("y", EStr(<<121>>)), Pr(<<X, EVar("y", T_str)>>)>>, <<>>, <<>>),
    \* for ... range over a map: the keys it had at loop entry that are still present (drain, delete later, insert)
    Program(<<SInfer("m", EMap(<<<<97>>, <<98>>, <<99>>, <<100>>>>, <<Num(1), Num(2), Num(3), Num(4)>>)), SInfer("s", EStr(<<>>)),
              SFor("k", "map", <<EVar("m", TMap(T_num))>>, <<SAsg(EVar("s", T_str), EBin("+", EVar("s", T_str), EVar("k", T_str))), SCall(ECallB("del", <<EVar("m", TMap(T_num)), EVar("k", T_str)>>))>>),
              Pr(<<EVar("s", T_str), ECallB("len", <<EVar("m", TMap(T_num))>>)>>)>>, <<>>, <<>>),
    Program(<<SInfer("m", EMap(<<<<97>>, <<98>>, <<99>>, <<100>>>>, <<Num(1), Num(2), Num(3), Num(4)>>)), SInfer("s", EStr(<<>>)),
              SFor("k", "map", <<EVar("m", TMap(T_num))>>, <<SAsg(EVar("s", T_str), EBin("+", EVar("s", T_str), EVar("k", T_str))),
                     SIf(<<EBin("==", EVar("k", T_str), EStr(<<97>>))>>, << <<SCall(ECallB("del", <<EVar("m", TMap(T_num)), EStr(<<99>>)>>)), SAsg(EDot(EVar("m", TMap(T_num)), <<122>>), Num(9))>> >>, <<>>)>>),
              Pr(<<EVar("s", T_str), EVar("m", TMap(T_num))>>)>>, <<>>, <<>>),
    \* a function that is called before the declaration of a global it reads / assigns / indexes has been executed:
    \* a run-time panic (the variable has not been set yet), after the effects so far
    [Program(<<Pr(<<Num(1)>>), SCall(ECallU("early", NoSig, <<>>)), SInfer("g", Num(1)), Pr(<<GV>>)>>,
             <<FuncDef("early", <<>>, <<>>, T_none, <<Pr(<<Num(2)>>), Pr(<<GV>>)>>)>>, <<>>) EXCEPT !.fl = TRUE],
    [Program(<<Pr(<<Num(1)>>), SCall(ECallU("early", NoSig, <<>>)), SInfer("g", Num(1)), Pr(<<GV>>)>>,
             <<FuncDef("early", <<>>, <<>>, T_none, <<Pr(<<Num(2)>>), SAsg(GV, Num(7)), Pr(<<Num(3)>>)>>)>>, <<>>) EXCEPT !.fl = TRUE],
    [Program(<<Pr(<<Num(1)>>), SCall(ECallU("early", NoSig, <<>>)), SInfer("ga", EArr(<<Num(1)>>)), Pr(<<EVar("ga", TArr(T_num))>>)>>,
             <<FuncDef("early", <<>>, <<>>, T_none, <<Pr(<<Num(2)>>), SAsg(EIdx(EVar("ga", TArr(T_num)), Num(0)), Num(7)), Pr(<<Num(3)>>)>>)>>, <<>>) EXCEPT !.fl = TRUE],
    [Program(<<SInfer("g", Num(1)), SCall(ECallU("early", NoSig, <<>>)), Pr(<<GV>>), SInfer("h", Num(1)), Pr(<<EVar("h", T_num)>>)>>,
             <<FuncDef("early", <<>>, <<>>, T_none, <<SAsg(GV, Num(7)), SIf(<<EBin(">", GV, Num(9))>>, <<<<SAsg(EVar("h", T_num), Num(8))>>>>, <<>>), Pr(<<Num(3)>>)>>)>>, <<>>) EXCEPT !.fl = TRUE],
    \* a loop whose body calls the function that contains it (recursion from inside the loop, iterations left after
    \* the call returns): every activation visits all its elements, for every kind of range
    [Program(<<SCall(ECallU("walk", Sig(<<T_num>>, <<>>, T_none), <<Num(0)>>))>>,
             <<FuncDef("walk", <<Param("d", T_num)>>, <<>>, T_none,
                       <<SFor("e", "arr", <<EArr(<<Num(1), Num(2), Num(3)>>)>>,
                              <<Pr(<<EVar("d", T_num), EVar("e", T_num)>>),
                                SIf(<<EBin("<", EVar("d", T_num), Num(2))>>, <<<<SCall(ECallU("walk", Sig(<<T_num>>, <<>>, T_none), <<EBin("+", EVar("d", T_num), Num(1))>>))>>>>, <<>>)>>)>>)>>, <<>>) EXCEPT !.fl = TRUE],
    [Program(<<SCall(ECallU("spell", Sig(<<T_str>>, <<>>, T_none), <<EStr(<<120, 228, 122>>)>>))>>,
             <<FuncDef("spell", <<Param("w", T_str)>>, <<>>, T_none,
                       <<SFor("c", "str", <<EVar("w", T_str)>>,
                              <<Pr(<<EVar("w", T_str), EVar("c", T_str)>>),
                                SIf(<<EBin(">", ECallB("len", <<EVar("w", T_str)>>), Num(1))>>, <<<<SCall(ECallU("spell", Sig(<<T_str>>, <<>>, T_none), <<ESlice(EVar("w", T_str), <<Num(1)>>, <<>>)>>))>>>>, <<>>)>>)>>)>>, <<>>) EXCEPT !.fl = TRUE],
    [Program(<<SInfer("m", EMap(<<<<97>>, <<98>>, <<99>>>>, <<Num(1), Num(2), Num(3)>>)), SCall(ECallU("drain", Sig(<<T_num>>, <<>>, T_none), <<Num(0)>>)), Pr(<<EVar("m", TMap(T_num))>>)>>,
             <<FuncDef("drain", <<Param("d", T_num)>>, <<>>, T_none,
                       <<SFor("k", "map", <<EVar("m", TMap(T_num))>>,
                              <<Pr(<<EVar("d", T_num), EVar("k", T_str)>>),
                                SIf(<<EBin("<", EVar("d", T_num), Num(2))>>,
                                    <<<<SIf(<<EBin("==", EVar("k", T_str), EStr(<<97>>))>>, <<<<SCall(ECallB("del", <<EVar("m", TMap(T_num)), EStr(<<98>>)>>))>>>>, <<>>),
                                        SCall(ECallU("drain", Sig(<<T_num>>, <<>>, T_none), <<EBin("+", EVar("d", T_num), Num(1))>>))>>>>, <<>>)>>)>>)>>, <<>>) EXCEPT !.fl = TRUE],
    [Program(<<SCall(ECallU("count", Sig(<<T_num>>, <<>>, T_none), <<Num(0)>>))>>,
             <<FuncDef("count", <<Param("d", T_num)>>, <<>>, T_none,
                       <<SFor("i", "num", <<Num(3)>>,
                              <<Pr(<<EVar("d", T_num), EVar("i", T_num)>>),
                                SIf(<<EBin("<", EVar("d", T_num), Num(2))>>, <<<<SCall(ECallU("count", Sig(<<T_num>>, <<>>, T_none), <<EBin("+", EVar("d", T_num), Num(1))>>))>>>>, <<>>)>>)>>)>>, <<>>) EXCEPT !.fl = TRUE],
    \* break leaves exactly the innermost loop
    Program(<<SFor("i", "num", <<Num(3)>>,
                 <<SFor("j", "num", <<Num(3)>>, <<SIf(<<EBin("==", EVar("j", T_num), Num(1))>>, <<<<SBrk>>>>, <<>>), Pr(<<IV, EVar("j", T_num)>>)>>),
                   SIf(<<EBin("==", IV, Num(1))>>, <<<<SBrk>>>>, <<>>), Pr(<<Num(2), IV>>)>>),
              Pr(<<Num(5)>>)>>, <<>>, <<>>) }

FamCases == {MkCase("FamControl", "nest", p) : p \in Nest}
            \cup {MkCase("FamControl", "range", p) : p \in Ranges}
            \cup {MkCase("FamControl", "picked", p) : p \in Picked}
FamInit == InitWith(FamCases)
=============================================================================
