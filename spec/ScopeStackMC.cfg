INIT SInit
NEXT MCNext
INVARIANTS KindsOK ClosedOnlyFor ResolveInnermost
PROPERTIES ShadowRestores CallIsolated
CHECK_DEADLOCK FALSE
