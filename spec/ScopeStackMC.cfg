CONSTANTS
  MaxDepth = @MAXDEPTH@
  MaxCalls = @MAXCALLS@
INIT SInit
NEXT MCNext
INVARIANTS KindsOK ClosedOnlyFor ResolveInnermost
PROPERTIES ShadowRestores CallIsolated
CHECK_DEADLOCK FALSE
