------------------------------ MODULE FamBreak ------------------------------
(***************************************************************************)
(* Family for C05: a valid program with effects (prints, drawing, read,     *)
(* sleep, functions, a handler) plus ONE rule-breaking edit, for every      *)
(* static rule of the language and every site where the rule applies        *)
(* (top level, if / else-if / else / while / for bodies, nested blocks,     *)
(* function, procedure and handler bodies, after `end`).  Every mutant must *)
(* be rejected with a located error and nothing of it may run.              *)
(* Each edit breaks its rule by construction (it introduces a fresh name or *)
(* a fresh statement that is ill-formed on its own).                        *)
(***************************************************************************)
EXTENDS EvySeeds, Json, TLC

CONSTANT Tier
VARIABLE mut

\* ---- the rules: statements whose insertion breaks the rule, and where they apply
T(cp) == [cp |-> cp]
Rules ==
  << [r |-> "undeclared", ss |-> <<Pr(<<EVar("zz", T_num)>>)>>, sites |-> Sites],
     [r |-> "undeclared-assign", ss |-> <<SAsg(EVar("zz", T_num), Num(1))>>, sites |-> Sites],
     [r |-> "unused", ss |-> <<SInfer("uu", Num(1))>>, sites |-> Sites],
     [r |-> "unused-typed", ss |-> <<SDecl("uu", T_str)>>, sites |-> Sites],
     [r |-> "redeclared", ss |-> <<SInfer("dd", Num(1)), SInfer("dd", Num(2)), Pr(<<EVar("dd", T_num)>>)>>, sites |-> Sites],
     [r |-> "redeclared-typed", ss |-> <<SInfer("dd", Num(1)), SDecl("dd", T_num), Pr(<<EVar("dd", T_num)>>)>>, sites |-> Sites],
     [r |-> "type-assign", ss |-> <<SInfer("tm", Num(1)), [k |-> "asg", tg |-> EVar("tm", T_num), x |-> EStr(<<115>>)], Pr(<<EVar("tm", T_num)>>)>>, sites |-> Sites],
     [r |-> "type-operand", ss |-> <<Pr(<<[k |-> "bin", op |-> "+", l |-> Num(1), r |-> EStr(<<115>>), ty |-> T_num, cn |-> TRUE]>>)>>, sites |-> Sites],
     [r |-> "type-condition", ss |-> <<SIf(<<Num(1)>>, << <<Pr(<<Num(7)>>)>> >>, <<>>)>>, sites |-> Sites],
     [r |-> "type-argument", ss |-> <<Pr(<<[k |-> "call", f |-> "len", xs |-> <<EStr(<<97>>), EStr(<<98>>)>>, ty |-> T_num, cn |-> FALSE]>>)>>, sites |-> Sites],
     [r |-> "arg-count", ss |-> <<[k |-> "callst", x |-> [k |-> "call", f |-> "proc", xs |-> <<>>, ty |-> T_none, cn |-> FALSE]]>>, sites |-> Sites],
     [r |-> "arg-type", ss |-> <<[k |-> "callst", x |-> [k |-> "call", f |-> "proc", xs |-> <<EStr(<<115>>)>>, ty |-> T_none, cn |-> FALSE]]>>, sites |-> Sites],
     [r |-> "unknown-function", ss |-> <<[k |-> "callst", x |-> [k |-> "call", f |-> "nofunc", xs |-> <<Num(1)>>, ty |-> T_none, cn |-> FALSE]]>>, sites |-> Sites],
     [r |-> "break-outside-loop", ss |-> <<SIf(<<EBool(TRUE)>>, << <<SBrk>> >>, <<>>)>>, sites |-> Sites \ LoopSites],
     [r |-> "unreachable-after-break", ss |-> <<SBrk, Pr(<<Num(8)>>)>>, sites |-> LoopSites],
     [r |-> "unreachable-after-return", ss |-> <<SRet(<<>>), Pr(<<Num(8)>>)>>, sites |-> {"proc", "handler"}],
     [r |-> "unreachable-after-return-comment", ss |-> <<SRet(<<>>), Raw(<<"// a comment">>), Pr(<<Num(8)>>)>>, sites |-> {"proc", "handler"}],
     [r |-> "unreachable-after-return-blank", ss |-> <<SRet(<<>>), Raw(<<"">>), Raw(<<"">>), Pr(<<Num(8)>>)>>, sites |-> {"proc", "handler"}],
     [r |-> "unreachable-after-break-comment", ss |-> <<SBrk, Raw(<<"// a comment">>), Raw(<<"">>), Pr(<<Num(8)>>)>>, sites |-> LoopSites],
     [r |-> "unreachable-after-if-else", ss |-> <<SIf(<<EBool(TRUE)>>, << <<SRet(<<>>)>> >>, << <<SRet(<<>>)>> >>), Raw(<<"// c">>), Pr(<<Num(8)>>)>>, sites |-> {"proc", "handler"}],
     [r |-> "type-operand-empty-array", ss |-> <<Raw(<<"e1 := 1 + []">>), Raw(<<"print e1">>)>>, sites |-> Sites],
     [r |-> "type-operand-empty-array-left", ss |-> <<Raw(<<"e1 := [] + \"s\"">>), Raw(<<"print e1">>)>>, sites |-> Sites],
     [r |-> "type-operand-empty-map", ss |-> <<Raw(<<"e1 := true and {}">>), Raw(<<"print e1">>)>>, sites |-> Sites],
     [r |-> "type-operand-empties", ss |-> <<Raw(<<"print []=={}">>)>>, sites |-> Sites],
     [r |-> "type-operand-nested-empty", ss |-> <<Raw(<<"e1 := [[]] + [1]">>), Raw(<<"print e1">>)>>, sites |-> Sites],
     [r |-> "return-value-from-procedure", ss |-> <<SIf(<<EBool(TRUE)>>, << <<SRet(<<Num(1)>>)>> >>, <<>>)>>, sites |-> {"proc", "handler"}],
     [r |-> "return-wrong-type", ss |-> <<SIf(<<EBool(TRUE)>>, << <<SRet(<<EStr(<<115>>)>>)>> >>, <<>>)>>, sites |-> {"func"}],
     [r |-> "return-missing-value", ss |-> <<SIf(<<EBool(TRUE)>>, << <<SRet(<<>>)>> >>, <<>>)>>, sites |-> {"func"}],
     [r |-> "stray-after-statement", ss |-> <<Raw(<<"qq := 1 2">>), Raw(<<"print qq">>)>>, sites |-> Sites],
     [r |-> "stray-after-call", ss |-> <<Raw(<<"proc 1 )">>)>>, sites |-> Sites],
     [r |-> "stray-after-break-kw", ss |-> <<Raw(<<"if true">>), Raw(<<"    break 1">>), Raw(<<"end">>)>>, sites |-> LoopSites],
     [r |-> "string-index-assign", ss |-> <<SInfer("st", EStr(<<97, 98>>)), [k |-> "asg", tg |-> EIdx(EVar("st", T_str), Num(0)), x |-> EStr(<<120>>)], Pr(<<EVar("st", T_str)>>)>>, sites |-> Sites],
     [r |-> "anonymous-read", ss |-> <<Pr(<<EVar("_", T_num)>>)>>, sites |-> Sites],
     [r |-> "whitespace-in-argument", ss |-> <<Raw(<<"print 1 + 2">>)>>, sites |-> Sites],
     [r |-> "whitespace-after-unary", ss |-> <<Raw(<<"print - 5">>)>>, sites |-> Sites],
     [r |-> "whitespace-before-index", ss |-> <<Raw(<<"ar := [1]">>), Raw(<<"ar [0] = 3 + 2">>), Raw(<<"print ar">>)>>, sites |-> Sites],
     [r |-> "whitespace-around-dot", ss |-> <<Raw(<<"mp := {a:1}">>), Raw(<<"print mp. a">>)>>, sites |-> Sites],
     [r |-> "empty-block", ss |-> <<Raw(<<"if true">>), Raw(<<"end">>)>>, sites |-> Sites],
     [r |-> "missing-end", ss |-> <<Raw(<<"if true">>), Raw(<<"    print 1">>)>>, sites |-> {"top1"}],
     [r |-> "func-in-block", ss |-> <<Raw(<<"func inner">>), Raw(<<"    print 1">>), Raw(<<"end">>)>>, sites |-> Sites \ {"top0", "top1"}],
     [r |-> "unknown-event", ss |-> <<Raw(<<"on nosuchevent">>), Raw(<<"    print 1">>), Raw(<<"end">>)>>, sites |-> {"top0", "top1"}],
     [r |-> "handler-signature", ss |-> <<Raw(<<"on down x:string y:num">>), Raw(<<"    print x y">>), Raw(<<"end">>)>>, sites |-> {"top0", "top1"}],
     [r |-> "duplicate-function", ss |-> <<Raw(<<"func proc">>), Raw(<<"    print 1">>), Raw(<<"end">>)>>, sites |-> {"top0", "top1"}],
     [r |-> "missing-return", ss |-> <<Raw(<<"func mr:num">>), Raw(<<"    print 1">>), Raw(<<"end">>)>>, sites |-> {"top0", "top1"}],
     [r |-> "missing-return-branch", ss |-> <<Raw(<<"func mr:num">>), Raw(<<"    if true">>), Raw(<<"        return 1">>), Raw(<<"    end">>), Raw(<<"end">>)>>, sites |-> {"top0", "top1"}],
     [r |-> "missing-return-chain-1", ss |-> <<Raw(<<"func mr:num n:num">>), Raw(<<"    if n > 2">>), Raw(<<"        print 0">>), Raw(<<"    else if n == 2">>), Raw(<<"        return 2">>), Raw(<<"    else if n == 1">>), Raw(<<"        return 3">>), Raw(<<"    else">>), Raw(<<"        return 4">>), Raw(<<"    end">>), Raw(<<"end">>), Raw(<<"print (mr 3) (mr 2) (mr 1) (mr 0)">>)>>, sites |-> {"top0", "top1"}],
     [r |-> "missing-return-chain-2", ss |-> <<Raw(<<"func mr:num n:num">>), Raw(<<"    if n > 2">>), Raw(<<"        return 1">>), Raw(<<"    else if n == 2">>), Raw(<<"        print 0">>), Raw(<<"    else if n == 1">>), Raw(<<"        return 3">>), Raw(<<"    else">>), Raw(<<"        return 4">>), Raw(<<"    end">>), Raw(<<"end">>), Raw(<<"print (mr 3) (mr 2) (mr 1) (mr 0)">>)>>, sites |-> {"top0", "top1"}],
     [r |-> "missing-return-chain-3", ss |-> <<Raw(<<"func mr:num n:num">>), Raw(<<"    if n > 2">>), Raw(<<"        return 1">>), Raw(<<"    else if n == 2">>), Raw(<<"        return 2">>), Raw(<<"    else if n == 1">>), Raw(<<"        print 0">>), Raw(<<"    else">>), Raw(<<"        return 4">>), Raw(<<"    end">>), Raw(<<"end">>), Raw(<<"print (mr 3) (mr 2) (mr 1) (mr 0)">>)>>, sites |-> {"top0", "top1"}],
     [r |-> "missing-return-chain-4", ss |-> <<Raw(<<"func mr:num n:num">>), Raw(<<"    if n > 2">>), Raw(<<"        return 1">>), Raw(<<"    else if n == 2">>), Raw(<<"        return 2">>), Raw(<<"    else if n == 1">>), Raw(<<"        return 3">>), Raw(<<"    else">>), Raw(<<"        print 0">>), Raw(<<"    end">>), Raw(<<"end">>), Raw(<<"print (mr 3) (mr 2) (mr 1) (mr 0)">>)>>, sites |-> {"top0", "top1"}],
     [r |-> "missing-return-chain-no-else", ss |-> <<Raw(<<"func mr:num n:num">>), Raw(<<"    if n > 2">>), Raw(<<"        return 1">>), Raw(<<"    else if n == 2">>), Raw(<<"        return 2">>), Raw(<<"    else if n == 1">>), Raw(<<"        return 3">>), Raw(<<"    end">>), Raw(<<"end">>), Raw(<<"print (mr 3) (mr 2) (mr 1) (mr 0)">>)>>, sites |-> {"top0", "top1"}],
     [r |-> "missing-return-while", ss |-> <<Raw(<<"func mr:num n:num">>), Raw(<<"    while n > 0">>), Raw(<<"        return 1">>), Raw(<<"    end">>), Raw(<<"end">>), Raw(<<"print (mr 1) (mr 0)">>)>>, sites |-> {"top0", "top1"}],
     [r |-> "missing-return-for", ss |-> <<Raw(<<"func mr:num n:num">>), Raw(<<"    for i := range n">>), Raw(<<"        return i">>), Raw(<<"    end">>), Raw(<<"end">>), Raw(<<"print (mr 1) (mr 0)">>)>>, sites |-> {"top0", "top1"}],
     [r |-> "undeclared-sibling-elif", ss |-> <<Raw(<<"if true">>), Raw(<<"    sb := 1">>), Raw(<<"    print sb">>), Raw(<<"else if true">>), Raw(<<"    print sb">>), Raw(<<"end">>)>>, sites |-> Sites],
     [r |-> "undeclared-sibling-else", ss |-> <<Raw(<<"if false">>), Raw(<<"    sb := 1">>), Raw(<<"    print sb">>), Raw(<<"else">>), Raw(<<"    print sb">>), Raw(<<"end">>)>>, sites |-> Sites],
     [r |-> "undeclared-sibling-else-after-elif", ss |-> <<Raw(<<"if false">>), Raw(<<"    print 1">>), Raw(<<"else if false">>), Raw(<<"    sb := 1">>), Raw(<<"    print sb">>), Raw(<<"else">>), Raw(<<"    print sb">>), Raw(<<"end">>)>>, sites |-> Sites],
     [r |-> "undeclared-after-if", ss |-> <<Raw(<<"if true">>), Raw(<<"    sb := 1">>), Raw(<<"    print sb">>), Raw(<<"end">>), Raw(<<"print sb">>)>>, sites |-> Sites],
     [r |-> "undeclared-after-while", ss |-> <<Raw(<<"while false">>), Raw(<<"    sb := 1">>), Raw(<<"    print sb">>), Raw(<<"end">>), Raw(<<"print sb">>)>>, sites |-> Sites],
     [r |-> "undeclared-loop-variable-after-for", ss |-> <<Raw(<<"for fv := range 2">>), Raw(<<"    print fv">>), Raw(<<"end">>), Raw(<<"print fv">>)>>, sites |-> Sites],
     [r |-> "undeclared-body-local-after-for", ss |-> <<Raw(<<"for range 2">>), Raw(<<"    sb := 1">>), Raw(<<"    print sb">>), Raw(<<"end">>), Raw(<<"print sb">>)>>, sites |-> Sites],
     [r |-> "undeclared-caller-local", ss |-> <<Raw(<<"func usesCaller">>), Raw(<<"    print cl">>), Raw(<<"end">>), Raw(<<"func caller">>), Raw(<<"    cl := 1">>), Raw(<<"    print cl">>), Raw(<<"    usesCaller">>), Raw(<<"end">>), Raw(<<"caller">>)>>, sites |-> {"top0", "top1"}],
     [r |-> "undeclared-handler-local-in-func", ss |-> <<Raw(<<"func usesHandler">>), Raw(<<"    print hl">>), Raw(<<"end">>), Raw(<<"on down x:num y:num">>), Raw(<<"    hl := x + y">>), Raw(<<"    print hl">>), Raw(<<"    usesHandler">>), Raw(<<"end">>)>>, sites |-> {"top0", "top1"}],
     [r |-> "stray-after-variadic", ss |-> <<Raw(<<"func vv ns:num... print 1">>), Raw(<<"    print ns">>), Raw(<<"end">>), Raw(<<"vv 1">>)>>, sites |-> {"top0", "top1"}],
     [r |-> "stray-after-variadic-name", ss |-> <<Raw(<<"func vv ns:num... x">>), Raw(<<"    print ns">>), Raw(<<"end">>), Raw(<<"vv 1">>)>>, sites |-> {"top0", "top1"}],
     [r |-> "stray-after-variadic-param", ss |-> <<Raw(<<"func vv ns:num... m:num">>), Raw(<<"    print ns m">>), Raw(<<"end">>), Raw(<<"vv 1">>)>>, sites |-> {"top0", "top1"}],
     [r |-> "handler-variadic", ss |-> <<Raw(<<"on up x:num...">>), Raw(<<"    print x">>), Raw(<<"end">>)>>, sites |-> {"top0", "top1"}],
     [r |-> "handler-variadic-stray", ss |-> <<Raw(<<"on up x:num y:num... and more">>), Raw(<<"    print x y">>), Raw(<<"end">>)>>, sites |-> {"top0", "top1"}],
     [r |-> "stray-after-func-header", ss |-> <<Raw(<<"func vv n:num 1">>), Raw(<<"    print n">>), Raw(<<"end">>), Raw(<<"vv 1">>)>>, sites |-> {"top0", "top1"}],
     [r |-> "stray-after-handler-header", ss |-> <<Raw(<<"on up x:num y:num 1">>), Raw(<<"    print x y">>), Raw(<<"end">>)>>, sites |-> {"top0", "top1"}],
     [r |-> "string-index-assign-element", ss |-> <<Raw(<<"ws := [\"ab\"]">>), Raw(<<"ws[0][0] = \"x\"">>), Raw(<<"print ws">>)>>, sites |-> Sites],
     [r |-> "string-index-assign-field", ss |-> <<Raw(<<"mp := {a:\"ab\"}">>), Raw(<<"mp.a[0] = \"x\"">>), Raw(<<"print mp">>)>>, sites |-> Sites],
     [r |-> "string-index-assign-key", ss |-> <<Raw(<<"mp := {a:\"ab\"}">>), Raw(<<"mp[\"a\"][0] = \"x\"">>), Raw(<<"print mp">>)>>, sites |-> Sites],
     [r |-> "string-index-assign-nested", ss |-> <<Raw(<<"ws := [[\"ab\"]]">>), Raw(<<"ws[0][0][1] = \"x\"">>), Raw(<<"print ws">>)>>, sites |-> Sites],
     [r |-> "string-slice-assign", ss |-> <<Raw(<<"ws := [\"ab\"]">>), Raw(<<"ws[0][0:1] = \"x\"">>), Raw(<<"print ws">>)>>, sites |-> Sites],
     [r |-> "param-without-colon-eq", ss |-> <<Raw(<<"func pp a=num">>), Raw(<<"    print a">>), Raw(<<"end">>), Raw(<<"pp 1">>)>>, sites |-> {"top0", "top1"}],
     [r |-> "param-without-colon-dot", ss |-> <<Raw(<<"func pp a.num">>), Raw(<<"    print a">>), Raw(<<"end">>), Raw(<<"pp 1">>)>>, sites |-> {"top0", "top1"}],
     [r |-> "param-without-colon-dots", ss |-> <<Raw(<<"func pp a...num">>), Raw(<<"    print a">>), Raw(<<"end">>), Raw(<<"pp 1">>)>>, sites |-> {"top0", "top1"}],
     [r |-> "handler-param-without-colon", ss |-> <<Raw(<<"on down x=num y:num">>), Raw(<<"    print x y">>), Raw(<<"end">>)>>, sites |-> {"top0", "top1"}],
     [r |-> "typed-decl-with-stray", ss |-> <<Raw(<<"td:num 5">>), Raw(<<"print td">>)>>, sites |-> Sites],
     [r |-> "unused-shadowed-in-if", ss |-> <<Raw(<<"us := 1">>), Raw(<<"if true">>), Raw(<<"    us := 2">>), Raw(<<"    print us us">>), Raw(<<"    print us">>), Raw(<<"end">>)>>, sites |-> Sites],
     [r |-> "unused-shadowed-by-loop-variable", ss |-> <<Raw(<<"us := 1">>), Raw(<<"for us := range 2">>), Raw(<<"    print us us">>), Raw(<<"    print us">>), Raw(<<"end">>)>>, sites |-> Sites],
     [r |-> "unused-shadowed-in-while", ss |-> <<Raw(<<"us := 1">>), Raw(<<"while false">>), Raw(<<"    us := 2">>), Raw(<<"    print us us us">>), Raw(<<"end">>)>>, sites |-> Sites],
     [r |-> "unused-shadowed-nested-twice", ss |-> <<Raw(<<"us := 1">>), Raw(<<"if true">>), Raw(<<"    us := 2">>), Raw(<<"    if true">>), Raw(<<"        us := 3">>), Raw(<<"        print us us us">>), Raw(<<"    end">>), Raw(<<"    print us">>), Raw(<<"end">>)>>, sites |-> Sites],
     [r |-> "unused-shadowed-by-parameter", ss |-> <<Raw(<<"us := 1">>), Raw(<<"func up us:num">>), Raw(<<"    print us us">>), Raw(<<"    print us">>), Raw(<<"end">>), Raw(<<"up 2">>)>>, sites |-> {"top0", "top1"}],
     [r |-> "unused-shadowed-by-handler-parameter", ss |-> <<Raw(<<"us := 1">>), Raw(<<"on up us:num y:num">>), Raw(<<"    print us us y">>), Raw(<<"    print us">>), Raw(<<"end">>)>>, sites |-> {"top0", "top1"}],
     [r |-> "unused-typed-shadowed", ss |-> <<Raw(<<"us:string">>), Raw(<<"if true">>), Raw(<<"    us := 2">>), Raw(<<"    print us us">>), Raw(<<"end">>)>>, sites |-> Sites],
     [r |-> "unused-assigned-only-outer", ss |-> <<Raw(<<"if true">>), Raw(<<"    uo := 1">>), Raw(<<"    if true">>), Raw(<<"        uo := 2">>), Raw(<<"        print uo uo">>), Raw(<<"    end">>), Raw(<<"end">>)>>, sites |-> Sites],
     [r |-> "shadow-err-in-block", ss |-> <<Raw(<<"if true">>), Raw(<<"    err := \"s\"">>), Raw(<<"    n9 := str2num \"x\"">>), Raw(<<"    print err n9">>), Raw(<<"end">>)>>, sites |-> Sites],
     [r |-> "shadow-errmsg-in-block", ss |-> <<Raw(<<"if true">>), Raw(<<"    errmsg := 5">>), Raw(<<"    n9 := str2num \"x\"">>), Raw(<<"    print errmsg n9">>), Raw(<<"end">>)>>, sites |-> Sites],
     [r |-> "shadow-err-typed", ss |-> <<Raw(<<"if true">>), Raw(<<"    err:num">>), Raw(<<"    n9 := str2bool \"x\"">>), Raw(<<"    print err n9">>), Raw(<<"end">>)>>, sites |-> Sites],
     [r |-> "shadow-err-loop-variable", ss |-> <<Raw(<<"for err := range 2">>), Raw(<<"    n9 := str2num \"x\"">>), Raw(<<"    print err n9">>), Raw(<<"end">>)>>, sites |-> Sites],
     [r |-> "shadow-err-parameter", ss |-> <<Raw(<<"func se err:string">>), Raw(<<"    n9 := str2num \"x\"">>), Raw(<<"    print err n9">>), Raw(<<"end">>), Raw(<<"se \"a\"">>)>>, sites |-> {"top0", "top1"}],
     [r |-> "return-valueless-call-from-procedure", ss |-> <<Raw(<<"func rv">>), Raw(<<"    return (proc 1)">>), Raw(<<"end">>), Raw(<<"rv">>)>>, sites |-> {"top0", "top1"}],
     [r |-> "valueless-call-declared", ss |-> <<Raw(<<"vc := (proc 1)">>), Raw(<<"print vc">>)>>, sites |-> Sites] >>

\* ---- stray text after the n-th `end` line: the edit is carried in the case (fields n, extra) and
\* applied to the rendered text by the check (append extra to the n-th line that consists of `end`)
NEnds == 7     \* if, while, for, nested if, nested for, proc, fn, handler: the seed has 8 `end` lines

Mutants ==
  {[r |-> Rules[i].r, site |-> s, kind |-> "insert", n |-> 0] : i \in DOMAIN Rules, s \in Sites}
  \cup {[r |-> "stray-after-end", site |-> "end", kind |-> "afterend", n |-> n] : n \in 1..8}
  \cup {[r |-> "stray-after-end-comment-like", site |-> "end", kind |-> "afterend2", n |-> n] : n \in 1..8}
Applies(m) == m.kind # "insert" \/ m.site \in Rules[CHOOSE i \in DOMAIN Rules : Rules[i].r = m.r].sites

RuleSS(r) == Rules[CHOOSE i \in DOMAIN Rules : Rules[i].r = r].ss

Init == mut \in {m \in Mutants : Applies(m)} \cup {[r |-> "none", site |-> "none", kind |-> "seed", n |-> 0]}
Next == FALSE /\ UNCHANGED mut

Source(m) ==
  CASE m.kind = "insert" -> RProg(Seed(At(m.site, RuleSS(m.r))), "canon")
    [] OTHER -> RProg(Seed(NoIns), "canon")

Extra(m) == CASE m.kind = "afterend" -> " print 99" [] m.kind = "afterend2" -> " x" [] OTHER -> ""
Emit == PrintT(ToJson([rule |-> mut.r, site |-> mut.site, n |-> mut.n, extra |-> Extra(mut), valid |-> mut.kind = "seed", src |-> Source(mut)]))
=============================================================================
