------------------------------ MODULE FamExpr ------------------------------
(***************************************************************************)
(* Family for C01: expression trees.  Every operand of the precedence       *)
(* lattice is a tracer call (tn i v) / (tb i b) / (ts i s), a user function *)
(* that prints its index and returns its value, so that the order of        *)
(* evaluation and short-circuiting are visible in the output.               *)
(***************************************************************************)
EXTENDS EvyMachine, SequencesExt

CONSTANT Tier     \* "quick" | "thorough"

TNsig == Sig(<<T_num, T_num>>, <<>>, T_num)
TBsig == Sig(<<T_num, T_bool>>, <<>>, T_bool)
TSsig == Sig(<<T_num, T_str>>, <<>>, T_str)
S_t == <<116>>
TracerBody(ty) == <<SCall(ECallB("print", <<EStr(S_t), EVar("i", T_num)>>)), SRetV(EVar("v", ty), ty)>>
TracerFuncs == <<FuncDef("tn", <<Param("i", T_num), Param("v", T_num)>>, <<>>, T_num, TracerBody(T_num)),
                 FuncDef("tb", <<Param("i", T_num), Param("v", T_bool)>>, <<>>, T_bool, TracerBody(T_bool)),
                 FuncDef("ts", <<Param("i", T_num), Param("v", T_str)>>, <<>>, T_str, TracerBody(T_str))>>

\* a numeric literal expression for an arbitrary (possibly negative) value
NumE(v) == IF IsNeg(v) THEN EUn("-", ENum(NumNeg(v))) ELSE ENum(v)
TN(i, v) == ECallU("tn", TNsig, <<ENum(I(i)), NumE(v)>>)
TB(i, b) == ECallU("tb", TBsig, <<ENum(I(i)), EBool(b)>>)
TS(i, cp) == ECallU("ts", TSsig, <<ENum(I(i)), EStr(cp)>>)

PrintProg(e) == Program(<<SCall(ECallB("print", <<e>>))>>, TracerFuncs, <<>>)

---------------------------------------------------------------------------
(* (a) the precedence lattice: all typeable operator triples in all five    *)
(*     tree shapes over four tracer leaves                                  *)

L == <<>>
Shapes == << <<<< <<L, L>>, L>>, L>>, << <<L, <<L, L>> >>, L>>, << <<L, L>>, <<L, L>> >>,
             <<L, << <<L, L>>, L>> >>, <<L, <<L, <<L, L>> >> >> >>
Shapes2 == << << <<L, L>>, L>>, <<L, <<L, L>> >> >>

RECURSIVE NLeaves(_)
NLeaves(sk) == IF Len(sk) = 0 THEN 1 ELSE NLeaves(sk[1]) + NLeaves(sk[2])

Arith == {"+", "-", "*", "/", "%"}
Cmp   == {"<", "<=", ">", ">="}
Eq    == {"==", "!="}
Logic == {"and", "or"}
OpSigs(ty) == IF ty = "num" THEN {[op |-> o, l |-> "num", r |-> "num"] : o \in Arith}
              ELSE {[op |-> o, l |-> "num", r |-> "num"] : o \in Cmp \cup Eq}
                   \cup {[op |-> o, l |-> "bool", r |-> "bool"] : o \in Eq \cup Logic}

NumPats  == << <<I(8), I(2), I(4), I(1)>>, <<I(3), Fin(5, 1), I(2), I(6)>> >>
BoolPats == << <<TRUE, FALSE, TRUE, FALSE>>, <<FALSE, TRUE, TRUE, FALSE>> >>
Leaf(ty, i, pat) == IF ty = "num" THEN TN(i, NumPats[pat][i]) ELSE TB(i, BoolPats[pat][i])

RECURSIVE GenT(_, _, _, _)
GenT(ty, sk, i0, pat) ==
  IF Len(sk) = 0 THEN {Leaf(ty, i0, pat)}
  ELSE UNION {{EBin(sg.op, l, r) : l \in GenT(sg.l, sk[1], i0, pat),
                                   r \in GenT(sg.r, sk[2], i0 + NLeaves(sk[1]), pat)} : sg \in OpSigs(ty)}

Lattice == LET sh == IF Tier = "quick" THEN Shapes2 ELSE Shapes
               pats == IF Tier = "quick" THEN {1} ELSE {1, 2}
           IN UNION {GenT(ty, sh[j], 1, p) : ty \in {"num", "bool"}, j \in DOMAIN sh, p \in pats}

---------------------------------------------------------------------------
(* (b) operator x operand-type table on literal operands, depth <= 2       *)

NumLits == {I(0), I(1), I(2), I(7), Fin(1, 1), Fin(5, 2), NumNeg(I(3))}
A_uml == 228       \* a-umlaut (2 bytes)
C_euro == 8364     \* euro sign (3 bytes)
C_emoji == 128512  \* grinning face (4 bytes)
StrLits == {<<>>, <<97>>, <<97, 98>>, <<98>>, <<A_uml>>, <<97, A_uml, C_euro>>, <<C_emoji, 97>>, <<65>>}
NumOps == {EBin(op, NumE(a), NumE(b)) : op \in Arith \cup Cmp \cup Eq, a \in NumLits, b \in NumLits}
StrOps == {EBin(op, EStr(a), EStr(b)) : op \in {"+"} \cup Cmp \cup Eq, a \in StrLits, b \in StrLits}
BoolOps == {EBin(op, EBool(a), EBool(b)) : op \in Logic \cup Eq, a \in BOOLEAN, b \in BOOLEAN}
           \cup {EUn("!", EBool(a)) : a \in BOOLEAN}
           \cup {EUn("!", EGrp(EBin(op, EBool(a), EBool(b)))) : op \in Logic, a \in BOOLEAN, b \in BOOLEAN}
UnOps == {EUn("-", ENum(a)) : a \in {I(1), Fin(5, 1)}}
         \cup {EUn("-", EGrp(EBin(op, ENum(I(5)), ENum(I(2))))) : op \in Arith}
         \cup {EBin(op, EUn("-", ENum(I(3))), EUn("-", ENum(I(2)))) : op \in {"+", "-", "*", "<", "=="}}

\* arrays and maps: concatenation, repetition, deep equality, literals with tracers
ArrLits == {EArr(<<>>), EArr(<<ENum(I(1))>>), EArr(<<ENum(I(1)), ENum(I(2))>>), EArr(<<ENum(I(2)), ENum(I(1))>>),
            EArr(<<EArr(<<ENum(I(1))>>), EArr(<<>>)>>)}
K_a == <<97>>
K_b == <<98>>
MapLits == {EMap(<<>>, <<>>), EMap(<<K_a>>, <<ENum(I(1))>>), EMap(<<K_a, K_b>>, <<ENum(I(1)), ENum(I(2))>>),
            EMap(<<K_b, K_a>>, <<ENum(I(2)), ENum(I(1))>>), EMap(<<K_a, K_b>>, <<ENum(I(2)), ENum(I(1))>>)}
NumArrs == {EArr(<<>>), EArr(<<ENum(I(1))>>), EArr(<<ENum(I(1)), ENum(I(2))>>), EArr(<<ENum(I(2)), ENum(I(1))>>)}
ArrOps == {EBin(op, a, b) : op \in {"+", "==", "!="}, a \in NumArrs, b \in NumArrs}
          \cup {EBin("*", a, NumE(n)) : a \in NumArrs, n \in {I(0), I(1), I(2), I(3), Fin(1, 1), NumNeg(I(1))}}
          \cup {EBin(op, a, b) : op \in Eq, a \in MapLits, b \in MapLits}
          \cup {EArr(<<TN(1, I(5)), TN(2, I(6)), TN(3, I(7))>>),
                EMap(<<K_a, K_b, <<99>>, <<100>>, <<101>>>>, <<TN(1, I(5)), TN(2, I(6)), TN(3, I(7)), TN(4, I(8)), TN(5, I(9))>>),
                EMap(<<<<122>>, K_a>>, <<TS(1, <<120>>), TS(2, <<121>>)>>),
                EArr(<<EArr(<<TN(1, I(1))>>), EArr(<<TN(2, I(2)), TN(3, I(3))>>)>>),
                EBin("+", EArr(<<TN(1, I(1))>>), EArr(<<TN(2, I(2))>>)),
                EIdx(EArr(<<TN(1, I(1)), TN(2, I(2))>>), TN(3, I(0))),
                ESlice(EArr(<<TN(1, I(1)), TN(2, I(2)), TN(3, I(3))>>), <<TN(4, I(1))>>, <<TN(5, I(2))>>),
                ECallB("sprint", <<TN(1, I(1)), TS(2, <<120>>), TB(3, TRUE)>>),
                ECallB("max", <<TN(1, I(1)), TN(2, I(2))>>)}

\* (c) list elements are separated by whitespace: every kind of expression as an argument / array element,
\*     followed by an element that starts with - [ ( ! " { or a name; the program declares what it needs first
VA == EVar("a", TArr(T_num))
VM == EVar("m", TMap(T_num))
VX == EVar("x", T_any)
VB == EVar("b", T_num)
VT == EVar("t", T_bool)
Firsts == << VB, ENum(I(7)), EStr(<<115>>), EIdx(VA, ENum(I(0))), EIdx(VA, EUn("-", ENum(I(1)))), ESlice(VA, <<>>, <<ENum(I(1))>>),
             ESlice(VA, <<ENum(I(1))>>, <<>>), EDot(VM, K_a), EIdx(VM, EStr(K_a)), EGrp(EBin("+", VB, ENum(I(1)))),
             ECallB("len", <<VA>>), EAssert(VX, T_num), EArr(<<ENum(I(1))>>), EMap(<<K_a>>, <<ENum(I(1))>>), EUn("-", VB), VT,
             EBin("+", VB, ENum(I(1))), EIdx(EStr(<<97, 98>>), ENum(I(1))), EBool(TRUE), EUn("!", VT) >>
Seconds == << EUn("-", ENum(I(1))), EUn("-", VB), EArr(<<ENum(I(0))>>), EArr(<<>>), EGrp(ENum(I(2))), EUn("!", VT), EStr(<<122>>),
              EMap(<<K_b>>, <<ENum(I(2))>>), VB, EUn("-", EGrp(EBin("*", VB, ENum(I(2))))), ECallB("len", <<VA>>), EIdx(VA, ENum(I(1))) >>
ListPre == <<SInfer("a", EArr(<<ENum(I(5)), ENum(I(6))>>)), SInfer("m", EMap(<<K_a>>, <<ENum(I(3))>>)), SDecl("x", T_any), SAsg(VX, ENum(I(4))),
             SInfer("b", ENum(I(1))), SInfer("t", EBool(FALSE))>>
ListProg(i, j, how) ==
  Program(ListPre \o <<CASE how = "args" -> SCall(ECallB("print", <<Firsts[i], Seconds[j], Firsts[i]>>))
                          [] how = "array" -> SCall(ECallB("print", <<ECallB("len", <<EArr(<<Firsts[i], Seconds[j], Firsts[i]>>)>>), EArr(<<Firsts[i], Seconds[j]>>)>>))
                          [] OTHER -> SCall(ECallB("print", <<EMap(<<K_a, K_b>>, <<Firsts[i], Seconds[j]>>), ECallB("sprint", <<Seconds[j], Firsts[i]>>)>>)),
                        SCall(ECallB("print", <<VA, VM, VX, VB, VT>>))>>,
          <<>>, <<>>)
ListProgs == {ListProg(i, j, how) : i \in DOMAIN Firsts, j \in DOMAIN Seconds, how \in {"args", "array", "map"}}

\* (d) array repetition copies its elements deeply before each repetition (spec.md, Arrays): a write through
\*     one repetition is seen neither through the others nor through the operand, whatever holds the element
RA(ty) == EVar("a", ty)
RB(ty) == EVar("b", ty)
RepProg(lit, n, mutate(_)) ==
  Program(<<SInfer("a", lit), SInfer("b", EBin("*", RA(lit.ty), ENum(I(n))))>> \o mutate(lit.ty)
          \o <<SCall(ECallB("print", <<RA(lit.ty), RB(lit.ty), ECallB("len", <<RB(lit.ty)>>)>>)),
               SCall(ECallB("print", <<EBin("==", EIdx(RB(lit.ty), ENum(I(0))), EIdx(RB(lit.ty), ENum(I(Len(lit.xs))))),
                                       EBin("==", EIdx(RA(lit.ty), ENum(I(0))), EIdx(RB(lit.ty), ENum(I(Len(lit.xs)))))>>))>>, <<>>, <<>>)
MutNested(ty) == <<SAsg(EIdx(EIdx(RB(ty), ENum(I(0))), ENum(I(0))), ENum(I(9)))>>
MutMap(ty) == <<SAsg(EDot(EIdx(RB(ty), ENum(I(0))), K_a), ENum(I(9)))>>
MutAnyArr(ty) == <<SInfer("c", EAssert(EIdx(RB(ty), ENum(I(0))), TArr(T_num))), SAsg(EIdx(EVar("c", TArr(T_num)), ENum(I(0))), ENum(I(9)))>>
MutAnyMap(ty) == <<SInfer("c", EAssert(EIdx(RB(ty), ENum(I(0))), TMap(T_num))), SAsg(EDot(EVar("c", TMap(T_num)), K_a), ENum(I(9)))>>
MutOperand(ty) == <<SAsg(EIdx(EIdx(RA(ty), ENum(I(0))), ENum(I(0))), ENum(I(9)))>>
RepProgs ==
  {RepProg(EArr(<<EArr(<<ENum(I(0)), ENum(I(0))>>)>>), n, MutNested) : n \in {1, 2, 3}}
  \cup {RepProg(EArr(<<EArr(<<ENum(I(0))>>), EArr(<<ENum(I(1))>>)>>), n, MutNested) : n \in {2}}
  \cup {RepProg(EArr(<<EArr(<<ENum(I(0)), ENum(I(0))>>)>>), n, MutOperand) : n \in {1, 2}}
  \cup {RepProg(EArr(<<EMap(<<K_a>>, <<ENum(I(1))>>)>>), n, MutMap) : n \in {1, 2}}
  \cup {RepProg(EArr(<<EArr(<<ENum(I(0)), ENum(I(0))>>), EStr(<<120>>)>>), n, MutAnyArr) : n \in {1, 2}}
  \cup {RepProg(EArr(<<EMap(<<K_a>>, <<ENum(I(1))>>), ENum(I(5))>>), n, MutAnyMap) : n \in {1, 2}}

Table == NumOps \cup StrOps \cup BoolOps \cup UnOps \cup ArrOps

CasesOf(class, es) == {MkCase("FamExpr", class, PrintProg(e)) : e \in es}
FamCases == CasesOf("lattice", Lattice) \cup CasesOf("table", Table) \cup {MkCase("FamExpr", "list", p) : p \in ListProgs}
            \cup {MkCase("FamExpr", "repeat", p) : p \in RepProgs}
FamInit == InitWith(FamCases)

=============================================================================
