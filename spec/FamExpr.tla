------------------------------ MODULE FamExpr ------------------------------
(***************************************************************************)
(* Family for C01: expression trees.  Every operand of the precedence       *)
(* lattice is a tracer call (tn i v) / (tb i b) / (ts i s), a user function *)
(* that prints its index and returns its value, so that the order of        *)
(* evaluation and short-circuiting are visible in the output.               *)
(***************************************************************************)
EXTENDS EvyMachine, SequencesExt

CONSTANT Tier     \* "quick" | "thorough"

TNsig == Sig(<<T_num, T_num>>, <<>>, T_num)
TBsig == Sig(<<T_num, T_bool>>, <<>>, T_bool)
TSsig == Sig(<<T_num, T_str>>, <<>>, T_str)
S_t == <<116>>
TracerBody(ty) == <<SCall(ECallB("print", <<EStr(S_t), EVar("i", T_num)>>)), SRetV(EVar("v", ty), ty)>>
TracerFuncs == <<FuncDef("tn", <<Param("i", T_num), Param("v", T_num)>>, <<>>, T_num, TracerBody(T_num)),
                 FuncDef("tb", <<Param("i", T_num), Param("v", T_bool)>>, <<>>, T_bool, TracerBody(T_bool)),
                 FuncDef("ts", <<Param("i", T_num), Param("v", T_str)>>, <<>>, T_str, TracerBody(T_str))>>

\* a numeric literal expression for an arbitrary (possibly negative) value
NumE(v) == IF IsNeg(v) THEN EUn("-", ENum(NumNeg(v))) ELSE ENum(v)
TN(i, v) == ECallU("tn", TNsig, <<ENum(I(i)), NumE(v)>>)
TB(i, b) == ECallU("tb", TBsig, <<ENum(I(i)), EBool(b)>>)
TS(i, cp) == ECallU("ts", TSsig, <<ENum(I(i)), EStr(cp)>>)

PrintProg(e) == Program(<<SCall(ECallB("print", <<e>>))>>, TracerFuncs, <<>>)

---------------------------------------------------------------------------
(* (a) the precedence lattice: all typeable operator triples in all five    *)
(*     tree shapes over four tracer leaves                                  *)

L == <<>>
Shapes == << <<<< <<L, L>>, L>>, L>>, << <<L, <<L, L>> >>, L>>, << <<L, L>>, <<L, L>> >>,
             <<L, << <<L, L>>, L>> >>, <<L, <<L, <<L, L>> >> >> >>
Shapes2 == << << <<L, L>>, L>>, <<L, <<L, L>> >> >>

RECURSIVE NLeaves(_)
NLeaves(sk) == IF Len(sk) = 0 THEN 1 ELSE NLeaves(sk[1]) + NLeaves(sk[2])

Arith == {"+", "-", "*", "/", "%"}
Cmp   == {"<", "<=", ">", ">="}
Eq    == {"==", "!="}
Logic == {"and", "or"}
OpSigs(ty) == IF ty = "num" THEN {[op |-> o, l |-> "num", r |-> "num"] : o \in Arith}
              ELSE {[op |-> o, l |-> "num", r |-> "num"] : o \in Cmp \cup Eq}
                   \cup {[op |-> o, l |-> "bool", r |-> "bool"] : o \in Eq \cup Logic}

NumPats  == << <<I(8), I(2), I(4), I(1)>>, <<I(3), Fin(5, 1), I(2), I(6)>> >>
BoolPats == << <<TRUE, FALSE, TRUE, FALSE>>, <<FALSE, TRUE, TRUE, FALSE>> >>
Leaf(ty, i, pat) == IF ty = "num" THEN TN(i, NumPats[pat][i]) ELSE TB(i, BoolPats[pat][i])

RECURSIVE GenT(_, _, _, _)
GenT(ty, sk, i0, pat) ==
  IF Len(sk) = 0 THEN {Leaf(ty, i0, pat)}
  ELSE UNION {{EBin(sg.op, l, r) : l \in GenT(sg.l, sk[1], i0, pat),
                                   r \in GenT(sg.r, sk[2], i0 + NLeaves(sk[1]), pat)} : sg \in OpSigs(ty)}

Lattice == LET sh == IF Tier = "quick" THEN Shapes2 ELSE Shapes
               pats == IF Tier = "quick" THEN {1} ELSE {1, 2}
           IN UNION {GenT(ty, sh[j], 1, p) : ty \in {"num", "bool"}, j \in DOMAIN sh, p \in pats}

---------------------------------------------------------------------------
(* (b) operator x operand-type table on literal operands, depth <= 2       *)

NumLits == {I(0), I(1), I(2), I(7), Fin(1, 1), Fin(5, 2), NumNeg(I(3))}
A_uml == 228       \* a-umlaut (2 bytes)
C_euro == 8364     \* euro sign (3 bytes)
C_emoji == 128512  \* grinning face (4 bytes)
StrLits == {<<>>, <<97>>, <<97, 98>>, <<98>>, <<A_uml>>, <<97, A_uml, C_euro>>, <<C_emoji, 97>>, <<65>>}
NumOps == {EBin(op, NumE(a), NumE(b)) : op \in Arith \cup Cmp \cup Eq, a \in NumLits, b \in NumLits}
StrOps == {EBin(op, EStr(a), EStr(b)) : op \in {"+"} \cup Cmp \cup Eq, a \in StrLits, b \in StrLits}
BoolOps == {EBin(op, EBool(a), EBool(b)) : op \in Logic \cup Eq, a \in BOOLEAN, b \in BOOLEAN}
           \cup {EUn("!", EBool(a)) : a \in BOOLEAN}
           \cup {EUn("!", EGrp(EBin(op, EBool(a), EBool(b)))) : op \in Logic, a \in BOOLEAN, b \in BOOLEAN}
UnOps == {EUn("-", ENum(a)) : a \in {I(1), Fin(5, 1)}}
         \cup {EUn("-", EGrp(EBin(op, ENum(I(5)), ENum(I(2))))) : op \in Arith}
         \cup {EBin(op, EUn("-", ENum(I(3))), EUn("-", ENum(I(2)))) : op \in {"+", "-", "*", "<", "=="}}

\* arrays and maps: concatenation, repetition, deep equality, literals with tracers
ArrLits == {EArr(<<>>), EArr(<<ENum(I(1))>>), EArr(<<ENum(I(1)), ENum(I(2))>>), EArr(<<ENum(I(2)), ENum(I(1))>>),
            EArr(<<EArr(<<ENum(I(1))>>), EArr(<<>>)>>)}
K_a == <<97>>
K_b == <<98>>
MapLits == {EMap(<<>>, <<>>), EMap(<<K_a>>, <<ENum(I(1))>>), EMap(<<K_a, K_b>>, <<ENum(I(1)), ENum(I(2))>>),
            EMap(<<K_b, K_a>>, <<ENum(I(2)), ENum(I(1))>>), EMap(<<K_a, K_b>>, <<ENum(I(2)), ENum(I(1))>>)}
NumArrs == {EArr(<<>>), EArr(<<ENum(I(1))>>), EArr(<<ENum(I(1)), ENum(I(2))>>), EArr(<<ENum(I(2)), ENum(I(1))>>)}
ArrOps == {EBin(op, a, b) : op \in {"+", "==", "!="}, a \in NumArrs, b \in NumArrs}
          \cup {EBin("*", a, NumE(n)) : a \in NumArrs, n \in {I(0), I(1), I(2), I(3), Fin(1, 1), NumNeg(I(1))}}
          \cup {EBin(op, a, b) : op \in Eq, a \in MapLits, b \in MapLits}
          \cup {EArr(<<TN(1, I(5)), TN(2, I(6)), TN(3, I(7))>>),
                EMap(<<K_a, K_b, <<99>>, <<100>>, <<101>>>>, <<TN(1, I(5)), TN(2, I(6)), TN(3, I(7)), TN(4, I(8)), TN(5, I(9))>>),
                EMap(<<<<122>>, K_a>>, <<TS(1, <<120>>), TS(2, <<121>>)>>),
                EArr(<<EArr(<<TN(1, I(1))>>), EArr(<<TN(2, I(2)), TN(3, I(3))>>)>>),
                EBin("+", EArr(<<TN(1, I(1))>>), EArr(<<TN(2, I(2))>>)),
                EIdx(EArr(<<TN(1, I(1)), TN(2, I(2))>>), TN(3, I(0))),
                ESlice(EArr(<<TN(1, I(1)), TN(2, I(2)), TN(3, I(3))>>), <<TN(4, I(1))>>, <<TN(5, I(2))>>),
                ECallB("sprint", <<TN(1, I(1)), TS(2, <<120>>), TB(3, TRUE)>>),
                ECallB("max", <<TN(1, I(1)), TN(2, I(2))>>)}

\* (c) list elements are separated by whitespace: every kind of expression as an argument / array element,
\*     followed by an element that starts with - [ ( ! " { or a name; the program declares what it needs first
VA == EVar("a", TArr(T_num))
VM == EVar("m", TMap(T_num))
VX == EVar("x", T_any)
VB == EVar("b", T_num)
VT == EVar("t", T_bool)
Firsts == << VB, ENum(I(7)), EStr(<<115>>), EIdx(VA, ENum(I(0))), EIdx(VA, EUn("-", ENum(I(1)))), ESlice(VA, <<>>, <<ENum(I(1))>>),
             ESlice(VA, <<ENum(I(1))>>, <<>>), EDot(VM, K_a), EIdx(VM, EStr(K_a)), EGrp(EBin("+", VB, ENum(I(1)))),
             ECallB("len", <<VA>>), EAssert(VX, T_num), EArr(<<ENum(I(1))>>), EMap(<<K_a>>, <<ENum(I(1))>>), EUn("-", VB), VT,
             EBin("+", VB, ENum(I(1))), EIdx(EStr(<<97, 98>>), ENum(I(1))), EBool(TRUE), EUn("!", VT) >>
Seconds == << EUn("-", ENum(I(1))), EUn("-", VB), EArr(<<ENum(I(0))>>), EArr(<<>>), EGrp(ENum(I(2))), EUn("!", VT), EStr(<<122>>),
              EMap(<<K_b>>, <<ENum(I(2))>>), VB, EUn("-", EGrp(EBin("*", VB, ENum(I(2))))), ECallB("len", <<VA>>), EIdx(VA, ENum(I(1))) >>
ListPre == <<SInfer("a", EArr(<<ENum(I(5)), ENum(I(6))>>)), SInfer("m", EMap(<<K_a>>, <<ENum(I(3))>>)), SDecl("x", T_any), SAsg(VX, ENum(I(4))),
             SInfer("b", ENum(I(1))), SInfer("t", EBool(FALSE))>>
ListProg(i, j, how) ==
  Program(ListPre \o <<CASE how = "args" -> SCall(ECallB("print", <<Firsts[i], Seconds[j], Firsts[i]>>))
                          [] how = "array" -> SCall(ECallB("print", <<ECallB("len", <<EArr(<<Firsts[i], Seconds[j], Firsts[i]>>)>>), EArr(<<Firsts[i], Seconds[j]>>)>>))
                          [] OTHER -> SCall(ECallB("print", <<EMap(<<K_a, K_b>>, <<Firsts[i], Seconds[j]>>), ECallB("sprint", <<Seconds[j], Firsts[i]>>)>>)),
                        SCall(ECallB("print", <<VA, VM, VX, VB, VT>>))>>,
          <<>>, <<>>)
ListProgs == {ListProg(i, j, how) : i \in DOMAIN Firsts, j \in DOMAIN Seconds, how \in {"args", "array", "map"}}

\* (d) array repetition copies its elements deeply before each repetition (spec.md, Arrays): a write through
\*     one repetition is seen neither through the others nor through the operand, whatever holds the element
RA(ty) == EVar("a", ty)
RB(ty) == EVar("b", ty)
RepProg(lit, n, mutate(_)) ==
  Program(<<SInfer("a", lit), SInfer("b", EBin("*", RA(lit.ty), ENum(I(n))))>> \o mutate(lit.ty)
          \o <<SCall(ECallB("print", <<RA(lit.ty), RB(lit.ty), ECallB("len", <<RB(lit.ty)>>)>>)),
               SCall(ECallB("print", <<EBin("==", EIdx(RB(lit.ty), ENum(I(0))), EIdx(RB(lit.ty), ENum(I(Len(lit.xs))))),
                                       EBin("==", EIdx(RA(lit.ty), ENum(I(0))), EIdx(RB(lit.ty), ENum(I(Len(lit.xs)))))>>))>>, <<>>, <<>>)
MutNested(ty) == <<SAsg(EIdx(EIdx(RB(ty), ENum(I(0))), ENum(I(0))), ENum(I(9)))>>
MutMap(ty) == <<SAsg(EDot(EIdx(RB(ty), ENum(I(0))), K_a), ENum(I(9)))>>
MutAnyArr(ty) == <<SInfer("c", EAssert(EIdx(RB(ty), ENum(I(0))), TArr(T_num))), SAsg(EIdx(EVar("c", TArr(T_num)), ENum(I(0))), ENum(I(9)))>>
MutAnyMap(ty) == <<SInfer("c", EAssert(EIdx(RB(ty), ENum(I(0))), TMap(T_num))), SAsg(EDot(EVar("c", TMap(T_num)), K_a), ENum(I(9)))>>
MutOperand(ty) == <<SAsg(EIdx(EIdx(RA(ty), ENum(I(0))), ENum(I(0))), ENum(I(9)))>>
RepProgs ==
  {RepProg(EArr(<<EArr(<<ENum(I(0)), ENum(I(0))>>)>>), n, MutNested) : n \in {1, 2, 3}}
  \cup {RepProg(EArr(<<EArr(<<ENum(I(0))>>), EArr(<<ENum(I(1))>>)>>), n, MutNested) : n \in {2}}
  \cup {RepProg(EArr(<<EArr(<<ENum(I(0)), ENum(I(0))>>)>>), n, MutOperand) : n \in {1, 2}}
  \cup {RepProg(EArr(<<EMap(<<K_a>>, <<ENum(I(1))>>)>>), n, MutMap) : n \in {1, 2}}
  \cup {RepProg(EArr(<<EArr(<<ENum(I(0)), ENum(I(0))>>), EStr(<<120>>)>>), n, MutAnyArr) : n \in {1, 2}}
  \cup {RepProg(EArr(<<EMap(<<K_a>>, <<ENum(I(1))>>), ENum(I(5))>>), n, MutAnyMap) : n \in {1, 2}}

\* (e) the value of an expression does not depend on other expressions that share an operand with it: two (three)
\*     results built from the same left operand, which has been indexed before; then every element of every result
WS == EVar("w", T_str)
WA == EVar("w", TArr(T_num))
StrOf(n) == EStr(SubSeq(<<104, A_uml, 108, C_euro, 111, 119, 33>>, 1, n))
ArrOf(n) == EArr([i \in 1..n |-> ENum(I(i))])
AllIdx(v, n) == [i \in 1..n |-> EIdx(v, ENum(I(i - 1)))] \o <<EIdx(v, EUn("-", ENum(I(1)))), ESlice(v, <<ENum(I(n - 1))>>, <<>>)>>
SibStr(n, x1, x2) ==
  LET R1 == EVar("r1", T_str)   R2 == EVar("r2", T_str)   R3 == EVar("r3", T_str)
  IN Program(<<SInfer("w", StrOf(n)), SCall(ECallB("print", <<EIdx(WS, ENum(I(0))), ECallB("len", <<WS>>)>>)),
               SInfer("r1", EBin("+", WS, EStr(x1))), SInfer("r2", EBin("+", WS, EStr(x2))), SInfer("r3", EBin("+", R1, EStr(x2))),
               SCall(ECallB("print", <<R1, R2, R3, WS>>)),
               SCall(ECallB("print", AllIdx(R1, n + Len(x1)))), SCall(ECallB("print", AllIdx(R2, n + Len(x2)))), SCall(ECallB("print", AllIdx(WS, n))),
               SCall(ECallB("print", <<EIdx(EGrp(EBin("+", EGrp(EBin("+", WS, EStr(x1))), EGrp(EBin("+", WS, EStr(x2))))), ENum(I(n))),
                                       EBin("==", EIdx(R1, ENum(I(n))), EStr(<<x1[1]>>))>>))>>, <<>>, <<>>)
SibArr(n, k) ==
  LET TA_ == TArr(T_num)
      R1 == EVar("r1", TA_)   R2 == EVar("r2", TA_)
      X(b) == EArr([i \in 1..k |-> ENum(I(b + i))])
  IN Program(<<SInfer("w", ArrOf(n)), SInfer("r1", EBin("+", WA, X(10))), SInfer("r2", EBin("+", WA, X(20))),
               SCall(ECallB("print", <<R1, R2, WA>>)), SAsg(EIdx(R2, ENum(I(0))), ENum(I(99))),
               SCall(ECallB("print", AllIdx(R1, n + k))), SCall(ECallB("print", AllIdx(R2, n + k))), SCall(ECallB("print", AllIdx(WA, n)))>>, <<>>, <<>>)
SibProgs == {SibStr(n, x1, x2) : n \in 1..7, x1 \in {<<33>>, <<A_uml, 33>>}, x2 \in {<<63>>, <<63, C_euro, 63>>}}
            \cup {SibArr(n, k) : n \in 1..6, k \in 1..2}

\* (e2) the same with a left operand that is itself the result of repeated concatenation (an accumulator)
AccArr(n, k) ==
  LET TA_ == TArr(T_num)
      R1 == EVar("r1", TA_)   R2 == EVar("r2", TA_)   Snap == EVar("snap", TA_)
  IN Program(<<SDecl("w", TA_), SFor("i", "num", <<ENum(I(n))>>, <<SAsg(WA, EBin("+", WA, EArr(<<EVar("i", T_num)>>)))>>),
               SInfer("snap", WA), SInfer("r1", EBin("+", WA, EArr([i \in 1..k |-> ENum(I(10 + i))]))), SInfer("r2", EBin("+", WA, EArr([i \in 1..k |-> ENum(I(20 + i))]))),
               SCall(ECallB("print", <<R1, R2, WA, Snap>>)), SAsg(WA, EBin("+", WA, EArr(<<ENum(I(7))>>))), SAsg(EIdx(R1, ENum(I(0))), ENum(I(99))),
               SCall(ECallB("print", <<R1, R2, WA, Snap>>))>>, <<>>, <<>>)
AccStr(n) ==
  LET R1 == EVar("r1", T_str)   R2 == EVar("r2", T_str)
  IN Program(<<SInfer("w", EStr(<<>>)), SFor("", "num", <<ENum(I(n))>>, <<SAsg(WS, EBin("+", WS, EStr(<<A_uml>>)))>>),
               SCall(ECallB("print", <<ECallB("len", <<WS>>), ESlice(WS, <<ENum(I(0))>>, <<>>)>>)),
               SInfer("r1", EBin("+", WS, EStr(<<33>>))), SInfer("r2", EBin("+", WS, EStr(<<63>>))),
               SCall(ECallB("print", <<R1, R2, WS, EIdx(R1, EUn("-", ENum(I(1)))), EIdx(R2, EUn("-", ENum(I(1))))>>))>>, <<>>, <<>>)
AccProgs == {AccArr(n, k) : n \in 1..7, k \in 1..2} \cup {AccStr(n) : n \in 1..6}

\* (e3) operands, arguments and elements are evaluated left to right, each read seeing the effects of the calls to its
\*      left and none of the calls to its right: a global counter / word that a called function changes
CtrV == EVar("counter", T_num)
WordV == EVar("word", T_str)
NextF == FuncDef("next", <<>>, <<>>, T_num, <<SAsg(CtrV, EBin("+", CtrV, ENum(I(1)))), SRetV(CtrV, T_num)>>)
CurF == FuncDef("cur", <<>>, <<>>, T_num, <<SRetV(CtrV, T_num)>>)
RenF == FuncDef("ren", <<>>, <<>>, T_str, <<SAsg(WordV, EBin("+", WordV, EStr(<<120>>))), SRetV(WordV, T_str)>>)
ShowF == FuncDef("show", <<Param("a", T_num), Param("b", T_num), Param("c", T_num)>>, <<>>, T_none, <<SCall(ECallB("print", <<EVar("a", T_num), EVar("b", T_num), EVar("c", T_num)>>))>>)
SumF == FuncDef("sum", <<>>, <<Param("ns", T_num)>>, T_none, <<SCall(ECallB("print", <<EVar("ns", TArr(T_num))>>))>>)
Nx == ECallU("next", FSig(NextF), <<>>)
Cu == ECallU("cur", FSig(CurF), <<>>)
Rn == ECallU("ren", FSig(RenF), <<>>)
Interleaved ==
  { EBin("+", CtrV, Nx), EBin("+", Nx, CtrV), EBin("-", EBin("*", CtrV, ENum(I(10))), Nx), EBin("+", Cu, Nx), EBin("==", Cu, Nx), EBin("==", CtrV, Nx), EBin("<", CtrV, Nx),
    EBin("+", WordV, Rn), EBin("+", Rn, WordV), EBin("==", WordV, Rn),
    EArr(<<Nx, CtrV, Nx, CtrV>>), EArr(<<CtrV, Nx, CtrV>>), EMap(<<K_a, K_b, <<99>>>>, <<CtrV, Nx, CtrV>>), EArr(<<WordV, Rn, WordV>>),
    EBin("and", EBin("==", CtrV, ENum(I(0))), EBin("==", Nx, ENum(I(1)))), EBin("or", EBin(">", CtrV, ENum(I(0))), EBin("==", Nx, CtrV)) }
InterProgs == { [Program(<<SInfer("counter", ENum(I(0))), SInfer("word", EStr(<<119>>)), SCall(ECallB("print", <<e>>)), SCall(ECallB("print", <<CtrV, WordV>>))>>,
                         <<NextF, CurF, RenF>>, <<>>) EXCEPT !.fl = TRUE] : e \in Interleaved }
              \cup { [Program(<<SInfer("counter", ENum(I(0))), SCall(ECallU("show", FSig(ShowF), xs)), SCall(ECallU("sum", FSig(SumF), xs)), SCall(ECallB("print", <<CtrV>>))>>,
                              <<NextF, ShowF, SumF>>, <<>>) EXCEPT !.fl = TRUE] : xs \in {<<Nx, CtrV, Nx>>, <<CtrV, Nx, CtrV>>, <<CtrV, CtrV, Nx>>} }

\* (f) deep equality compares contents, also when one operand is contained in the other by reference (acyclic)
EqNest ==
  LET TAA == TArr(T_any)   TMA == TMap(T_any)
      In == EVar("inner", TAA)   Mid == EVar("mid", TAA)   Out == EVar("outer", TAA)
      N1 == EVar("n1", TMA)   N2 == EVar("n2", TMA)   N3 == EVar("n3", TMA)
      Row == EVar("row", TAA)   Tab == EVar("tab", TAA)
  IN { Program(<<SInfer("inner", EArr(<<ENum(I(7)), EStr(<<108>>)>>)), SInfer("mid", EArr(<<In, EStr(<<110>>)>>)), SInfer("outer", EArr(<<Mid, EStr(<<110>>)>>)),
                 SCall(ECallB("print", <<EBin("==", Out, Mid), EBin("!=", Out, Mid), EBin("==", Mid, In), EBin("==", Mid, Out),
                                         EBin("==", EArr(<<Out>>), EArr(<<Mid>>)), EBin("==", Out, Out), EBin("==", EAssert(EIdx(Out, ENum(I(0))), TAA), Mid)>>))>>, <<>>, <<>>),
       Program(<<SInfer("n3", EMap(<<<<118>>, <<110>>>>, <<ENum(I(2)), EMap(<<>>, <<>>)>>)), SInfer("n2", EMap(<<<<118>>, <<110>>>>, <<ENum(I(1)), N3>>)),
                 SInfer("n1", EMap(<<<<118>>, <<110>>>>, <<ENum(I(1)), N2>>)),
                 SCall(ECallB("print", <<EBin("==", N1, N2), EBin("!=", N1, N2), EBin("==", N2, N3), EBin("==", EAssert(EDot(N1, <<110>>), TMA), N2), EBin("==", N2, N1)>>))>>, <<>>, <<>>),
       Program(<<SInfer("row", EArr(<<EArr(<<>>), EStr(<<120>>)>>)), SInfer("tab", EArr(<<Row, EStr(<<120>>)>>)),
                 SCall(ECallB("print", <<EBin("==", Tab, Row), EBin("==", Row, Tab), EBin("!=", Tab, Row), EBin("==", EAssert(EIdx(Tab, ENum(I(0))), TAA), Row)>>)),
                 SIf(<<EBin("==", Tab, Row)>>, << <<SCall(ECallB("print", <<EStr(<<101, 113>>)>>))>> >>, << <<SCall(ECallB("print", <<EStr(<<110, 101>>)>>))>> >>)>>, <<>>, <<>>) }

Table == NumOps \cup StrOps \cup BoolOps \cup UnOps \cup ArrOps

CasesOf(class, es) == {MkCase("FamExpr", class, PrintProg(e)) : e \in es}
FamCases == CasesOf("lattice", Lattice) \cup CasesOf("table", Table) \cup {MkCase("FamExpr", "list", p) : p \in ListProgs}
            \cup {MkCase("FamExpr", "repeat", p) : p \in RepProgs}
            \cup {MkCase("FamExpr", "siblings", p) : p \in SibProgs \cup AccProgs} \cup {MkCase("FamExpr", "interleaved", p) : p \in InterProgs} \cup {MkCase("FamExpr", "nested-equality", p) : p \in EqNest}
FamInit == InitWith(FamCases)

=============================================================================
