-------------------------------- MODULE EvyVM --------------------------------
(***************************************************************************)
(* The bytecode virtual machine of pkg/bytecode as a state machine: what    *)
(* every instruction of the instruction set (code.go) does to the operand   *)
(* stack, the local slots, the globals and the heap, over the values of the *)
(* language (EvyBase: exact numbers, strings of code points, arrays and     *)
(* maps by reference).  C16 / C17, direction B: the code is DATA - the real *)
(* compiler's output for a program, decoded - and the step trace recorded   *)
(* from the real VM (hook: ip, height of the stack, kind and print form of  *)
(* the value on top, before every instruction) must be the run of this      *)
(* machine on that code, step by step; at the end the error class and every *)
(* global must be the same.  Where VMStack.tla knows only heights, this     *)
(* module knows values, so a wrong result is pinned to the instruction that *)
(* produced it.                                                             *)
(*                                                                         *)
(* The instruction set is specified with the meaning the language gives to  *)
(* the operation it implements (spec.md): strings are sequences of code     *)
(* points, arrays and maps are shared by reference and a store through one  *)
(* name shows through every other, a new map key goes to the end of the     *)
(* key order, repetition copies nested composites.  Division and modulo by  *)
(* zero are errors of this machine (they are not for the evaluator).        *)
(* Behaviour outside the exact numbers (or that would print -0) ends the    *)
(* validation of that run with verdict "unspec": the prefix was accepted.   *)
(*                                                                         *)
(* One TLC run validates many programs (one initial state per program).     *)
(***************************************************************************)
EXTENDS EvyBase, Json, TLC

Progs == ndJsonDeserialize("vmprogs.ndjson")

VARIABLES
  p,        \* index of the program
  ip,       \* instruction pointer
  stk,      \* operand stack; the first P.nlocals entries are the local slots
  glb,      \* globals
  heap,     \* arrays and maps, by address
  l,        \* position in the recorded trace
  verdict   \* "" while running; "ok", "ok-cut", "unspec@..", or the first disagreement

vars == <<p, ip, stk, glb, heap, l, verdict>>

P == Progs[p]
Instr == P.code[P.ipx[ip + 1]]
Unset == [t |-> "unset"]

Init == /\ p \in 1..Len(Progs)
        /\ ip = 0 /\ l = 1 /\ verdict = ""
        /\ stk = [i \in 1..P.nlocals |-> Unset]
        /\ glb = [i \in 1..P.nglobals |-> Unset]
        /\ heap = <<>>

---------------------------------------------------------------------------
(* rendering, as the hook renders: kind letter, colon, print form *)
KindCp(v) == CASE v.t = "num" -> 110 [] v.t = "str" -> 115 [] v.t = "bool" -> 98 [] v.t = "arr" -> 97 [] v.t = "map" -> 109
               [] v.t = "none" -> 45 [] OTHER -> 63
TopText(s, h) == IF Len(s) = 0 THEN <<>>
                 ELSE LET v == s[Len(s)] IN <<KindCp(v), 58>> \o (IF v.t \in {"none", "unset"} THEN <<>> ELSE ValCps(v, h, FALSE))
Renderable(v, h) == v.t \in {"none", "unset"} \/ ValPrintable(v, h)
S_unset == <<60, 117, 110, 115, 101, 116, 62>>      \* "<unset>"
GlobalText(v, h) == IF v.t = "unset" THEN S_unset ELSE ValCps(v, h, FALSE)

---------------------------------------------------------------------------
(* stack helpers *)
Top(s, k) == s[Len(s) - k]                        \* k = 0: top
PopN(s, k) == SubSeq(s, 1, Len(s) - k)
Push(s, v) == Append(s, v)

\* outcome of one instruction: [k |-> "go", ip, stk, glb, heap] | [k |-> "err", c] | [k |-> "unspec"]
Go(nip, s, g, h) == [k |-> "go", ip |-> nip, stk |-> s, glb |-> g, heap |-> h]
Err(c) == [k |-> "err", c |-> c]
Unspec == [k |-> "unspec"]

NumOut(nip, s, v) == IF Exact(v) THEN Go(nip, Push(s, v), glb, heap) ELSE Unspec

\* index laws (spec.md Index and Slice); n = length; result [ok, i (0-based), c]
NormIdx(iv, n, forSlice) ==
  IF iv.s # "fin" THEN [ok |-> FALSE, i |-> 0, c |-> "unspec"]
  ELSE IF iv.e # 0 THEN [ok |-> FALSE, i |-> 0, c |-> "indexvalue"]
  ELSE LET lim == IF forSlice THEN n ELSE n - 1
       IN IF iv.m < -n \/ iv.m > lim THEN [ok |-> FALSE, i |-> 0, c |-> "bounds"]
          ELSE [ok |-> TRUE, i |-> IF iv.m < 0 THEN n + iv.m ELSE iv.m, c |-> ""]

RECURSIVE DeepCopyV(_, _)
RECURSIVE DeepCopyS(_, _, _, _)
\* copies of composites for repetition: [h, v] / [h, vs]
DeepCopyS(h, vs, i, acc) == IF i > Len(vs) THEN [h |-> h, vs |-> acc]
                            ELSE LET r == DeepCopyV(h, vs[i]) IN DeepCopyS(r.h, vs, i + 1, Append(acc, r.v))
DeepCopyV(h, v) ==
  CASE v.t = "arr" -> LET r == DeepCopyS(h, h[v.a].el, 1, <<>>) IN [h |-> Append(r.h, OArr(r.vs)), v |-> VArr(Len(r.h) + 1)]
    [] v.t = "map" -> LET r == DeepCopyS(h, h[v.a].el, 1, <<>>) IN [h |-> Append(r.h, OMap(h[v.a].ks, r.vs)), v |-> VMap(Len(r.h) + 1)]
    [] OTHER -> [h |-> h, v |-> v]
RECURSIVE Rep(_, _, _, _)
Rep(h, els, n, acc) == IF n = 0 THEN [h |-> h, vs |-> acc]
                       ELSE LET r == DeepCopyS(h, els, 1, <<>>) IN Rep(r.h, els, n - 1, acc \o r.vs)

---------------------------------------------------------------------------
(* the instruction set *)
Exec ==
  LET op == Instr.op
      a  == Instr.a
      n1 == ip + 1              \* next instruction after an instruction without operand
      n3 == ip + 3              \* ... with operand
      s  == stk
      x  == Top(s, 1)           \* left operand of a binary instruction
      y  == Top(s, 0)           \* right operand / operand of a unary instruction
      s2 == PopN(s, 2)
      s1 == PopN(s, 1)
      B(v) == Go(n1, Push(s2, v), glb, heap)
      CmpOK == Cmpable(x, y)
  IN
  CASE op = "OpConstant"  -> Go(n3, Push(s, P.consts[a + 1]), glb, heap)
    [] op = "OpGetGlobal" -> Go(n3, Push(s, glb[a + 1]), glb, heap)
    [] op = "OpSetGlobal" -> Go(n3, s1, [glb EXCEPT ![a + 1] = y], heap)
    [] op = "OpGetLocal"  -> Go(n3, Push(s, s[a + 1]), glb, heap)
    [] op = "OpSetLocal"  -> Go(n3, [s1 EXCEPT ![a + 1] = y], glb, heap)
    [] op = "OpDrop"      -> Go(n3, PopN(s, a), glb, heap)
    [] op \in {"OpAdd", "OpSubtract", "OpMultiply", "OpDivide", "OpModulo"} /\ ~(Small(x) /\ Small(y)) -> Unspec
    [] op = "OpAdd"       -> NumOut(n1, s2, NumAdd(x, y))
    [] op = "OpSubtract"  -> NumOut(n1, s2, NumSub(x, y))
    [] op = "OpMultiply"  -> IF MulNegZero(x, y) THEN Unspec ELSE NumOut(n1, s2, NumMul(x, y))
    [] op = "OpDivide"    -> IF IsZero(y) THEN Err("divzero")
                             ELSE LET r == NumDiv(x, y) IN IF r.ok THEN NumOut(n1, s2, r.v) ELSE Unspec
    [] op = "OpModulo"    -> IF IsZero(y) THEN Err("divzero")
                             ELSE LET r == NumMod(x, y) IN IF r.ok THEN NumOut(n1, s2, r.v) ELSE Unspec
    [] op = "OpTrue"      -> Go(n1, Push(s, VBool(TRUE)), glb, heap)
    [] op = "OpFalse"     -> Go(n1, Push(s, VBool(FALSE)), glb, heap)
    [] op = "OpNone"      -> Go(n1, Push(s, VNone), glb, heap)
    [] op = "OpNot"       -> Go(n1, Push(s1, VBool(~y.b)), glb, heap)
    [] op = "OpMinus"     -> IF IsZero(y) \/ ~Small(y) THEN Unspec ELSE Go(n1, Push(s1, NumNeg(y)), glb, heap)
    [] op \in {"OpEqual", "OpNotEqual"} /\ x.t = "num" /\ ~CmpOK -> Unspec
    [] op = "OpEqual"     -> B(VBool(ValEq(x, y, heap)))
    [] op = "OpNotEqual"  -> B(VBool(~ValEq(x, y, heap)))
    [] op \in {"OpNumLessThan", "OpNumLessThanEqual", "OpNumGreaterThan", "OpNumGreaterThanEqual"} /\ ~CmpOK -> Unspec
    [] op = "OpNumLessThan"         -> B(VBool(NumLt(x, y)))
    [] op = "OpNumLessThanEqual"    -> B(VBool(NumLe(x, y)))
    [] op = "OpNumGreaterThan"      -> B(VBool(NumLt(y, x)))
    [] op = "OpNumGreaterThanEqual" -> B(VBool(NumLe(y, x)))
    [] op = "OpStringLessThan"         -> B(VBool(CpsLt(x.cp, y.cp)))
    [] op = "OpStringLessThanEqual"    -> B(VBool(~CpsLt(y.cp, x.cp)))
    [] op = "OpStringGreaterThan"      -> B(VBool(CpsLt(y.cp, x.cp)))
    [] op = "OpStringGreaterThanEqual" -> B(VBool(~CpsLt(x.cp, y.cp)))
    [] op = "OpStringConcatenate"      -> B(VStr(x.cp \o y.cp))
    \* the a topmost values, in the order they were pushed, become a new array
    [] op = "OpArray" -> Go(n3, Push(PopN(s, a), VArr(Len(heap) + 1)), glb, Append(heap, OArr(SubSeq(s, Len(s) - a + 1, Len(s)))))
    [] op = "OpArrayConcatenate" -> Go(n1, Push(s2, VArr(Len(heap) + 1)), glb, Append(heap, OArr(heap[x.a].el \o heap[y.a].el)))
    [] op = "OpArrayRepeat" ->
         IF y.s # "fin" THEN Unspec
         ELSE IF y.e # 0 \/ y.m < 0 THEN Err("badrep")
         ELSE IF y.m > 64 THEN Unspec
         ELSE LET r == Rep(heap, heap[x.a].el, y.m, <<>>)
              IN Go(n1, Push(s2, VArr(Len(r.h) + 1)), glb, Append(r.h, OArr(r.vs)))
    \* a key / value pairs, in the order they were pushed, become a new map
    [] op = "OpMap" -> LET kv == SubSeq(s, Len(s) - 2 * a + 1, Len(s))
                       IN Go(n3, Push(PopN(s, 2 * a), VMap(Len(heap) + 1)), glb,
                             Append(heap, OMap([i \in 1..a |-> kv[2 * i - 1].cp], [i \in 1..a |-> kv[2 * i]])))
    [] op = "OpIndex" ->
         (CASE x.t = "arr" -> LET el == heap[x.a].el
                                  r == NormIdx(y, Len(el), FALSE)
                              IN IF r.ok THEN B(el[r.i + 1]) ELSE IF r.c = "unspec" THEN Unspec ELSE Err(r.c)
            [] x.t = "str" -> LET r == NormIdx(y, Len(x.cp), FALSE)
                              IN IF r.ok THEN B(VStr(<<x.cp[r.i + 1]>>)) ELSE IF r.c = "unspec" THEN Unspec ELSE Err(r.c)
            [] x.t = "map" -> LET j == IndexOf(heap[x.a].ks, y.cp)
                              IN IF j = 0 THEN Err("mapkey") ELSE B(heap[x.a].el[j])
            [] OTHER -> Err("internal"))
    \* stack: value, container, index (top)
    [] op = "OpSetIndex" ->
         LET val == Top(s, 2)
             s3 == PopN(s, 3)
         IN (CASE x.t = "arr" -> LET el == heap[x.a].el
                                     r == NormIdx(y, Len(el), FALSE)
                                 IN IF r.ok THEN Go(n1, s3, glb, [heap EXCEPT ![x.a] = OArr([el EXCEPT ![r.i + 1] = val])])
                                    ELSE IF r.c = "unspec" THEN Unspec ELSE Err(r.c)
               [] x.t = "map" -> LET o == heap[x.a]
                                     j == IndexOf(o.ks, y.cp)
                                 IN Go(n1, s3, glb,
                                       [heap EXCEPT ![x.a] = IF j = 0 THEN OMap(Append(o.ks, y.cp), Append(o.el, val))
                                                             ELSE OMap(o.ks, [o.el EXCEPT ![j] = val])])
               [] OTHER -> Err("internal"))
    \* stack: container, start, end (top); a missing bound is the none value
    [] op = "OpSlice" ->
         LET c == Top(s, 2)
             s3 == PopN(s, 3)
             n == IF c.t = "arr" THEN Len(heap[c.a].el) ELSE IF c.t = "str" THEN Len(c.cp) ELSE 0
             lo == IF x.t = "none" THEN [ok |-> TRUE, i |-> 0, c |-> ""] ELSE NormIdx(x, n, TRUE)
             hi == IF y.t = "none" THEN [ok |-> TRUE, i |-> n, c |-> ""] ELSE NormIdx(y, n, TRUE)
         IN IF ~lo.ok THEN (IF lo.c = "unspec" THEN Unspec ELSE Err(lo.c))
            ELSE IF ~hi.ok THEN (IF hi.c = "unspec" THEN Unspec ELSE Err(hi.c))
            ELSE IF lo.i > hi.i THEN Err("slice")
            ELSE IF c.t = "arr" THEN Go(n1, Push(s3, VArr(Len(heap) + 1)), glb, Append(heap, OArr(SubSeq(heap[c.a].el, lo.i + 1, hi.i))))
            ELSE IF c.t = "str" THEN Go(n1, Push(s3, VStr(SubSeq(c.cp, lo.i + 1, hi.i))), glb, heap)
            ELSE Err("internal")
    [] op = "OpJump" -> Go(a, s, glb, heap)
    [] op = "OpJumpOnFalse" -> Go(IF y.b THEN n3 ELSE a, s1, glb, heap)
    \* stack: stop, step, index (top) -> stop, step, index + step, [index], going
    [] op = "OpStepRange" ->
         LET idx == Top(s, 0)   stp == Top(s, 1)   stop == Top(s, 2)
             s3 == PopN(s, 3)
         IN IF ~(Small(idx) /\ Small(stp) /\ Small(stop)) \/ idx.s # "fin" \/ stp.s # "fin" \/ stop.s # "fin" THEN Unspec
            ELSE IF IsZero(stp) THEN Err("range")
            ELSE IF ~Exact(NumAdd(idx, stp)) THEN Unspec
            ELSE LET going == (IsPos(stp) /\ NumLt(idx, stop)) \/ (IsNeg(stp) /\ NumLt(stop, idx))
                     base == s3 \o <<stop, stp, NumAdd(idx, stp)>>
                 IN Go(n3, (IF going /\ a # 0 THEN Push(base, idx) ELSE base) \o <<VBool(going)>>, glb, heap)
    \* stack: iterable, index (top) -> iterable, index + 1, [element], going; arrays by element, strings by code
    \* point, maps by the key at that position of the key order
    [] op = "OpIterRange" ->
         LET idx == Top(s, 0)   it == Top(s, 1)
             i == idx.m
             n == CASE it.t = "arr" -> Len(heap[it.a].el) [] it.t = "str" -> Len(it.cp) [] it.t = "map" -> Len(heap[it.a].ks) [] OTHER -> 0
             going == i < n
             val == CASE it.t = "arr" -> heap[it.a].el[i + 1] [] it.t = "str" -> VStr(<<it.cp[i + 1]>>) [] OTHER -> VStr(heap[it.a].ks[i + 1])
             base == s2 \o <<it, I(i + 1)>>
         IN Go(n3, (IF going /\ a # 0 THEN Push(base, val) ELSE base) \o <<VBool(going)>>, glb, heap)
    [] OTHER -> Err("unknown-opcode")

---------------------------------------------------------------------------
(* what an instruction needs to be executable at all: enough operands of the right kinds, slots that exist.  *)
(* Code for which this fails is not code the compiler may emit (C17); the verdict says so instead of the     *)
(* specification getting stuck.                                                                              *)
Kinds(k) == [i \in 1..k |-> stk[Len(stk) - k + i].t]          \* kinds of the k topmost values, deepest first
Problem ==
  LET op == Instr.op
      a  == Instr.a
      n  == Len(stk)
      Has(k) == n >= k
      Are(ks) == Has(Len(ks)) /\ Kinds(Len(ks)) = ks
      NumOrNone(t) == t \in {"num", "none"}
  IN
  CASE op = "OpConstant"  -> IF a + 1 \in DOMAIN P.consts THEN "" ELSE "constant index out of range"
    [] op = "OpGetGlobal" -> IF a + 1 \in DOMAIN glb THEN "" ELSE "global index out of range"
    [] op = "OpSetGlobal" -> IF ~Has(1) THEN "stack underflow" ELSE IF a + 1 \in DOMAIN glb THEN "" ELSE "global index out of range"
    [] op = "OpGetLocal"  -> IF a + 1 <= n THEN "" ELSE "local slot above the stack"
    [] op = "OpSetLocal"  -> IF ~Has(1) THEN "stack underflow" ELSE IF a + 1 <= n - 1 THEN "" ELSE "local slot above the stack"
    [] op = "OpDrop"      -> IF Has(a) THEN "" ELSE "stack underflow"
    [] op \in {"OpAdd", "OpSubtract", "OpMultiply", "OpDivide", "OpModulo", "OpNumLessThan", "OpNumLessThanEqual", "OpNumGreaterThan", "OpNumGreaterThanEqual"} ->
         IF Are(<<"num", "num">>) THEN "" ELSE "operands are not two nums"
    [] op \in {"OpStringLessThan", "OpStringLessThanEqual", "OpStringGreaterThan", "OpStringGreaterThanEqual", "OpStringConcatenate"} ->
         IF Are(<<"str", "str">>) THEN "" ELSE "operands are not two strings"
    [] op \in {"OpEqual", "OpNotEqual"} -> IF Has(2) /\ Kinds(2)[1] = Kinds(2)[2] /\ Kinds(2)[1] \in {"num", "str", "bool", "arr", "map"} THEN "" ELSE "operands of different kinds"
    [] op = "OpNot"   -> IF Are(<<"bool">>) THEN "" ELSE "operand is not a bool"
    [] op = "OpMinus" -> IF Are(<<"num">>) THEN "" ELSE "operand is not a num"
    [] op = "OpArray" -> IF Has(a) /\ \A i \in 1..a : Kinds(a)[i] \in {"num", "str", "bool", "arr", "map"} THEN "" ELSE "stack underflow"
    [] op = "OpMap"   -> IF Has(2 * a) /\ \A i \in 1..a : Kinds(2 * a)[2 * i - 1] = "str" THEN "" ELSE "keys are not strings"
    [] op = "OpArrayConcatenate" -> IF Are(<<"arr", "arr">>) THEN "" ELSE "operands are not two arrays"
    [] op = "OpArrayRepeat" -> IF Are(<<"arr", "num">>) THEN "" ELSE "operands are not an array and a num"
    [] op = "OpIndex" -> IF Are(<<"arr", "num">>) \/ Are(<<"str", "num">>) \/ Are(<<"map", "str">>) THEN "" ELSE "operands cannot be indexed"
    [] op = "OpSetIndex" -> IF Has(3) /\ (SubSeq(Kinds(3), 2, 3) = <<"arr", "num">> \/ SubSeq(Kinds(3), 2, 3) = <<"map", "str">>) THEN "" ELSE "target cannot be stored into"
    [] op = "OpSlice" -> IF Has(3) /\ Kinds(3)[1] \in {"arr", "str"} /\ NumOrNone(Kinds(3)[2]) /\ NumOrNone(Kinds(3)[3]) THEN "" ELSE "operands cannot be sliced"
    [] op = "OpJumpOnFalse" -> IF Are(<<"bool">>) THEN "" ELSE "condition is not a bool"
    [] op = "OpStepRange" -> IF Are(<<"num", "num", "num">>) THEN "" ELSE "range state is not three nums"
    [] op = "OpIterRange" -> IF Has(2) /\ Kinds(2)[1] \in {"arr", "str", "map"} /\ Kinds(2)[2] = "num"
                                  /\ stk[n].s = "fin" /\ stk[n].e = 0 /\ stk[n].m >= 0 THEN "" ELSE "range state is not an iterable and an index"
    [] OTHER -> ""

---------------------------------------------------------------------------
(* one step = compare the recorded observation with the state, then execute *)
Show(x) == ToString(x)
Disagree(what) == "step " \o Show(l) \o " ip " \o Show(ip) \o ": " \o what

FinalVerdict ==
  IF P.result = "cut" THEN "ok-cut"
  ELSE IF l # Len(P.trace) + 1 THEN Disagree("the specification has reached the end of the code, the VM made " \o Show(Len(P.trace) - l + 1) \o " more step(s)")
  ELSE IF P.result # "ok" THEN Disagree("the specification ends normally, the VM with " \o P.result)
  ELSE IF \E i \in DOMAIN glb : ~Renderable(glb[i], heap) THEN "unspec@end"
  ELSE IF \E i \in DOMAIN glb : GlobalText(glb[i], heap) # P.globals[i]
       THEN LET i == CHOOSE j \in DOMAIN glb : GlobalText(glb[j], heap) # P.globals[j]
            IN "final value of global " \o Show(i - 1) \o " differs: specification " \o ToString(GlobalText(glb[i], heap)) \o ", VM " \o ToString(P.globals[i])
  ELSE "ok"

Step ==
  /\ verdict = ""
  /\ IF ip >= P.codelen
     THEN verdict' = FinalVerdict /\ UNCHANGED <<p, ip, stk, glb, heap, l>>
     ELSE IF P.ipx[ip + 1] = 0
     THEN verdict' = Disagree("not the start of an instruction") /\ UNCHANGED <<p, ip, stk, glb, heap, l>>
     ELSE IF l > Len(P.trace)
     THEN /\ verdict' = IF P.result = "cut" THEN "ok-cut" ELSE Disagree("the VM stopped here (" \o P.result \o "), the specification goes on with " \o Instr.op)
          /\ UNCHANGED <<p, ip, stk, glb, heap, l>>
     ELSE LET rec == P.trace[l] IN
          IF rec.ip # ip THEN verdict' = Disagree("the VM is at ip " \o Show(rec.ip)) /\ UNCHANGED <<p, ip, stk, glb, heap, l>>
          ELSE IF rec.sp # Len(stk) THEN verdict' = Disagree("before " \o Instr.op \o " the stack height is " \o Show(Len(stk)) \o ", on the VM " \o Show(rec.sp)) /\ UNCHANGED <<p, ip, stk, glb, heap, l>>
          ELSE IF Len(stk) > 0 /\ ~Renderable(stk[Len(stk)], heap) THEN verdict' = "unspec@" \o Show(l) /\ UNCHANGED <<p, ip, stk, glb, heap, l>>
          ELSE IF rec.top # TopText(stk, heap)
          THEN verdict' = Disagree("before " \o Instr.op \o " the top of the stack is " \o ToString(TopText(stk, heap)) \o ", on the VM " \o ToString(rec.top)) /\ UNCHANGED <<p, ip, stk, glb, heap, l>>
          ELSE IF Problem # "" THEN verdict' = Disagree(Instr.op \o " cannot be executed: " \o Problem) /\ UNCHANGED <<p, ip, stk, glb, heap, l>>
          ELSE LET r == Exec IN
               CASE r.k = "go" -> /\ ip' = r.ip /\ stk' = r.stk /\ glb' = r.glb /\ heap' = r.heap /\ l' = l + 1
                                  /\ UNCHANGED <<p, verdict>>
                 [] r.k = "unspec" -> verdict' = "unspec@" \o Show(l) /\ UNCHANGED <<p, ip, stk, glb, heap, l>>
                 [] OTHER -> /\ verdict' = IF l = Len(P.trace) /\ P.result = "error:" \o r.c THEN "ok"
                                           ELSE Disagree(Instr.op \o " is the error " \o r.c \o ", the VM: " \o
                                                         (IF l = Len(P.trace) THEN P.result ELSE "goes on"))
                             /\ UNCHANGED <<p, ip, stk, glb, heap, l>>

Next == Step

\* the state is well formed whatever the code does (a violation here is a defect of this specification)
TypeOK == /\ ip \in 0..P.codelen
          /\ Len(stk) >= 0
          /\ \A i \in DOMAIN stk : stk[i].t \in {"num", "str", "bool", "arr", "map", "none", "unset"}
          /\ \A i \in DOMAIN stk : stk[i].t \in {"arr", "map"} => stk[i].a \in DOMAIN heap

Emit == verdict # "" => PrintT(ToJson([id |-> P.id, verdict |-> verdict, steps |-> l - 1]))
=============================================================================
