------------------------------ MODULE FamFormat ------------------------------
(***************************************************************************)
(* Family for C06 / C07: (program, trivia, layout) triples.                 *)
(* Trivia is attached to the LINES of the rendered program: for line i the  *)
(* digit (code / 7^(i mod 9)) mod 7 chooses among: nothing, an end-of-line  *)
(* comment, a comment line before, a run of blank lines before, and         *)
(* combinations; a second digit chooses what follows the last line.         *)
(* A group = one (program, trivia) with four variants that differ only in   *)
(* optional horizontal whitespace (layout, blanks before //) and in the     *)
(* length of blank-line runs.  All variants must format to the same text,   *)
(* which obeys the laws of C07, keeps every token and comment, re-parses    *)
(* to the same tree and behaves the same (C06).                             *)
(***************************************************************************)
EXTENDS EvySeeds, Json, TLC

CONSTANTS Tier, Codes

VARIABLE g

\* programs with multi-line literals and nested blocks
P3 == LET a == EVar("a", TArr(T_num))
          m == EVar("m", TMap(T_any))
          nn == EVar("nn", TArr(TArr(T_num)))
      IN Program(<<SInfer("a", EML(EArr(<<Num(1), Num(2), Num(3)>>), 2)),
                   SInfer("m", EML(EMap(<<<<110, 97, 109, 101>>, <<97, 103, 101>>>>, <<EStr(<<120, 32, 47, 47, 121>>), Num(7)>>), 1)),
                   Pr(<<a, m>>),
                   SInfer("nn", EML(EArr(<<EArr(<<Num(1), Num(2)>>), EArr(<<Num(3)>>)>>), 1)),
                   SIf(<<EBin(">", ECallB("len", <<nn>>), Num(1))>>,
                       << <<SAsg(a, EML(EArr(<<Num(4), EBin("+", Num(5), Num(6))>>), 1)), Pr(<<a, nn>>)>> >>, <<>>)>>, <<>>, <<>>)
\* no functions: the placement of blank lines is fully determined by the source
P4 == Program(<<SInfer("x", Num(1)), SInfer("s", EStr(<<97, 32, 32, 98>>)),
                SWhile(EBin("<", Xv, Num(3)), <<SAsg(Xv, EBin("+", Xv, Num(1))),
                                               SIf(<<EBin("==", Xv, Num(2))>>, << <<Pr(<<EVar("s", T_str), Xv>>)>> >>, << <<Pr(<<EBin("*", EUn("-", Xv), Num(2))>>)>> >>)>>),
                SFor("i", "num", <<Num(1), Num(3)>>, <<Pr(<<EIdx(EArr(<<Num(7), Num(8), Num(9)>>), EVar("i", T_num))>>)>>),
                Pr(<<EBin("and", EBin("<=", Xv, Num(3)), EUn("!", EGrp(EBin("==", EVar("s", T_str), EStr(<<>>)))))>>)>>, <<>>, <<>>)
\* literals converted to any-based types, typed declarations, break / return, multi-line map inside blocks
P5 == LET vals == EVar("vals", TArr(T_any))
          mm == EVar("mm", TMap(T_any))
          show == FuncDef("show", <<Param("xs", TArr(T_any)), Param("m", TMap(T_any))>>, <<>>, T_num,
                          <<SFor("e", "arr", <<EVar("xs", TArr(T_any))>>,
                                 <<SIf(<<EBin("==", ECallB("typeof", <<EVar("e", T_any)>>), EStr(<<115, 116, 114, 105, 110, 103>>))>>, << <<SBrk>> >>, <<>>),
                                   Pr(<<EVar("e", T_any)>>)>>),
                            SInfer("cfg", EML(EMap(<<<<97>>, <<98>>>>, <<ENum(I(1)), EStr(<<122>>)>>), 1)),
                            SIf(<<EBin(">", ECallB("len", <<EVar("m", TMap(T_any))>>), Num(5))>>, << <<SRetV(Num(0), T_num)>> >>, <<>>),
                            Pr(<<EVar("cfg", TMap(T_any)), EVar("m", TMap(T_any))>>),
                            SRetV(ECallB("len", <<EVar("xs", TArr(T_any))>>), T_num)>>)
      IN [Program(<<SDecl("vals", TArr(T_any)), SAsg(vals, EArr(<<Num(1), Num(2), Num(3)>>)), SDecl("mm", TMap(T_any)),
                    SAsg(mm, EML(EMap(<<<<107>>, <<106>>>>, <<EArr(<<Num(1)>>), Num(2)>>), 1)),
                    SInfer("nest", EArr(<<EArr(<<Num(1), Num(2)>>), EArr(<<EStr(<<97>>), EStr(<<98>>)>>)>>)),
                    Pr(<<vals, mm, EVar("nest", TArr(TArr(T_any))), ECallU("show", FSig(show), <<EArr(<<Num(7), EStr(<<115>>), Num(8)>>), EMap(<<<<113>>>>, <<EBool(TRUE)>>)>>)>>),
                    SWhile(EBool(TRUE), <<SAsg(vals, EBin("+", vals, EArr(<<Num(4), EStr(<<122>>)>>))),
                                           SIf(<<EBin(">", ECallB("len", <<vals>>), Num(6))>>, << <<SAsg(mm, EML(EMap(<<<<120>>>>, <<Num(9)>>), 1)), SBrk>> >>, <<>>)>>),
                    Pr(<<vals, mm>>)>>, <<show>>, <<>>) EXCEPT !.fl = TRUE]
\* blocks nested ten deep (if / for / while in turn), a multi-line literal and a comment-bearing statement innermost
RECURSIVE Deep(_, _)
Deep(d, ss) ==
  IF d = 0 THEN ss
  ELSE LET inner == Deep(d - 1, ss)
       IN CASE d % 3 = 0 -> <<SIf(<<EBin(">", Xv, Num(0))>>, <<inner>>, << <<Pr(<<Num(d)>>)>> >>)>>
            [] d % 3 = 1 -> <<SFor("i" \o ToString(d), "num", <<Num(1)>>, <<Pr(<<EVar("i" \o ToString(d), T_num)>>)>> \o inner)>>
            [] OTHER     -> <<SWhile(EBin("<", Xv, Num(d)), <<SAsg(Xv, EBin("+", Xv, Num(1)))>> \o inner)>>
P6 == Program(<<SInfer("x", Num(1))>>
              \o Deep(10, <<SInfer("dd", EML(EArr(<<Num(1), EArr(<<Num(2)>>), Num(3)>>), 1)),
                            SInfer("dm", EML(EMap(<<<<97>>, <<98>>>>, <<Num(1), EStr(<<122>>)>>), 1)),
                            Pr(<<EVar("dd", TArr(T_any)), EVar("dm", TMap(T_any)), Xv>>)>>)
              \o <<Pr(<<Xv>>)>>, <<>>, <<>>)
\* string literals in every escape spelling the lexer accepts (the documented \t \n \" \\ and the others): the
\* formatter may respell a literal but its value, hence the token, is the same
P7 == Program(<<Raw(<<"s1 := \"a\\tb\\n\\\"q\\\"\\\\\"">>),
                Raw(<<"s2 := \"\\x41\\xe9\\xff\"">>),
                Raw(<<"s3 := \"\\u00e9\\U0001F600\"">>),
                Raw(<<"s4 := \"\\a\\b\\f\\r\\v\\101\"">>),
                Raw(<<"s5 := \"caf\\xc3\\xa9 \\xfe\\xff \\xc3\"">>),
                Raw(<<"print s1 s2 s3 s4 s5 (len s2) (len s5) (s2 == \"A\\xe9\\xff\") (s3 < s2) (s5 == \"caf\\u00e9 \\xfe\\xff \\xc3\")">>),
                Raw(<<"for c := range (s2 + s5)">>), Raw(<<"    print c (c == \"\\xe9\") (c < \"\\xff\")">>), Raw(<<"end">>),
                Raw(<<"m := {a:\"\\xe9\" b:\"\\xff\\t\"}">>), Raw(<<"print m (m.a == s2[1])">>)>>, <<>>, <<>>)
\* and / or glued between parentheses inside arguments, array elements and map values (where a blank would end
\* the element): the formatter must keep them glued
P8 == Program(<<Raw(<<"a := 1">>), Raw(<<"b := 2">>),
                Raw(<<"print (a>b)and(b>a) (a<b)or(a>b) !(a>b)and(b>a)">>),
                Raw(<<"x := [(a>b)or(b>a) (a<b)and(a<b)]">>),
                Raw(<<"m := {k:(a>b)and(b>a) j:(a<b)or(a>b)}">>),
                Raw(<<"print x m (len [(a<b)and(b>a)])">>),
                Raw(<<"if (a<b)and(b>a)">>), Raw(<<"    print \"y\" (a==b)or(a!=b)">>), Raw(<<"end">>),
                Raw(<<"for i := range (len [(a<b)or(b<a) true])">>), Raw(<<"    print i (i>0)and(i<2)">>), Raw(<<"end">>)>>, <<>>, <<>>)
\* multi-line literals in which every line break follows a comment, literals that hold only comments, operators
\* inside map values and array elements (tight), raw carriage returns and tabs inside strings and comments
P9 == Program(<<Raw(<<"a := 1">>),
                Raw(<<"box := [10 // left">>), Raw(<<"    20 // top">>), Raw(<<"]">>),
                Raw(<<"pts := [ // corners">>), Raw(<<"    a+1 // first">>), Raw(<<"    a*2 // second">>), Raw(<<"]">>),
                Raw(<<"none := [ // nothing yet">>), Raw(<<"    // really nothing">>), Raw(<<"]">>),
                Raw(<<"m := {x:a+1 y:a*2 z:-a}">>),
                Raw(<<"mm := {k:1 // one">>), Raw(<<"    j:a-1 // two">>), Raw(<<"}">>),
                Raw(<<"print box pts none m mm [a+1 a*2] (len none)">>),
                Raw(<<"s := \"x\ry\tz\" // c\rd\te">>), Raw(<<"print s (len s)">>)>>, <<>>, <<>>)
\* definitions that follow the top-level code (and each other) without an empty line: the formatter inserts the empty
\* lines, whatever blank-line runs and comments the source has elsewhere
NoSep(p) == [main |-> p.main, funcs |-> p.funcs, hs |-> p.hs, fl |-> p.fl, nb |-> TRUE]
Progs == << Seed(NoIns), Seed2, P3, P4, P5, P6, P7, P8, P9, NoSep(Seed(NoIns)), NoSep(P5), NoSep([Seed(NoIns) EXCEPT !.fl = FALSE]) >>

TDigit(code, i) == (code \div (7 ^ (i % 9))) % 7
TailDigit(code) == (code \div 7) % 5

Variants == << [ly |-> "canon", run |-> 1, gap |-> " "], [ly |-> "tight", run |-> 2, gap |-> ""],
               [ly |-> "wide", run |-> 3, gap |-> "   "], [ly |-> "canon", run |-> 3, gap |-> "\t"] >>

RECURSIVE Blank(_)
Blank(n) == IF n = 0 THEN <<>> ELSE << <<>> >> \o Blank(n - 1)
CommentP(i, j) == <<"// c", [cp |-> NatCps(i)], IF j = 0 THEN "" ELSE " more \"text\" := [">>

\* the lines of the program with the trivia chosen by code, in variant v
WithTrivia(lines, code, v) ==
  LET Before(i) ==
        LET d == TDigit(code, i)
            ind == IndentOf(lines[i], v.ly)
            c(j) == << ind \o CommentP(i, j) >>
        IN IF Len(lines[i]) = 0 THEN <<>>
           ELSE CASE d = 2 -> c(0)
                  [] d = 3 -> Blank(v.run)
                  [] d = 4 -> Blank(v.run) \o c(0)
                  [] d = 5 -> Blank(v.run)
                  [] d = 6 -> c(0) \o Blank(v.run) \o c(1)
                  [] OTHER -> <<>>
      Line(i) == IF Len(lines[i]) # 0 /\ TDigit(code, i) \in {1, 5}
                 THEN << lines[i] \o <<v.gap>> \o CommentP(i, 1) >> ELSE << lines[i] >>
      td == TailDigit(code)
      last == CASE td = 1 -> << CommentP(0, 0) >>
                [] td = 2 -> Blank(v.run)
                [] td = 3 -> Blank(v.run) \o << CommentP(0, 0) >>
                [] td = 4 -> << CommentP(0, 0) >> \o Blank(v.run)
                [] OTHER -> <<>>
  IN Flat([i \in DOMAIN lines |-> Before(i) \o Line(i)]) \o last

Source(pi, code, vi) == LET v == Variants[vi] IN JoinLines(WithTrivia(LProg(Progs[pi], v.ly), code, v), v.ly)

Init == g \in {<<pi, c>> : pi \in DOMAIN Progs, c \in Codes}
Next == FALSE /\ UNCHANGED g
Emit == PrintT(ToJson([prog |-> g[1], code |-> g[2], hasFuncs |-> Len(Progs[g[1]].funcs) + Len(Progs[g[1]].hs) > 0,
                       \* P9's own lines end in comments: a second end-of-line comment from the trivia would be comment TEXT, whose
                       \* blanks are not optional whitespace; P9 therefore comes in one layout
                       variants |-> [vi \in (IF g[1] = 9 THEN {1} ELSE DOMAIN Variants) |-> Source(g[1], g[2], vi)]]))
=============================================================================
