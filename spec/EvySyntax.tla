----------------------------- MODULE EvySyntax -----------------------------
(***************************************************************************)
(* Concrete syntax: the source text of an abstract program, as a sequence  *)
(* of pieces (ASCII strings, or [cp |-> code points] for text that may be  *)
(* non-ASCII).  The conformance harness only concatenates the pieces, so   *)
(* precedence, parenthesisation and whitespace legality are decided here,  *)
(* from docs/spec.md (Precedence, Horizontal Whitespace, Syntax Grammar).  *)
(*                                                                         *)
(* ly is the layout:                                                       *)
(*   "canon"  the canonical layout of evy fmt                              *)
(*   "tight"  no optional horizontal whitespace at all                     *)
(*   "wide"   extra blanks / tabs wherever the grammar allows them         *)
(***************************************************************************)
EXTENDS EvyAst

BinPrec(op) == CASE op = "or" -> 1
                 [] op = "and" -> 2
                 [] op \in {"==", "!="} -> 3
                 [] op \in {"<", "<=", ">", ">="} -> 4
                 [] op \in {"+", "-"} -> 5
                 [] OTHER -> 6           \* * / %

RECURSIVE Prec(_)
Prec(e) == CASE e.k = "bin"  -> BinPrec(e.op)
             [] e.k = "un"   -> 7
             [] e.k = "wrap" -> Prec(e.x)
             [] OTHER        -> 9

RECURSIVE Flat(_)
Flat(ss) == IF Len(ss) = 0 THEN <<>> ELSE ss[1] \o Flat(Tail(ss))

\* pieces of the elements of ps separated by sep
RECURSIVE JoinP(_, _)
JoinP(ps, sep) == IF Len(ps) = 0 THEN <<>>
                  ELSE IF Len(ps) = 1 THEN ps[1]
                  ELSE ps[1] \o sep \o JoinP(Tail(ps), sep)

TypeP(ty) == <<[cp |-> TypeCps(ty)]>>

\* blank inside ( ) [ ] { } in the wide layout
Pad(ly) == IF ly = "wide" THEN <<" ">> ELSE <<>>
\* separator of list elements
Sep(ly) == IF ly = "wide" THEN <<" \t">> ELSE <<" ">>

OpP(op, tight, ly) ==
  IF op \in {"and", "or"} THEN (IF ly = "wide" THEN <<"  ", op, "\t">> ELSE <<" ", op, " ">>)
  ELSE IF tight \/ ly = "tight" THEN <<op>>
  ELSE IF ly = "wide" THEN <<"  ", op, " ">>
  ELSE <<" ", op, " ">>

RECURSIVE RE(_, _, _)
\* e: expression; tight: TRUE inside call arguments, array elements, map values
\* and range arguments (no whitespace allowed outside brackets)
RE(e, tight, ly) ==
  LET Par(x)      == <<"(">> \o Pad(ly) \o RE(x, FALSE, ly) \o Pad(ly) \o <<")">>
      \* operand of a postfix form (index, slice, field, type assertion)
      Post(x)     == IF Prec(x) < 8 THEN Par(x) ELSE RE(x, tight, ly)
      Left(x, p)  == IF Prec(x) < p THEN Par(x) ELSE RE(x, tight, ly)
      Right(x, p) == IF Prec(x) <= p \/ (Prec(x) = 7 /\ (tight \/ ly = "tight")) THEN Par(x) ELSE RE(x, tight, ly)
      Opt(xs)     == IF Len(xs) = 0 THEN <<>> ELSE RE(xs[1], FALSE, ly)
  IN
  CASE e.k = "num"  -> <<[cp |-> NumCps(e.n)]>>
    [] e.k = "str"  -> <<[cp |-> QuoteCps(e.cp)]>>
    [] e.k = "bool" -> IF e.b THEN <<"true">> ELSE <<"false">>
    [] e.k = "var"  -> <<e.nm>>
    [] e.k = "wrap" -> RE(e.x, tight, ly)
    [] e.k = "arr"  -> <<"[">> \o (IF Len(e.xs) = 0 THEN <<>> ELSE Pad(ly)) \o
                       JoinP([i \in DOMAIN e.xs |-> RE(e.xs[i], TRUE, ly)], Sep(ly)) \o
                       (IF Len(e.xs) = 0 THEN <<>> ELSE Pad(ly)) \o <<"]">>
    [] e.k = "map"  -> <<"{">> \o (IF Len(e.xs) = 0 THEN <<>> ELSE Pad(ly)) \o
                       JoinP([i \in DOMAIN e.xs |-> <<[cp |-> e.ks[i]], ":">> \o RE(e.xs[i], TRUE, ly)], Sep(ly)) \o
                       (IF Len(e.xs) = 0 THEN <<>> ELSE Pad(ly)) \o <<"}">>
    [] e.k = "un"   -> <<e.op>> \o (IF Prec(e.x) < 8 THEN Par(e.x) ELSE RE(e.x, tight, ly))
    [] e.k = "bin"  -> IF tight /\ e.op \in {"and", "or"}
                       THEN <<"(">> \o RE(e, FALSE, ly) \o <<")">>
                       ELSE Left(e.l, BinPrec(e.op)) \o OpP(e.op, tight, ly) \o Right(e.r, BinPrec(e.op))
    [] e.k = "idx"  -> Post(e.x) \o <<"[">> \o Pad(ly) \o RE(e.i, FALSE, ly) \o Pad(ly) \o <<"]">>
    [] e.k = "slice" -> Post(e.x) \o <<"[">> \o Pad(ly) \o Opt(e.lo) \o <<":">> \o Opt(e.hi) \o Pad(ly) \o <<"]">>
    [] e.k = "dot"  -> Post(e.x) \o <<".", [cp |-> e.key]>>
    [] e.k = "assert" -> Post(e.x) \o <<".(">> \o TypeP(e.ty) \o <<")">>
    [] e.k = "grp"  -> Par(e.x)
    [] e.k = "call" -> <<"(", e.f>> \o Flat([i \in DOMAIN e.xs |-> Sep(ly) \o RE(e.xs[i], TRUE, ly)]) \o <<")">>
    [] OTHER        -> <<"?">>

Ind(d) == CASE d = 0 -> "" [] d = 1 -> "    " [] d = 2 -> "        " [] d = 3 -> "            "
            [] d = 4 -> "                " [] OTHER -> "                    "
IndP(d, ly) == IF ly = "wide" THEN <<Ind(d), "  ">> ELSE IF ly = "tight" THEN <<>> ELSE <<Ind(d)>>
Gap(ly) == IF ly = "tight" THEN <<>> ELSE IF ly = "wide" THEN <<"  ">> ELSE <<" ">>
Eol(ly) == IF ly = "wide" THEN <<" \n">> ELSE <<"\n">>

RECURSIVE RS(_, _, _)
RECURSIVE RBlock(_, _, _)
RBlock(ss, d, ly) == Flat([i \in DOMAIN ss |-> RS(ss[i], d, ly)])

\* a call written as a statement (or at the top level of an expression): no parentheses
CallP(c, ly) == <<c.f>> \o Flat([i \in DOMAIN c.xs |-> Sep(ly) \o RE(c.xs[i], TRUE, ly)])

RS(s, d, ly) ==
  LET II == IndP(d, ly)
      E == Eol(ly)
  IN
  CASE s.k = "decl"   -> II \o <<s.nm, ":">> \o TypeP(s.ty) \o E
    [] s.k = "infer"  -> II \o <<s.nm>> \o Gap(ly) \o <<":=">> \o Gap(ly) \o RE(s.x, FALSE, ly) \o E
    [] s.k = "asg"    -> II \o RE(s.tg, TRUE, ly) \o Gap(ly) \o <<"=">> \o Gap(ly) \o RE(s.x, FALSE, ly) \o E
    [] s.k = "callst" -> II \o CallP(s.x, ly) \o E
    [] s.k = "ret"    -> II \o <<"return">> \o (IF Len(s.xs) = 0 THEN <<>> ELSE <<" ">> \o RE(s.xs[1], FALSE, ly)) \o E
    [] s.k = "brk"    -> II \o <<"break">> \o E
    [] s.k = "if"     -> Flat([j \in DOMAIN s.cs |->
                              II \o (IF j = 1 THEN <<"if ">> ELSE <<"else if ">>) \o RE(s.cs[j], FALSE, ly) \o E
                                \o RBlock(s.bs[j], d + 1, ly)])
                         \o (IF Len(s.el) = 0 THEN <<>> ELSE II \o <<"else">> \o E \o RBlock(s.el[1], d + 1, ly))
                         \o II \o <<"end">> \o E
    [] s.k = "while"  -> II \o <<"while ">> \o RE(s.c, FALSE, ly) \o E \o RBlock(s.ss, d + 1, ly) \o II \o <<"end">> \o E
    [] s.k = "for"    -> II \o <<"for ">> \o (IF s.nm = "" THEN <<>> ELSE <<s.nm>> \o Gap(ly) \o <<":=">> \o Gap(ly))
                           \o <<"range">> \o Flat([i \in DOMAIN s.xs |-> Sep(ly) \o RE(s.xs[i], TRUE, ly)]) \o E
                           \o RBlock(s.ss, d + 1, ly) \o II \o <<"end">> \o E
    [] s.k = "raw"    -> II \o s.ps \o E          \* a line given as text
    [] OTHER          -> <<"?\n">>

ParamP(p) == <<" ", p.nm, ":">> \o TypeP(p.ty)

RFunc(fd, ly) ==
  <<"func ", fd.nm>> \o (IF fd.rt = T_none THEN <<>> ELSE <<":">> \o TypeP(fd.rt))
    \o Flat([i \in DOMAIN fd.ps |-> ParamP(fd.ps[i])])
    \o (IF Len(fd.vp) = 0 THEN <<>> ELSE ParamP(fd.vp[1]) \o <<"...">>)
    \o Eol(ly) \o RBlock(fd.ss, 1, ly) \o <<"end">> \o Eol(ly)

RHandler(h, ly) ==
  <<"on ", h.ev>> \o Flat([i \in DOMAIN h.ps |-> ParamP(h.ps[i])])
    \o Eol(ly) \o RBlock(h.ss, 1, ly) \o <<"end">> \o Eol(ly)

\* the whole program; functions first (or last when p.fl), then handlers
RProg(p, ly) ==
  LET F == Flat([i \in DOMAIN p.funcs |-> RFunc(p.funcs[i], ly) \o (IF ly = "tight" THEN <<>> ELSE <<"\n">>)])
      H == Flat([i \in DOMAIN p.hs |-> (IF ly = "tight" THEN <<>> ELSE <<"\n">>) \o RHandler(p.hs[i], ly)])
      M == RBlock(p.main, 0, ly)
  IN IF p.fl THEN M \o (IF Len(p.funcs) > 0 /\ ly # "tight" THEN <<"\n">> ELSE <<>>) \o F \o H ELSE F \o M \o H

=============================================================================
