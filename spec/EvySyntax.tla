----------------------------- MODULE EvySyntax -----------------------------
(***************************************************************************)
(* Concrete syntax: the source text of an abstract program, as a sequence  *)
(* of pieces (ASCII strings, or [cp |-> code points] for text that may be  *)
(* non-ASCII).  The conformance harness only concatenates the pieces, so   *)
(* precedence, parenthesisation and whitespace legality are decided here,  *)
(* from docs/spec.md (Precedence, Horizontal Whitespace, Syntax Grammar).  *)
(*                                                                         *)
(* ly is the layout:                                                       *)
(*   "canon"  the canonical layout of evy fmt                              *)
(*   "tight"  no optional horizontal whitespace at all                     *)
(*   "wide"   extra blanks / tabs wherever the grammar allows them         *)
(***************************************************************************)
EXTENDS EvyAst

BinPrec(op) == CASE op = "or" -> 1
                 [] op = "and" -> 2
                 [] op \in {"==", "!="} -> 3
                 [] op \in {"<", "<=", ">", ">="} -> 4
                 [] op \in {"+", "-"} -> 5
                 [] OTHER -> 6           \* * / %

RECURSIVE Prec(_)
Prec(e) == CASE e.k = "bin"  -> BinPrec(e.op)
             [] e.k = "un"   -> 7
             [] e.k = "wrap" -> Prec(e.x)
             [] OTHER        -> 9

RECURSIVE Flat(_)
Flat(ss) == IF Len(ss) = 0 THEN <<>> ELSE ss[1] \o Flat(Tail(ss))

\* pieces of the elements of ps separated by sep
RECURSIVE JoinP(_, _)
JoinP(ps, sep) == IF Len(ps) = 0 THEN <<>>
                  ELSE IF Len(ps) = 1 THEN ps[1]
                  ELSE ps[1] \o sep \o JoinP(Tail(ps), sep)

TypeP(ty) == <<[cp |-> TypeCps(ty)]>>

\* blank inside ( ) [ ] { } in the wide layout
Pad(ly) == IF ly = "wide" THEN <<" ">> ELSE <<>>
\* separator of list elements
Sep(ly) == IF ly = "wide" THEN <<" \t">> ELSE <<" ">>

OpP(op, tight, ly) ==
  IF op \in {"and", "or"} THEN (IF ly = "wide" THEN <<"  ", op, "\t">> ELSE <<" ", op, " ">>)
  ELSE IF tight \/ ly = "tight" THEN <<op>>
  ELSE IF ly = "wide" THEN <<"  ", op, " ">>
  ELSE <<" ", op, " ">>

RECURSIVE RE(_, _, _)
\* e: expression; tight: TRUE inside call arguments, array elements, map values
\* and range arguments (no whitespace allowed outside brackets)
RE(e, tight, ly) ==
  LET Par(x)      == <<"(">> \o Pad(ly) \o RE(x, FALSE, ly) \o Pad(ly) \o <<")">>
      \* operand of a postfix form (index, slice, field, type assertion)
      Post(x)     == IF Prec(x) < 8 THEN Par(x) ELSE RE(x, tight, ly)
      Left(x, p)  == IF Prec(x) < p THEN Par(x) ELSE RE(x, tight, ly)
      \* a unary right operand of a symbolic operator is always parenthesised (a--b would be hard to read
      \* and the token sequence must not depend on the layout)
      Right(x, p) == IF Prec(x) <= p \/ (Prec(x) = 7 /\ p >= 3) THEN Par(x) ELSE RE(x, tight, ly)
      Opt(xs)     == IF Len(xs) = 0 THEN <<>> ELSE RE(xs[1], FALSE, ly)
  IN
  CASE e.k = "num"  -> <<[cp |-> NumCps(e.n)]>>
    [] e.k = "str"  -> <<[cp |-> QuoteCps(e.cp)]>>
    [] e.k = "bool" -> IF e.b THEN <<"true">> ELSE <<"false">>
    [] e.k = "var"  -> <<e.nm>>
    [] e.k = "wrap" -> RE(e.x, tight, ly)
    [] e.k = "arr"  -> <<"[">> \o (IF Len(e.xs) = 0 THEN <<>> ELSE Pad(ly)) \o
                       JoinP([i \in DOMAIN e.xs |-> RE(e.xs[i], TRUE, ly)], Sep(ly)) \o
                       (IF Len(e.xs) = 0 THEN <<>> ELSE Pad(ly)) \o <<"]">>
    [] e.k = "map"  -> <<"{">> \o (IF Len(e.xs) = 0 THEN <<>> ELSE Pad(ly)) \o
                       JoinP([i \in DOMAIN e.xs |-> <<[cp |-> e.ks[i]], ":">> \o RE(e.xs[i], TRUE, ly)], Sep(ly)) \o
                       (IF Len(e.xs) = 0 THEN <<>> ELSE Pad(ly)) \o <<"}">>
    [] e.k = "un"   -> <<e.op>> \o (IF Prec(e.x) < 8 THEN Par(e.x) ELSE RE(e.x, tight, ly))
    [] e.k = "bin"  -> IF tight /\ e.op \in {"and", "or"}
                       THEN <<"(">> \o RE(e, FALSE, ly) \o <<")">>
                       ELSE Left(e.l, BinPrec(e.op)) \o OpP(e.op, tight, ly) \o Right(e.r, BinPrec(e.op))
    [] e.k = "idx"  -> Post(e.x) \o <<"[">> \o Pad(ly) \o RE(e.i, FALSE, ly) \o Pad(ly) \o <<"]">>
    [] e.k = "slice" -> Post(e.x) \o <<"[">> \o Pad(ly) \o Opt(e.lo) \o <<":">> \o Opt(e.hi) \o Pad(ly) \o <<"]">>
    [] e.k = "dot"  -> Post(e.x) \o <<".", [cp |-> e.key]>>
    [] e.k = "assert" -> Post(e.x) \o <<".(">> \o TypeP(e.ty) \o <<")">>
    [] e.k = "grp"  -> Par(e.x)
    [] e.k = "call" -> <<"(", e.f>> \o Flat([i \in DOMAIN e.xs |-> Sep(ly) \o RE(e.xs[i], TRUE, ly)]) \o <<")">>
    [] OTHER        -> <<"?">>

Ind(d) == CASE d = 0 -> "" [] d = 1 -> "    " [] d = 2 -> "        " [] d = 3 -> "            "
            [] d = 4 -> "                " [] OTHER -> "                    "
IndP(d, ly) == IF ly = "wide" THEN <<Ind(d), "  ">> ELSE IF ly = "tight" THEN <<>> ELSE <<Ind(d)>>
Gap(ly) == IF ly = "tight" THEN <<>> ELSE IF ly = "wide" THEN <<"  ">> ELSE <<" ">>
Eol(ly) == IF ly = "wide" THEN <<" \n">> ELSE <<"\n">>

(* statements are rendered as sequences of LINES (a line = pieces without the newline),  *)
(* so that trivia (comments, blank lines) can be attached to any line of the program     *)
RECURSIVE LS(_, _, _)
RECURSIVE LBlock(_, _, _)
LBlock(ss, d, ly) == Flat([i \in DOMAIN ss |-> LS(ss[i], d, ly)])

\* a call written as a statement (or at the top level of an expression): no parentheses
CallP(c, ly) == <<c.f>> \o Flat([i \in DOMAIN c.xs |-> Sep(ly) \o RE(c.xs[i], TRUE, ly)])

\* an expression in a position where the grammar has toplevel_expr (right-hand side of := and =, return value,
\* if / while condition): a call is written there as in a call statement, without parentheses (a call that is
\* wanted in parentheses is an explicit grp node)
RTop(x, ly) == IF x.k = "call" THEN CallP(x, ly)
               ELSE IF x.k = "wrap" /\ x.x.k = "call" THEN CallP(x.x, ly)
               ELSE RE(x, FALSE, ly)

\* a multi-line array / map literal [k |-> "ml", x |-> literal, per |-> elements per line]: the lines
\* after the opening bracket: elements (tight) indented one level deeper, then the closing bracket
MLLines(m, d, ly) ==
  LET e == m.x
      n == Len(e.xs)
      El(i) == IF e.k = "map" THEN <<[cp |-> e.ks[i]], ":">> \o RE(e.xs[i], TRUE, ly) ELSE RE(e.xs[i], TRUE, ly)
      nl == (n + m.per - 1) \div m.per
      Row(r) == IndP(d + 1, ly) \o JoinP([j \in 1..(IF r * m.per <= n THEN m.per ELSE n - (r - 1) * m.per) |-> El((r - 1) * m.per + j)], Sep(ly))
  IN [r \in 1..nl |-> Row(r)] \o << IndP(d, ly) \o <<IF e.k = "map" THEN "}" ELSE "]">> >>
Open(m) == IF m.x.k = "map" THEN "{" ELSE "["
\* head \o value, where the value may be a multi-line literal
WithValue(head, x, d, ly) == IF x.k = "ml" THEN << head \o <<Open(x)>> >> \o MLLines(x, d, ly)
                             ELSE << head \o RTop(x, ly) >>

LS(s, d, ly) ==
  LET II == IndP(d, ly)
  IN
  CASE s.k = "decl"   -> << II \o <<s.nm, ":">> \o TypeP(s.ty) >>
    [] s.k = "infer"  -> WithValue(II \o <<s.nm>> \o Gap(ly) \o <<":=">> \o Gap(ly), s.x, d, ly)
    [] s.k = "asg"    -> WithValue(II \o RE(s.tg, TRUE, ly) \o Gap(ly) \o <<"=">> \o Gap(ly), s.x, d, ly)
    [] s.k = "callst" -> << II \o CallP(s.x, ly) >>
    [] s.k = "ret"    -> << II \o <<"return">> \o (IF Len(s.xs) = 0 THEN <<>> ELSE <<" ">> \o RTop(s.xs[1], ly)) >>
    [] s.k = "brk"    -> << II \o <<"break">> >>
    [] s.k = "if"     -> Flat([j \in DOMAIN s.cs |->
                              << II \o (IF j = 1 THEN <<"if ">> ELSE <<"else if ">>) \o RTop(s.cs[j], ly) >>
                                \o LBlock(s.bs[j], d + 1, ly)])
                         \o (IF Len(s.el) = 0 THEN <<>> ELSE << II \o <<"else">> >> \o LBlock(s.el[1], d + 1, ly))
                         \o << II \o <<"end">> >>
    [] s.k = "while"  -> << II \o <<"while ">> \o RTop(s.c, ly) >> \o LBlock(s.ss, d + 1, ly) \o << II \o <<"end">> >>
    [] s.k = "for"    -> << II \o <<"for ">> \o (IF s.nm = "" THEN <<>> ELSE <<s.nm>> \o Gap(ly) \o <<":=">> \o Gap(ly))
                              \o <<"range">> \o Flat([i \in DOMAIN s.xs |-> Sep(ly) \o RE(s.xs[i], TRUE, ly)]) >>
                           \o LBlock(s.ss, d + 1, ly) \o << II \o <<"end">> >>
    [] s.k = "raw"    -> << II \o s.ps >>          \* a line given as text
    [] OTHER          -> << <<"?">> >>

ParamP(p) == <<" ", p.nm, ":">> \o TypeP(p.ty)

LFunc(fd, ly) ==
  << IndP(0, ly) \o <<"func ", fd.nm>> \o (IF fd.rt = T_none THEN <<>> ELSE <<":">> \o TypeP(fd.rt))
       \o Flat([i \in DOMAIN fd.ps |-> ParamP(fd.ps[i])])
       \o (IF Len(fd.vp) = 0 THEN <<>> ELSE ParamP(fd.vp[1]) \o <<"...">>) >>
    \o LBlock(fd.ss, 1, ly) \o << IndP(0, ly) \o <<"end">> >>

LHandler(h, ly) ==
  << IndP(0, ly) \o <<"on ", h.ev>> \o Flat([i \in DOMAIN h.ps |-> ParamP(h.ps[i])]) >> \o LBlock(h.ss, 1, ly) \o << IndP(0, ly) \o <<"end">> >>

\* the lines of the whole program; functions first (or last when p.fl), then handlers;
\* an empty line <<>> separates top-level definitions
LProg(p, ly) ==
  LET B == << <<>> >>      \* the same in every layout: layouts differ in horizontal whitespace only
      F == [i \in DOMAIN p.funcs |-> LFunc(p.funcs[i], ly)]
      H == [i \in DOMAIN p.hs |-> LHandler(p.hs[i], ly)]
      M == IF Len(p.main) = 0 THEN <<>> ELSE << LBlock(p.main, 0, ly) >>
      secs == IF p.fl THEN M \o F \o H ELSE F \o M \o H
  \* (a program record with the field nb is rendered WITHOUT the separating empty lines: the formatter has to insert them)
  IN IF "nb" \in DOMAIN p THEN Flat(secs) ELSE JoinP(secs, B)

\* lines to text: every line is ended by a newline (with a trailing blank in the wide layout)
JoinLines(ls, ly) == Flat([i \in DOMAIN ls |-> ls[i] \o (IF Len(ls[i]) = 0 THEN <<"\n">> ELSE Eol(ly))])
RProg(p, ly) == JoinLines(LProg(p, ly), ly)

\* the pieces of a line that are its indentation (see IndP)
NIndent(ly) == IF ly = "wide" THEN 2 ELSE IF ly = "tight" THEN 0 ELSE 1
IndentOf(line, ly) == SubSeq(line, 1, NIndent(ly))
EML(x, per) == [k |-> "ml", x |-> x, per |-> per, ty |-> x.ty, cn |-> x.cn]
RBlock(ss, d, ly) == JoinLines(LBlock(ss, d, ly), ly)

=============================================================================
