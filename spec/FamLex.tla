------------------------------- MODULE FamLex -------------------------------
(***************************************************************************)
(* Family for C03 (lexer part): every string up to MaxLen over an alphabet  *)
(* with one or more representatives of each character class, plus a seed-   *)
(* chosen sample of longer strings (Sample: numbers whose base-|Alphabet|   *)
(* digits are the characters).  TLC runs the lexer machine on each, checks  *)
(* PositionsRight, Tiling and Progress in every state, and emits the token  *)
(* list for comparison with the real lexer.                                 *)
(***************************************************************************)
EXTENDS EvyLexer, Json

CONSTANTS MaxLen, SampleLen, Sample

Alpha == <<32, 9, 10, 97, 228, 111, 114, 49, 46, 34, 92, 61, 58, 47, 60, 33, 45, 40, 8364, 110>>
NA == 20
Alphabet == {Alpha[i] : i \in 1..NA}

RECURSIVE Decode(_, _)
Decode(code, len) == IF len = 0 THEN <<>> ELSE <<Alpha[(code % NA) + 1]>> \o Decode(code \div NA, len - 1)

Inputs == UNION {[1..k -> Alphabet] : k \in 0..MaxLen} \cup {Decode(c, SampleLen) : c \in Sample}

Init == \E s \in Inputs : LexInit(s)
Next == LexNext
Emit == done => PrintT(ToJson([inp |-> [cp |-> inp], toks |-> toks]))
=============================================================================
