CONSTANTS
  StopMode = "none"
  Lys = @LYS@
  Tier = "@TIER@"
  ExhLen = @EXHLEN@
  Sample = @SAMPLE@
INIT FamInit
NEXT Next
INVARIANTS NoStuck HeapWF AnyConcrete TypeSound
PROPERTIES OutGrows
CONSTRAINT Emit
CHECK_DEADLOCK FALSE
