------------------------------ MODULE EvyTypes ------------------------------
(***************************************************************************)
(* The static typing relation of Evy, written from docs/spec.md             *)
(* (Assignability, Variables and Declarations, Zero Values, Operators and   *)
(* Expressions, Index and Slice, Type Assertion, Typeof).                   *)
(*                                                                         *)
(* A value in a context is described by its static type ty and by whether   *)
(* it is a constant (cn): a literal, or an expression that only contains    *)
(* constants; everything else is treated like a variable.                   *)
(***************************************************************************)
EXTENDS EvySyntax

IsArr(t) == t[1] = "arr"
IsMap(t) == t[1] = "map"

RECURSIVE Converts(_, _)
\* can a constant of type t2 be converted to type t ?
Converts(t, t2) ==
  IF t = t2 THEN TRUE
  ELSE IF t = T_any THEN t2 # T_none
  ELSE IF IsComposite(t) /\ IsComposite(t2) /\ t[1] = t2[1]
       THEN (IF Tail(t2) = T_none THEN TRUE ELSE Converts(Tail(t), Tail(t2)))
  ELSE FALSE

\* target of type t accepts the value (ty, cn)          (spec.md Assignability)
Accepts(t, ty, cn) ==
  \/ t = ty
  \/ t = T_any /\ ty # T_none
  \/ cn /\ Converts(t, ty)

\* the type a variable gets from an inferred declaration  x := value
Inferred(ty) == InferTy(ty)

\* operand types match: identical, or one side an untyped empty composite of the same kind
RECURSIVE Matches(_, _)
Matches(a, b) ==
  IF a = b THEN TRUE
  ELSE IF IsComposite(a) /\ IsComposite(b) /\ a[1] = b[1]
       THEN (IF Tail(a) = T_none \/ Tail(b) = T_none THEN TRUE ELSE Matches(Tail(a), Tail(b)))
  ELSE FALSE

\* binary operator table: [ok, ty]
BinOpType(op, l, r) ==
  LET no == [ok |-> FALSE, ty |-> T_none]
      yes(t) == [ok |-> TRUE, ty |-> t]
  IN IF op = "*" /\ IsArr(l) THEN (IF r = T_num THEN yes(l) ELSE no)
     ELSE IF ~Matches(l, r) THEN no
     ELSE CASE op = "+" -> IF l = T_num \/ l = T_str THEN yes(l)
                           ELSE IF IsArr(l) THEN yes(IF Tail(l) = T_none THEN r ELSE l) ELSE no
            [] op \in {"-", "/", "%", "*"} -> IF l = T_num THEN yes(T_num) ELSE no
            [] op \in {"<", "<=", ">", ">="} -> IF l = T_num \/ l = T_str THEN yes(T_bool) ELSE no
            [] op \in {"==", "!="} -> yes(T_bool)
            [] op \in {"and", "or"} -> IF l = T_bool THEN yes(T_bool) ELSE no
            [] OTHER -> no

UnOpType(op, t) == IF op = "-" THEN [ok |-> t = T_num, ty |-> T_num] ELSE [ok |-> t = T_bool, ty |-> T_bool]

\* v[i]
IndexType(v, i) == IF (IsArr(v) /\ Len(v) > 1) /\ i = T_num THEN [ok |-> Tail(v) # T_none, ty |-> Tail(v)]
                   ELSE IF v = T_str /\ i = T_num THEN [ok |-> TRUE, ty |-> T_str]
                   ELSE IF IsMap(v) /\ Len(v) > 1 /\ i = T_str THEN [ok |-> Tail(v) # T_none, ty |-> Tail(v)]
                   ELSE [ok |-> FALSE, ty |-> T_none]
\* v[a:b]
SliceType(v, a, b) == [ok |-> (IsArr(v) \/ v = T_str) /\ a = T_num /\ b = T_num, ty |-> v]
\* v.key
DotType(v) == [ok |-> IsMap(v) /\ Len(v) > 1 /\ Tail(v) # T_none, ty |-> Tail(v)]
\* v.(t)
AssertType(v, t) == [ok |-> v = T_any /\ t # T_any, ty |-> t]
CondOK(t) == t = T_bool
RangeOK(ts) == IF Len(ts) = 1 THEN ts[1] = T_num \/ ts[1] = T_str \/ IsArr(ts[1]) \/ IsMap(ts[1])
               ELSE \A i \in DOMAIN ts : ts[i] = T_num

---------------------------------------------------------------------------
(* the type universe and witnesses *)

Base == {T_num, T_str, T_bool, T_any}
Types1 == Base \cup {TArr(b) : b \in Base} \cup {TMap(b) : b \in Base}
Types2 == Types1 \cup {TArr(t) : t \in Types1 \ Base} \cup {TMap(t) : t \in Types1 \ Base}

K_k == <<107>>
RECURSIVE Witness(_)
\* a literal whose static type is exactly t (t contains no bare any at the top)
Witness(t) ==
  CASE t = T_num  -> ENum(I(1))
    [] t = T_str  -> EStr(<<115>>)
    [] t = T_bool -> EBool(TRUE)
    [] IsArr(t)   -> IF Tail(t) = T_any THEN EArr(<<ENum(I(1)), EStr(<<97>>)>>) ELSE EArr(<<Witness(Tail(t))>>)
    [] IsMap(t)   -> IF Tail(t) = T_any THEN EMap(<<<<97>>, <<98>>>>, <<ENum(I(1)), EStr(<<120>>)>>) ELSE EMap(<<K_k>>, <<Witness(Tail(t))>>)
    [] OTHER      -> ENum(I(0))
HasWitness(t) == t # T_any

\* properties of the relation itself (checked by TLC over the type universe)
AcceptsReflexive == \A t \in Types2 : Accepts(t, t, FALSE)
AnyAcceptsAll == \A t \in Types2 : Accepts(T_any, t, FALSE)
VariablesAreStrict == \A t \in Types2, u \in Types2 : Accepts(t, u, FALSE) => (t = u \/ t = T_any)
NoAnyArrayFromVariable == ~Accepts(TArr(T_any), TArr(T_num), FALSE) /\ Accepts(TArr(T_any), TArr(T_num), TRUE)
WitnessTyped == \A t \in Types2 : HasWitness(t) => Witness(t).ty = t
CombineCommutes == \A t \in Types2, u \in Types2 : Combine2(t, TRUE, u, TRUE) = Combine2(u, TRUE, t, TRUE)
CombineAssoc == \A t \in Types1, u \in Types1, w \in Types1 :
                   Combine2(Combine2(t, TRUE, u, TRUE), TRUE, w, TRUE) = Combine2(t, TRUE, Combine2(u, TRUE, w, TRUE), TRUE)
MatchesSymmetric == \A t \in Types2, u \in Types2 : Matches(t, u) = Matches(u, t)

=============================================================================
