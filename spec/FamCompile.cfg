CONSTANTS
  StopMode = "none"
  Lys = @LYS@
  Tier = "@TIER@"
INIT FamInit
NEXT Next
INVARIANTS NoStuck HeapWF AnyConcrete TypeSound
PROPERTIES OutGrows
CONSTRAINT Emit
CHECK_DEADLOCK FALSE
