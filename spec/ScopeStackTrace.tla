-------------------------- MODULE ScopeStackTrace --------------------------
(***************************************************************************)
(* Trace validation for C10: the scope and variable events recorded from    *)
(* the real evaluator (hooks under build tag verif: PushScope, PopScope,    *)
(* PushFuncScope, PopFuncScope, ForEnter, ForExit, Block, Declare, Update,  *)
(* Get) must be a behaviour of ScopeStack.  Every event carries its         *)
(* arguments (name, value), so the search is linear.  Many runs are         *)
(* concatenated; a Reset event starts the next one.                         *)
(***************************************************************************)
EXTENDS ScopeStack, Json, TLC

Trace == ndJsonDeserialize("trace.ndjson")

VARIABLE l
tvars == <<svars, l>>

TInit == SInit /\ l = 1
Is(e) == l <= Len(Trace) /\ Trace[l].ev = e /\ l' = l + 1

TNext ==
  \/ Is("PushScope") /\ Push
  \/ Is("PopScope") /\ Pop
  \/ Is("ForEnter") /\ ForEnter
  \/ Is("ForExit") /\ ForExit
  \/ Is("PushFuncScope") /\ PushFunc
  \/ Is("PopFuncScope") /\ PopFunc
  \/ Is("Block") /\ Block
  \/ Is("Declare") /\ Declare(Trace[l].s, Trace[l].v) /\ TopSize' = Trace[l].n      \* logged: size of the scope
  \/ Is("Update") /\ Update(Trace[l].s, Trace[l].v)
  \/ Is("Get") /\ Get(Trace[l].s, Trace[l].v) /\ Distance(Trace[l].s) = Trace[l].n   \* logged: where it was found
  \/ Is("End") /\ End
  \/ Is("Cut") /\ UNCHANGED svars                       \* the recording was cut short: nothing is demanded
  \/ Is("Reset") /\ g' = <<>> /\ loc' = <<>> /\ saved' = <<>>

TSpec == TInit /\ [][TNext]_tvars

\* every line of the trace was matched by an action of the specification
TraceAccepted == TLCGet("stats").diameter = Len(Trace) + 1
=============================================================================
