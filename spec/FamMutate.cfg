CONSTANTS
  Tier = "@TIER@"
  Edits1 = @EDITS1@
  Edits2 = @EDITS2@
  Headers = @HEADERS@
  Headers2 = @HEADERS2@
INIT Init
NEXT Next
CONSTRAINT Emit
CHECK_DEADLOCK FALSE
