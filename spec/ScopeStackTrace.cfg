INIT TInit
NEXT TNext
INVARIANTS KindsOK ClosedOnlyFor
POSTCONDITION TraceAccepted
CHECK_DEADLOCK FALSE
