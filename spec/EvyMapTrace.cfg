INIT TInit
NEXT TNext
INVARIANTS MapsWF LoopsWF
POSTCONDITION TraceAccepted
CHECK_DEADLOCK FALSE
