------------------------------ MODULE FamMutate ------------------------------
(***************************************************************************)
(* Family for C03 (parser part): what a learner produces while typing -     *)
(* every prefix, deletion, insertion, substitution and transposition of the *)
(* pieces (tokens and whitespace) of valid seed programs, plus pairs of     *)
(* such edits.  An edit is a number  kind * 1000000 + position * 100 + v.   *)
(* The only claim made for a mutant is the property's: parsing terminates   *)
(* with a program XOR a non-empty list of located errors, never a crash.    *)
(***************************************************************************)
EXTENDS EvySeeds, Json, TLC, Integers

CONSTANTS Tier,
          Edits1,       \* set of single edits (numbers), applied to every seed
          Headers,      \* set of header codes (after the bare keyword; body without the parameter)
          Headers2,     \* set of header codes (after the keyword and a name; bodies that use the parameter x)
          Edits2        \* set of pairs <<e1, e2>> encoded as e1 * 10 + index into Second

VARIABLE mu

Seeds == << RProg(Seed(NoIns), "canon"), RProg(Seed2, "canon"), RProg(Seed(NoIns), "wide") >>

Vocab == << "func ", "on ", "end", "if ", "else", "while ", "for ", "range ", "return", "break", ":=", "=", "(", ")", "[", "]", "{", "}",
            ":", ".", "...", "\"", "//", "+", "-", "*", "x", "1", "\n", " ", "any", "num", "true", "\\", "1.2.3", "_", "and", "!", "\t", "print" >>
NV == 40

Kind(e) == e \div 1000000
PosOf(e) == (e % 1000000) \div 100
VOf(e) == e % 100

\* 1 delete, 2 insert, 3 substitute, 4 swap with next, 5 truncate after position
Apply(ps, e) ==
  LET i == (PosOf(e) % Len(ps)) + 1
      t == Vocab[(VOf(e) % NV) + 1]
  IN CASE Kind(e) = 1 -> SubSeq(ps, 1, i - 1) \o SubSeq(ps, i + 1, Len(ps))
       [] Kind(e) = 2 -> SubSeq(ps, 1, i - 1) \o <<t>> \o SubSeq(ps, i, Len(ps))
       [] Kind(e) = 3 -> SubSeq(ps, 1, i - 1) \o <<t>> \o SubSeq(ps, i + 1, Len(ps))
       [] Kind(e) = 4 -> IF i < Len(ps) THEN SubSeq(ps, 1, i - 1) \o <<ps[i + 1], ps[i]>> \o SubSeq(ps, i + 2, Len(ps)) ELSE ps
       [] OTHER       -> SubSeq(ps, 1, i)

Second == << 1000300, 1001700, 2000511, 2002205, 3000918, 3004021, 4001000, 5003300, 2007700 + 21, 1009900 >>

\* ---- definition headers: every sequence of header tokens after `func` / `on` (the signature pre-pass sees
\* these before anything else is parsed); a header is  code = len * 10000000 + digits base NH
HdrVocab == << "f", " x", ":", "num", "[]", "{}", "any", "...", " ", "\n", "end", "key", " y:num", "string", "_", "1", "=", "." >>
NH == 18
RECURSIVE HdrSeq(_, _)
HdrSeq(code, len) == IF len = 0 THEN <<>> ELSE <<HdrVocab[(code % NH) + 1]>> \o HdrSeq(code \div NH, len - 1)
\* the body of the definition: nothing of the header, or the parameter x in every expression form, or in every
\* statement form (whatever the header made of x - a typed parameter, an ill-typed one, nothing at all)
Bodies == << <<"    print 1\n">>,
             <<"    print x x[0] x[1:] x.a -x !x (x+1) (x and true) x.(num) [x] {a:x} (len x)\n", "    print x[0][1] x.a.b (x[0]) x[:1][0]\n">>,
             <<"    for c := range x\n", "        print c\n", "    end\n", "    x = 1\n", "    x[0] = 1\n", "    x.a = 1\n",
               "    while x\n", "        break\n", "    end\n", "    if x\n", "        print 1\n", "    end\n", "    y := x\n", "    print y\n",
               "    for range x\n", "        print 1\n", "    end\n", "    for i := range x x x\n", "        print i\n", "    end\n", "    return x\n">>,
             <<"    print x\n">> >>
Header(kw, c, b) == <<kw>> \o HdrSeq(c % 10000000, c \div 10000000) \o <<"\n">> \o Bodies[b] \o <<"end\n", "print 2\n">>
\* ill-formed bindings of x inside a function body (the value has no type, the range cannot be ranged over, the
\* type does not exist ...), each followed by the bodies that use x in every expression and statement form;
\* closer = the lines that close what the binding opened
IllBinds == << [b |-> <<"    for x := range true\n">>, c |-> <<"    end\n">>], [b |-> <<"    av:any\n", "    for x := range av\n">>, c |-> <<"    end\n">>],
               [b |-> <<"    for x := range 1 2 \"s\"\n">>, c |-> <<"    end\n">>], [b |-> <<"    for x := range\n">>, c |-> <<"    end\n">>],
               [b |-> <<"    for x := range nosuch\n">>, c |-> <<"    end\n">>], [b |-> <<"    for x := range (print 1)\n">>, c |-> <<"    end\n">>],
               [b |-> <<"    x := [][0]\n">>, c |-> <<>>], [b |-> <<"    x := {}.k\n">>, c |-> <<>>], [b |-> <<"    x := {}[\"k\"]\n">>, c |-> <<>>],
               [b |-> <<"    x := print 1\n">>, c |-> <<>>], [b |-> <<"    x := (print 1)\n">>, c |-> <<>>], [b |-> <<"    x := nosuch\n">>, c |-> <<>>],
               [b |-> <<"    x := 1 +\n">>, c |-> <<>>], [b |-> <<"    x:foo\n">>, c |-> <<>>], [b |-> <<"    x := [1 \"a\"][0] + 1\n">>, c |-> <<>>],
               [b |-> <<"    x := []\n", "    x = x[0]\n">>, c |-> <<>>], [b |-> <<"    x := -true\n">>, c |-> <<>>], [b |-> <<"    x := !1\n">>, c |-> <<>>],
               [b |-> <<"    x := [][0][0]\n">>, c |-> <<>>], [b |-> <<"    x := ([])[0]\n">>, c |-> <<>>],
               [b |-> <<"    for x := range true\n", "        y := x\n", "        for z := range y\n", "            print z\n", "        end\n">>, c |-> <<"    end\n">>],
               [b |-> <<"    while nosuch\n", "        x := nosuch2\n">>, c |-> <<"    end\n">>],
               [b |-> <<"    x := \"abc\"[:\"s\"]\n">>, c |-> <<>>], [b |-> <<"    x := [1 2][true:]\n">>, c |-> <<>>], [b |-> <<"    x := \"abc\"[[1]:2]\n">>, c |-> <<>>],
               [b |-> <<"    w := read\n", "    x := \"abc\"[:w]\n">>, c |-> <<>>], [b |-> <<"    x := {a:1}[1:]\n">>, c |-> <<>>], [b |-> <<"    x := [1 2][\"k\"]\n">>, c |-> <<>>],
               [b |-> <<"    x := {a:1}[0]\n">>, c |-> <<>>], [b |-> <<"    x := 5.(num)\n">>, c |-> <<>>], [b |-> <<"    x := [1].a\n">>, c |-> <<>>],
               \* an ill-typed statement after many errors (whatever the parser does to limit its diagnostics)
               [b |-> <<"    e1 := z1\n", "    e2 := z2\n", "    e3 := z3\n", "    e4 := z4\n", "    e5 := z5\n", "    e6 := z6\n", "    e7 := z7\n", "    e8 := z8\n",
                        "    e9 := z9\n", "    e10 := z10\n", "    e11 := z11\n", "    e12 := z12\n", "    names := [\"a\"]\n", "    sc:[]any\n", "    sc = [1 2 3] + names[0]\n",
                        "    sc = [1] + \"s\"\n", "    sc = -[1]\n", "    sc = [[1] + names]\n", "    x := [1 2] + names[0]\n">>, c |-> <<>>],
               [b |-> <<"    if [][0]\n", "        x := 1\n">>, c |-> <<"    end\n">>] >>
IllProg(i, b) == <<"func g\n">> \o IllBinds[i].b \o Bodies[b] \o IllBinds[i].c \o <<"end\n", "g\n">>
HdrKw == << "func ", "on ", "on key", "func f", "on down", "func f:num" >>

Init == mu \in {<<s, e, 0>> : s \in DOMAIN Seeds, e \in Edits1} \cup {<<0 - k, h, 1>> : k \in {1, 2}, h \in Headers}
               \cup {<<0 - k, h, b>> : k \in {3, 4, 5, 6}, h \in Headers2, b \in {2, 3, 4}}
               \cup (IF Headers2 = {} THEN {} ELSE {<<-7, i, b>> : i \in DOMAIN IllBinds, b \in {2, 3, 4}})
               \cup {<<s, e2 \div 10, Second[(e2 % 10) + 1]>> : s \in DOMAIN Seeds, e2 \in Edits2}
Next == FALSE /\ UNCHANGED mu

Mutant == IF mu[1] = -7 THEN IllProg(mu[2], mu[3])
          ELSE IF mu[1] < 0 THEN Header(HdrKw[0 - mu[1]], mu[2], mu[3])
          ELSE LET a == Apply(Seeds[mu[1]], mu[2]) IN IF mu[3] = 0 THEN a ELSE Apply(a, mu[3])
Emit == PrintT(ToJson([seed |-> mu[1], e1 |-> mu[2], e2 |-> mu[3], src |-> Mutant]))
=============================================================================
