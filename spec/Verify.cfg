CONSTANTS
  Tier = "@TIER@"
INIT Init
NEXT Next
INVARIANTS Exact SingleHasOne
CONSTRAINT Emit
CHECK_DEADLOCK FALSE
