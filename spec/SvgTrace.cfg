CONSTANTS
  U = 10000
INIT TraceInit
NEXT TraceNext
INVARIANTS InOrder
PROPERTIES DrawnGrows PanicIsClean
CONSTRAINT Emit
POSTCONDITION TraceAccepted
CHECK_DEADLOCK FALSE
