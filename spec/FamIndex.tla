------------------------------ MODULE FamIndex ------------------------------
(***************************************************************************)
(* Family for C11: the index and slice laws of spec.md "Index and Slice"    *)
(* on arrays and strings of length 0..N, for every index value in a window  *)
(* around [-n, n], non-integers, large and huge values, nan and infinities; *)
(* all pairs of slice bounds; reads, element stores, freshness of slices.   *)
(***************************************************************************)
EXTENDS EvyMachine

CONSTANT Tier

MaxLen == IF Tier = "quick" THEN 3 ELSE 4

NumE(v) == IF IsNeg(v) \/ (IsBig(v) /\ v.m < 0) THEN EUn("-", ENum(NumNeg(v))) ELSE ENum(v)
Div(a, b) == EGrp(EBin("/", ENum(I(a)), ENum(I(b))))
\* an expression whose value is v, for every kind of number
ValE(v) == CASE v.s = "nan"  -> Div(0, 0)
             [] v.s = "inf"  -> Div(1, 0)
             [] v.s = "ninf" -> EUn("-", Div(1, 0))
             [] OTHER        -> NumE(v)

Large == I(2147483647)
Specials == {Fin(1, 1), NumNeg(Fin(1, 1)), Fin(3, 1), Large, NumNeg(Large), Big, NBig, NaN, Inf, NInf}
Idxs(n) == {I(i) : i \in (-n - 2)..(n + 2)} \cup Specials
Bounds(n) == {I(i) : i \in (-n - 1)..(n + 1)} \cup {Fin(1, 1), Big, NaN, NumNeg(Large)}

\* the array [10 20 .. 10n] and a string of n code points of 1, 2, 3 and 4 bytes
ArrOf(n) == EArr([i \in 1..n |-> ENum(I(10 * i))])
Chars == <<97, 228, 8364, 128512>>
StrOf(n) == EStr([i \in 1..n |-> Chars[i]])

A == EVar("a", TArr(T_num))
S == EVar("s", T_str)
IV == EVar("i", T_num)
Pr(xs) == SCall(ECallB("print", xs))

\* print a[i] with the index written in place, or taken from a variable
ReadLit(decl, x, v) == <<decl, Pr(<<EIdx(x, ValE(v))>>)>>
ReadVar(decl, x, v) == <<decl, SInfer("i", ValE(v)), Pr(<<EIdx(x, IV)>>)>>
\* a[i] = 99 ; print a
Store(n, v) == <<SInfer("a", ArrOf(n)), SAsg(EIdx(A, ValE(v)), ENum(I(99))), Pr(<<A>>)>>
\* empty array of declared type: a:[]num
StoreEmpty(v) == <<SDecl("a", TArr(T_num)), SAsg(EIdx(A, ValE(v)), ENum(I(99))), Pr(<<A>>)>>

NoB == [t |-> "nobound"]
Opt(b) == IF b.t = "nobound" THEN <<>> ELSE <<ValE(b)>>
\* b := a[lo:hi] ; the slice is a fresh copy: a store into it does not show in a
SliceArr(n, lo, hi) ==
  LET B == EVar("b", TArr(T_num))
  IN <<SInfer("a", ArrOf(n)), SInfer("b", ESlice(A, Opt(lo), Opt(hi))),
       SIf(<<EBin(">", ECallB("len", <<B>>), ENum(I(0)))>>, <<<<SAsg(EIdx(B, ENum(I(0))), ENum(I(77)))>>>>, <<>>),
       Pr(<<A, B>>)>>
SliceStr(n, lo, hi) == <<SInfer("s", StrOf(n)), Pr(<<ESlice(S, Opt(lo), Opt(hi)), ECallB("len", <<S>>)>>)>>

Lens == 0..MaxLen
Progs ==
  UNION {{ReadLit(SInfer("a", ArrOf(n)), A, v) : v \in Idxs(n)} : n \in 1..MaxLen}
  \cup UNION {{ReadVar(SInfer("a", ArrOf(n)), A, v) : v \in Idxs(n)} : n \in 1..MaxLen}
  \cup {ReadVar(SDecl("a", TArr(T_num)), A, v) : v \in Idxs(0)}
  \cup UNION {{ReadLit(SInfer("s", StrOf(n)), S, v) : v \in Idxs(n)} : n \in Lens}
  \cup UNION {{ReadVar(SInfer("s", StrOf(n)), S, v) : v \in Idxs(n)} : n \in Lens}
  \cup UNION {{Store(n, v) : v \in Idxs(n)} : n \in 1..MaxLen}
  \cup {StoreEmpty(v) : v \in Idxs(0)}
  \cup UNION {{SliceArr(n, lo, hi) : lo \in Bounds(n) \cup {NoB}, hi \in Bounds(n) \cup {NoB}} : n \in 1..MaxLen}
  \cup UNION {{SliceStr(n, lo, hi) : lo \in Bounds(n) \cup {NoB}, hi \in Bounds(n) \cup {NoB}} : n \in Lens}

\* errmsg is a string like any other: indexing and slicing it sees its current text after every conversion
EM == EVar("errmsg", T_str)
NV == EVar("n", T_num)
S2N(cp) == SAsg(NV, ECallB("str2num", <<EStr(cp)>>))
ErrObs == Pr(<<ECallB("len", <<EM>>), EIdx(EM, ENum(I(0))), EIdx(EM, EUn("-", ENum(I(2)))), ESlice(EM, <<ENum(I(9))>>, <<>>)>>)
ErrmsgProgs == { <<SInfer("n", ENum(I(0))), S2N(a), ErrObs, S2N(b), ErrObs, S2N(c), Pr(<<ECallB("len", <<EM>>)>>), Pr(<<EIdx(EM, ENum(I(0)))>>)>> :
                   a \in {<<113>>, <<228, 113, 113>>}, b \in {<<113, 113, 113, 113>>, <<8364>>}, c \in {<<49>>, <<122>>} }

\* operators leave their operands alone: after t := s[lo:hi] + x (and x + s[lo:hi], and a slice of a slice) every
\* element, every slice and the iteration of the source still give what they gave before; strings and arrays
ObsStr(n) == <<Pr(<<S, ECallB("len", <<S>>)>> \o [i \in 1..n |-> EIdx(S, ENum(I(i - 1)))] \o [i \in 1..n |-> EIdx(S, EUn("-", ENum(I(i))))]),
               Pr([i \in 1..n |-> ESlice(S, <<ENum(I(i - 1))>>, <<>>)] \o [i \in 1..n |-> ESlice(S, <<>>, <<ENum(I(i))>>)]),
               SFor("c", "str", <<S>>, <<Pr(<<EVar("c", T_str)>>)>>)>>
ObsArr(n) == <<Pr(<<A, ECallB("len", <<A>>)>> \o [i \in 1..n |-> EIdx(A, ENum(I(i - 1)))]),
               Pr([i \in 1..n |-> ESlice(A, <<ENum(I(i - 1))>>, <<>>)] \o [i \in 1..n |-> ESlice(A, <<>>, <<ENum(I(i))>>)])>>
TS == EVar("t", T_str)
TA == EVar("t", TArr(T_num))
StrTails == {<<88>>, <<233, 89>>, <<128512, 90, 90>>}
StableStr(n, lo, hi, x, left) ==
  <<SInfer("s", StrOf(n))>> \o ObsStr(n)
   \o <<SInfer("t", IF left THEN EBin("+", ESlice(S, Opt(lo), Opt(hi)), EStr(x)) ELSE EBin("+", EStr(x), ESlice(S, Opt(lo), Opt(hi)))), Pr(<<TS>>)>> \o ObsStr(n)
   \o <<SAsg(TS, EBin("+", ESlice(ESlice(S, Opt(lo), Opt(hi)), <<>>, <<>>), ESlice(TS, <<ENum(I(0))>>, <<ENum(I(1))>>))), Pr(<<TS>>)>> \o ObsStr(n)
StableArr(n, lo, hi, k, left) ==
  LET X == EArr([i \in 1..k |-> ENum(I(90 + i))])
  IN <<SInfer("a", ArrOf(n))>> \o ObsArr(n)
      \o <<SInfer("t", IF left THEN EBin("+", ESlice(A, Opt(lo), Opt(hi)), X) ELSE EBin("+", X, ESlice(A, Opt(lo), Opt(hi)))), Pr(<<TA>>)>> \o ObsArr(n)
      \o <<SAsg(TA, EBin("+", ESlice(TA, <<>>, <<ENum(I(1))>>), ESlice(A, Opt(lo), Opt(hi)))), SAsg(EIdx(TA, ENum(I(0))), ENum(I(55))), Pr(<<TA>>)>> \o ObsArr(n)
\* a slice is a copy: a store into the SOURCE after the slice was taken does not show in the slice (and the other way
\* round), for every pair of bounds and every position
SliceThenStore(n, lo, hi, i) ==
  LET B == EVar("b", TArr(T_num))
  IN <<SInfer("a", ArrOf(n)), SInfer("b", ESlice(A, Opt(lo), Opt(hi))), SAsg(EIdx(A, ENum(I(i))), ENum(I(99))), Pr(<<A, B>>),
       SIf(<<EBin(">", ECallB("len", <<B>>), ENum(I(0)))>>, <<<<SAsg(EIdx(B, EUn("-", ENum(I(1)))), ENum(I(77)))>>>>, <<>>), Pr(<<A, B>>),
       SAsg(EIdx(A, ENum(I(0))), ENum(I(55))), Pr(<<A, B>> \o [j \in 1..n |-> EIdx(A, ENum(I(j - 1)))])>>
InB(n) == {I(i) : i \in 0..n} \cup {NoB}
StableProgs ==
  UNION {{StableStr(n, lo, hi, x, l) : lo \in InB(n), hi \in InB(n), x \in StrTails, l \in BOOLEAN} : n \in {MaxLen}}
  \cup UNION {{StableArr(n, lo, hi, k, l) : lo \in InB(n), hi \in InB(n), k \in 1..2, l \in BOOLEAN} : n \in {MaxLen}}
  \cup UNION {{SliceThenStore(n, lo, hi, i) : lo \in InB(n), hi \in InB(n), i \in 0..(n - 1)} : n \in {MaxLen}}

FamCases == {MkCase("FamIndex", "idx", Program(p, <<>>, <<>>)) : p \in Progs}
            \cup {MkCase("FamIndex", "stable", Program(p, <<>>, <<>>)) : p \in StableProgs}
            \cup {MkCase("FamIndex", "errmsg", Program(p, <<>>, <<>>)) : p \in ErrmsgProgs}
FamInit == InitWith(FamCases)
=============================================================================
