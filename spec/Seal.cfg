CONSTANTS
  Tier = "@TIER@"
  Authenticated = @AUTH@
INIT Init
NEXT Next
INVARIANTS TypeOK NeverDifferent RoundTrip WrongKeyRejected OriginalOnlyIfIntact
CONSTRAINT Emit
CHECK_DEADLOCK FALSE
