------------------------------ MODULE EvySeeds ------------------------------
(***************************************************************************)
(* Valid seed programs with effects, used by the families that edit valid   *)
(* programs (FamBreak: rule-breaking edits, FamMutate: token edits,         *)
(* FamFormat: layout and trivia variations).  Seed(ins) is the program with *)
(* the statements ins[site] inserted at every site.                         *)
(***************************************************************************)
EXTENDS EvySyntax

Num(n) == ENum(I(n))
Pr(xs) == SCall(ECallB("print", xs))
Xv == EVar("x", T_num)
Raw(ps) == [k |-> "raw", ps |-> ps]        \* a line given as text (for stray tokens)

Sites == {"top0", "top1", "if", "elif", "else", "while", "for", "nested", "proc", "func", "handler"}
LoopSites == {"while", "for", "nested"}
FuncSites == {"proc", "func"}

\* the seed program with the statements ins[site] inserted at every site
Seed(ins) ==
  LET I2(s) == ins[s]
      proc == FuncDef("proc", <<Param("n", T_num)>>, <<>>, T_none, <<Pr(<<EVar("n", T_num)>>)>> \o I2("proc"))
      fn == FuncDef("fn", <<Param("n", T_num)>>, <<>>, T_num, I2("func") \o <<SRetV(EBin("+", EVar("n", T_num), Num(1)), T_num)>>)
      h == Handler("key", <<Param("k", T_str)>>, <<Pr(<<EVar("k", T_str)>>)>> \o I2("handler"))
  IN [Program(
       <<Pr(<<EStr(<<115>>)>>)>> \o I2("top0") \o
       <<SInfer("x", Num(1)),
         SIf(<<EBin(">", Xv, Num(0)), EBin("<", Xv, Num(0))>>,
             << <<Pr(<<Num(1)>>)>> \o I2("if"), <<Pr(<<Num(2)>>)>> \o I2("elif") >>,
             << <<Pr(<<Num(3)>>)>> \o I2("else") >>),
         SWhile(EBin("<", Xv, Num(3)), <<SAsg(Xv, EBin("+", Xv, Num(1)))>> \o I2("while")),
         SFor("i", "num", <<Num(2)>>, <<Pr(<<EVar("i", T_num)>>)>> \o I2("for")),
         SFor("j", "num", <<Num(2)>>, <<SIf(<<EBin("==", EVar("j", T_num), Num(0))>>, << <<Pr(<<Num(4)>>)>> \o I2("nested") >>, <<>>)>>),
         SCall(ECallU("proc", FSig(proc), <<Num(1)>>)),
         Pr(<<ECallU("fn", FSig(fn), <<Num(2)>>)>>),
         SCall(ECallB("move", <<Num(10), Num(10)>>)), SCall(ECallB("line", <<Num(20), Num(20)>>)),
         SInfer("s", ECallB("read", <<>>)), Pr(<<EVar("s", T_str)>>),
         SCall(ECallB("sleep", <<ENum(Fin(1, 8))>>))>> \o I2("top1"),
       <<proc, fn>>, <<h>>) EXCEPT !.fl = TRUE]

NoIns == [s \in Sites |-> <<>>]
At(site, ss) == [NoIns EXCEPT ![site] = ss]


\* a second seed: expressions, literals, maps, arrays, index / slice / field, type assertion, variadic function
Seed2 ==
  LET sum == FuncDef("sum", <<>>, <<Param("ns", T_num)>>, T_num,
                     <<SInfer("t", Num(0)), SFor("n", "arr", <<EVar("ns", TArr(T_num))>>, <<SAsg(EVar("t", T_num), EBin("+", EVar("t", T_num), EVar("n", T_num)))>>),
                       SRetV(EVar("t", T_num), T_num)>>)
      m == EVar("m", TMap(T_any))
      a == EVar("a", TArr(T_num))
  IN [Program(
       <<SInfer("a", EArr(<<Num(1), Num(2), EBin("*", Num(3), EGrp(EBin("+", Num(4), Num(5))))>>)),
         SInfer("m", EMap(<<<<110, 97, 109, 101>>, <<97, 103, 101>>>>, <<EStr(<<228, 98, 34>>), Num(7)>>)),
         SAsg(EIdx(a, Num(0)), EUn("-", EIdx(a, EUn("-", Num(1))))),
         SAsg(EDot(m, <<107>>), ESlice(a, <<Num(1)>>, <<>>)),
         Pr(<<a, m, ECallB("len", <<m>>), EBin("and", EBin("<", EIdx(a, Num(1)), Num(3)), EUn("!", ECallB("has", <<m, EStr(<<122>>)>>)))>>),
         SDecl("x", T_any), SAsg(EVar("x", T_any), EDot(m, <<97, 103, 101>>)),
         Pr(<<EBin("+", EAssert(EVar("x", T_any), T_num), Num(1)), ECallB("typeof", <<EVar("x", T_any)>>)>>),
         Pr(<<ECallU("sum", FSig(sum), <<Num(1), Num(2), ENum(Fin(5, 1))>>)>>),
         SFor("k", "map", <<m>>, <<Pr(<<EVar("k", T_str), EIdx(m, EVar("k", T_str))>>)>>),
         SFor("c", "str", <<EStr(<<97, 228>>)>>, <<Pr(<<EBin("+", EVar("c", T_str), EStr(<<33>>))>>)>>)>>,
       <<sum>>, <<>>) EXCEPT !.fl = TRUE]
=============================================================================
