------------------------------ MODULE Symtab -------------------------------
(***************************************************************************)
(* C17: the symbol table of the bytecode compiler (pkg/bytecode/symbol.go)  *)
(* as a stack of scopes.  Written from the documentation of SymbolTable,    *)
(* Push, Pop, Define and Resolve:                                           *)
(*   - globals (scope 1, the only scope without an outer one) live in their *)
(*     own space and are numbered from 0 in the order of definition;        *)
(*   - every other scope is LOCAL; its index starts at the index of the     *)
(*     outer scope, or at 0 if the outer scope is the global one;           *)
(*   - Define returns the existing symbol if the name is already defined in *)
(*     the SAME scope, else hands out the scope's next index;               *)
(*   - Resolve walks outwards and returns the innermost definition;         *)
(*   - Pop propagates the high-water mark ("nestedMaxIndex") to the outer   *)
(*     scope: outer.nmax = max(outer.nmax, s.nmax + s.index); Pop of the    *)
(*     global scope returns the global scope.                               *)
(* The compiler reports GlobalCount = index of the global scope and         *)
(* LocalCount = nmax of the global scope after every block was closed       *)
(* (compiler.go, Bytecode).                                                 *)
(*                                                                          *)
(* The history of operations with the result of every Define / Resolve is   *)
(* kept (WithHist = TRUE) so that each behaviour of length MaxOps can be    *)
(* printed as a case and replayed on the real SymbolTable (direction A).    *)
(* With WithHist = FALSE only a step counter is kept: the state space is    *)
(* then small and the invariants are checked for much longer histories.     *)
(***************************************************************************)
EXTENDS Integers, Sequences, FiniteSets, TLC, Json

CONSTANTS NNames,      \* names are 1..NNames
          MaxOps,      \* length of the histories
          WithHist,    \* TRUE: keep and emit histories
          Part         \* 0: all histories; 1..4: only those starting with Push / Pop / Define / Resolve
                       \* (the emission run of the thorough tier is split into four TLC runs)

Names == 1..NNames
None == -1

VARIABLES stack,     \* sequence of scopes [store : Names -> Int, index, nmax]; stack[1] is the global scope
          hist,      \* sequence of [op, n, found, scope, index]
          nops,      \* number of operations so far
          maxLocal   \* highest LOCAL index ever handed out (None: none)

vars == <<stack, hist, nops, maxLocal>>

Top == stack[Len(stack)]
EmptyStore == [n \in Names |-> None]
ScopeOf(d) == IF d = 1 THEN "GLOBAL" ELSE "LOCAL"
Max(a, b) == IF a >= b THEN a ELSE b

Init == /\ stack = <<[store |-> EmptyStore, index |-> 0, nmax |-> 0]>>
        /\ hist = <<>>
        /\ nops = 0
        /\ maxLocal = None

Record(r) == /\ hist' = IF WithHist THEN Append(hist, r) ELSE hist
             /\ nops' = nops + 1

NoResult(op) == [op |-> op, n |-> 0, found |-> FALSE, scope |-> "", index |-> 0]

\* SymbolTable.Push
Push == /\ stack' = Append(stack, [store |-> EmptyStore,
                                   index |-> IF Len(stack) = 1 THEN 0 ELSE Top.index,
                                   nmax |-> 0])
        /\ Record(NoResult("push"))
        /\ UNCHANGED maxLocal

\* the stack after SymbolTable.Pop
Popped(st) ==
  IF Len(st) = 1 THEN st
  ELSE LET d == Len(st)
           s == st[d]
           o == st[d - 1]
       IN [SubSeq(st, 1, d - 1) EXCEPT ![d - 1] = [o EXCEPT !.nmax = Max(o.nmax, s.nmax + s.index)]]

Pop == /\ stack' = Popped(stack)
       /\ Record(NoResult("pop"))
       /\ UNCHANGED maxLocal

\* SymbolTable.Define
Define(n) ==
  LET d == Len(stack) IN
  IF Top.store[n] # None
  THEN /\ Record([op |-> "def", n |-> n, found |-> TRUE, scope |-> ScopeOf(d), index |-> Top.store[n]])
       /\ UNCHANGED <<stack, maxLocal>>
  ELSE /\ stack' = [stack EXCEPT ![d] = [@ EXCEPT !.store[n] = Top.index, !.index = Top.index + 1]]
       /\ maxLocal' = IF d > 1 THEN Max(maxLocal, Top.index) ELSE maxLocal
       /\ Record([op |-> "def", n |-> n, found |-> TRUE, scope |-> ScopeOf(d), index |-> Top.index])

\* SymbolTable.Resolve, written like the code: look here, else ask the outer table
RECURSIVE ResolveFrom(_, _)
ResolveFrom(d, n) ==
  IF stack[d].store[n] # None THEN [found |-> TRUE, scope |-> ScopeOf(d), index |-> stack[d].store[n]]
  ELSE IF d = 1 THEN [found |-> FALSE, scope |-> "", index |-> 0]
  ELSE ResolveFrom(d - 1, n)

Resolve(n) ==
  LET r == ResolveFrom(Len(stack), n) IN
  /\ Record([op |-> "res", n |-> n, found |-> r.found, scope |-> r.scope, index |-> r.index])
  /\ UNCHANGED <<stack, maxLocal>>

(* Names are interchangeable: only histories that introduce the names in the *)
(* order 1, 2, 3 are generated (every other history is a renaming of one).   *)
Used == IF WithHist THEN {hist[i].n : i \in 1..Len(hist)} \ {0} ELSE Names
Fresh(n) == n <= Cardinality(Used) + 1

\* (written with IF: a disjunction inside an action makes TLC generate the successor once per true disjunct)
First(k) == IF Part = 0 THEN TRUE ELSE IF nops > 0 THEN TRUE ELSE Part = k

Next == /\ nops < MaxOps
        /\ \/ (First(1) /\ Push)
           \/ (First(2) /\ Pop)
           \/ \E n \in Names : First(3) /\ Fresh(n) /\ Define(n)
           \/ \E n \in Names : First(4) /\ Fresh(n) /\ Resolve(n)

Spec == Init /\ [][Next]_vars

---------------------------------------------------------------------------
(* Invariants                                                               *)

Defs(d) == {n \in Names : stack[d].store[n] # None}

\* all variables that are alive: defined in some scope that is still open
\* (a shadowed variable is alive: it becomes visible again after Pop)
AliveLocals == {<<d, n>> \in (2..Len(stack)) \X Names : stack[d].store[n] # None}

\* two alive LOCAL variables never share a slot
LocalsDisjoint ==
  \A x, y \in AliveLocals : x # y => stack[x[1]].store[x[2]] # stack[y[1]].store[y[2]]

\* ... in particular two names that resolve to LOCAL symbols at the same time
ResolvableDisjoint ==
  \A n, m \in Names :
    LET a == ResolveFrom(Len(stack), n)
        b == ResolveFrom(Len(stack), m)
    IN (n # m /\ a.found /\ b.found /\ a.scope = "LOCAL" /\ b.scope = "LOCAL") => a.index # b.index

\* globals are dense from 0
GlobalsDense ==
  /\ {stack[1].store[n] : n \in Defs(1)} = 0..(stack[1].index - 1)
  /\ \A n, m \in Defs(1) : n # m => stack[1].store[n] # stack[1].store[m]

\* what the compiler reports once every open block has been closed
RECURSIVE Closed(_)
Closed(st) == IF Len(st) = 1 THEN st[1] ELSE Closed(Popped(st))
LocalCount == Closed(stack).nmax
GlobalCount == Closed(stack).index

\* the reported number of local slots covers every local index handed out
LocalCountCovers == LocalCount >= 1 + maxLocal

\* every local index of an open scope is below the running index of that scope,
\* and indices only grow inwards
IndexMonotone ==
  \A d \in 2..Len(stack) :
    /\ \A n \in Defs(d) : stack[d].store[n] < stack[d].index
    /\ d > 2 => stack[d].index >= stack[d - 1].index

\* Resolve = the innermost definition (declarative form of ResolveFrom)
ResolveInnermost ==
  \A n \in Names :
    LET ds == {d \in 1..Len(stack) : stack[d].store[n] # None}
        r == ResolveFrom(Len(stack), n)
    IN IF ds = {} THEN ~r.found
       ELSE LET d == CHOOSE x \in ds : \A y \in ds : y <= x
            IN r.found /\ r.index = stack[d].store[n] /\ r.scope = ScopeOf(d)

\* Define is idempotent per scope: defining a name that the top scope already
\* has changes nothing and returns the same symbol
DefineIdempotent ==
  [][\A n \in Names :
       (Top.store[n] # None /\ Define(n)) => (stack' = stack /\ maxLocal' = maxLocal)]_vars

TypeOK == /\ Len(stack) >= 1
          /\ nops \in 0..MaxOps
          /\ maxLocal >= None

---------------------------------------------------------------------------
(* Emission (always TRUE; state CONSTRAINT): one case per history of length *)
(* MaxOps.  Shorter histories are prefixes of these.                        *)
\* compact encoding of a history entry: <<op, name, found, scope, index>> with
\* op 1 push, 2 pop, 3 define, 4 resolve; scope 0 none, 1 GLOBAL, 2 LOCAL
OpNum(o) == CASE o = "push" -> 1 [] o = "pop" -> 2 [] o = "def" -> 3 [] o = "res" -> 4
ScopeNum(sc) == CASE sc = "" -> 0 [] sc = "GLOBAL" -> 1 [] sc = "LOCAL" -> 2
Emit ==
  (WithHist /\ nops = MaxOps) =>
    PrintT(ToJson([ops |-> [i \in 1..Len(hist) |->
                              <<OpNum(hist[i].op), hist[i].n, IF hist[i].found THEN 1 ELSE 0,
                                ScopeNum(hist[i].scope), hist[i].index>>],
                   globals |-> GlobalCount,
                   maxlocal |-> maxLocal,
                   speclocals |-> LocalCount]))
=============================================================================
