CONSTANTS
  StopMode = "none"
  Lys = @LYS@
  Tier = "@TIER@"
  Depth = @DEPTH@
INIT FamInit
NEXT Next
INVARIANTS NoStuck HeapWF AnyConcrete TypeSound
PROPERTIES OutGrows
CONSTRAINT Emit
CHECK_DEADLOCK FALSE
