------------------------------ MODULE EvyBase ------------------------------
(***************************************************************************)
(* Value domains of the Evy specification.                                 *)
(*                                                                         *)
(* num     exact dyadic rationals m / 2^e (every such value with           *)
(*         |m| < 2^53 is an IEEE-754 double, and + - * on them is exact),  *)
(*         plus inf, ninf, nan.  A negative zero cannot be represented:    *)
(*         operations that would create one report "unspecified" and the   *)
(*         behaviour is dropped (docs are silent on printing -0).          *)
(* string  sequences of Unicode code points (never bytes)                  *)
(* bool    TRUE / FALSE                                                    *)
(* arrays and maps live in a heap and are referred to by address           *)
(*                                                                         *)
(* TLC discipline: the tag of a record is the field t (values), k (syntax  *)
(* nodes) or f (continuation frames); every other field name holds values  *)
(* of one shape only, so that TLC never compares a string with a number    *)
(* when it normalises sets of such records.                                *)
(***************************************************************************)
EXTENDS Integers, Sequences, FiniteSets, TLC

Abs(x) == IF x < 0 THEN -x ELSE x
MaxI(a, b) == IF a >= b THEN a ELSE b
MinI(a, b) == IF a <= b THEN a ELSE b

RECURSIVE NormME(_, _)
NormME(m, e) == IF e > 0 /\ m % 2 = 0 THEN NormME(m \div 2, e - 1) ELSE <<m, e>>

Fin(m, e) == LET p == NormME(m, e) IN [t |-> "num", s |-> "fin", m |-> p[1], e |-> p[2]]
I(n)  == Fin(n, 0)
Inf   == [t |-> "num", s |-> "inf",  m |-> 0, e |-> 0]
NInf  == [t |-> "num", s |-> "ninf", m |-> 0, e |-> 0]
NaN   == [t |-> "num", s |-> "nan",  m |-> 0, e |-> 0]

IsFin(a)  == a.s = "fin"
IsZero(a) == a.s = "fin" /\ a.m = 0
IsNeg(a)  == (a.s = "fin" /\ a.m < 0) \/ a.s = "ninf"
IsPos(a)  == (a.s = "fin" /\ a.m > 0) \/ a.s = "inf"
\* TLC integers are 32 bit: arithmetic is modelled on "small" dyadics only
\* (|m| < 2^14, e <= 8; products and aligned sums then stay below 2^31, and every
\* such value is an exact IEEE-754 double with an exact short decimal expansion).
\* Larger literals may appear as operands of index / comparison only.
\* s = "big": a finite integer of magnitude >= 2^63 (sign in m): usable as an index operand only
Big       == [t |-> "num", s |-> "big", m |-> 1, e |-> 0]
NBig      == [t |-> "num", s |-> "big", m |-> -1, e |-> 0]
IsBig(a)  == a.s = "big"
Small(a)  == a.s \in {"inf", "ninf", "nan"} \/ (a.s = "fin" /\ Abs(a.m) < 2^14 /\ a.e <= 8)
Exact(a)  == Small(a)
\* two numbers that can be compared without overflow
Cmpable(a, b) == ~IsBig(a) /\ ~IsBig(b) /\ ((Small(a) /\ Small(b)) \/ (a.s # "fin") \/ (b.s # "fin") \/ (a.e = 0 /\ b.e = 0))

\* numerators over the common denominator 2^MaxI(a.e, b.e)
AlignL(a, b) == a.m * 2^(MaxI(a.e, b.e) - a.e)
AlignR(a, b) == b.m * 2^(MaxI(a.e, b.e) - b.e)

NumNeg(a) == CASE a.s = "fin"  -> Fin(-a.m, a.e)
               [] a.s = "big"  -> [a EXCEPT !.m = -a.m]
               [] a.s = "inf"  -> NInf
               [] a.s = "ninf" -> Inf
               [] OTHER        -> NaN

NumAdd(a, b) ==
  IF a.s = "nan" \/ b.s = "nan" THEN NaN
  ELSE IF a.s = "fin" /\ b.s = "fin" THEN Fin(AlignL(a, b) + AlignR(a, b), MaxI(a.e, b.e))
  ELSE IF a.s = "fin" THEN b
  ELSE IF b.s = "fin" THEN a
  ELSE IF a.s = b.s THEN a ELSE NaN

NumSub(a, b) == NumAdd(a, NumNeg(b))

NumMul(a, b) ==
  IF a.s = "nan" \/ b.s = "nan" THEN NaN
  ELSE IF a.s = "fin" /\ b.s = "fin" THEN Fin(a.m * b.m, a.e + b.e)
  ELSE IF IsZero(a) \/ IsZero(b) THEN NaN
  ELSE IF IsNeg(a) = IsNeg(b) THEN Inf ELSE NInf

\* operations that would produce the unrepresentable negative zero
MulNegZero(a, b) == (IsZero(a) /\ IsNeg(b)) \/ (IsZero(b) /\ IsNeg(a))

RECURSIVE OddPart(_)
OddPart(n) == IF n # 0 /\ n % 2 = 0 THEN OddPart(n \div 2) ELSE n
RECURSIVE TwoExp(_)
TwoExp(n) == IF n # 0 /\ n % 2 = 0 THEN 1 + TwoExp(n \div 2) ELSE 0

\* Division: [ok |-> the quotient is exactly representable, v |-> it]
NumDiv(a, b) ==
  IF a.s = "nan" \/ b.s = "nan" THEN [ok |-> TRUE, v |-> NaN]
  ELSE IF a.s = "fin" /\ b.s = "fin" THEN
     IF b.m = 0 THEN [ok |-> TRUE, v |-> IF a.m = 0 THEN NaN ELSE IF a.m > 0 THEN Inf ELSE NInf]
     ELSE IF a.m = 0 THEN [ok |-> b.m > 0, v |-> I(0)]
     ELSE LET num == a.m * 2^b.e            \* a/b = (a.m * 2^b.e) / (b.m * 2^a.e)
              sgn == IF b.m < 0 THEN -1 ELSE 1
              od  == OddPart(Abs(b.m))
              j   == TwoExp(Abs(b.m)) + a.e
          IN IF (Abs(num) % od) = 0
             THEN [ok |-> TRUE, v |-> Fin(sgn * (num \div od), j)]
             ELSE [ok |-> FALSE, v |-> NaN]
  ELSE IF a.s # "fin" /\ b.s # "fin" THEN [ok |-> TRUE, v |-> NaN]
  ELSE IF b.s # "fin" THEN [ok |-> ~IsNeg(a) /\ b.s = "inf", v |-> I(0)]   \* x/inf = (+/-)0
  ELSE IF IsZero(b) THEN [ok |-> TRUE, v |-> a]
  ELSE [ok |-> TRUE, v |-> IF IsNeg(a) = IsNeg(b) THEN Inf ELSE NInf]

\* Remainder, defined here for a non-negative dividend and positive divisor
\* only (ok = FALSE otherwise: sign conventions are not documented).
NumMod(a, b) ==
  IF a.s = "nan" \/ b.s = "nan" THEN [ok |-> TRUE, v |-> NaN]
  ELSE IF a.s # "fin" THEN [ok |-> TRUE, v |-> NaN]
  ELSE IF IsZero(b) THEN [ok |-> TRUE, v |-> NaN]
  ELSE IF b.s # "fin" THEN [ok |-> a.m >= 0, v |-> a]
  ELSE IF a.m < 0 \/ b.m < 0 THEN [ok |-> FALSE, v |-> NaN]
  ELSE [ok |-> TRUE, v |-> Fin(AlignL(a, b) % AlignR(a, b), MaxI(a.e, b.e))]

NumLt(a, b) ==
  IF a.s = "nan" \/ b.s = "nan" THEN FALSE
  ELSE IF a.s = "fin" /\ b.s = "fin" THEN AlignL(a, b) < AlignR(a, b)
  ELSE IF a.s = b.s THEN FALSE
  ELSE a.s = "ninf" \/ b.s = "inf"

NumEq(a, b) == a.s # "nan" /\ b.s # "nan" /\ a.s = b.s /\ a.m = b.m /\ a.e = b.e
NumLe(a, b) == NumLt(a, b) \/ NumEq(a, b)

IsInt(a) == a.s = "fin" /\ a.e = 0

NumFloor(a) == IF a.s # "fin" THEN a ELSE I(a.m \div 2^a.e)        \* \div is floor division
NumCeil(a)  == IF a.s # "fin" THEN a ELSE I(-((-a.m) \div 2^a.e))
\* round half away from zero (math.Round)
NumRound(a) == IF a.s # "fin" THEN a
               ELSE IF a.m >= 0 THEN I((2 * a.m + 2^a.e) \div 2^(a.e + 1))
               ELSE I(-((2 * (-a.m) + 2^a.e) \div 2^(a.e + 1)))
NumAbs(a) == IF IsNeg(a) THEN NumNeg(a) ELSE a
NumMin(a, b) == IF a.s = "nan" \/ b.s = "nan" THEN NaN ELSE IF NumLt(b, a) THEN b ELSE a
NumMax(a, b) == IF a.s = "nan" \/ b.s = "nan" THEN NaN ELSE IF NumLt(a, b) THEN b ELSE a

---------------------------------------------------------------------------
(* text: code-point sequences *)

Digit(d) == 48 + d
RECURSIVE NatCps(_)
NatCps(n) == IF n < 10 THEN <<Digit(n)>> ELSE NatCps(n \div 10) \o <<Digit(n % 10)>>
RECURSIVE Zeros(_)
Zeros(n) == IF n <= 0 THEN <<>> ELSE <<48>> \o Zeros(n - 1)

\* shortest decimal that round-trips = the exact finite expansion (<= 15 digits)
S_2p63 == <<57, 50, 50, 51, 51, 55, 50, 48, 51, 54, 56, 53, 52, 55, 55, 53, 56, 48, 56>>   \* 9223372036854775808
NumCps(a) ==
  IF a.s = "big" THEN (IF a.m < 0 THEN <<45>> ELSE <<>>) \o S_2p63 ELSE
  LET ab == Abs(a.m)
      ip == ab \div 2^a.e
      fr == ab % 2^a.e
      fd == NatCps(fr * 5^a.e)
      frac == IF a.e = 0 THEN <<>> ELSE <<46>> \o Zeros(a.e - Len(fd)) \o fd
  IN (IF a.m < 0 THEN <<45>> ELSE <<>>) \o NatCps(ip) \o frac

\* can this number be printed with a documented result?
Printable(a) == a.s = "fin" /\ a.e <= 8 /\ (a.e = 0 \/ Abs(a.m) < 2^14)

S_true  == <<116, 114, 117, 101>>
S_false == <<102, 97, 108, 115, 101>>
S_num    == <<110, 117, 109>>
S_string == <<115, 116, 114, 105, 110, 103>>
S_bool   == <<98, 111, 111, 108>>
S_any    == <<97, 110, 121>>
SP == 32
NL == 10

RECURSIVE JoinCps(_, _)
JoinCps(ss, sep) == IF Len(ss) = 0 THEN <<>>
                    ELSE IF Len(ss) = 1 THEN ss[1]
                    ELSE ss[1] \o sep \o JoinCps(Tail(ss), sep)

RECURSIVE CpsLt(_, _)
CpsLt(a, b) == IF Len(b) = 0 THEN FALSE
               ELSE IF Len(a) = 0 THEN TRUE
               ELSE IF a[1] # b[1] THEN a[1] < b[1]
               ELSE CpsLt(Tail(a), Tail(b))

---------------------------------------------------------------------------
(* types: sequences of constructors, e.g. <<"arr","map","num">> is []{}num *)

T_num == <<"num">>
T_str == <<"string">>
T_bool == <<"bool">>
T_any == <<"any">>
T_none == <<"none">>
TArr(t) == <<"arr">> \o t
TMap(t) == <<"map">> \o t
T_earr == <<"arr", "none">>      \* the type of the literal []
T_emap == <<"map", "none">>      \* the type of the literal {}

RECURSIVE TypeCps(_)
TypeCps(ty) == CASE ty[1] = "num"    -> S_num
                 [] ty[1] = "string" -> S_string
                 [] ty[1] = "bool"   -> S_bool
                 [] ty[1] = "any"    -> S_any
                 [] ty[1] = "arr"    -> <<91, 93>> \o TypeCps(Tail(ty))
                 [] ty[1] = "map"    -> <<123, 125>> \o TypeCps(Tail(ty))
                 [] OTHER            -> <<>>            \* "none": [] prints as "[]"

\* untyped empty literals become any-based when their type has to be fixed
RECURSIVE InferTy(_)
InferTy(ty) == IF ty[1] = "none" THEN T_any
               ELSE IF ty[1] \in {"arr", "map"} THEN <<ty[1]>> \o InferTy(Tail(ty))
               ELSE ty

---------------------------------------------------------------------------
(* values *)

VStr(cp)   == [t |-> "str", cp |-> cp]
VBool(b)   == [t |-> "bool", b |-> b]
VArr(a)    == [t |-> "arr", a |-> a]
VMap(a)    == [t |-> "map", a |-> a]
VAny(ty, v) == [t |-> "any", dy |-> ty, v |-> v]
VNone      == [t |-> "none"]

\* heap objects
OArr(el)      == [t |-> "arr", el |-> el]
OMap(ks, el)  == [t |-> "map", ks |-> ks, el |-> el]    \* keys in insertion order, values parallel

RECURSIVE IndexOfFrom(_, _, _)
IndexOfFrom(ks, k, i) == IF i > Len(ks) THEN 0 ELSE IF ks[i] = k THEN i ELSE IndexOfFrom(ks, k, i + 1)
\* position of key k in the sequence ks, 0 if absent
IndexOf(ks, k) == IndexOfFrom(ks, k, 1)

DropAt(s, i) == SubSeq(s, 1, i - 1) \o SubSeq(s, i + 1, Len(s))

RECURSIVE EscCps(_)
EscCps(cp) == IF Len(cp) = 0 THEN <<>>
              ELSE (CASE cp[1] = 34 -> <<92, 34>>
                      [] cp[1] = 92 -> <<92, 92>>
                      [] cp[1] = 10 -> <<92, 110>>
                      [] cp[1] = 9  -> <<92, 116>>
                      [] OTHER      -> <<cp[1]>>) \o EscCps(Tail(cp))
\* strconv.Quote on printable text: only " \ newline and tab are escaped
QuoteCps(cp) == <<34>> \o EscCps(cp) \o <<34>>

\* identifiers (spec.md): LETTER { LETTER | DIGIT }; letters of the model alphabet:
\* ASCII letters, underscore and the Latin-1 letters; everything else is not a letter
IsLetterC(c) == (c >= 97 /\ c <= 122) \/ (c >= 65 /\ c <= 90) \/ c = 95 \/ (c >= 192 /\ c <= 255 /\ c # 215 /\ c # 247)
IsDigit09(c) == c >= 48 /\ c <= 57
IsIdentCps(cp) == Len(cp) > 0 /\ IsLetterC(cp[1]) /\ \A i \in DOMAIN cp : IsLetterC(cp[i]) \/ IsDigit09(cp[i])
\* builtins.md repr: keys without quotes if they are valid identifiers, quoted otherwise
KeyCps(k, q) == IF q /\ ~IsIdentCps(k) THEN QuoteCps(k) ELSE k

RECURSIVE ValCps(_, _, _)
\* text of a value as print/sprint/join show it; q = TRUE gives repr (quoted strings)
\* strings inside repr: only characters that need no escaping are generated by the families
ValCps(v, heap, q) ==
  CASE v.t = "num"  -> NumCps(v)
    [] v.t = "str"  -> IF q THEN QuoteCps(v.cp) ELSE v.cp
    [] v.t = "bool" -> IF v.b THEN S_true ELSE S_false
    [] v.t = "any"  -> ValCps(v.v, heap, q)
    [] v.t = "arr"  -> LET el == heap[v.a].el
                       IN <<91>> \o JoinCps([i \in DOMAIN el |-> ValCps(el[i], heap, q)], <<SP>>) \o <<93>>
    [] v.t = "map"  -> LET o == heap[v.a]
                       IN <<123>> \o JoinCps([i \in DOMAIN o.ks |-> KeyCps(o.ks[i], q) \o <<58>> \o ValCps(o.el[i], heap, q)], <<SP>>) \o <<125>>
    [] OTHER        -> <<>>

RECURSIVE ValPrintable(_, _)
ValPrintable(v, heap) ==
  CASE v.t = "num"  -> Printable(v)
    [] v.t = "any"  -> ValPrintable(v.v, heap)
    [] v.t = "arr"  -> \A i \in DOMAIN heap[v.a].el : ValPrintable(heap[v.a].el[i], heap)
    [] v.t = "map"  -> \A i \in DOMAIN heap[v.a].el : ValPrintable(heap[v.a].el[i], heap)
    [] OTHER        -> TRUE

RECURSIVE ValEq(_, _, _)
\* deep equality (==): maps ignore order, any values need the same dynamic type
ValEq(a, b, heap) ==
  CASE a.t = "num"  -> NumEq(a, b)
    [] a.t = "str"  -> a.cp = b.cp
    [] a.t = "bool" -> a.b = b.b
    [] a.t = "any"  -> a.dy = b.dy /\ ValEq(a.v, b.v, heap)
    [] a.t = "arr"  -> LET x == heap[a.a].el
                           y == heap[b.a].el
                       IN Len(x) = Len(y) /\ \A i \in DOMAIN x : ValEq(x[i], y[i], heap)
    [] a.t = "map"  -> LET x == heap[a.a]
                           y == heap[b.a]
                       IN /\ Len(x.ks) = Len(y.ks)
                          /\ \A i \in DOMAIN x.ks :
                               LET j == IndexOf(y.ks, x.ks[i])
                               IN j # 0 /\ ValEq(x.el[i], y.el[j], heap)
    [] OTHER        -> FALSE

\* does a value inhabit a static type (used by the TypeSound invariant)
RECURSIVE Inhabits(_, _, _)
Inhabits(v, ty, heap) ==
  CASE ty[1] = "num"    -> v.t = "num"
    [] ty[1] = "string" -> v.t = "str"
    [] ty[1] = "bool"   -> v.t = "bool"
    [] ty[1] = "any"    -> v.t = "any" /\ v.dy[1] # "any" /\ v.v.t # "any" /\ Inhabits(v.v, v.dy, heap)
    [] ty[1] = "arr"    -> v.t = "arr" /\ (Len(ty) = 1 \/ ty[2] = "none" \/
                             \A i \in DOMAIN heap[v.a].el : Inhabits(heap[v.a].el[i], Tail(ty), heap))
    [] ty[1] = "map"    -> v.t = "map" /\ (Len(ty) = 1 \/ ty[2] = "none" \/
                             \A i \in DOMAIN heap[v.a].el : Inhabits(heap[v.a].el[i], Tail(ty), heap))
    [] OTHER            -> FALSE

ZeroOf(ty) == CASE ty[1] = "num"    -> I(0)
                [] ty[1] = "string" -> VStr(<<>>)
                [] ty[1] = "bool"   -> VBool(FALSE)
                [] ty[1] = "any"    -> VAny(T_bool, VBool(FALSE))
                [] OTHER            -> VNone       \* composites are allocated by the machine

=============================================================================
