------------------------------ MODULE CorpusLex ------------------------------
(* Direction B for the lexer: the texts of repository .evy files (written by *)
(* the check into corpus.ndjson as code-point arrays) are run through the     *)
(* lexer specification; the emitted token lists are compared with the token   *)
(* streams the real lexer produces for the same files.                        *)
EXTENDS EvyLexer, Json

Corpus == ndJsonDeserialize("corpus.ndjson")
VARIABLE fi
Init == \E i \in DOMAIN Corpus : fi = i /\ LexInit(Corpus[i].cp)
Next == LexNext /\ UNCHANGED fi
Emit == done => PrintT(ToJson([file |-> Corpus[fi].file, inp |-> [cp |-> inp], toks |-> toks]))
=============================================================================
