------------------------------ MODULE EvyLexer ------------------------------
(***************************************************************************)
(* The lexical structure of Evy (docs/spec.md, Syntax Grammar: terminals,   *)
(* comments, literals, operators) as a state machine over the sequence of   *)
(* code points of the input: one action per kind of token, maximal munch,   *)
(* and the bookkeeping that gives every token its offset (in code points),  *)
(* line and column.                                                         *)
(*                                                                         *)
(* Where the grammar does not define how a malformed stretch of text is     *)
(* cut into tokens (several dots in a number, a bad escape or no closing    *)
(* quote in a string, a carriage return) the token gets the kind "?" : its  *)
(* extent and kind are not prescribed, its position still is.               *)
(***************************************************************************)
EXTENDS Integers, Sequences, TLC

VARIABLES inp,      \* the input: sequence of code points
          pos,      \* offset of the next unread code point (0-based)
          line, col,\* position of that code point (1-based)
          toks,     \* tokens produced so far: [k, o, l, c]
          done

lvars == <<inp, pos, line, col, toks, done>>

At(i) == IF i < Len(inp) THEN inp[i + 1] ELSE -1        \* code point at offset i, -1 past the end
Cur == At(pos)

IsLetter(c) == (c >= 97 /\ c <= 122) \/ (c >= 65 /\ c <= 90) \/ c = 95 \/ (c >= 192 /\ c <= 255 /\ c # 215 /\ c # 247)
IsDigit(c)  == c >= 48 /\ c <= 57
IsHWS(c)    == c = 32 \/ c = 9

Tok(k) == [k |-> k, o |-> pos, l |-> line, c |-> col]

\* consume n code points (none of them a newline) producing token kind k
Take(k, n) == /\ toks' = Append(toks, Tok(k))
              /\ pos' = pos + n /\ col' = col + n /\ line' = line
              /\ UNCHANGED <<inp, done>>

InClass(c, cls) == CASE cls = "hws"   -> IsHWS(c) \/ c = 13
                     [] cls = "ident" -> IsLetter(c) \/ IsDigit(c)
                     [] cls = "num"   -> IsDigit(c) \/ c = 46
                     [] OTHER         -> c # 10               \* "line": up to the end of the line
RECURSIVE RunLen(_, _)
\* number of consecutive code points from offset i that are in class cls
RunLen(i, cls) == IF At(i) # -1 /\ InClass(At(i), cls) THEN 1 + RunLen(i + 1, cls) ELSE 0

Keyword(s) ==   \* s: sequence of code points
  CASE s = <<116, 114, 117, 101>> -> "TRUE"
    [] s = <<102, 97, 108, 115, 101>> -> "FALSE"
    [] s = <<97, 110, 100>> -> "AND"
    [] s = <<111, 114>> -> "OR"
    [] s = <<110, 117, 109>> -> "NUM"
    [] s = <<115, 116, 114, 105, 110, 103>> -> "STRING"
    [] s = <<98, 111, 111, 108>> -> "BOOL"
    [] s = <<97, 110, 121>> -> "ANY"
    [] s = <<105, 102>> -> "IF"
    [] s = <<101, 108, 115, 101>> -> "ELSE"
    [] s = <<102, 117, 110, 99>> -> "FUNC"
    [] s = <<111, 110>> -> "ON"
    [] s = <<114, 101, 116, 117, 114, 110>> -> "RETURN"
    [] s = <<102, 111, 114>> -> "FOR"
    [] s = <<114, 97, 110, 103, 101>> -> "RANGE"
    [] s = <<119, 104, 105, 108, 101>> -> "WHILE"
    [] s = <<98, 114, 101, 97, 107>> -> "BREAK"
    [] s = <<101, 110, 100>> -> "END"
    [] s = <<112, 107, 103>> -> "PKG"
    [] s = <<105, 109, 112, 111, 114, 116>> -> "IMPORT"
    [] OTHER -> "IDENT"

ScanEOF == Cur = -1 /\ ~done /\ toks' = Append(toks, Tok("EOF")) /\ done' = TRUE /\ UNCHANGED <<inp, pos, line, col>>
ScanNL  == Cur = 10 /\ toks' = Append(toks, Tok("NL")) /\ pos' = pos + 1 /\ line' = line + 1 /\ col' = 1 /\ UNCHANGED <<inp, done>>
ScanWS  == IsHWS(Cur) /\ Take("WS", RunLen(pos, "hws"))
ScanIdent == IsLetter(Cur) /\ LET n == RunLen(pos, "ident")
                              IN Take(Keyword(SubSeq(inp, pos + 1, pos + n)), n)
ScanNum == IsDigit(Cur) /\ LET n == RunLen(pos, "num")
                               dots == Len(SelectSeq(SubSeq(inp, pos + 1, pos + n), LAMBDA c : c = 46))
                           IN Take(IF dots <= 1 THEN "NUM_LIT" ELSE "?", n)
\* a comment runs to the end of the line
ScanComment == Cur = 47 /\ At(pos + 1) = 47 /\ Take("COMMENT", RunLen(pos, "line"))

RECURSIVE StrEnd(_, _)
\* offset of the closing quote of the string whose body starts at i (esc: previous char was an
\* unescaped backslash), or -1 if the line / input ends first
StrEnd(i, esc) == IF At(i) = -1 \/ At(i) = 10 THEN -1
                  ELSE IF At(i) = 34 /\ ~esc THEN i
                  ELSE StrEnd(i + 1, At(i) = 92 /\ ~esc)
RECURSIVE EscOK(_, _)
\* every backslash in the body [i, j) starts one of the escapes the model knows: \" \\ \n \t
EscOK(i, j) == IF i >= j THEN TRUE
               ELSE IF At(i) = 92 THEN (i + 1 < j /\ At(i + 1) \in {34, 92, 110, 116} /\ EscOK(i + 2, j))
               ELSE EscOK(i + 1, j)
ScanString == Cur = 34 /\ LET e == StrEnd(pos + 1, FALSE)
                          IN IF e = -1 THEN Take("?", RunLen(pos, "line"))
                             ELSE Take(IF EscOK(pos + 1, e) THEN "STRING_LIT" ELSE "?", e - pos + 1)

Op2(c, d) == CASE c = 61 /\ d = 61 -> "EQ" [] c = 33 /\ d = 61 -> "NOT_EQ" [] c = 60 /\ d = 61 -> "LTEQ"
               [] c = 62 /\ d = 61 -> "GTEQ" [] c = 58 /\ d = 61 -> "DECLARE" [] OTHER -> ""
Op1(c) == CASE c = 61 -> "ASSIGN" [] c = 43 -> "PLUS" [] c = 45 -> "MINUS" [] c = 33 -> "BANG" [] c = 42 -> "ASTERISK"
            [] c = 47 -> "SLASH" [] c = 37 -> "PERCENT" [] c = 60 -> "LT" [] c = 62 -> "GT" [] c = 58 -> "COLON"
            [] c = 40 -> "LPAREN" [] c = 41 -> "RPAREN" [] c = 91 -> "LBRACKET" [] c = 93 -> "RBRACKET"
            [] c = 123 -> "LCURLY" [] c = 125 -> "RCURLY" [] c = 46 -> "DOT" [] OTHER -> ""
ScanOp == /\ ~(Cur = 47 /\ At(pos + 1) = 47)
          /\ IF Cur = 46 /\ At(pos + 1) = 46 /\ At(pos + 2) = 46 THEN Take("DOT3", 3)
             ELSE IF Op2(Cur, At(pos + 1)) # "" THEN Take(Op2(Cur, At(pos + 1)), 2)
             ELSE Op1(Cur) # "" /\ Take(Op1(Cur), 1)
\* anything else is a character that cannot start a token
ScanIllegal == /\ Cur # -1 /\ Cur # 10 /\ ~IsHWS(Cur) /\ ~IsLetter(Cur) /\ ~IsDigit(Cur) /\ Cur # 34 /\ Op1(Cur) = ""
               /\ Take(IF Cur = 13 \/ Cur = 0 THEN "?" ELSE "ILLEGAL", 1)

LexInit(s) == inp = s /\ pos = 0 /\ line = 1 /\ col = 1 /\ toks = <<>> /\ done = FALSE
LexNext == ~done /\ (ScanEOF \/ ScanNL \/ ScanWS \/ ScanIdent \/ ScanNum \/ ScanComment \/ ScanString \/ ScanOp \/ ScanIllegal)

\* ---- properties of the lexer itself
\* line/column of an offset computed from scratch
RECURSIVE LineOf(_, _)
LineOf(s, o) == IF o = 0 THEN 1 ELSE LineOf(s, o - 1) + (IF s[o] = 10 THEN 1 ELSE 0)
RECURSIVE ColOf(_, _)
ColOf(s, o) == IF o = 0 \/ s[o] = 10 THEN 1 ELSE ColOf(s, o - 1) + 1
PositionsRight == \A i \in DOMAIN toks : toks[i].l = LineOf(inp, toks[i].o) /\ toks[i].c = ColOf(inp, toks[i].o)
\* the same for the newest token only (cheap enough for long inputs)
PositionsRightLast == toks = <<>> \/ (toks[Len(toks)].l = LineOf(inp, toks[Len(toks)].o) /\ toks[Len(toks)].c = ColOf(inp, toks[Len(toks)].o))
\* tokens tile the input: offsets strictly increase (except the final EOF which may share... no: EOF sits at Len)
Tiling == /\ \A i \in DOMAIN toks : i > 1 => toks[i].o > toks[i - 1].o
          /\ (toks # <<>> => toks[1].o = 0)
          /\ (done => toks[Len(toks)].o = Len(inp))
\* some scan action is always enabled until EOF has been produced: lexing is total
Progress == done \/ ENABLED LexNext
=============================================================================
