------------------------------ MODULE StopYield ------------------------------
(***************************************************************************)
(* The yield / stop protocol between the evaluator and the platform (C14)   *)
(* as a stand-alone monitor, usable on the trace of ANY program.            *)
(*                                                                         *)
(*   yI, yC   a Yield has happened since the last loop iteration began /    *)
(*            since the last call (every iteration and every call contains  *)
(*            at least one yield, so two consecutive iteration starts, and  *)
(*            two consecutive calls, are separated by a yield)              *)
(*   stop     the platform has raised the stop flag (during a Yield)        *)
(*   seen     the evaluator has noticed the flag                            *)
(*   eas      effects performed after the flag was raised                   *)
(*   ended    the run has returned                                          *)
(***************************************************************************)
EXTENDS Naturals

VARIABLES yI, yC, stop, seen, eas, ended
mvars == <<yI, yC, stop, seen, eas, ended>>

MInit == yI = FALSE /\ yC = FALSE /\ stop = FALSE /\ seen = FALSE /\ eas = 0 /\ ended = FALSE

\* the evaluator hands control to the platform: never again once the flag is up
Yield == ~ended /\ ~stop /\ yI' = TRUE /\ yC' = TRUE /\ UNCHANGED <<stop, seen, eas, ended>>
\* a loop iteration or a call begins: a yield must have happened since the previous one
Iter == ~ended /\ ~seen /\ yI /\ yI' = FALSE /\ UNCHANGED <<yC, stop, seen, eas, ended>>
Call == ~ended /\ ~seen /\ yC /\ yC' = FALSE /\ UNCHANGED <<yI, stop, seen, eas, ended>>
\* the platform raises the flag; it can only do so while it has control, i.e. during a yield
RaiseStop == ~ended /\ ~stop /\ yI /\ yC /\ stop' = TRUE /\ UNCHANGED <<yI, yC, seen, eas, ended>>
\* a platform effect: after the raise at most the step in progress completes
Effect == ~ended /\ ~seen /\ (stop => eas = 0) /\ eas' = (IF stop THEN eas + 1 ELSE eas) /\ UNCHANGED <<yI, yC, stop, seen, ended>>
\* the test summary is printed when the run ends, stopped or not
Summary == ~ended /\ UNCHANGED mvars
StopSeen == ~ended /\ stop /\ seen' = TRUE /\ UNCHANGED <<yI, yC, stop, eas, ended>>
\* the run returns: with the 'stopped' result iff the flag was noticed
End(result) == ~ended /\ (seen <=> result = "stopped") /\ ended' = TRUE /\ UNCHANGED <<yI, yC, stop, seen, eas>>

MNext == Yield \/ Iter \/ Call \/ RaiseStop \/ Effect \/ Summary \/ StopSeen \/ \E r \in {"ok", "stopped", "panic", "exit", "testfail"} : End(r)

AtMostOneEffectAfterStop == eas <= 1
SeenOnlyIfRaised == seen => stop
=============================================================================
