---------------------------- MODULE ScopeStackMC ----------------------------
(***************************************************************************)
(* Bounded exploration of ScopeStack itself: every sequence of scope and    *)
(* variable actions over two names and two values to a small depth.  TLC    *)
(* checks the well-formedness invariants and the two laws the component     *)
(* exists for, stated independently of the action definitions:              *)
(*   ShadowRestores  popping a scope leaves every binding of the scopes     *)
(*                   below it as it was (a shadowed variable is back)       *)
(*   CallIsolated    while a call is active no name resolves to a binding   *)
(*                   of a suspended caller, and on return the caller's      *)
(*                   scopes are exactly what they were                      *)
(***************************************************************************)
EXTENDS ScopeStack

Names == {"x", "y"}
Vals == {"0", "1"}
CONSTANTS MaxDepth, MaxCalls

MCNext ==
  \/ Len(loc) < MaxDepth /\ Push
  \/ Pop \/ ForEnter \/ ForExit \/ Block
  \/ Len(saved) < MaxCalls /\ PushFunc
  \/ PopFunc
  \/ \E n \in Names, v \in Vals : Declare(n, v) \/ (Bound(n) /\ Update(n, v)) \/ Get(n, v)

ShadowRestores == [][Len(loc') = Len(loc) - 1 /\ saved' = saved
                       => /\ g' = g
                          /\ \A i \in 1..Len(loc') : loc'[i].vars = loc[i].vars]_svars
CallIsolated == [][/\ Len(saved') = Len(saved) + 1 => (saved'[Len(saved')] = loc /\ \A n \in Names : FindIn(loc', n, Len(loc')) = 0)
                   /\ Len(saved') = Len(saved) - 1 => loc' = saved[Len(saved)]]_svars
\* a name that is bound resolves to the innermost binding: the value last declared or assigned under that binding
ResolveInnermost == \A n \in Names : Bound(n) =>
                       LET i == Find(n, Len(loc)) IN (i # 0 => \A j \in (i + 1)..Len(loc) : n \notin DOMAIN loc[j].vars)
=============================================================================
