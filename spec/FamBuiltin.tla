----------------------------- MODULE FamBuiltin -----------------------------
(***************************************************************************)
(* Family for C13: every non-graphics built-in on argument tuples drawn    *)
(* from value classes that include the boundaries of its domain (empty,    *)
(* non-ASCII, negative, fractional, nan, infinities), the err / errmsg      *)
(* protocol over sequences of conversions, and the outcomes of exit, panic  *)
(* and test.  Semantics: docs/builtins.md.                                  *)
(***************************************************************************)
EXTENDS EvyMachine

CONSTANT Tier

Num(n) == ENum(I(n))
NumE(v) == IF IsNeg(v) THEN EUn("-", ENum(NumNeg(v))) ELSE ENum(v)
Div(a, b) == EGrp(EBin("/", ENum(I(a)), ENum(I(b))))
ValE(v) == CASE v.s = "nan"  -> Div(0, 0)
             [] v.s = "inf"  -> Div(1, 0)
             [] v.s = "ninf" -> EUn("-", Div(1, 0))
             [] OTHER        -> NumE(v)
Pr(xs) == SCall(ECallB("print", xs))
P1(ss) == Program(ss, <<>>, <<>>)
\* print (f args)
Show(f, xs) == P1(<<Pr(<<ECallB(f, xs)>>)>>)
\* print (repr (f args)): shows the exact text of string results
ShowR(f, xs) == P1(<<Pr(<<ECallB("repr", <<ECallB(f, xs)>>)>>)>>)

Strs == {<<>>, <<97>>, <<97, 98>>, <<97, 228, 98, 8364>>, <<32, 97, 32>>, <<97, 44, 98, 44, 44, 99>>, <<65, 98, 67>>,
         <<228, 98>>, <<98, 97, 98, 97>>}
Subs == {<<>>, <<97>>, <<98>>, <<44>>, <<228, 98>>, <<32>>, <<120>>, <<97, 98>>, <<8364>>}
Repl == {<<>>, <<120, 121>>, <<228>>}

StrFuncs ==
  {ShowR("split", <<EStr(s), EStr(t)>>) : s \in Strs, t \in Subs}
  \cup {Show("index", <<EStr(s), EStr(t)>>) : s \in Strs, t \in Subs}
  \cup {Show("startswith", <<EStr(s), EStr(t)>>) : s \in Strs, t \in Subs}
  \cup {Show("endswith", <<EStr(s), EStr(t)>>) : s \in Strs, t \in Subs}
  \cup {ShowR("trim", <<EStr(s), EStr(t)>>) : s \in Strs, t \in Subs \cup {<<32, 97>>, <<98, 97>>}}
  \cup {ShowR("replace", <<EStr(s), EStr(t), EStr(u)>>) : s \in Strs, t \in Subs \ {<<>>}, u \in Repl}
  \cup {ShowR("upper", <<EStr(s)>>) : s \in Strs} \cup {ShowR("lower", <<EStr(s)>>) : s \in Strs}
  \cup {Show("len", <<EStr(s)>>) : s \in Strs}

Arrs == {EArr(<<EStr(<<97>>)>>), EArr(<<EStr(<<97>>), EStr(<<98>>), EStr(<<>>)>>), EArr(<<Num(1), ENum(Fin(5, 1))>>),
         EArr(<<EArr(<<Num(1)>>), EArr(<<>>)>>), EArr(<<EBool(TRUE), EBool(FALSE)>>), EArr(<<Num(1), EStr(<<120>>)>>),
         EArr(<<EMap(<<<<107>>>>, <<Num(1)>>)>>)}
JoinFuncs == {ShowR("join", <<a, EStr(t)>>) : a \in Arrs, t \in {<<>>, <<44, 32>>, <<228>>}}
             \cup {P1(<<SDecl("e", TArr(T_str)), Pr(<<ECallB("repr", <<ECallB("join", <<EVar("e", TArr(T_str)), EStr(<<44>>)>>)>>)>>)>>)}

\* typeof / len / repr / sprint on every kind of value
Vals == {Num(1), ENum(Fin(5, 1)), EStr(<<97, 34, 98>>), EStr(<<>>), EBool(TRUE), EArr(<<>>), EMap(<<>>, <<>>),
         EArr(<<Num(1), Num(2)>>), EArr(<<Num(1), EStr(<<97>>)>>), EArr(<<EArr(<<Num(1)>>), EArr(<<EStr(<<97>>)>>)>>),
         EArr(<<EArr(<<>>)>>), EMap(<<<<97>>>>, <<Num(1)>>), EMap(<<<<97>>, <<98>>>>, <<Num(1), EStr(<<120>>)>>),
         EMap(<<<<97>>>>, <<EArr(<<Num(1)>>)>>), EArr(<<EMap(<<>>, <<>>)>>), EUn("-", Num(3))}
Generic == {Show("typeof", <<v>>) : v \in Vals} \cup {Show("len", <<v>>) : v \in Vals}
           \cup {Show("repr", <<v>>) : v \in Vals} \cup {Show("sprint", <<v, v>>) : v \in Vals}
           \cup {P1(<<SInfer("x", v), Pr(<<ECallB("typeof", <<EVar("x", InferTy(v.ty))>>), EVar("x", InferTy(v.ty))>>)>>) : v \in Vals}
           \cup {P1(<<SDecl("x", T_any), SAsg(EVar("x", T_any), v), Pr(<<ECallB("typeof", <<EVar("x", T_any)>>), ECallB("repr", <<EVar("x", T_any)>>)>>)>>) : v \in Vals}
           \cup { \* typeof elements of an any array / map; keys that are not identifiers in repr
                 P1(<<SInfer("a", EArr(<<Num(1), EStr(<<97>>), EArr(<<Num(2)>>), EMap(<<>>, <<>>)>>)),
                      SFor("e", "arr", <<EVar("a", TArr(T_any))>>, <<Pr(<<ECallB("typeof", <<EVar("e", T_any)>>)>>)>>)>>),
                 P1(<<SDecl("m", TMap(T_num)), SAsg(EIdx(EVar("m", TMap(T_num)), EStr(<<49, 97>>)), Num(1)),
                      SAsg(EIdx(EVar("m", TMap(T_num)), EStr(<<97, 32, 98>>)), Num(2)),
                      SAsg(EIdx(EVar("m", TMap(T_num)), EStr(<<45, 120>>)), Num(3)),
                      SAsg(EIdx(EVar("m", TMap(T_num)), EStr(<<228, 49>>)), Num(4)),
                      SAsg(EIdx(EVar("m", TMap(T_num)), EStr(<<>>)), Num(5)),
                      SAsg(EIdx(EVar("m", TMap(T_num)), EStr(<<105, 102>>)), Num(6)),
                      Pr(<<ECallB("repr", <<EVar("m", TMap(T_num))>>)>>), Pr(<<EVar("m", TMap(T_num))>>)>>) }

\* numbers
Nums == {I(0), I(1), I(2), NumNeg(I(2)), Fin(1, 1), NumNeg(Fin(1, 1)), Fin(3, 1), NumNeg(Fin(3, 1)), Fin(5, 1), NumNeg(Fin(5, 1)),
         Fin(9, 2), I(7), NaN, Inf, NInf}
\* results are compared, not printed, so that inf / nan never reach print
ShowCmp(f, xs) == P1(<<SInfer("r", ECallB(f, xs)),
                       Pr(<<EBin("==", EVar("r", T_num), EVar("r", T_num)), EBin("<", EVar("r", T_num), Num(0)),
                            EBin(">", EVar("r", T_num), Num(1000)), EBin("==", EVar("r", T_num), ECallB("floor", <<EVar("r", T_num)>>))>>)>>)
NumFuncs == {Show(f, <<ValE(a)>>) : f \in {"abs", "floor", "ceil", "round"}, a \in Nums}
            \cup {Show(f, <<ValE(a), ValE(b)>>) : f \in {"min", "max"}, a \in Nums, b \in Nums}
            \cup {ShowCmp(f, <<ValE(a)>>) : f \in {"abs", "floor", "ceil", "round"}, a \in {NaN, Inf, NInf}}
            \cup {Show("sqrt", <<ValE(a)>>) : a \in {I(0), I(1), I(4), I(9), I(144), Fin(9, 2), Fin(1, 2)}}
            \cup {Show("pow", <<ValE(a), ValE(b)>>) : a \in {I(2), I(3), NumNeg(I(2)), Fin(1, 1), I(0), I(1)}, b \in {I(0), I(1), I(2), I(3), I(10), NumNeg(I(1)), NumNeg(I(3))}}
            \cup {Show("pow", <<Num(4), ENum(Fin(1, 1))>>), Show("log", <<Num(1)>>), Show("sin", <<Num(0)>>), Show("cos", <<Num(0)>>),
                  Show("atan2", <<Num(0), Num(1)>>), Show("atan2", <<Num(0), Num(5)>>)}

\* rand: result inside [0, n), integer; n outside the domain panics
RandProg(n) == P1(<<SInfer("n", ValE(n)), SFor("", "num", <<Num(5)>>,
                       <<SInfer("r", ECallB("rand", <<EVar("n", T_num)>>)),
                         Pr(<<EBin(">=", EVar("r", T_num), Num(0)), EBin("<", EVar("r", T_num), EVar("n", T_num)),
                              EBin("==", EVar("r", T_num), ECallB("floor", <<EVar("r", T_num)>>))>>)>>)>>)
Rand1Prog == P1(<<SFor("", "num", <<Num(5)>>, <<SInfer("r", ECallB("rand1", <<>>)),
                     Pr(<<EBin(">=", EVar("r", T_num), Num(0)), EBin("<", EVar("r", T_num), Num(1))>>)>>)>>)
RandProgs == {RandProg(n) : n \in {I(1), I(2), I(5), I(1000), I(2147483647), I(0), NumNeg(I(1)), NumNeg(Fin(1, 1)), NaN, NInf, Fin(5, 1),
                                    Fin(1, 1), Fin(1, 2), Fin(3, 2), Fin(1, 8), Fin(3, 1), Inf, Big}}
             \cup {Rand1Prog}

\* conversions and the err / errmsg protocol: sequences of up to 3 conversions
NumStrs == {<<49>>, <<45, 50, 46, 53>>, <<48, 46, 49, 50, 53>>, <<113>>, <<>>, <<49, 32>>, <<32, 49>>, <<49, 50, 46, 53>>, <<228>>, <<49, 44, 53>>}
BoolArgs == {<<116, 114, 117, 101>>, <<102, 97, 108, 115, 101>>, <<49>>, <<48>>, <<84>>, <<70, 65, 76, 83, 69>>, <<121, 101, 115>>, <<>>, <<84, 114, 117, 101>>, <<116, 82, 85, 69>>}
ObsErr == Pr(<<EVar("err", T_bool), ECallB("repr", <<EVar("errmsg", T_str)>>)>>)
N2(cp) == <<Pr(<<ECallB("str2num", <<EStr(cp)>>)>>), ObsErr>>
B2(cp) == <<Pr(<<ECallB("str2bool", <<EStr(cp)>>)>>), ObsErr>>
ConvSeqs == {P1(<<ObsErr>> \o N2(a)) : a \in NumStrs} \cup {P1(<<ObsErr>> \o B2(a)) : a \in BoolArgs}
            \cup {P1(N2(a) \o N2(b) \o B2(c)) : a \in {<<113>>, <<49>>}, b \in {<<>>, <<50>>}, c \in {<<121>>, <<116>>}}
            \cup {P1(B2(a) \o N2(b) \o N2(c)) : a \in {<<121>>, <<116>>}, b \in {<<113>>, <<49>>}, c \in {<<>>, <<50>>}}

\* the program itself may set err and errmsg; a succeeding conversion resets both, a failing one sets both
UOps == << <<Pr(<<ECallB("str2num", <<EStr(<<113>>)>>)>>)>>, <<Pr(<<ECallB("str2num", <<EStr(<<55>>)>>)>>)>>, <<Pr(<<ECallB("str2bool", <<EStr(<<116>>)>>)>>)>>,
           <<SAsg(EVar("err", T_bool), EBool(FALSE))>>, <<SAsg(EVar("err", T_bool), EBool(TRUE))>>,
           <<SAsg(EVar("errmsg", T_str), EStr(<<109>>))>>, <<SAsg(EVar("errmsg", T_str), EStr(<<>>))>> >>
UserErrSeqs == {P1(UOps[i] \o <<ObsErr>> \o UOps[j] \o <<ObsErr>> \o UOps[k] \o <<ObsErr>>) : i \in DOMAIN UOps, j \in DOMAIN UOps, k \in 1..3}

\* test messages (third argument) appear literally in the failure text
MsgTests == {[MkCase("FamBuiltin", "testmsg", P1(<<SCall(ECallB("test", <<Num(1), Num(2), EStr(m)>>)), Pr(<<Num(1)>>)>>)) EXCEPT !.noSummary = ns] :
               m \in {<<109, 115, 103>>, <<50, 48, 37, 32, 111, 102>>, <<49, 48, 48, 37>>, <<37, 118>>, <<37, 37>>, <<>>}, ns \in BOOLEAN}

\* printf / sprintf
F_v == <<37, 118>>
FmtVals == {Num(1), ENum(Fin(5, 2)), ENum(Fin(1, 3)), ENum(Fin(3, 3)), EUn("-", ENum(Fin(5, 1))), EStr(<<97, 34, 98>>), EBool(TRUE),
            EArr(<<Num(1), EStr(<<120>>)>>), EMap(<<<<107>>>>, <<Num(1)>>), EStr(<<97, 98, 99, 100>>), EStr(<<228, 246>>), Num(1234), EStr(<<>>)}
FmtFlags == {<<>>, <<45>>, <<48>>}
FmtWidths == IF Tier = "quick" THEN {<<>>, <<55>>} ELSE {<<>>, <<49>>, <<55>>, <<49, 50>>}
FmtPrecs == IF Tier = "quick" THEN {<<>>, <<46, 50>>, <<46>>} ELSE {<<>>, <<46>>, <<46, 48>>, <<46, 49>>, <<46, 50>>, <<46, 51>>}
FmtVerbs == {118, 115, 113, 116, 102}
FmtProgs ==
  {P1(<<SCall(ECallB("printf", <<EStr(<<91, 37>> \o fl \o w \o pr \o <<vb, 93, 10>>), v>>))>>) :
      fl \in FmtFlags, w \in FmtWidths, pr \in FmtPrecs, vb \in FmtVerbs, v \in FmtVals}
  \* several specifiers in one format, text between them, sprintf
  \cup {ShowR("sprintf", <<EStr(<<37>> \o a \o <<118, 124, 37>> \o b \o <<115, 124, 37>> \o c \o <<102, 33>>), Num(7), EStr(<<120, 121>>), ENum(Fin(5, 2))>>) :
           a \in {<<>>, <<51>>, <<45, 51>>}, b \in {<<>>, <<52>>, <<45, 52>>, <<46, 49>>}, c \in {<<46, 49>>, <<48, 54, 46, 49>>, <<54, 46>>}}
  \cup {ShowR("sprintf", <<EStr(<<49, 48, 48, 37, 37, 32, 37, 118, 45, 37, 118>>), Num(1), EStr(<<120>>)>>),
        ShowR("sprintf", <<EStr(<<110, 111, 32, 118, 101, 114, 98>>)>>),
        \* a literal percent sign next to any character, percent signs and exclamation marks in the arguments
        ShowR("sprintf", <<EStr(<<53, 48, 37, 37, 33, 32, 37, 118, 33>>), EStr(<<56, 48, 37, 33>>)>>),
        ShowR("sprintf", <<EStr(<<37, 115, 124, 37, 118>>), EStr(<<97, 37, 33, 98>>), EStr(<<37, 33, 118, 40, 77, 73, 83, 83, 73, 78, 71, 41>>)>>),
        ShowR("sprintf", <<EStr(<<37, 37, 33, 37, 37, 100, 37, 37>>)>>),
        P1(<<SCall(ECallB("printf", <<EStr(<<83, 97, 108, 101, 58, 32, 53, 48, 37, 37, 33, 10>>)>>))>>),
        P1(<<SCall(ECallB("test", <<Num(1), Num(2), EStr(<<111, 110, 108, 121, 32, 37, 118, 37, 37, 33>>), Num(50)>>)), SCall(ECallB("print", <<Num(1)>>))>>),
        P1(<<SCall(ECallB("printf", <<Num(5)>>))>>),
        P1(<<SCall(ECallB("printf", <<>>))>>),
        ShowR("sprintf", <<>>)}

\* exit, panic: nothing after them runs
ExitProgs == {P1(<<Pr(<<Num(1)>>), SCall(ECallB("exit", <<Num(n)>>)), Pr(<<Num(2)>>)>>) : n \in {0, 1, 3, 125}}
             \cup {P1(<<Pr(<<Num(1)>>), SCall(ECallB("panic", <<EStr(<<98, 111, 111, 109>>)>>)), Pr(<<Num(2)>>)>>),
                   P1(<<Pr(<<Num(1)>>), SIf(<<EBool(TRUE)>>, <<<<SCall(ECallB("exit", <<Num(2)>>))>>>>, <<>>), Pr(<<Num(2)>>)>>)}

\* test: counts, summary, fail-fast, no-summary
AnyArr == EVar("g", TArr(T_any))
Tests == << <<SCall(ECallB("test", <<EBool(TRUE)>>))>>, <<SCall(ECallB("test", <<EBool(FALSE)>>))>>,
            <<SCall(ECallB("test", <<Num(1), Num(1)>>))>>, <<SCall(ECallB("test", <<Num(1), Num(2)>>))>>,
            <<SCall(ECallB("test", <<Num(1), EStr(<<49>>)>>))>>,
            <<SCall(ECallB("test", <<EArr(<<EArr(<<Num(1)>>), EArr(<<Num(2), Num(3)>>)>>), AnyArr>>))>>,
            <<SCall(ECallB("test", <<EArr(<<EArr(<<Num(1)>>), EArr(<<Num(2)>>)>>), AnyArr>>))>>,
            <<SCall(ECallB("test", <<EMap(<<<<97>>, <<98>>>>, <<Num(1), Num(2)>>), EMap(<<<<98>>, <<97>>>>, <<Num(2), Num(1)>>)>>))>>,
            <<SCall(ECallB("test", <<Num(1), Num(2), EStr(<<109, 115, 103>>)>>))>>,
            <<SCall(ECallB("test", <<Num(1)>>))>>,
            <<SCall(ECallB("test", <<Num(1), Num(1), Num(3)>>))>> >>
TestPre == <<SDecl("g", TArr(T_any)), SAsg(AnyArr, EArr(<<EArr(<<Num(1)>>), EArr(<<Num(2), Num(3)>>)>>))>>
TestProg(i, j, k) == P1(TestPre \o <<Pr(<<Num(0)>>)>> \o Tests[i] \o <<Pr(<<Num(1)>>)>> \o Tests[j] \o <<Pr(<<Num(2)>>)>> \o
                        (IF k = 0 THEN <<>> ELSE Tests[k] \o <<Pr(<<Num(3)>>)>>))
TestCases == {[MkCase("FamBuiltin", "test", TestProg(i, j, k)) EXCEPT !.failFast = ff, !.noSummary = ns] :
                 i \in 1..Len(Tests), j \in IF Tier = "quick" THEN {1, 2, 4} ELSE 1..Len(Tests), k \in {0, 2, 3}, ff \in BOOLEAN, ns \in BOOLEAN}

\* read / cls / sleep through the platform
IOCases == {[MkCase("FamBuiltin", "io", P1(<<SInfer("a", ECallB("read", <<>>)), SInfer("b", ECallB("read", <<>>)),
                                            Pr(<<ECallB("repr", <<EVar("a", T_str), EVar("b", T_str)>>)>>), SCall(ECallB("cls", <<>>)),
                                            SCall(ECallB("sleep", <<ENum(Fin(1, 1))>>)), SCall(ECallB("sleep", <<Num(0)>>)), Pr(<<Num(1)>>)>>))
              EXCEPT !.inputs = <<<<104, 105, 32, 228>>, <<>>>>]}

FamCases == {MkCase("FamBuiltin", "str", p) : p \in StrFuncs \cup JoinFuncs}
            \cup {MkCase("FamBuiltin", "generic", p) : p \in Generic}
            \cup {MkCase("FamBuiltin", "num", p) : p \in NumFuncs}
            \cup {MkCase("FamBuiltin", "rand", p) : p \in RandProgs}
            \cup {MkCase("FamBuiltin", "conv", p) : p \in ConvSeqs \cup UserErrSeqs} \cup MsgTests
            \cup {MkCase("FamBuiltin", "fmt", p) : p \in FmtProgs}
            \cup {MkCase("FamBuiltin", "exit", p) : p \in ExitProgs}
            \cup TestCases \cup IOCases
FamInit == InitWith(FamCases)
=============================================================================
