CONSTANTS
  NNames = 3
  MaxOps = @MAXOPS@
  WithHist = @HIST@
  Part = 0
INIT Init
NEXT Next
INVARIANTS TypeOK LocalsDisjoint ResolvableDisjoint GlobalsDense LocalCountCovers IndexMonotone ResolveInnermost
PROPERTIES DefineIdempotent
CONSTRAINT Emit
CHECK_DEADLOCK FALSE
