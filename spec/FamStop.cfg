CONSTANTS
  StopMode = "@STOPMODE@"
  Lys = @LYS@
  Tier = "@TIER@"
  MaxSteps = @MAXSTEPS@
INIT FamInit
NEXT Next
INVARIANTS NoStuck HeapWF AnyConcrete TypeSound AtMostOneMore
PROPERTIES OutGrows StopFreezes
CONSTRAINTS Bounded EmitCut
CHECK_DEADLOCK FALSE
