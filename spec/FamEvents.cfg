CONSTANTS
  StopMode = "none"
  Lys = @LYS@
  Tier = "@TIER@"
  MaxEvents = @MAXEV@
INIT FamInit
NEXT Next
INVARIANTS NoStuck HeapWF AnyConcrete TypeSound
PROPERTIES OutGrows
CONSTRAINT Emit
CHECK_DEADLOCK FALSE
