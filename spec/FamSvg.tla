------------------------------- MODULE FamSvg -------------------------------
(***************************************************************************)
(* Family for C19: every sequence of graphics built-in calls of length     *)
(* <= MaxLen over a small alphabet of concrete calls.  The state carries   *)
(* the command history, so the state graph is the tree of sequences; each  *)
(* sequence that contains a drawing command is printed as one JSON case    *)
(* with the shapes Svg.tla says must be on the canvas.                     *)
(***************************************************************************)
EXTENDS Svg, Json

CONSTANTS Tier,     \* "quick" | "thorough" | "sim"
          MaxLen

VARIABLE cmds
vars == <<pen, style, tstyle, drawn, status, raw, ncmd, cmds>>

---------------------------------------------------------------------------
(* command constructors (numbers are tenths) *)
C(op, n)   == [op |-> op, n |-> n, s |-> "", ns |-> 0, hs |-> <<>>, fp |-> <<>>, vl |-> <<>>]
CS(op, s)  == [C(op, <<>>) EXCEPT !.s = s, !.ns = 1]
CH(op, hs) == [C(op, <<>>) EXCEPT !.hs = hs, !.ns = 1]
GN(u, s)   == [C("gridn", <<u>>) EXCEPT !.s = s, !.ns = 1]
PL(n, vl)  == [C("poly", n) EXCEPT !.vl = vl]
FN(k, v)   == [k |-> k, num |-> v, str |-> ""]
FS(k, v)   == [k |-> k, num |-> 0, str |-> v]
FT(fp)     == [C("font", <<>>) EXCEPT !.fp = fp]

(* one call of every kind (two where a reset to the default or an invalid *)
(* string matters): the alphabet of the longest exhaustive sequences of    *)
(* the quick tier                                                          *)
Core == {
  C("move", <<500, 200>>),
  C("line", <<500, 500>>),
  C("rect", <<-10, 5>>),
  C("circle", <<10>>),
  PL(<<0, 0, 500, 5, -10, 500>>, <<2, 2, 2>>),
  C("ellipse", <<500, 200, 10>>),
  CS("text", "MARKUP"),
  C("clear", <<>>), CS("clear", "blue"),
  C("grid", <<>>), GN(500, "red"),
  CS("color", "red"), CS("color", ""),
  CS("stroke", "none"),
  CS("fill", "blue"),
  C("width", <<5>>),
  C("dash", <<10, 5, 500>>), C("dash", <<>>),
  CS("linecap", "butt"),
  FT(<<FN("size", 10)>>), FT(<<FS("baseline", "top")>>)
}

(* the second representatives: with Core the alphabet of the longest       *)
(* exhaustive sequences of the thorough tier                               *)
MidExtra == {
  PL(<<0, 0, 10>>, <<2, 1>>),
  C("ellipse", <<500, 500, 10, 5, 450>>), C("ellipse", <<500, 500, 10, 5, 450, 0, 1800>>),
  GN(0, "red"), GN(300, "red"),
  CH("colour", <<1200>>), CS("color", "MARKUP"),
  CS("stroke", "red"), CS("fill", "none"),
  C("width", <<1>>), C("width", <<NaN>>),
  CS("linecap", "bogus"), CS("linecap", "round"),
  FT(<<FN("letterspacing", 5)>>), FT(<<FS("family", "MARKUP")>>), FT(<<FS("align", "center")>>),
  FT(<<FS("baseline", "middle")>>),
  C("move", <<NaN, -10>>), CS("text", ""), CH("clear", <<0, 500, 500, 500>>)
}
Mid == Core \cup MidExtra

(* degenerate arguments and the remaining forms *)
More == {
  C("move", <<5, 500>>),
  C("line", <<5, -10>>), C("line", <<NaN, 0>>),
  C("rect", <<500, 5>>), C("rect", <<NaN, 0>>),
  C("circle", <<0>>), C("circle", <<-10>>),
  PL(<<>>, <<>>), PL(<<10, 20>>, <<2>>), PL(<<0, 0, 10, 10, 20>>, <<2, 3>>),
  C("ellipse", <<500, 200, 10, 5>>), C("ellipse", <<500, 200, 10, 5, -450>>),
  C("ellipse", <<500, 500, 10, 5, 450, 0, 3600>>),
  C("ellipse", <<500, 500>>), C("ellipse", <<500, 500, 10, 5, 0, 0>>), C("ellipse", <<NaN, 0, -10>>),
  \* a radius given as 0 is 0 (only an OMITTED y radius defaults to the x radius)
  C("ellipse", <<500, 500, 10, 0>>), C("ellipse", <<500, 500, 0, 10>>), C("ellipse", <<500, 500, 0>>), C("ellipse", <<500, 500, 10, 0, 450>>),
  C("ellipse", <<500, 500, 10, 0, 0, 0, 1800>>), C("ellipse", <<500, 500, 10, 10>>), C("rect", <<0, 0>>), C("rect", <<0, 5>>),
  CS("clear", ""), CS("clear", "red"), GN(500, "blue"), GN(500, "red"),
  CS("text", "hi"),
  GN(-10, "red"), GN(NaN, "red"),
  CS("color", "none"), CH("color", <<4000>>), CS("colour", "blue"),
  CS("stroke", "MARKUP"), CS("stroke", ""),
  CS("fill", "bogus"),
  C("width", <<0>>),
  C("dash", <<10>>), C("dash", <<10, 5>>), C("dash", <<0>>),
  CS("linecap", "square"),
  FT(<<FS("family", "serif")>>), FT(<<FN("weight", 7000)>>), FT(<<FS("style", "italic")>>),
  FT(<<FN("letterspacing", -10)>>), FT(<<FS("align", "right")>>),
  FT(<<FS("align", "left")>>), FT(<<FS("baseline", "bottom")>>),
  FT(<<FS("baseline", "alphabetic")>>),
  FT(<<FN("size", 5), FS("align", "center"), FS("baseline", "bottom")>>)
}

Full == Mid \cup More

(* quick: all sequences of <= 2 calls over Full, of 3 calls over Core;     *)
(* thorough: all sequences of <= 2 calls over Full, of 3 calls over Mid;   *)
(* sim: random sequences of MaxLen calls over Full (TLC -simulate).        *)
(* hist: style histories - every sequence of MaxLen - 1 style changes over two colours per channel and two      *)
(* widths, followed by one shape (grouping of elements under shared style depends on the history of changes)   *)
StyleSet == { CS("color", "red"), CS("color", "blue"), CS("fill", "red"), CS("fill", "blue"), CS("stroke", "red"),
              CS("stroke", "blue"), C("width", <<5>>), C("width", <<1>>) }
HistShapes == { C("circle", <<10>>), C("rect", <<-10, 5>>), CS("text", "hi") }
Third == IF Tier = "quick" THEN Core ELSE Mid
Choices == IF Tier = "hist" THEN (IF Len(cmds) < MaxLen - 1 THEN StyleSet ELSE HistShapes)
           ELSE IF Tier # "sim" /\ Len(cmds) = 2
           THEN (IF \A i \in 1..2 : cmds[i] \in Third THEN Third ELSE {})
           ELSE Full

FamInit == SvgInit /\ cmds = <<>>

Next == /\ Len(cmds) < MaxLen
        /\ \E c \in Choices : Step(c) /\ cmds' = Append(cmds, c)

---------------------------------------------------------------------------
HasDraw == \E i \in DOMAIN cmds : cmds[i].op \in DrawOps
(* non-trivial: a style change precedes a drawing command *)
StyleBeforeDraw == \E i, j \in DOMAIN cmds : i < j /\ cmds[i].op \in StyleOps /\ cmds[j].op \in DrawOps

CaseJson == [cmds |-> cmds, outcome |-> status, nt |-> StyleBeforeDraw,
             drawn |-> [i \in 1..Len(drawn) |-> Slim(cmds, drawn[i])]]

(* exhaustive runs: one case per sequence (CONSTRAINT, always TRUE) *)
Emit == HasDraw => PrintT(ToJson(CaseJson))
(* simulation runs (INVARIANT, always TRUE): TLC evaluates it on every successor it *)
(* generates, so each random walk prints all the one-call extensions of  *)
(* its states that end a sequence                                         *)
EmitSim == (HasDraw /\ (Len(cmds) = MaxLen \/ status # "ok")) => PrintT(ToJson(CaseJson))

---------------------------------------------------------------------------
(* the property on the model *)
RECURSIVE NShapes(_)
NShapes(j) == IF j < 1 THEN 1      \* the initial white background
              ELSE NShapes(j - 1)
                   + (IF j = Len(cmds) /\ status # "ok" THEN 0
                      ELSE IF cmds[j].op = "grid" THEN 22
                      ELSE IF cmds[j].op = "gridn" THEN 2 * ((1000 \div cmds[j].n[1]) + 1)
                      ELSE IF cmds[j].op \in DrawOps THEN 1 ELSE 0)
(* exactly one shape per drawing command (grids: their lines) *)
OnePerCommand == Len(drawn) = NShapes(Len(cmds))
Counted == ncmd = Len(cmds)
(* style commands draw nothing, drawing commands leave the style alone *)
Separation == [][Len(cmds') = Len(cmds) + 1 =>
                    LET c == cmds'[Len(cmds')]
                    IN /\ (c.op \in StyleOps \cup {"move"} => drawn' = drawn)
                       /\ (c.op \in DrawOps \cup {"move"} => style' = style /\ tstyle' = tstyle)]_vars
=============================================================================
