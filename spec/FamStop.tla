------------------------------- MODULE FamStop -------------------------------
(***************************************************************************)
(* Family for C14: the platform may raise the stop flag before any          *)
(* evaluation step (action RaiseStop, StopMode = "any").  TLC explores the  *)
(* raise at EVERY step of every program, terminating or not (programs that  *)
(* do not terminate are cut by the state constraint MaxSteps), and checks   *)
(* StopFreezes and OutGrows.  Every terminal state is emitted; the check    *)
(* compares, per program, the stopped outcomes with the uninterrupted one   *)
(* (prefix property) and replays the raise at every yield of the real run.  *)
(***************************************************************************)
EXTENDS EvyMachine

CONSTANTS Tier, MaxSteps

Num(n) == ENum(I(n))
Pr(xs) == SCall(ECallB("print", xs))
P1(ss) == Program(ss, <<>>, <<>>)
X == EVar("x", T_num)
NoSig == Sig(<<>>, <<>>, T_none)

Progs ==
  { \* terminating
    P1(<<Pr(<<Num(1)>>), Pr(<<Num(2)>>), Pr(<<Num(3)>>)>>),
    P1(<<SFor("i", "num", <<Num(3)>>, <<Pr(<<EVar("i", T_num)>>)>>), Pr(<<Num(9)>>)>>),
    P1(<<SInfer("x", Num(0)), SWhile(EBin("<", X, Num(3)), <<SAsg(X, EBin("+", X, Num(1))), Pr(<<X>>)>>), Pr(<<Num(9)>>)>>),
    [Program(<<SInfer("x", Num(0)), SCall(ECallU("f", NoSig, <<>>)), SCall(ECallU("f", NoSig, <<>>)), Pr(<<X>>)>>,
             <<FuncDef("f", <<>>, <<>>, T_none, <<SAsg(X, EBin("+", X, Num(1))), Pr(<<Num(7), X>>)>>)>>, <<>>) EXCEPT !.fl = TRUE],
    P1(<<SFor("e", "arr", <<EArr(<<Num(4), Num(5)>>)>>, <<SFor("c", "str", <<EStr(<<97, 98>>)>>, <<Pr(<<EVar("e", T_num), EVar("c", T_str)>>)>>)>>)>>),
    P1(<<SCall(ECallB("test", <<EBool(TRUE)>>)), Pr(<<Num(1)>>), SCall(ECallB("test", <<Num(1), Num(2)>>)), Pr(<<Num(2)>>)>>),
    P1(<<SInfer("m", EMap(<<<<97>>, <<98>>>>, <<Num(1), Num(2)>>)), SFor("k", "map", <<EVar("m", TMap(T_num))>>, <<Pr(<<EVar("k", T_str)>>)>>)>>),
    \* loops whose body is only a comment or blank lines (delay loops) still yield in every iteration
    P1(<<SFor("", "num", <<Num(6)>>, <<[k |-> "raw", ps |-> <<"// delay">>]>>), Pr(<<Num(9)>>)>>),
    P1(<<SFor("i", "num", <<Num(4)>>, <<[k |-> "raw", ps |-> <<"">>], [k |-> "raw", ps |-> <<"// wait">>], Pr(<<EVar("i", T_num)>>)>>), Pr(<<Num(9)>>)>>),
    P1(<<SInfer("x", Num(0)), SWhile(EBin("<", X, Num(3)), <<[k |-> "raw", ps |-> <<"// tick">>], SAsg(X, EBin("+", X, Num(1)))>>), Pr(<<X>>)>>),
    \* an open-ended slice as the last argument of an effect; a slice returned into an effect
    P1(<<SInfer("w", EStr(<<97, 98, 99, 100>>)), SFor("i", "num", <<Num(3)>>, <<Pr(<<EVar("i", T_num), ESlice(EVar("w", T_str), <<EVar("i", T_num)>>, <<>>)>>)>>),
         Pr(<<ESlice(EVar("w", T_str), <<EBin("+", Num(1), Num(1))>>, <<>>), ESlice(EVar("w", T_str), <<>>, <<Num(2)>>), ESlice(EVar("w", T_str), <<Num(1)>>, <<Num(3)>>)>>)>>),
    [Program(<<SInfer("a", EArr(<<Num(1), Num(2), Num(3)>>)), Pr(<<ECallU("rest", Sig(<<T_num>>, <<>>, TArr(T_num)), <<Num(1)>>)>>), Pr(<<ESlice(EVar("a", TArr(T_num)), <<Num(2)>>, <<>>)>>)>>,
             <<FuncDef("rest", <<Param("n", T_num)>>, <<>>, TArr(T_num), <<SRetV(ESlice(EVar("a", TArr(T_num)), <<EVar("n", T_num)>>, <<>>), TArr(T_num))>>)>>, <<>>) EXCEPT !.fl = TRUE],
    \* tests whose arguments take steps (a call that prints): the summary after a stop counts the tests that ran
    [Program(<<SCall(ECallB("test", <<Num(4), ECallU("dbl", Sig(<<T_num>>, <<>>, T_num), <<Num(2)>>)>>)), Pr(<<Num(1)>>),
               SCall(ECallB("test", <<Num(5), ECallU("dbl", Sig(<<T_num>>, <<>>, T_num), <<Num(3)>>)>>)),
               SCall(ECallB("test", <<EBin("==", ECallU("dbl", Sig(<<T_num>>, <<>>, T_num), <<Num(1)>>), Num(2))>>)), Pr(<<Num(2)>>)>>,
             <<FuncDef("dbl", <<Param("n", T_num)>>, <<>>, T_num, <<Pr(<<Num(7), EVar("n", T_num)>>), SRetV(EBin("*", EVar("n", T_num), Num(2)), T_num)>>)>>, <<>>) EXCEPT !.fl = TRUE],
    \* not terminating: with effects, without effects, by recursion
    P1(<<SWhile(EBool(TRUE), <<Pr(<<Num(1)>>)>>)>>),
    P1(<<SInfer("x", Num(0)), SWhile(EBool(TRUE), <<SAsg(X, EBin("+", X, Num(1)))>>)>>),
    [Program(<<SInfer("x", Num(0)), SCall(ECallU("g", NoSig, <<>>))>>,
             <<FuncDef("g", <<>>, <<>>, T_none, <<SAsg(X, EBin("+", X, Num(1))), SIf(<<EBin("==", X, Num(2))>>, <<<<Pr(<<X>>)>>>>, <<>>), SCall(ECallU("g", NoSig, <<>>))>>)>>, <<>>) EXCEPT !.fl = TRUE],
    P1(<<SWhile(EBool(TRUE), <<SFor("i", "num", <<Num(2)>>, <<Pr(<<EVar("i", T_num)>>)>>)>>)>>),
    P1(<<SWhile(EBool(TRUE), <<[k |-> "raw", ps |-> <<"// spin">>]>>)>>),
    P1(<<SFor("", "num", <<Num(10000)>>, <<[k |-> "raw", ps |-> <<"// delay">>]>>), Pr(<<Num(9)>>)>>) }

\* programs with handlers: the flag may also go up while a handler runs (at any of its steps); a handler with a
\* loop, one that calls a function, one that never ends
Cnt == EVar("count", T_num)
HMain == <<SInfer("count", Num(0)), Pr(<<Num(0), Cnt>>)>>
HKey == Handler("key", <<Param("k", T_str)>>, <<SAsg(Cnt, EBin("+", Cnt, Num(1))), Pr(<<EVar("k", T_str), Cnt>>),
                                                 SFor("i", "num", <<Num(2)>>, <<Pr(<<EVar("i", T_num)>>)>>)>>)
HDown == Handler("down", <<Param("x", T_num), Param("_", T_num)>>, <<SCall(ECallU("bump", Sig(<<T_num>>, <<>>, T_none), <<EVar("x", T_num)>>)), Pr(<<Cnt>>)>>)
HAnim == Handler("animate", <<>>, <<SWhile(EBool(TRUE), <<SAsg(Cnt, EBin("+", Cnt, Num(1))), SIf(<<EBin("==", Cnt, Num(3))>>, <<<<Pr(<<Cnt>>)>>>>, <<>>)>>)>>)
Bump == FuncDef("bump", <<Param("d", T_num)>>, <<>>, T_none, <<SAsg(Cnt, EBin("+", Cnt, EVar("d", T_num))), Pr(<<Num(7), Cnt>>)>>)
HProg(hs) == [Program(HMain, <<Bump>>, hs) EXCEPT !.fl = TRUE]
EvKey(c) == [ev |-> "key", args |-> <<VStr(<<c>>)>>]
EvDown == [ev |-> "down", args |-> <<I(5), I(6)>>]
EvAnim == [ev |-> "animate", args |-> <<I(16)>>]
HCases ==
  { [MkCase("FamStop", "stop", HProg(<<HKey, HDown>>)) EXCEPT !.events = <<EvKey(97), EvDown, EvKey(98)>>],
    [MkCase("FamStop", "stop", HProg(<<HKey>>)) EXCEPT !.events = <<EvKey(97), EvDown, EvKey(98)>>],
    [MkCase("FamStop", "stop", HProg(<<HDown, HKey, HAnim>>)) EXCEPT !.events = <<EvDown, EvAnim, EvKey(97)>>] }

FamCases == {MkCase("FamStop", "stop", p) : p \in Progs} \cup HCases
FamInit == InitWith(FamCases)
Bounded == st.ns < MaxSteps
\* emit also the states at which a non-terminating run is cut
EmitCut == ((Terminal \/ st.ns >= MaxSteps - 1) /\ st.status # "stuck") => PrintT(ToJson([CaseJson(st) EXCEPT !.cut = st.status = "run"]))
=============================================================================
