------------------------------ MODULE GoMapFold ------------------------------
(***************************************************************************)
(* C08: every place where the implementation ranges over a Go map and the   *)
(* result can reach the user is a FOLD over the entries in an order chosen  *)
(* by the Go runtime.  Here the scheduler (action Pick) is adversarial: TLC *)
(* explores every enumeration order of the entries and checks that the      *)
(* result of the fold does not depend on it (OrderIndependent).  A fold     *)
(* that does depend on the order yields a counterexample = two orders and   *)
(* two results: a prediction the check then confirms on the real code.      *)
(*                                                                         *)
(* Sites (constant Site):                                                  *)
(*  "unused"    parser.validateScope: one diagnostic per unused variable,   *)
(*              appended in enumeration order           (as implemented)    *)
(*  "unused-sorted"  the same, sorted by source position before reporting   *)
(*  "combine"   parser.parseMapLiteral: strictest common type of the values *)
(*  "equals"    evaluator mapVal.Equals / sameMap: conjunction over pairs   *)
(*  "fontprops" evaluator.parseFontProps: the first bad property wins       *)
(*  "fontprops-ordered"  the same, iterating in the map's insertion order   *)
(*  "names"     evaluator.evalProgram: the SET of handler names             *)
(***************************************************************************)
EXTENDS EvyAst, TLC

CONSTANT Site

VARIABLES left,   \* entries not yet enumerated
          acc,    \* accumulator of the fold
          inst    \* which instance (set of entries) is being folded

\* an entry: [pos |-> source position, ty, cn, bad |-> is a bad property, ok |-> pair compares equal]
E(pos, ty, cn, bad, ok) == [pos |-> pos, ty |-> ty, cn |-> cn, bad |-> bad, ok |-> ok]

TyAlpha == {T_num, T_str, TArr(T_num), TArr(T_str), T_earr, TArr(T_any), T_any}
Instances ==
  CASE Site \in {"unused", "unused-sorted", "fontprops", "fontprops-ordered"} ->
         { {E(p, T_num, TRUE, b[p], TRUE) : p \in 1..n} : n \in 1..4, b \in [1..4 -> BOOLEAN] }
    [] Site = "combine" ->
         { {E(1, t1, c1, FALSE, TRUE), E(2, t2, c2, FALSE, TRUE), E(3, t3, TRUE, FALSE, TRUE)} :
             t1 \in TyAlpha, t2 \in TyAlpha, t3 \in TyAlpha, c1 \in BOOLEAN, c2 \in BOOLEAN }
    [] Site = "equals" ->
         { {E(p, T_num, TRUE, FALSE, o[p]) : p \in 1..3} : o \in [1..3 -> BOOLEAN] }
    [] OTHER -> { {E(p, T_num, TRUE, FALSE, TRUE) : p \in 1..n} : n \in 1..4 }

Start == CASE Site \in {"unused", "unused-sorted"} -> <<>>
           [] Site = "combine" -> [ty |-> T_none, cn |-> TRUE, first |-> TRUE]
           [] Site = "equals" -> TRUE
           [] Site \in {"fontprops", "fontprops-ordered"} -> 0        \* position of the reported property, 0 = none
           [] OTHER -> {}

Fold(a, e) ==
  CASE Site \in {"unused", "unused-sorted"} -> IF e.bad THEN Append(a, e.pos) ELSE a
    [] Site = "combine" -> IF a.first THEN [ty |-> e.ty, cn |-> e.cn, first |-> FALSE]
                           ELSE [ty |-> Combine2(a.ty, a.cn, e.ty, e.cn), cn |-> a.cn /\ e.cn, first |-> FALSE]
    [] Site = "equals" -> a /\ e.ok
    [] Site = "fontprops" -> IF a = 0 /\ e.bad THEN e.pos ELSE a
    [] Site = "fontprops-ordered" -> IF e.bad /\ (a = 0 \/ e.pos < a) THEN e.pos ELSE a
    [] OTHER -> a \cup {e.pos}

\* what the user sees at the end
RECURSIVE SortNums(_)
SortNums(s) == IF Len(s) <= 1 THEN s
              ELSE LET m == CHOOSE i \in DOMAIN s : \A j \in DOMAIN s : s[i] <= s[j]
                   IN <<s[m]>> \o SortNums(SubSeq(s, 1, m - 1) \o SubSeq(s, m + 1, Len(s)))
Result(a) == CASE Site = "unused-sorted" -> SortNums(a)
               [] Site = "combine" -> a.ty
               [] OTHER -> a

\* the result when the entries are enumerated in source order (the reference)
RECURSIVE InOrder(_, _, _)
InOrder(es, p, a) == IF p > 4 THEN a
                     ELSE IF \E e \in es : e.pos = p THEN InOrder(es, p + 1, Fold(a, CHOOSE e \in es : e.pos = p))
                     ELSE InOrder(es, p + 1, a)

Init == inst \in Instances /\ left = inst /\ acc = Start
Pick(e) == e \in left /\ left' = left \ {e} /\ acc' = Fold(acc, e) /\ UNCHANGED inst
Next == \E e \in left : Pick(e)

OrderIndependent == left = {} => Result(acc) = Result(InOrder(inst, 1, Start))
=============================================================================
