----------------------------- MODULE EvyMachine -----------------------------
(***************************************************************************)
(* The dynamic semantics of Evy as an abstract machine (control, environ-   *)
(* ment, continuation): one transition per evaluation step of the tree-    *)
(* walking evaluator, written from docs/spec.md and docs/builtins.md.       *)
(*                                                                         *)
(* The machine state is the record st:                                     *)
(*   status  "run" | "idle" (top-level code done, waiting for events)      *)
(*           | "done" | "stopped" | "panic:<class>" | "exit" | "testfail"  *)
(*           | "unspec" (behaviour the documentation leaves open: dropped) *)
(*           | "stuck"  (no rule applies: must be unreachable)             *)
(*   ctl     control: [m |-> "e", x |-> node]   about to evaluate a node   *)
(*                    [m |-> "v", v |-> value]  a value returns            *)
(*                    [m |-> "brk"]             break unwinds              *)
(*                    [m |-> "ret", v |-> val]  return unwinds             *)
(*   k       continuation: sequence of frames, innermost last              *)
(*   env     scope stack of the current activation, env[1] = globals       *)
(*   heap    arrays and maps, by address                                   *)
(*   out     effects the platform has seen so far                          *)
(*   stop    the platform raised the stop flag                             *)
(*   inq     remaining input lines, evi events delivered so far            *)
(*   tt, tf  tests run / failed;  xc exit code                             *)
(* cs is the case being run: program and environment (inputs, events),     *)
(* chosen in the initial state from the family's case set.                 *)
(***************************************************************************)
EXTENDS EvySyntax, Json

CONSTANTS StopMode,     \* "none": never stop; "any": the platform may raise stop before any step
          Lys           \* the layouts in which Emit renders the program text: subset of {"canon","tight","wide"}

VARIABLES st,           \* the machine state
          cs            \* the case: [prog, inputs, events, failFast, noSummary, fam, class]; never changes

vars == <<st, cs>>

TheCase == cs
TheProg == TheCase.prog

Top(s)  == s.k[Len(s.k)]
PopK(s) == SubSeq(s.k, 1, Len(s.k) - 1)
Pop(s)  == [s EXCEPT !.k = PopK(s)]

Ret(s, v)        == [s EXCEPT !.ctl = [m |-> "v", v |-> v]]
RetPop(s, v)     == [s EXCEPT !.ctl = [m |-> "v", v |-> v], !.k = PopK(s)]
Eval(s, x)       == [s EXCEPT !.ctl = [m |-> "e", x |-> x]]
EvalPush(s, x, f) == [s EXCEPT !.ctl = [m |-> "e", x |-> x], !.k = Append(s.k, f)]
EvalRepl(s, x, f) == [s EXCEPT !.ctl = [m |-> "e", x |-> x], !.k = Append(PopK(s), f)]

Emoji_fail == <<10060, 32>>            \* cross mark, blank
Emoji_pass == <<10004, 65039, 32>>     \* check mark, variation selector, blank
Emoji_ok   == <<9989, 32>>             \* white check mark, blank
S_failed == <<32, 102, 97, 105, 108, 101, 100, 32, 116, 101, 115, 116>>   \* " failed test"
S_passed == <<32, 112, 97, 115, 115, 101, 100, 32, 116, 101, 115, 116>>   \* " passed test"
Plural(n) == IF n = 1 THEN <<>> ELSE <<115>>

\* builtins.md test: the summary printed when the top-level code ends
Summary(s) ==
  IF s.tt = 0 \/ TheCase.noSummary THEN <<>>
  ELSE LET ok == s.tt - s.tf
       IN IF s.tf > 0
          THEN <<<<"print", [cp |-> Emoji_fail \o NatCps(s.tf) \o S_failed \o Plural(s.tf) \o <<NL>>
                                \o Emoji_pass \o NatCps(ok) \o S_passed \o Plural(ok) \o <<NL>>]>>>>
          ELSE <<<<"print", [cp |-> Emoji_ok \o NatCps(ok) \o S_passed \o Plural(ok) \o <<NL>>]>>>>

\* the run of the top-level code (phase "main") or of a handler ends
End(s, status) ==
  IF s.ph = "main"
  THEN [s EXCEPT !.status = IF status = "done" /\ s.tf > 0 THEN "testfail" ELSE status,
                 !.out = s.out \o Summary(s)]
  ELSE [s EXCEPT !.status = status]

Panic(s, cls) == End(s, "panic:" \o cls)
Unspec(s)     == [s EXCEPT !.status = "unspec"]
Stuck(s)      == [s EXCEPT !.status = "stuck"]

Alloc(s, obj) == [s EXCEPT !.heap = Append(s.heap, obj)]
NewAddr(s)    == Len(s.heap) + 1

---------------------------------------------------------------------------
(* scopes *)

RECURSIVE FindScope(_, _, _)
\* index of the innermost scope of env that binds nm (0 if none), searching from i down
FindScope(env, nm, i) == IF i = 0 THEN 0
                         ELSE IF nm \in DOMAIN env[i] THEN i
                         ELSE FindScope(env, nm, i - 1)

Bind(sc, nm, v) == [n \in (DOMAIN sc) \cup {nm} |-> IF n = nm THEN v ELSE sc[n]]

\* declare nm in the innermost scope
Declare(s, nm, v, ty) == IF nm = "_" \/ nm = "" THEN s
                         ELSE [s EXCEPT !.env[Len(s.env)] = Bind(s.env[Len(s.env)], nm, v),
                                        !.tenv[Len(s.env)] = Bind(s.tenv[Len(s.env)], nm, ty)]
\* assign to the innermost binding of nm
Update(s, nm, v) == LET i == FindScope(s.env, nm, Len(s.env))
                    IN IF nm = "_" THEN s
                       \* a global whose declaration has not been executed yet (assignment in a function that
                       \* is called too early): the same run-time panic as reading it
                       ELSE IF i = 0 THEN Panic(s, "varnotset")
                       ELSE [s EXCEPT !.env[i] = Bind(s.env[i], nm, v)]

PushScope(s) == [s EXCEPT !.env = Append(s.env, <<>>), !.tenv = Append(s.tenv, <<>>)]
PopScope(s)  == [s EXCEPT !.env = SubSeq(s.env, 1, Len(s.env) - 1), !.tenv = SubSeq(s.tenv, 1, Len(s.tenv) - 1)]

SetGlobal(s, nm, v) == [s EXCEPT !.env[1] = Bind(s.env[1], nm, v)]
\* builtins.md Errors: err / errmsg protocol
SetErr(s, isErr, msg) == SetGlobal(SetGlobal(s, "err", VBool(isErr)), "errmsg", VStr(msg))

---------------------------------------------------------------------------
(* index and slice laws (spec.md Index and Slice) *)

\* n = length. Result: [ok, i (1-based position), cls]
NormIndex(iv, n, forSlice) ==
  IF ~IsInt(iv) THEN [ok |-> FALSE, i |-> 0, cls |-> "indexvalue"]
  ELSE LET i == iv.m
           lim == IF forSlice THEN n ELSE n - 1
       IN IF i < -n \/ i > lim THEN [ok |-> FALSE, i |-> 0, cls |-> "bounds"]
          ELSE [ok |-> TRUE, i |-> IF i < 0 THEN n + i ELSE i, cls |-> ""]
\* huge indices (|i| >= 2^63) are not integers any int64 holds: either class is documented
HugeIndex(iv) == iv.s # "fin"

\* lo, hi: sequences of 0 or 1 num values. Result [ok, a, b, cls] with 0 <= a <= b <= n
NormSlice(lo, hi, n) ==
  LET l == IF Len(lo) = 0 THEN [ok |-> TRUE, i |-> 0, cls |-> ""] ELSE NormIndex(lo[1], n, TRUE)
      h == IF Len(hi) = 0 THEN [ok |-> TRUE, i |-> n, cls |-> ""] ELSE NormIndex(hi[1], n, TRUE)
  IN IF ~l.ok THEN [ok |-> FALSE, a |-> 0, b |-> 0, cls |-> l.cls]
     ELSE IF ~h.ok THEN [ok |-> FALSE, a |-> 0, b |-> 0, cls |-> h.cls]
     ELSE IF l.i > h.i THEN [ok |-> FALSE, a |-> 0, b |-> 0, cls |-> "slice"]
     ELSE [ok |-> TRUE, a |-> l.i, b |-> h.i, cls |-> ""]

---------------------------------------------------------------------------
(* deep copy for array repetition: returns [s, v] *)

RECURSIVE DeepCopy(_, _)
RECURSIVE DeepCopySeq(_, _, _, _)
DeepCopySeq(s, vs, i, acc) ==
  IF i > Len(vs) THEN [s |-> s, vs |-> acc]
  ELSE LET r == DeepCopy(s, vs[i]) IN DeepCopySeq(r.s, vs, i + 1, Append(acc, r.v))
DeepCopy(s, v) ==
  CASE v.t = "arr" -> LET r == DeepCopySeq(s, s.heap[v.a].el, 1, <<>>)
                      IN [s |-> Alloc(r.s, OArr(r.vs)), v |-> VArr(NewAddr(r.s))]
    [] v.t = "map" -> LET r == DeepCopySeq(s, s.heap[v.a].el, 1, <<>>)
                      IN [s |-> Alloc(r.s, OMap(s.heap[v.a].ks, r.vs)), v |-> VMap(NewAddr(r.s))]
    [] v.t = "any" -> LET r == DeepCopy(s, v.v) IN [s |-> r.s, v |-> VAny(v.dy, r.v)]
    [] OTHER       -> [s |-> s, v |-> v]

RECURSIVE RepeatEls(_, _, _, _)
\* n deep copies of the elements els, concatenated
RepeatEls(s, els, n, acc) ==
  IF n = 0 THEN [s |-> s, vs |-> acc]
  ELSE LET r == DeepCopySeq(s, els, 1, <<>>) IN RepeatEls(r.s, els, n - 1, acc \o r.vs)

---------------------------------------------------------------------------
(* operators (spec.md Operators and Expressions) *)

ApplyUn(s, op, v) ==
  IF op = "-" THEN (IF IsZero(v) \/ ~(Small(v) \/ IsBig(v) \/ v.e = 0) THEN Unspec(s) ELSE RetPop(s, NumNeg(v)))
  ELSE RetPop(s, VBool(~v.b))

NumResult(s, v) == IF Exact(v) THEN RetPop(s, v) ELSE Unspec(s)

ApplyBin(s, op, a, b) ==
  CASE op = "==" /\ a.t # "num" -> RetPop(s, VBool(ValEq(a, b, s.heap)))
    [] op = "!=" /\ a.t # "num" -> RetPop(s, VBool(~ValEq(a, b, s.heap)))
    [] a.t = "num" /\ ~Cmpable(a, b) -> Unspec(s)
    [] a.t = "num" /\ op \in {"+", "-", "*", "/", "%"} /\ ~(Small(a) /\ Small(b)) -> Unspec(s)
    [] a.t = "num" ->
         (CASE op = "+" -> NumResult(s, NumAdd(a, b))
            [] op = "-" -> NumResult(s, NumSub(a, b))
            [] op = "*" -> IF MulNegZero(a, b) THEN Unspec(s) ELSE NumResult(s, NumMul(a, b))
            [] op = "/" -> LET r == NumDiv(a, b) IN IF r.ok THEN NumResult([s EXCEPT !.dz = s.dz \/ IsZero(b)], r.v) ELSE Unspec(s)
            [] op = "%" -> LET r == NumMod(a, b) IN IF r.ok THEN NumResult([s EXCEPT !.dz = s.dz \/ IsZero(b)], r.v) ELSE Unspec(s)
            [] op = "==" -> RetPop(s, VBool(NumEq(a, b)))
            [] op = "!=" -> RetPop(s, VBool(~NumEq(a, b)))
            [] op = "<" -> RetPop(s, VBool(NumLt(a, b)))
            [] op = "<=" -> RetPop(s, VBool(NumLe(a, b)))
            [] op = ">" -> RetPop(s, VBool(NumLt(b, a)))
            [] op = ">=" -> RetPop(s, VBool(NumLe(b, a)))
            [] OTHER -> Stuck(s))
    [] a.t = "str" ->
         (CASE op = "+" -> RetPop(s, VStr(a.cp \o b.cp))
            [] op = "<" -> RetPop(s, VBool(CpsLt(a.cp, b.cp)))
            [] op = "<=" -> RetPop(s, VBool(~CpsLt(b.cp, a.cp)))
            [] op = ">" -> RetPop(s, VBool(CpsLt(b.cp, a.cp)))
            [] op = ">=" -> RetPop(s, VBool(~CpsLt(a.cp, b.cp)))
            [] OTHER -> Stuck(s))
    [] a.t = "bool" ->
         (CASE op = "and" -> RetPop(s, VBool(a.b /\ b.b))
            [] op = "or" -> RetPop(s, VBool(a.b \/ b.b))
            [] OTHER -> Stuck(s))
    [] a.t = "arr" ->
         (CASE op = "+" -> RetPop(Alloc(s, OArr(s.heap[a.a].el \o s.heap[b.a].el)), VArr(NewAddr(s)))
            [] op = "*" ->
                 IF ~IsInt(b) \/ b.m < 0 THEN Panic(s, "badrep")
                 ELSE IF b.m > 64 THEN Unspec(s)
                 ELSE LET r == RepeatEls(s, s.heap[a.a].el, b.m, <<>>)
                      IN RetPop(Alloc(r.s, OArr(r.vs)), VArr(NewAddr(r.s)))
            [] OTHER -> Stuck(s))
    [] OTHER -> Stuck(s)

ApplyIndex(s, l, i) ==
  CASE l.t = "arr" -> LET el == s.heap[l.a].el
                          r  == NormIndex(i, Len(el), FALSE)
                      IN IF HugeIndex(i) THEN Panic(s, "indexany")
                         ELSE IF r.ok THEN RetPop(s, el[r.i + 1]) ELSE Panic(s, r.cls)
    [] l.t = "str" -> LET r == NormIndex(i, Len(l.cp), FALSE)
                      IN IF HugeIndex(i) THEN Panic(s, "indexany")
                         ELSE IF r.ok THEN RetPop(s, VStr(<<l.cp[r.i + 1]>>)) ELSE Panic(s, r.cls)
    [] l.t = "map" -> LET o == s.heap[l.a]
                          j == IndexOf(o.ks, i.cp)
                      IN IF j = 0 THEN Panic(s, "mapkey") ELSE RetPop(s, o.el[j])
    [] OTHER -> Stuck(s)

ApplySlice(s, l, lo, hi) ==
  IF (Len(lo) = 1 /\ HugeIndex(lo[1])) \/ (Len(hi) = 1 /\ HugeIndex(hi[1])) THEN Panic(s, "indexany")
  ELSE CASE l.t = "arr" -> LET el == s.heap[l.a].el
                               r  == NormSlice(lo, hi, Len(el))
                           IN IF r.ok THEN RetPop(Alloc(s, OArr(SubSeq(el, r.a + 1, r.b))), VArr(NewAddr(s)))
                              ELSE Panic(s, r.cls)
         [] l.t = "str" -> LET r == NormSlice(lo, hi, Len(l.cp))
                           IN IF r.ok THEN RetPop(s, VStr(SubSeq(l.cp, r.a + 1, r.b))) ELSE Panic(s, r.cls)
         [] OTHER -> Stuck(s)

MapGet(s, m, key) ==
  LET o == s.heap[m.a]
      j == IndexOf(o.ks, key)
  IN IF j = 0 THEN Panic(s, "mapkey") ELSE RetPop(s, o.el[j])

\* insertion-ordered dictionary update: overwrite keeps the position, a new key goes last
MapSet(s, a, key, v) ==
  LET o == s.heap[a]
      j == IndexOf(o.ks, key)
  IN IF j = 0 THEN [s EXCEPT !.heap[a] = OMap(Append(o.ks, key), Append(o.el, v))]
     ELSE [s EXCEPT !.heap[a] = OMap(o.ks, [o.el EXCEPT ![j] = v])]

MapDel(s, a, key) ==
  LET o == s.heap[a]
      j == IndexOf(o.ks, key)
  IN IF j = 0 THEN s ELSE [s EXCEPT !.heap[a] = OMap(DropAt(o.ks, j), DropAt(o.el, j))]

---------------------------------------------------------------------------
(* blocks and loops *)

\* start executing the non-empty statement list ss
Block(s, ss) == EvalPush(s, ss[1], [f |-> "seq", ss |-> ss, i |-> 1])

FuncByName(nm) == LET fs == TheProg.funcs
                      i == CHOOSE j \in DOMAIN fs : fs[j].nm = nm
                  IN fs[i]
IsUserFunc(nm) == \E j \in DOMAIN TheProg.funcs : TheProg.funcs[j].nm = nm

\* advance the range of the for loop whose frame fr is on top (fr.f = "forB")
ForNext(s) ==
  LET fr == Top(s)
      r  == fr.rs
      x  == fr.x
      Done == RetPop(PopScope(s), VNone)
      \* the body is a block: it runs in a scope of its own, made anew for every iteration (spec.md Scope)
      Go(s2, v, r2) == Block(PushScope([Update(s2, IF x.nm = "" THEN "_" ELSE x.nm, v)
                                         EXCEPT !.k = Append(PopK(s2), [fr EXCEPT !.rs = r2])]), x.ss)
  IN CASE r.t = "step" /\ ~(Small(r.cur) /\ Small(r.lim) /\ Small(r.stp)) -> Unspec(s)
       [] r.t = "step" ->
            IF (IsPos(r.stp) /\ NumLe(r.lim, r.cur)) \/ (IsNeg(r.stp) /\ NumLe(r.cur, r.lim))
               \/ r.cur.s = "nan" \/ r.lim.s = "nan" \/ r.stp.s = "nan"
            THEN (IF r.cur.s = "nan" \/ r.lim.s = "nan" \/ r.stp.s = "nan" THEN Unspec(s) ELSE Done)
            ELSE IF ~Exact(NumAdd(r.cur, r.stp)) THEN Unspec(s)
            ELSE Go(s, r.cur, [r EXCEPT !.cur = NumAdd(r.cur, r.stp)])
       [] r.t = "arr" ->
            LET el == s.heap[r.a].el
            IN IF r.i > Len(el) THEN Done ELSE Go(s, el[r.i], [r EXCEPT !.i = r.i + 1])
       [] r.t = "str" ->
            IF r.i > Len(r.cp) THEN Done ELSE Go(s, VStr(<<r.cp[r.i]>>), [r EXCEPT !.i = r.i + 1])
       [] r.t = "map" ->
            \* keys present at loop entry, skipping those deleted meanwhile
            LET o == s.heap[r.a]
                RECURSIVE Nxt(_)
                Nxt(i) == IF i > Len(r.ks) THEN 0 ELSE IF IndexOf(o.ks, r.ks[i]) # 0 THEN i ELSE Nxt(i + 1)
                j == Nxt(r.i)
            IN IF j = 0 THEN Done ELSE Go(s, VStr(r.ks[j]), [r EXCEPT !.i = j + 1])
       [] OTHER -> Stuck(s)

\* the range operands vs of for statement x have been evaluated: enter the loop
ForInit(s, x, vs) ==
  LET nm == IF x.nm = "" THEN "_" ELSE x.nm
      lty == CASE x.kd = "num" -> T_num [] x.kd = "arr" -> Tail(x.xs[1].ty) [] OTHER -> T_str
      Start(s2, zero, rs) == ForNext([Declare(s2, nm, zero, lty) EXCEPT !.k = Append(PopK(s2), [f |-> "forB", x |-> x, rs |-> rs])])
  IN CASE x.kd = "num" ->
            LET a == IF Len(vs) >= 2 THEN vs[1] ELSE I(0)
                b == IF Len(vs) >= 2 THEN vs[2] ELSE vs[1]
                c == IF Len(vs) = 3 THEN vs[3] ELSE I(1)
            IN IF IsZero(c) THEN Panic(s, "range")
               ELSE Start(s, I(0), [t |-> "step", cur |-> a, lim |-> b, stp |-> c])
       [] x.kd = "arr" -> Start(s, IF Len(s.heap[vs[1].a].el) > 0 THEN s.heap[vs[1].a].el[1] ELSE VBool(FALSE),
                                [t |-> "arr", a |-> vs[1].a, i |-> 1])
       [] x.kd = "str" -> Start(s, VStr(<<>>), [t |-> "str", cp |-> vs[1].cp, i |-> 1])
       [] x.kd = "map" -> Start(s, VStr(<<>>), [t |-> "map", a |-> vs[1].a, ks |-> s.heap[vs[1].a].ks, i |-> 1])
       [] OTHER -> Stuck(s)

---------------------------------------------------------------------------
(* built-in functions (docs/builtins.md) *)

PrintEff(cp) == <<"print", [cp |-> cp]>>
AllPrintable(s, args) == \A i \in DOMAIN args : ValPrintable(args[i], s.heap)
ArgsText(s, args, q) == JoinCps([i \in DOMAIN args |-> ValCps(args[i], s.heap, q)], <<SP>>)

Unwrap(v) == IF v.t = "any" THEN v.v ELSE v

RECURSIVE SplitCps(_, _, _)
\* strings.Split for a non-empty separator
SplitCps(cp, sep, cur) ==
  IF Len(cp) = 0 THEN <<cur>>
  ELSE IF Len(cp) >= Len(sep) /\ SubSeq(cp, 1, Len(sep)) = sep
       THEN <<cur>> \o SplitCps(SubSeq(cp, Len(sep) + 1, Len(cp)), sep, <<>>)
       ELSE SplitCps(Tail(cp), sep, Append(cur, cp[1]))

RECURSIVE FindSub(_, _, _)
\* 0-based position (in code points) of the first occurrence of sub in cp from i, -1 if none
FindSub(cp, sub, i) ==
  IF i + Len(sub) > Len(cp) THEN -1
  ELSE IF SubSeq(cp, i + 1, i + Len(sub)) = sub THEN i
  ELSE FindSub(cp, sub, i + 1)

RECURSIVE ReplAll(_, _, _)
ReplAll(cp, old, new) ==   \* old non-empty
  IF Len(cp) < Len(old) THEN cp
  ELSE IF SubSeq(cp, 1, Len(old)) = old THEN new \o ReplAll(SubSeq(cp, Len(old) + 1, Len(cp)), old, new)
  ELSE <<cp[1]>> \o ReplAll(Tail(cp), old, new)

InSet(c, cut) == \E i \in DOMAIN cut : cut[i] = c
RECURSIVE TrimL(_, _)
TrimL(cp, cut) == IF Len(cp) > 0 /\ InSet(cp[1], cut) THEN TrimL(Tail(cp), cut) ELSE cp
RECURSIVE TrimR(_, _)
TrimR(cp, cut) == IF Len(cp) > 0 /\ InSet(cp[Len(cp)], cut) THEN TrimR(SubSeq(cp, 1, Len(cp) - 1), cut) ELSE cp

\* ASCII letters only: other characters are outside the model's case table
IsLowerA(c) == c >= 97 /\ c <= 122
IsUpperA(c) == c >= 65 /\ c <= 90
CaseModelled(cp) == \A i \in DOMAIN cp : cp[i] < 128
UpperCps(cp) == [i \in DOMAIN cp |-> IF IsLowerA(cp[i]) THEN cp[i] - 32 ELSE cp[i]]
LowerCps(cp) == [i \in DOMAIN cp |-> IF IsUpperA(cp[i]) THEN cp[i] + 32 ELSE cp[i]]

\* str2num on the subset of spellings the model can read exactly:
\* [-]digits[.digits]; anything else that contains a character outside
\* 0-9 . - + e E x _ i n f a is certainly not a number
IsDigitC(c) == c >= 48 /\ c <= 57
RECURSIVE DigitsVal(_, _)
DigitsVal(cp, acc) == IF Len(cp) = 0 THEN acc ELSE DigitsVal(Tail(cp), acc * 10 + (cp[1] - 48))
AllDigits(cp) == Len(cp) > 0 /\ \A i \in DOMAIN cp : IsDigitC(cp[i])
PlainInt(cp) == AllDigits(cp) /\ Len(cp) <= 9
CertainlyNoNum(cp) == Len(cp) = 0 \/ \E i \in DOMAIN cp :
                         ~(IsDigitC(cp[i]) \/ cp[i] \in {46, 45, 43, 101, 69, 120, 88, 95, 105, 110, 102, 97, 73, 78, 70, 65,
                                                         112, 80, 98, 66, 111, 79, 99, 67, 100, 68, 116, 121, 84, 89})
S_s2n == <<115, 116, 114, 50, 110, 117, 109, 58, 32, 99, 97, 110, 110, 111, 116, 32, 112, 97, 114, 115, 101, 32>>   \* "str2num: cannot parse "
S_s2b == <<115, 116, 114, 50, 98, 111, 111, 108, 58, 32, 99, 97, 110, 110, 111, 116, 32, 112, 97, 114, 115, 101, 32>> \* "str2bool: cannot parse "
BoolTrue  == {<<49>>, <<116>>, <<84>>, <<84, 82, 85, 69>>, <<116, 114, 117, 101>>, <<84, 114, 117, 101>>}
BoolFalse == {<<48>>, <<102>>, <<70>>, <<70, 65, 76, 83, 69>>, <<102, 97, 108, 115, 101>>, <<70, 97, 108, 115, 101>>}
\* strconv.Quote is modelled for text without control / non-printable characters
Quotable(cp) == \A i \in DOMAIN cp : cp[i] >= 32 /\ cp[i] # 127

RECURSIVE SameVal(_, _, _)
\* "test want got": sameness ignores any-wrapping (builtins.md test)
SameVal(a, b, heap) ==
  IF b.t = "any" THEN (IF a.t = "any" THEN SameVal(a.v, b.v, heap) ELSE SameVal(a, b.v, heap))
  ELSE CASE b.t = "arr" -> a.t = "arr" /\ Len(heap[a.a].el) = Len(heap[b.a].el)
                             /\ \A i \in DOMAIN heap[a.a].el : SameVal(heap[a.a].el[i], heap[b.a].el[i], heap)
         [] b.t = "map" -> a.t = "map" /\ Len(heap[a.a].ks) = Len(heap[b.a].ks)
                             /\ \A i \in DOMAIN heap[a.a].ks :
                                  LET j == IndexOf(heap[b.a].ks, heap[a.a].ks[i])
                                  IN j # 0 /\ SameVal(heap[a.a].el[i], heap[b.a].el[j], heap)
         [] b.t = "num" -> a.t = "num" /\ NumEq(a, b)
         [] b.t = "str" -> a.t = "str" /\ a.cp = b.cp
         [] b.t = "bool" -> a.t = "bool" /\ a.b = b.b
         [] OTHER -> FALSE


---------------------------------------------------------------------------
(* printf / sprintf (builtins.md printf): %v %s %q %t %f %% with width, precision and the - and 0 prefixes *)

\* m / 2^e rounded to p decimals (half to even on the exact value), as text
FixedCps(a, p) ==
  LET ab == Abs(a.m)
      sc == ab * 10^p                     \* exact value * 10^p = sc / 2^e
      q0 == sc \div 2^a.e
      r2 == 2 * (sc % 2^a.e)
      q  == IF r2 > 2^a.e \/ (r2 = 2^a.e /\ q0 % 2 = 1) THEN q0 + 1 ELSE q0
      ip == q \div 10^p
      fp == NatCps(q % 10^p)
  IN (IF a.m < 0 /\ q > 0 THEN <<45>> ELSE <<>>) \o NatCps(ip)
       \o (IF p = 0 THEN <<>> ELSE <<46>> \o Zeros(p - Len(fp)) \o fp)

\* one specifier, f = the text after the percent sign:  [-|0] [width: 1-2 digits] [. [precision: 1 digit]] verb
IsDig(c) == c >= 48 /\ c <= 57
SpecAt(f) ==
  LET flag == IF Len(f) >= 1 /\ f[1] \in {45, 48} THEN f[1] ELSE 0
      i1 == IF flag = 0 THEN 1 ELSE 2
      wd == IF i1 <= Len(f) /\ IsDig(f[i1]) THEN (IF i1 + 1 <= Len(f) /\ IsDig(f[i1 + 1]) THEN 2 ELSE 1) ELSE 0
      w == IF wd = 0 THEN 0 ELSE IF wd = 1 THEN f[i1] - 48 ELSE (f[i1] - 48) * 10 + f[i1 + 1] - 48
      i2 == i1 + wd
      hasP == i2 <= Len(f) /\ f[i2] = 46
      pd == IF hasP /\ i2 + 1 <= Len(f) /\ IsDig(f[i2 + 1]) THEN 1 ELSE 0
      p == IF pd = 1 THEN f[i2 + 1] - 48 ELSE 0
      i3 == i2 + (IF hasP THEN 1 + pd ELSE 0)
  IN [ok |-> i3 <= Len(f), flag |-> flag, w |-> w, hasP |-> hasP, p |-> p,
      verb |-> IF i3 <= Len(f) THEN f[i3] ELSE 0, n |-> i3]

RECURSIVE Fill(_, _)
Fill(c, n) == IF n <= 0 THEN <<>> ELSE <<c>> \o Fill(c, n - 1)

\* the text of one argument under one specifier (before padding): [ok |-> "ok"|"panic"|"unspec", cp]
\* builtins.md printf: %v default format; %s %q %t %f demand their type; precision = decimal places of %f
\* (6 when absent) and, by the documented example %-7.2v "abcd", the number of characters kept of a string
SpecText(s, sp, v) ==
  LET U == [ok |-> "unspec", cp |-> <<>>]
      Pn == [ok |-> "panic", cp |-> <<>>]
      T(cp) == [ok |-> "ok", cp |-> cp]
      Keep(cp) == IF sp.hasP THEN SubSeq(cp, 1, IF sp.p < Len(cp) THEN sp.p ELSE Len(cp)) ELSE cp
  IN CASE sp.verb = 118 -> IF v.t = "str" THEN T(Keep(v.cp))
                           ELSE IF sp.hasP \/ ~ValPrintable(v, s.heap) THEN U
                           ELSE IF sp.w > 0 /\ v.t \in {"arr", "map"} THEN U
                           ELSE T(ValCps(v, s.heap, FALSE))
       [] sp.verb = 115 -> IF v.t = "str" THEN T(Keep(v.cp)) ELSE Pn
       [] sp.verb = 113 -> IF v.t # "str" THEN Pn
                           ELSE IF sp.hasP \/ ~Quotable(v.cp) \/ \E i \in DOMAIN v.cp : v.cp[i] >= 127 THEN U
                           ELSE T(QuoteCps(v.cp))
       [] sp.verb = 116 -> IF v.t # "bool" THEN Pn ELSE IF sp.hasP THEN U ELSE T(IF v.b THEN S_true ELSE S_false)
       [] sp.verb = 102 -> IF v.t # "num" THEN Pn
                           ELSE LET pr == IF sp.hasP THEN sp.p ELSE 6
                                IN IF v.s = "fin" /\ Small(v) /\ Abs(v.m) < 2147 /\ (pr <= 3 \/ pr = 6) THEN T(FixedCps(v, pr)) ELSE U
       [] OTHER -> U

\* width: at least w characters, blanks on the left; "-" blanks on the right; "0" leading zeros (the place of
\* the zeros relative to a minus sign is not documented)
Padded(sp, v, cp) ==
  IF Len(cp) >= sp.w THEN [ok |-> "ok", cp |-> cp]
  ELSE IF sp.flag = 45 THEN [ok |-> "ok", cp |-> cp \o Fill(32, sp.w - Len(cp))]
  ELSE IF sp.flag = 48 THEN (IF v.t = "num" /\ Len(cp) > 0 /\ cp[1] = 45 THEN [ok |-> "unspec", cp |-> <<>>]
                             ELSE [ok |-> "ok", cp |-> Fill(48, sp.w - Len(cp)) \o cp])
  ELSE [ok |-> "ok", cp |-> Fill(32, sp.w - Len(cp)) \o cp]

\* numbers the platform boundary can be compared on exactly
GfxNums(xs) == \A i \in DOMAIN xs : xs[i].s = "fin" /\ Small(xs[i])
RECURSIVE PolyFlat(_, _)
PolyFlat(heap, vs) == IF Len(vs) = 0 THEN <<>> ELSE heap[vs[1].a].el \o PolyFlat(heap, Tail(vs))

RECURSIVE FmtGo(_, _, _, _)
\* result: [ok |-> "ok" | "panic" | "unspec", cp |-> text]; args are any-wrapped values
FmtGo(s, f, args, acc) ==
  IF Len(f) = 0 THEN (IF Len(args) = 0 THEN [ok |-> "ok", cp |-> acc] ELSE [ok |-> "unspec", cp |-> acc])
  ELSE IF f[1] # 37 THEN FmtGo(s, Tail(f), args, Append(acc, f[1]))
  ELSE IF Len(f) = 1 THEN [ok |-> "unspec", cp |-> acc]
  ELSE IF f[2] = 37 THEN FmtGo(s, SubSeq(f, 3, Len(f)), args, Append(acc, 37))
  ELSE LET sp == SpecAt(Tail(f))
       IN IF ~sp.ok \/ Len(args) = 0 THEN [ok |-> "unspec", cp |-> acc]
          ELSE LET v == Unwrap(args[1])
                   t == SpecText(s, sp, v)
                   pd == IF t.ok = "ok" THEN Padded(sp, v, t.cp) ELSE t
               IN IF pd.ok = "ok" THEN FmtGo(s, SubSeq(f, sp.n + 2, Len(f)), SubSeq(args, 2, Len(args)), acc \o pd.cp)
                  ELSE [ok |-> pd.ok, cp |-> acc]

\* exactly representable points of the transcendental functions
ExactMath(f, a, b) ==
  CASE f = "sqrt" /\ IsFin(a) /\ a.e = 0 /\ a.m \in {0, 1, 4, 9, 16, 25, 144} ->
         [ok |-> TRUE, v |-> I(CHOOSE r \in 0..12 : r * r = a.m)]
    [] f = "sqrt" /\ a = Fin(9, 2) -> [ok |-> TRUE, v |-> Fin(3, 1)]
    [] f = "sqrt" /\ a = Fin(1, 2) -> [ok |-> TRUE, v |-> Fin(1, 1)]
    [] f = "pow" /\ IsInt(a) /\ IsInt(b) /\ b.m >= 0 /\ b.m <= 10 /\ Abs(a.m) <= 3 /\ ~(a.m = 0 /\ b.m = 0) ->
         [ok |-> TRUE, v |-> I(a.m ^ b.m)]
    [] f = "pow" /\ IsInt(a) /\ a.m = 2 /\ IsInt(b) /\ b.m < 0 /\ b.m >= -8 -> [ok |-> TRUE, v |-> Fin(1, -b.m)]
    [] f = "pow" /\ IsFin(a) /\ IsZero(b) -> [ok |-> TRUE, v |-> I(1)]
    [] f = "pow" /\ a = Fin(1, 1) /\ IsInt(b) /\ b.m \in 1..6 -> [ok |-> TRUE, v |-> Fin(1, b.m)]
    [] f = "pow" /\ a = I(4) /\ b = Fin(1, 1) -> [ok |-> TRUE, v |-> I(2)]
    [] f = "log" /\ a = I(1) -> [ok |-> TRUE, v |-> I(0)]
    [] f = "sin" /\ IsZero(a) -> [ok |-> TRUE, v |-> I(0)]
    [] f = "cos" /\ IsZero(a) -> [ok |-> TRUE, v |-> I(1)]
    [] f = "atan2" /\ IsZero(a) /\ IsPos(b) -> [ok |-> TRUE, v |-> I(0)]
    [] OTHER -> [ok |-> FALSE, v |-> NaN]

Effect(s, e) == [s EXCEPT !.out = Append(s.out, e)]

\* all arguments args evaluated: perform built-in f (the callL frame is still on top)
ApplyBuiltin(s, f, args) ==
  CASE f = "print" -> IF AllPrintable(s, args)
                      THEN RetPop(Effect(s, PrintEff(ArgsText(s, args, FALSE) \o <<NL>>)), VNone)
                      ELSE Unspec(s)
    [] f = "sprint" -> IF AllPrintable(s, args) THEN RetPop(s, VStr(ArgsText(s, args, FALSE))) ELSE Unspec(s)
    [] f = "repr" -> IF AllPrintable(s, args) THEN RetPop(s, VStr(ArgsText(s, args, TRUE))) ELSE Unspec(s)
    [] f = "read" -> IF Len(s.inq) = 0 THEN Unspec(s)
                     ELSE RetPop([Effect(s, <<"read", [cp |-> s.inq[1]]>>) EXCEPT !.inq = Tail(s.inq)], VStr(s.inq[1]))
    [] f = "cls" -> RetPop(Effect(s, <<"cls">>), VNone)
    [] f = "sleep" -> IF IsFin(args[1]) /\ ~IsNeg(args[1]) /\ args[1].e <= 3 /\ args[1].m < 1000
                      THEN RetPop(Effect(s, <<"sleep", args[1]>>), VNone) ELSE Unspec(s)
    [] f = "len" -> LET v == Unwrap(args[1])
                    IN CASE v.t = "str" -> RetPop(s, I(Len(v.cp)))
                         [] v.t = "arr" -> RetPop(s, I(Len(s.heap[v.a].el)))
                         [] v.t = "map" -> RetPop(s, I(Len(s.heap[v.a].ks)))
                         [] OTHER -> Panic(s, "badargs")
    [] f = "typeof" -> RetPop(s, VStr(TypeCps(args[1].dy)))
    [] f = "has" -> RetPop(s, VBool(IndexOf(s.heap[args[1].a].ks, args[2].cp) # 0))
    [] f = "del" -> RetPop(MapDel(s, args[1].a, args[2].cp), VNone)
    [] f = "join" -> LET el == s.heap[args[1].a].el
                     IN IF \A i \in DOMAIN el : ValPrintable(el[i], s.heap)
                        THEN RetPop(s, VStr(JoinCps([i \in DOMAIN el |-> ValCps(el[i], s.heap, FALSE)], args[2].cp)))
                        ELSE Unspec(s)
    [] f = "split" -> LET parts == IF Len(args[2].cp) = 0
                                   THEN [i \in DOMAIN args[1].cp |-> <<args[1].cp[i]>>]   \* into code points
                                   ELSE SplitCps(args[1].cp, args[2].cp, <<>>)
                      IN RetPop(Alloc(s, OArr([i \in DOMAIN parts |-> VStr(parts[i])])), VArr(NewAddr(s)))
    [] f = "upper" -> IF CaseModelled(args[1].cp) THEN RetPop(s, VStr(UpperCps(args[1].cp))) ELSE Unspec(s)
    [] f = "lower" -> IF CaseModelled(args[1].cp) THEN RetPop(s, VStr(LowerCps(args[1].cp))) ELSE Unspec(s)
    [] f = "index" -> RetPop(s, I(FindSub(args[1].cp, args[2].cp, 0)))
    [] f = "startswith" -> RetPop(s, VBool(Len(args[2].cp) <= Len(args[1].cp)
                                           /\ SubSeq(args[1].cp, 1, Len(args[2].cp)) = args[2].cp))
    [] f = "endswith" -> RetPop(s, VBool(Len(args[2].cp) <= Len(args[1].cp)
                                         /\ SubSeq(args[1].cp, Len(args[1].cp) - Len(args[2].cp) + 1, Len(args[1].cp)) = args[2].cp))
    [] f = "trim" -> RetPop(s, VStr(TrimR(TrimL(args[1].cp, args[2].cp), args[2].cp)))
    [] f = "replace" -> IF Len(args[2].cp) = 0 THEN Unspec(s)
                        ELSE RetPop(s, VStr(ReplAll(args[1].cp, args[2].cp, args[3].cp)))
    [] f = "str2num" ->
         LET cp == args[1].cp
             neg == Len(cp) > 0 /\ cp[1] = 45
             body == IF neg THEN Tail(cp) ELSE cp
             dot == FindSub(body, <<46>>, 0)
             ip == IF dot < 0 THEN body ELSE SubSeq(body, 1, dot)
             fp == IF dot < 0 THEN <<>> ELSE SubSeq(body, dot + 2, Len(body))
         IN IF PlainInt(ip) /\ (dot < 0 \/ (AllDigits(fp) /\ Len(fp) <= 3 /\ fp[Len(fp)] \in {48, 53}
                                            /\ (Len(fp) = 1 \/ DigitsVal(fp, 0) % 125 = 0)))
               /\ ~(neg /\ DigitsVal(ip, 0) = 0 /\ DigitsVal(fp, 0) = 0)
            THEN \* decimal fractions that are dyadic: .5, .25, .125 multiples
                 LET n == DigitsVal(ip, 0)
                     frn == IF dot < 0 THEN 0 ELSE DigitsVal(fp, 0) * (IF Len(fp) = 1 THEN 100 ELSE IF Len(fp) = 2 THEN 10 ELSE 1)
                     v == NumAdd(I(n), Fin(frn \div 125, 3))
                 IN IF dot >= 0 /\ (frn % 125) # 0 THEN Unspec(s)
                    ELSE RetPop(SetErr(s, FALSE, <<>>), IF neg THEN NumNeg(v) ELSE v)
            ELSE IF CertainlyNoNum(cp) /\ Quotable(cp)
            THEN RetPop(SetErr(s, TRUE, S_s2n \o QuoteCps(cp)), I(0))
            ELSE Unspec(s)
    [] f = "str2bool" ->
         IF args[1].cp \in BoolTrue THEN RetPop(SetErr(s, FALSE, <<>>), VBool(TRUE))
         ELSE IF args[1].cp \in BoolFalse THEN RetPop(SetErr(s, FALSE, <<>>), VBool(FALSE))
         ELSE IF Quotable(args[1].cp) THEN RetPop(SetErr(s, TRUE, S_s2b \o QuoteCps(args[1].cp)), VBool(FALSE))
         ELSE Unspec(s)
    [] f = "exit" -> IF IsInt(args[1]) /\ args[1].m >= 0 /\ args[1].m <= 125
                     THEN [End(s, "exit") EXCEPT !.xc = args[1].m] ELSE Unspec(s)
    [] f = "panic" -> Panic(s, "user")
    [] f \in {"abs", "floor", "ceil", "round"} /\ ~Small(args[1]) -> Unspec(s)
    [] f \in {"min", "max"} /\ (~Cmpable(args[1], args[2]) \/ args[1].s = "nan" \/ args[2].s = "nan") -> Unspec(s)
    [] f = "abs" -> RetPop(s, NumAbs(args[1]))
    [] f = "floor" -> IF IsNeg(args[1]) /\ IsZero(NumFloor(args[1])) THEN Unspec(s) ELSE RetPop(s, NumFloor(args[1]))
    [] f = "ceil" -> IF IsNeg(args[1]) /\ IsZero(NumCeil(args[1])) THEN Unspec(s) ELSE RetPop(s, NumCeil(args[1]))
    [] f = "round" -> IF IsNeg(args[1]) /\ IsZero(NumRound(args[1])) THEN Unspec(s) ELSE RetPop(s, NumRound(args[1]))
    [] f = "min" -> RetPop(s, NumMin(args[1], args[2]))
    [] f = "max" -> RetPop(s, NumMax(args[1], args[2]))
    [] f \in {"printf", "sprintf"} ->
         IF Len(args) = 0 \/ args[1].v.t # "str" THEN Panic(s, "badargs")
         ELSE LET r == FmtGo(s, args[1].v.cp, SubSeq(args, 2, Len(args)), <<>>)
              IN CASE r.ok = "ok" -> IF f = "printf" THEN RetPop(Effect(s, PrintEff(r.cp)), VNone) ELSE RetPop(s, VStr(r.cp))
                   [] r.ok = "panic" -> Panic(s, "fmtverb")
                   [] OTHER -> Unspec(s)
    \* in a program that no family wrote (fam "Doc") the value could be printed: left open there
    [] f \in {"rand", "rand1"} /\ TheCase.fam = "Doc" -> Unspec(s)
    [] f = "rand" ->
         LET n == args[1]
         IN IF n.s = "nan" \/ (n.s = "fin" /\ n.m <= 0) \/ n.s = "ninf" THEN Panic(s, "badargs")
            ELSE IF n.s # "fin" \/ (n.e > 0 /\ NumLt(n, I(1))) THEN Unspec(s)
            ELSE RetPop([s EXCEPT !.rn = s.rn + 1], I((7 * s.rn + 3) % NumFloor(n).m))
    [] f = "rand1" -> RetPop([s EXCEPT !.rn = s.rn + 1], Fin(1 + 2 * (s.rn % 8), 4))
    [] f \in {"sqrt", "log", "sin", "cos"} ->
         LET r == ExactMath(f, args[1], I(0)) IN IF r.ok THEN RetPop(s, r.v) ELSE Unspec(s)
    [] f \in {"pow", "atan2"} ->
         LET r == ExactMath(f, args[1], args[2]) IN IF r.ok THEN RetPop(s, r.v) ELSE Unspec(s)
    [] f = "test" ->
         IF Len(args) = 0 THEN Panic(s, "badargs")
         \* bad arguments are a panic; how such a call counts in the summary is not documented
         ELSE IF (Len(args) = 1 /\ args[1].v.t # "bool") \/ (Len(args) > 2 /\ args[3].v.t # "str")
         THEN (IF TheCase.noSummary \/ s.ph # "main" THEN Panic(s, "badargs") ELSE Unspec(s))
         ELSE LET pass == IF Len(args) = 1 THEN args[1].v.b ELSE SameVal(args[1], args[2], s.heap)
                  s1 == [s EXCEPT !.tt = s.tt + 1, !.tf = s.tf + (IF pass THEN 0 ELSE 1)]
                  \* the text of a failed test contains its message: the third argument, a format
                  \* string for the arguments after it
                  msg == IF Len(args) = 3 THEN [ok |-> "ok", cp |-> args[3].v.cp]
                         ELSE FmtGo(s, args[3].v.cp, SubSeq(args, 4, Len(args)), <<>>)
                  s2 == IF ~pass /\ Len(args) >= 3 THEN [s1 EXCEPT !.msgs = Append(s1.msgs, [cp |-> msg.cp])] ELSE s1
              IN IF Len(args) > 3 /\ msg.ok # "ok" THEN Unspec(s)
                 ELSE IF ~pass /\ TheCase.failFast THEN End(s2, "testfail") ELSE RetPop(s2, VNone)
    \* graphics: the evaluator hands the (validated, defaulted) arguments to the platform; what the platform
    \* draws is the subject of Svg.tla.  hsl, grid and font are left open here (result text / derived call not
    \* fixed by builtins.md at this boundary)
    [] f \in {"move", "line", "rect", "circle", "width", "dash"} ->
         IF GfxNums(args) THEN RetPop(Effect(s, <<f>> \o args), VNone) ELSE Unspec(s)
    [] f \in {"color", "colour", "stroke", "fill", "linecap", "text"} ->
         RetPop(Effect(s, <<IF f = "colour" THEN "color" ELSE f, [cp |-> args[1].cp]>>), VNone)
    [] f = "clear" -> IF Len(args) = 0 THEN RetPop(Effect(s, <<"clear", [cp |-> <<>>]>>), VNone)
                      ELSE IF Len(args) = 1 THEN RetPop(Effect(s, <<"clear", [cp |-> args[1].cp]>>), VNone)
                      ELSE Unspec(s)
    [] f = "gridn" -> IF GfxNums(<<args[1]>>) /\ args[1].m > 0
                      THEN RetPop(Effect(s, <<"gridn", args[1], [cp |-> args[2].cp]>>), VNone) ELSE Unspec(s)
    \* poly: "if a vertex does not have two elements, a panic occurs"
    [] f = "poly" -> IF \E i \in DOMAIN args : Len(s.heap[args[i].a].el) # 2 THEN Panic(s, "badargs")
                     ELSE IF \A i \in DOMAIN args : GfxNums(s.heap[args[i].a].el)
                          THEN RetPop(Effect(s, <<"poly">> \o PolyFlat(s.heap, args)), VNone) ELSE Unspec(s)
    \* ellipse x y rx [ry [tilt [start end]]]: ry defaults to rx, tilt to 0, the angles to 0 and 360
    [] f = "ellipse" -> IF Len(args) \in {3, 4, 5, 7} /\ GfxNums(args)
                        THEN RetPop(Effect(s, <<"ellipse", args[1], args[2], args[3],
                                                 IF Len(args) > 3 THEN args[4] ELSE args[3],
                                                 IF Len(args) > 4 THEN args[5] ELSE I(0),
                                                 IF Len(args) > 6 THEN args[6] ELSE I(0),
                                                 IF Len(args) > 6 THEN args[7] ELSE I(360)>>), VNone)
                        ELSE Unspec(s)
    [] f \in Builtins -> Unspec(s)
    [] OTHER -> Stuck(s)

\* call of user function fd with evaluated arguments args: fresh scope on top of the globals
CallUser(s, fd, args) ==
  LET np == Len(fd.ps)
      s0 == Pop(s)
      s1 == IF Len(fd.vp) = 0 THEN s0 ELSE Alloc(s0, OArr(SubSeq(args, np + 1, Len(args))))
      sc0 == [n \in {fd.ps[i].nm : i \in DOMAIN fd.ps} \ {"_"} |->
                args[CHOOSE i \in DOMAIN fd.ps : fd.ps[i].nm = n]]
      sc == IF Len(fd.vp) = 0 \/ fd.vp[1].nm = "_" THEN sc0 ELSE Bind(sc0, fd.vp[1].nm, VArr(NewAddr(s0)))
      tsc0 == [n \in {fd.ps[i].nm : i \in DOMAIN fd.ps} \ {"_"} |->
                 fd.ps[CHOOSE i \in DOMAIN fd.ps : fd.ps[i].nm = n].ty]
      tsc == IF Len(fd.vp) = 0 \/ fd.vp[1].nm = "_" THEN tsc0 ELSE Bind(tsc0, fd.vp[1].nm, TArr(fd.vp[1].ty))
  IN Block([s1 EXCEPT !.env = <<s.env[1], sc>>, !.tenv = <<s.tenv[1], tsc>>,
                      !.k = Append(s0.k, [f |-> "callU", sv |-> SubSeq(s.env, 2, Len(s.env)),
                                                         tv |-> SubSeq(s.tenv, 2, Len(s.tenv))])], fd.ss)

ApplyCall(s, f, args) ==
  IF IsUserFunc(f) THEN CallUser(s, FuncByName(f), args) ELSE ApplyBuiltin(s, f, args)

---------------------------------------------------------------------------
(* the step function *)

\* evaluate node x (the stop flag has been checked)
Enter(s, x) ==
  CASE x.k = "num"  -> Ret(s, x.n)
    [] x.k = "str"  -> Ret(s, VStr(x.cp))
    [] x.k = "bool" -> Ret(s, VBool(x.b))
    [] x.k = "var"  -> LET i == FindScope(s.env, x.nm, Len(s.env))
                       \* pi is a global of the built-in library; its value is outside the exact numbers
                       IN IF i = 0 THEN (IF x.nm = "pi" THEN Unspec(s) ELSE Panic(s, "varnotset"))
                          ELSE Ret(s, s.env[i][x.nm])
    [] x.k = "wrap" -> EvalPush(s, x.x, [f |-> "wrap", ty |-> x.x.ty])
    [] x.k = "arr"  -> IF Len(x.xs) = 0 THEN Ret(Alloc(s, OArr(<<>>)), VArr(NewAddr(s)))
                       ELSE EvalPush(s, x.xs[1], [f |-> "arrL", xs |-> x.xs, vs |-> <<>>])
    [] x.k = "map"  -> IF Len(x.xs) = 0 THEN Ret(Alloc(s, OMap(<<>>, <<>>)), VMap(NewAddr(s)))
                       ELSE EvalPush(s, x.xs[1], [f |-> "mapL", ks |-> x.ks, xs |-> x.xs, vs |-> <<>>])
    [] x.k = "call" -> IF Len(x.xs) = 0
                       THEN ApplyCall([s EXCEPT !.k = Append(s.k, [f |-> "callL", nm |-> x.f, xs |-> <<>>, vs |-> <<>>])], x.f, <<>>)
                       ELSE EvalPush(s, x.xs[1], [f |-> "callL", nm |-> x.f, xs |-> x.xs, vs |-> <<>>])
    [] x.k = "callst" -> Eval(s, x.x)
    [] x.k = "un"   -> EvalPush(s, x.x, [f |-> "un", op |-> x.op])
    [] x.k = "bin"  -> EvalPush(s, x.l, [f |-> "binL", op |-> x.op, r |-> x.r])
    [] x.k = "idx"  -> EvalPush(s, x.x, [f |-> "idxL", i |-> x.i])
    [] x.k = "slice" -> EvalPush(s, x.x, [f |-> "slc0", lo |-> x.lo, hi |-> x.hi])
    [] x.k = "dot"  -> EvalPush(s, x.x, [f |-> "dot", key |-> x.key])
    [] x.k = "assert" -> EvalPush(s, x.x, [f |-> "assert", ty |-> x.ty])
    [] x.k = "grp"  -> Eval(s, x.x)
    [] x.k = "decl" -> IF x.ty[1] = "arr" THEN Ret(Declare(Alloc(s, OArr(<<>>)), x.nm, VArr(NewAddr(s)), x.ty), VNone)
                       ELSE IF x.ty[1] = "map" THEN Ret(Declare(Alloc(s, OMap(<<>>, <<>>)), x.nm, VMap(NewAddr(s)), x.ty), VNone)
                       ELSE Ret(Declare(s, x.nm, ZeroOf(x.ty), x.ty), VNone)
    [] x.k = "infer" -> EvalPush(s, x.x, [f |-> "infer", nm |-> x.nm, ty |-> x.x.ty])
    [] x.k = "asg"  -> EvalPush(s, x.x, [f |-> "asg", tg |-> x.tg])
    [] x.k = "ret"  -> IF Len(x.xs) = 0 THEN [s EXCEPT !.ctl = [m |-> "ret", v |-> VNone]]
                       ELSE EvalPush(s, x.xs[1], [f |-> "retK"])
    [] x.k = "brk"  -> [s EXCEPT !.ctl = [m |-> "brk"]]
    [] x.k = "raw"  -> Ret(s, VNone)                   \* a comment or blank line: the empty statement
    [] x.k = "if"   -> EvalPush(PushScope(s), x.cs[1], [f |-> "ifC", x |-> x, j |-> 1])
    [] x.k = "while" -> EvalPush(PushScope(s), x.c, [f |-> "whC", x |-> x])
    [] x.k = "for"  -> EvalPush(PushScope(s), x.xs[1], [f |-> "forL", x |-> x, vs |-> <<>>])
    [] OTHER -> Stuck(s)

\* value v returns to the top frame
Continue(s, v) ==
  IF Len(s.k) = 0 THEN
     \* the top-level code (or a handler) has completed
     (IF s.ph = "main" /\ Len(TheProg.hs) > 0 /\ s.tf = 0 THEN [End(s, "done") EXCEPT !.status = "idle", !.ph = "events"]
      ELSE IF s.ph = "main" THEN End(s, "done")
      ELSE [s EXCEPT !.status = "idle", !.env = <<s.env[1]>>, !.tenv = <<s.tenv[1]>>])
  ELSE
  LET fr == Top(s) IN
  CASE fr.f = "wrap" -> RetPop(s, VAny(fr.ty, v))
    [] fr.f = "arrL" -> LET vs == Append(fr.vs, v)
                        IN IF Len(vs) < Len(fr.xs) THEN EvalRepl(s, fr.xs[Len(vs) + 1], [fr EXCEPT !.vs = vs])
                           ELSE RetPop(Alloc(s, OArr(vs)), VArr(NewAddr(s)))
    [] fr.f = "mapL" -> LET vs == Append(fr.vs, v)
                        IN IF Len(vs) < Len(fr.xs) THEN EvalRepl(s, fr.xs[Len(vs) + 1], [fr EXCEPT !.vs = vs])
                           ELSE RetPop(Alloc(s, OMap(fr.ks, vs)), VMap(NewAddr(s)))
    [] fr.f = "callL" -> LET vs == Append(fr.vs, v)
                         IN IF Len(vs) < Len(fr.xs) THEN EvalRepl(s, fr.xs[Len(vs) + 1], [fr EXCEPT !.vs = vs])
                            ELSE ApplyCall(s, fr.nm, vs)
    [] fr.f = "un"   -> ApplyUn(s, fr.op, v)
    [] fr.f = "binL" -> IF (fr.op = "and" /\ ~v.b) \/ (fr.op = "or" /\ v.b)
                        THEN RetPop(s, v)                               \* short circuit
                        ELSE EvalRepl(s, fr.r, [f |-> "binR", op |-> fr.op, v |-> v])
    [] fr.f = "binR" -> ApplyBin(s, fr.op, fr.v, v)
    [] fr.f = "idxL" -> EvalRepl(s, fr.i, [f |-> "idxR", v |-> v])
    [] fr.f = "idxR" -> ApplyIndex(s, fr.v, v)
    [] fr.f = "slc0" -> IF Len(fr.lo) = 1 THEN EvalRepl(s, fr.lo[1], [f |-> "slc1", v |-> v, hi |-> fr.hi])
                        ELSE IF Len(fr.hi) = 1 THEN EvalRepl(s, fr.hi[1], [f |-> "slc2", v |-> v, vs |-> <<>>])
                        ELSE ApplySlice(s, v, <<>>, <<>>)
    [] fr.f = "slc1" -> IF Len(fr.hi) = 1 THEN EvalRepl(s, fr.hi[1], [f |-> "slc2", v |-> fr.v, vs |-> <<v>>])
                        ELSE ApplySlice(s, fr.v, <<v>>, <<>>)
    [] fr.f = "slc2" -> ApplySlice(s, fr.v, fr.vs, <<v>>)
    [] fr.f = "dot"  -> MapGet(s, v, fr.key)
    [] fr.f = "assert" -> IF v.dy = fr.ty THEN RetPop(s, v.v) ELSE Panic(s, "anyconv")
    [] fr.f = "infer" -> RetPop(Declare(s, fr.nm, v, fr.ty), VNone)
    [] fr.f = "asg"  -> CASE fr.tg.k = "var" -> RetPop(Update(s, fr.tg.nm, v), VNone)
                          [] fr.tg.k = "idx" -> EvalRepl(s, fr.tg.x, [f |-> "asgI1", v |-> v, i |-> fr.tg.i])
                          [] fr.tg.k = "dot" -> EvalRepl(s, fr.tg.x, [f |-> "asgD", v |-> v, key |-> fr.tg.key])
                          [] OTHER -> Stuck(s)
    [] fr.f = "asgI1" -> EvalRepl(s, fr.i, [f |-> "asgI2", v |-> fr.v, w |-> v])
    [] fr.f = "asgI2" ->
         IF fr.w.t = "arr"
         THEN LET el == s.heap[fr.w.a].el
                  r  == NormIndex(v, Len(el), FALSE)
              IN IF HugeIndex(v) THEN Panic(s, "indexany")
                 ELSE IF r.ok THEN RetPop([s EXCEPT !.heap[fr.w.a] = OArr([el EXCEPT ![r.i + 1] = fr.v])], VNone)
                 ELSE Panic(s, r.cls)
         ELSE RetPop(MapSet(s, fr.w.a, v.cp, fr.v), VNone)
    [] fr.f = "asgD" -> RetPop(MapSet(s, v.a, fr.key, fr.v), VNone)
    [] fr.f = "retK" -> [s EXCEPT !.ctl = [m |-> "ret", v |-> v], !.k = PopK(s)]
    [] fr.f = "seq"  -> IF fr.i < Len(fr.ss) THEN EvalRepl(s, fr.ss[fr.i + 1], [fr EXCEPT !.i = fr.i + 1])
                        ELSE RetPop(s, VNone)
    [] fr.f = "ifC"  -> IF v.b THEN Block([s EXCEPT !.k = Append(PopK(s), [f |-> "blk"])], fr.x.bs[fr.j])
                        ELSE IF fr.j < Len(fr.x.cs)
                        THEN EvalRepl(PushScope(PopScope(s)), fr.x.cs[fr.j + 1], [fr EXCEPT !.j = fr.j + 1])
                        ELSE IF Len(fr.x.el) = 1
                        THEN Block([PushScope(PopScope(s)) EXCEPT !.k = Append(PopK(s), [f |-> "blk"])], fr.x.el[1])
                        ELSE RetPop(PopScope(s), VNone)
    [] fr.f = "blk"  -> RetPop(PopScope(s), VNone)
    [] fr.f = "whC"  -> IF v.b THEN Block([s EXCEPT !.k = Append(PopK(s), [f |-> "whB", x |-> fr.x])], fr.x.ss)
                        ELSE RetPop(PopScope(s), VNone)
    [] fr.f = "whB"  -> EvalRepl(PushScope(PopScope(s)), fr.x.c, [f |-> "whC", x |-> fr.x])
    [] fr.f = "forL" -> LET vs == Append(fr.vs, v)
                        IN IF Len(vs) < Len(fr.x.xs) THEN EvalRepl(s, fr.x.xs[Len(vs) + 1], [fr EXCEPT !.vs = vs])
                           ELSE ForInit(s, fr.x, vs)
    [] fr.f = "forB" -> ForNext(PopScope(s))          \* the scope of the body that has just ended goes first
    [] fr.f = "callU" -> RetPop([s EXCEPT !.env = <<s.env[1]>> \o fr.sv, !.tenv = <<s.tenv[1]>> \o fr.tv], VNone)
    [] OTHER -> Stuck(s)

\* break / return unwind one frame
Unwind(s) ==
  IF Len(s.k) = 0 THEN (IF s.ctl.m = "ret" THEN Continue([s EXCEPT !.ctl = [m |-> "v", v |-> VNone]], VNone) ELSE Stuck(s))
  ELSE
  LET fr == Top(s)
      brk == s.ctl.m = "brk"
  IN CASE fr.f = "seq"  -> [s EXCEPT !.k = PopK(s)]
       [] fr.f = "blk"  -> [PopScope(s) EXCEPT !.k = PopK(s)]
       [] fr.f = "whB" -> IF brk THEN RetPop(PopScope(s), VNone) ELSE [PopScope(s) EXCEPT !.k = PopK(s)]
       \* leaving a for loop from inside its body: the scope of the body and the scope of the loop variable
       [] fr.f = "forB" -> IF brk THEN RetPop(PopScope(PopScope(s)), VNone) ELSE [PopScope(PopScope(s)) EXCEPT !.k = PopK(s)]
       [] fr.f = "callU" -> IF brk THEN Stuck(s) ELSE RetPop([s EXCEPT !.env = <<s.env[1]>> \o fr.sv, !.tenv = <<s.tenv[1]>> \o fr.tv], s.ctl.v)
       [] OTHER -> Stuck(s)

StepFn(s) ==
  \* an evaluation step first looks at the stop flag, then yields to the platform (which may raise
  \* the flag during that yield: yl), then evaluates the node
  CASE s.ctl.m = "e" -> IF s.stop /\ ~s.yl THEN End(s, "stopped") ELSE [Enter(s, s.ctl.x) EXCEPT !.yl = FALSE]
    [] s.ctl.m = "v" -> Continue(s, s.ctl.v)
    [] OTHER -> Unwind(s)

---------------------------------------------------------------------------
(* events (spec.md Execution Model, builtins.md Event Handlers) *)

HasHandler(ev) == \E j \in DOMAIN TheProg.hs : TheProg.hs[j].ev = ev
HandlerFor(ev) == TheProg.hs[CHOOSE j \in DOMAIN TheProg.hs : TheProg.hs[j].ev = ev]

\* deliver the next event of the case: its handler runs as a procedure on a
\* fresh scope above the globals, payload bound positionally to the declared parameters
DeliverFn(s) ==
  LET e == TheCase.events[s.evi + 1]
      s1 == [s EXCEPT !.evi = s.evi + 1, !.evb = Append(s.evb, Len(s.out))]
  IN IF ~HasHandler(e.ev) THEN s1
     ELSE LET h == HandlerFor(e.ev)
              sc == [n \in {h.ps[i].nm : i \in DOMAIN h.ps} \ {"_"} |->
                       e.args[CHOOSE i \in DOMAIN h.ps : h.ps[i].nm = n]]
              tsc == [n \in {h.ps[i].nm : i \in DOMAIN h.ps} \ {"_"} |->
                        h.ps[CHOOSE i \in DOMAIN h.ps : h.ps[i].nm = n].ty]
          IN Block([s1 EXCEPT !.status = "run", !.env = <<s.env[1], sc>>, !.tenv = <<s.tenv[1], tsc>>, !.k = <<>>], h.ss)

---------------------------------------------------------------------------

Pi == 3 * 2^50        \* placeholder: pi is never printed by the families

InitState == [status |-> "run", ph |-> "main",
              ctl |-> [m |-> "v", v |-> VNone],
              k |-> <<>>, env |-> << [n \in {"err", "errmsg"} |-> IF n = "err" THEN VBool(FALSE) ELSE VStr(<<>>)] >>,
              tenv |-> << [n \in {"err", "errmsg"} |-> IF n = "err" THEN T_bool ELSE T_str] >>,
              heap |-> <<>>, out |-> <<>>, stop |-> FALSE, inq |-> <<>>, evi |-> 0, evb |-> <<>>,
              tt |-> 0, tf |-> 0, xc |-> 0, rn |-> 0, ns |-> 0, yl |-> FALSE, oas |-> 0, dz |-> FALSE, msgs |-> <<>>]

\* families define  FamInit == InitWith(<their case set>)
InitWith(CaseSet) == /\ cs \in CaseSet
                     /\ st = Block([InitState EXCEPT !.inq = cs.inputs], cs.prog.main)

Step == /\ st.status = "run"
        /\ st' = [StepFn(st) EXCEPT !.ns = st.ns + 1]
        /\ UNCHANGED cs

RaiseStop == /\ StopMode = "any"
             /\ st.status = "run" /\ ~st.stop /\ st.ctl.m = "e"
             /\ st' = [st EXCEPT !.stop = TRUE, !.yl = TRUE, !.oas = Len(st.out)]
             /\ UNCHANGED cs

Deliver == /\ st.status = "idle"
           /\ st.evi < Len(TheCase.events)
           /\ st' = DeliverFn(st)
           /\ UNCHANGED cs

Next == Step \/ RaiseStop \/ Deliver


Terminal == st.status \notin {"run"} /\ ~(st.status = "idle" /\ st.evi < Len(TheCase.events))

---------------------------------------------------------------------------
(* properties of the machine itself (checked by TLC in every state) *)

\* progress: a well-formed program never reaches a configuration without a rule
NoStuck == st.status # "stuck"

\* every map object keeps keys and values in step, without duplicate keys
HeapWF == \A a \in DOMAIN st.heap :
             st.heap[a].t = "map" =>
               /\ Len(st.heap[a].ks) = Len(st.heap[a].el)
               /\ \A i, j \in DOMAIN st.heap[a].ks : i # j => st.heap[a].ks[i] # st.heap[a].ks[j]

RECURSIVE NoNestedAny(_, _)
NoNestedAny(v, heap) ==
  CASE v.t = "any" -> v.v.t # "any" /\ v.dy[1] # "any" /\ NoNestedAny(v.v, heap)
    [] v.t \in {"arr", "map"} -> \A i \in DOMAIN heap[v.a].el : heap[v.a].el[i].t # "none"
    [] OTHER -> TRUE

\* a value stored in an any always carries a concrete non-any type; no variable holds "none"
AnyConcrete == /\ \A i \in DOMAIN st.env : \A n \in DOMAIN st.env[i] :
                     st.env[i][n].t # "none" /\ NoNestedAny(st.env[i][n], st.heap)
               /\ \A a \in DOMAIN st.heap : \A i \in DOMAIN st.heap[a].el :
                     st.heap[a].el[i].t # "none" /\ NoNestedAny(st.heap[a].el[i], st.heap)

\* preservation: every variable holds a value of the static type it was declared with
TypeSound == \A i \in DOMAIN st.env : \A n \in DOMAIN st.env[i] : Inhabits(st.env[i][n], st.tenv[i][n], st.heap)

\* effects only grow
OutGrows == [][\/ Len(st'.out) >= Len(st.out) /\ SubSeq(st'.out, 1, Len(st.out)) = st.out]_vars

\* once the stop flag is up no new evaluation step starts: at most the step in
\* progress completes, so at most one more effect (plus the test summary)
StopFreezes == [][st.stop /\ ~st.yl /\ st.ctl.m = "e" /\ st.status = "run" => st'.status = "stopped"]_vars
\* ... so that at most one more effect happens after the raise (the test summary aside)
AtMostOneMore == (st.stop /\ st.status = "run") => Len(st.out) <= st.oas + 1

---------------------------------------------------------------------------
(* emission of behaviours for the conformance harness: in every terminal    *)
(* state one JSON line = the program text in three layouts, its environment *)
(* and everything the platform must have observed                           *)

ResultOf(s) ==
  CASE s.status \in {"done", "idle"} -> <<"ok">>
    [] s.status = "exit" -> <<"exit:" \o ToString(s.xc)>>
    [] s.status = "panic:indexany" -> <<"panic:bounds", "panic:indexvalue">>
    [] s.status = "panic:fmtverb" -> <<"panic:badargs", "panic:other", "panic:user">>
    [] OTHER -> <<s.status>>

MainEnd(s) == IF Len(s.evb) > 0 THEN s.evb[1] ELSE Len(s.out)

EventExpect(s) ==
  [i \in 1..s.evi |->
     [effects |-> SubSeq(s.out, s.evb[i] + 1, IF i < s.evi THEN s.evb[i + 1] ELSE Len(s.out)),
      result |-> IF ~HasHandler(TheCase.events[i].ev) THEN <<"nohandler">>
                 ELSE IF i < s.evi \/ s.status = "idle" THEN <<"ok">> ELSE ResultOf(s)]]

GlobalNames(s) == (DOMAIN s.env[1]) \ {"err", "errmsg"}
GlobalsOf(s) == [n \in GlobalNames(s) |->
                   IF ValPrintable(s.env[1][n], s.heap) THEN [ok |-> TRUE, cp |-> ValCps(s.env[1][n], s.heap, FALSE)]
                   ELSE [ok |-> FALSE, cp |-> <<>>]]

CaseJson(s) ==
  [fam |-> TheCase.fam, class |-> TheCase.class, tag |-> TheCase.tag,
   srcs |-> [ly \in Lys |-> RProg(TheProg, ly)],
   inputs |-> [i \in DOMAIN TheCase.inputs |-> [cp |-> TheCase.inputs[i]]],
   events |-> [i \in 1..s.evi |-> [name |-> TheCase.events[i].ev, args |-> TheCase.events[i].args]],
   failFast |-> TheCase.failFast, noTestSummary |-> TheCase.noSummary,
   stopped |-> s.stop, steps |-> s.ns, cut |-> FALSE,
   \* final globals (print form) and whether a division or modulo by zero was evaluated (C16)
   globals |-> GlobalsOf(s), divz |-> s.dz,
   \* soundOnly: the documentation leaves the rest of this behaviour open; only "never goes wrong"
   \* (and the effects so far being a prefix) can be demanded of the implementation
   soundOnly |-> s.status = "unspec",
   \* the messages of failed tests are part of the final error only when the run ends as a failed test run
   expect |-> [errContains |-> IF s.status = "testfail" THEN s.msgs ELSE <<>>,
               effects |-> SubSeq(s.out, 1, MainEnd(s)),
               result |-> IF s.evi > 0 THEN <<"ok">> ELSE ResultOf(s),
               events |-> EventExpect(s)]]

\* always TRUE; used as a state CONSTRAINT (exhaustive runs) or INVARIANT (simulation)
Emit == (Terminal /\ st.status # "stuck") => PrintT(ToJson(CaseJson(st)))

\* a case with defaults
MkCase(fam, class, prog) == [fam |-> fam, class |-> class, prog |-> prog, inputs |-> <<>>, events |-> <<>>,
                             failFast |-> FALSE, noSummary |-> FALSE, tag |-> <<>>]

=============================================================================
