------------------------------- MODULE EvyAst -------------------------------
(***************************************************************************)
(* Abstract syntax of Evy with its static semantics built into the         *)
(* constructors (docs/spec.md: Types, Variables and Declarations,          *)
(* Operators and Expressions, Index and Slice, Typeof, Assignability).     *)
(*                                                                         *)
(* Every expression node carries                                           *)
(*    ty  its static type                                                  *)
(*    cn  TRUE iff it is a constant in the sense of spec.md Assignability  *)
(*        (a literal, or an expression that only contains constants)       *)
(* and the constructors insert the `wrap` nodes (conversion of a value to  *)
(* the dynamic type any) exactly where spec.md says a value is converted:  *)
(* that is what a later typeof / type assertion observes.                  *)
(***************************************************************************)
EXTENDS EvyBase

IsComposite(ty) == ty[1] \in {"arr", "map"}
IsEmptyLitTy(ty) == IsComposite(ty) /\ Len(ty) = 2 /\ ty[2] = "none"

RECURSIVE Combine2(_, _, _, _)
\* strictest common type of two element types (spec.md Variables and Declarations)
Combine2(a, ca, b, cb) ==
  IF a = b THEN a
  ELSE IF IsComposite(a) /\ IsComposite(b) /\ a[1] = b[1] /\ ca /\ cb THEN
         IF IsEmptyLitTy(b) THEN a
         ELSE IF IsEmptyLitTy(a) THEN b
         ELSE <<a[1]>> \o Combine2(Tail(a), TRUE, Tail(b), TRUE)
  ELSE T_any

RECURSIVE CombineFrom(_, _, _, _)
CombineFrom(xs, i, acc, accCn) ==
  IF i > Len(xs) THEN acc
  ELSE CombineFrom(xs, i + 1, Combine2(acc, accCn, xs[i].ty, xs[i].cn), accCn /\ xs[i].cn)
CombineAll(xs) == CombineFrom(xs, 2, xs[1].ty, xs[1].cn)

ENum(n)  == [k |-> "num", n |-> n, ty |-> T_num, cn |-> TRUE]
EStr(cp) == [k |-> "str", cp |-> cp, ty |-> T_str, cn |-> TRUE]
EBool(b) == [k |-> "bool", b |-> b, ty |-> T_bool, cn |-> TRUE]
EVar(nm, ty) == [k |-> "var", nm |-> nm, ty |-> ty, cn |-> FALSE]
EWrapRaw(x) == [k |-> "wrap", x |-> x, ty |-> T_any, cn |-> x.cn]

RECURSIVE InferE(_)
\* fix the type of untyped empty literals inside e ([] becomes []any ...)
InferE(e) ==
  CASE e.k = "arr" -> [e EXCEPT !.ty = InferTy(e.ty), !.xs = [i \in DOMAIN e.xs |-> InferE(e.xs[i])]]
    [] e.k = "map" -> [e EXCEPT !.ty = InferTy(e.ty), !.xs = [i \in DOMAIN e.xs |-> InferE(e.xs[i])]]
    [] e.k = "grp" -> IF IsComposite(e.ty) THEN LET y == InferE(e.x) IN [e EXCEPT !.x = y, !.ty = y.ty] ELSE e
    [] e.k = "bin" -> [e EXCEPT !.ty = InferTy(e.ty)]
    [] OTHER       -> e

RECURSIVE Conv(_, _)
\* the value e in a context that requires type target (declaration, assignment,
\* parameter, return, element of a literal): identity, conversion to any, or
\* conversion of a constant composite to an any-based composite
Conv(e, target) ==
  IF e.ty = target THEN e
  ELSE IF target = T_any THEN EWrapRaw(InferE(e))
  ELSE IF Len(target) = 1 THEN e                    \* generic [] / {} parameters of builtins
  ELSE CASE e.k = "arr" -> [e EXCEPT !.ty = target, !.xs = [i \in DOMAIN e.xs |-> Conv(e.xs[i], Tail(target))]]
         [] e.k = "map" -> [e EXCEPT !.ty = target, !.xs = [i \in DOMAIN e.xs |-> Conv(e.xs[i], Tail(target))]]
         [] e.k = "grp" -> [e EXCEPT !.ty = target, !.x = Conv(e.x, target)]
         [] e.k = "bin" -> [e EXCEPT !.ty = target, !.l = Conv(e.l, target), !.r = Conv(e.r, target)]
         [] OTHER       -> e

EArr(xs) ==
  IF Len(xs) = 0 THEN [k |-> "arr", xs |-> <<>>, ty |-> T_earr, cn |-> TRUE]
  ELSE LET sub == CombineAll(xs)
       IN [k |-> "arr", xs |-> [i \in DOMAIN xs |-> Conv(xs[i], sub)], ty |-> TArr(sub),
           cn |-> \A i \in DOMAIN xs : xs[i].cn]

\* ks: keys (code-point sequences, identifiers), xs: value expressions, same length
EMap(ks, xs) ==
  IF Len(xs) = 0 THEN [k |-> "map", ks |-> <<>>, xs |-> <<>>, ty |-> T_emap, cn |-> TRUE]
  ELSE LET sub == CombineAll(xs)
       IN [k |-> "map", ks |-> ks, xs |-> [i \in DOMAIN xs |-> Conv(xs[i], sub)], ty |-> TMap(sub),
           cn |-> \A i \in DOMAIN xs : xs[i].cn]

EUn(op, x) == [k |-> "un", op |-> op, x |-> x, ty |-> x.ty, cn |-> x.cn]

IsCmp(op) == op \in {"==", "!=", "<", "<=", ">", ">="}
BinTy(op, l, r) == IF IsCmp(op) THEN T_bool
                   ELSE IF IsEmptyLitTy(l.ty) /\ op = "+" THEN r.ty
                   ELSE l.ty
EBin(op, l, r) == [k |-> "bin", op |-> op, l |-> l, r |-> r, ty |-> BinTy(op, l, r),
                   cn |-> l.cn /\ r.cn]

EIdx(x, i) == [k |-> "idx", x |-> x, i |-> i,
               ty |-> IF x.ty = T_str THEN T_str ELSE Tail(x.ty), cn |-> x.cn /\ i.cn]
\* lo, hi: sequences of length 0 (bound missing) or 1
ESlice(x, lo, hi) == [k |-> "slice", x |-> x, lo |-> lo, hi |-> hi, ty |-> x.ty,
                      cn |-> x.cn /\ (\A j \in DOMAIN lo : lo[j].cn) /\ (\A j \in DOMAIN hi : hi[j].cn)]
EDot(x, key) == [k |-> "dot", x |-> x, key |-> key, ty |-> Tail(x.ty), cn |-> x.cn]
EAssert(x, ty) == [k |-> "assert", x |-> x, ty |-> ty, cn |-> FALSE]
EGrp(x) == [k |-> "grp", x |-> x, ty |-> x.ty, cn |-> x.cn]

---------------------------------------------------------------------------
(* built-in signatures (docs/builtins.md "Reference" lines): parameter      *)
(* types ps, variadic element type vp (<<>> if none), return type rt        *)

Sig(ps, vp, rt) == [ps |-> ps, vp |-> vp, rt |-> rt]
T_garr == <<"arr">>     \* any array  (generic parameter of join)
T_gmap == <<"map">>     \* any map    (generic parameter of has, del)

BuiltinSig(f) ==
  CASE f \in {"print", "printf", "test"} -> Sig(<<>>, <<T_any>>, T_none)
    [] f \in {"sprint", "sprintf", "repr"} -> Sig(<<>>, <<T_any>>, T_str)
    [] f = "read"   -> Sig(<<>>, <<>>, T_str)
    [] f = "cls"    -> Sig(<<>>, <<>>, T_none)
    [] f = "join"   -> Sig(<<T_garr, T_str>>, <<>>, T_str)
    [] f = "split"  -> Sig(<<T_str, T_str>>, <<>>, TArr(T_str))
    [] f \in {"upper", "lower"} -> Sig(<<T_str>>, <<>>, T_str)
    [] f = "index"  -> Sig(<<T_str, T_str>>, <<>>, T_num)
    [] f \in {"startswith", "endswith"} -> Sig(<<T_str, T_str>>, <<>>, T_bool)
    [] f = "trim"   -> Sig(<<T_str, T_str>>, <<>>, T_str)
    [] f = "replace" -> Sig(<<T_str, T_str, T_str>>, <<>>, T_str)
    [] f = "str2num" -> Sig(<<T_str>>, <<>>, T_num)
    [] f = "str2bool" -> Sig(<<T_str>>, <<>>, T_bool)
    [] f = "typeof" -> Sig(<<T_any>>, <<>>, T_str)
    [] f = "len"    -> Sig(<<T_any>>, <<>>, T_num)
    [] f = "has"    -> Sig(<<T_gmap, T_str>>, <<>>, T_bool)
    [] f = "del"    -> Sig(<<T_gmap, T_str>>, <<>>, T_none)
    [] f \in {"sleep", "exit", "circle", "width"} -> Sig(<<T_num>>, <<>>, T_none)
    [] f \in {"panic", "color", "colour", "stroke", "fill", "linecap", "text"} -> Sig(<<T_str>>, <<>>, T_none)
    [] f = "rand"   -> Sig(<<T_num>>, <<>>, T_num)
    [] f = "rand1"  -> Sig(<<>>, <<>>, T_num)
    [] f \in {"min", "max", "pow", "atan2"} -> Sig(<<T_num, T_num>>, <<>>, T_num)
    [] f \in {"abs", "floor", "ceil", "round", "log", "sqrt", "sin", "cos"} -> Sig(<<T_num>>, <<>>, T_num)
    [] f \in {"move", "line", "rect"} -> Sig(<<T_num, T_num>>, <<>>, T_none)
    [] f = "hsl"    -> Sig(<<>>, <<T_num>>, T_str)
    [] f = "clear"  -> Sig(<<>>, <<T_str>>, T_none)
    [] f = "grid"   -> Sig(<<>>, <<>>, T_none)
    [] f = "gridn"  -> Sig(<<T_num, T_str>>, <<>>, T_none)
    [] f = "poly"   -> Sig(<<>>, <<TArr(T_num)>>, T_none)
    [] f = "ellipse" -> Sig(<<>>, <<T_num>>, T_none)
    [] f = "dash"   -> Sig(<<>>, <<T_num>>, T_none)
    [] f = "font"   -> Sig(<<TMap(T_any)>>, <<>>, T_none)
    [] OTHER        -> Sig(<<>>, <<>>, T_none)

Builtins == {"print", "printf", "test", "sprint", "sprintf", "repr", "read", "cls", "join", "split",
             "upper", "lower", "index", "startswith", "endswith", "trim", "replace", "str2num",
             "str2bool", "typeof", "len", "has", "del", "sleep", "exit", "circle", "width", "panic",
             "color", "colour", "stroke", "fill", "linecap", "text", "rand", "rand1", "min", "max",
             "pow", "atan2", "abs", "floor", "ceil", "round", "log", "sqrt", "sin", "cos", "move",
             "line", "rect", "hsl", "clear", "grid", "gridn", "poly", "ellipse", "dash", "font"}

\* arguments converted to the parameter types of signature sg
ConvArgs(sg, xs) == [i \in DOMAIN xs |->
                       Conv(xs[i], IF i <= Len(sg.ps) THEN sg.ps[i] ELSE sg.vp[1])]

\* call of a built-in (expression or statement position)
ECallB(f, xs) == [k |-> "call", f |-> f, xs |-> ConvArgs(BuiltinSig(f), xs),
                  ty |-> BuiltinSig(f).rt, cn |-> FALSE]
\* call of a user function with signature sg
ECallU(f, sg, xs) == [k |-> "call", f |-> f, xs |-> ConvArgs(sg, xs), ty |-> sg.rt, cn |-> FALSE]

---------------------------------------------------------------------------
(* statements *)

SDecl(nm, ty)   == [k |-> "decl", nm |-> nm, ty |-> ty]
SInfer(nm, x)   == [k |-> "infer", nm |-> nm, x |-> InferE(x)]
\* tg: a var / idx / dot expression; the value is converted to the target's type
SAsg(tg, x)     == [k |-> "asg", tg |-> tg, x |-> Conv(x, tg.ty)]
SCall(c)        == [k |-> "callst", x |-> c]
SRet(xs)        == [k |-> "ret", xs |-> xs]              \* xs: 0 or 1 (already converted) expressions
SRetV(x, rt)    == [k |-> "ret", xs |-> <<Conv(x, rt)>>]
SBrk            == [k |-> "brk"]
\* cs: conditions, bs: blocks (same length), el: 0 or 1 else-blocks
SIf(cs, bs, el) == [k |-> "if", cs |-> cs, bs |-> bs, el |-> el]
SWhile(c, ss)   == [k |-> "while", c |-> c, ss |-> ss]
\* nm = "" for a loop without variable; kd in {"num","arr","str","map"}
SFor(nm, kd, xs, ss) == [k |-> "for", nm |-> nm, kd |-> kd, xs |-> xs, ss |-> ss]

\* functions and handlers; ps: <<[nm, ty]>>, vp: 0 or 1 [nm, ty], rt: return type
Param(nm, ty) == [nm |-> nm, ty |-> ty]
FuncDef(nm, ps, vp, rt, ss) == [nm |-> nm, ps |-> ps, vp |-> vp, rt |-> rt, ss |-> ss]
FSig(fd) == Sig([i \in DOMAIN fd.ps |-> fd.ps[i].ty], [i \in DOMAIN fd.vp |-> fd.vp[i].ty], fd.rt)
Handler(ev, ps, ss) == [ev |-> ev, ps |-> ps, ss |-> ss]

\* a program: top-level statements, function definitions, event handlers;
\* fl = TRUE renders the function definitions after the top-level code
Program(main, funcs, hs) == [main |-> main, funcs |-> funcs, hs |-> hs, fl |-> FALSE]

=============================================================================
