------------------------------ MODULE FmtWrite ------------------------------
(***************************************************************************)
(* C18: `evy fmt -w FILE` replaces a source file atomically, `evy fmt -c`   *)
(* only looks.  One action per file-system call of main.go (fmtCmd.Run,     *)
(* fmtEvyFile / fmtTxtarFile, format, writeAtomically):                     *)
(*                                                                         *)
(*   os.ReadFile        open_src, stat_src, read_src*, close_src            *)
(*   format             ParseOK / ParseFail              (no system call)   *)
(*   os.CreateTemp      create_tmp  (same directory, O_EXCL)                *)
(*   tempFile.Write     write_tmp   (possibly in parts)                     *)
(*   (intended)         chmod_tmp   the temp file gets the target's mode    *)
(*   tempFile.Close     close_tmp                                           *)
(*   os.Rename          stat_tgt, rename                                    *)
(*   (optional)         unlink_tmp  when giving up                          *)
(*   os.Exit            exit                                                *)
(*                                                                         *)
(* Deliberate deviation from the code as it is: the INTENDED protocol       *)
(* (Variant = "intended") restores the permission bits on the temp file     *)
(* before the rename (the property demands unchanged permission bits at     *)
(* every moment); Variant = "asimpl" drops that guard (what main.go does),  *)
(* Variant = "inplace" truncates and rewrites the target.  TLC proves       *)
(* Atomic for "intended"; for the other two it must find states violating   *)
(* it (operator Refuted: a sanity check that the invariant can fail; with   *)
(* Variant = "all" one TLC run covers the three protocols).                 *)
(*                                                                         *)
(* Faults: at most one per behaviour.  Fail(c, errno) - call c returns an   *)
(* error and has no effect; Kill(c) - the process receives SIGKILL at the   *)
(* entry of call c (any call enabled in the current state, so a kill is     *)
(* possible in every state).  Calls in Essential abort the run when they    *)
(* fail; the others (fstat of the source, closing it, lstat of the target,  *)
(* unlink of the temp file, calls that do not touch the directory at all)   *)
(* may be ignored or may make the program give up - both are allowed.       *)
(*                                                                         *)
(* Content is abstract: "orig" (the complete original text), "fmt" (the     *)
(* complete formatted text), "partial", "empty".  For an input that is      *)
(* already formatted (kind "fmtd") the two texts coincide; the binding      *)
(* compares bytes, so that is harmless.                                     *)
(***************************************************************************)
EXTENDS Naturals, Sequences, FiniteSets, TLC, Json

CONSTANT Variant      \* "intended" | "asimpl" | "inplace" | "all" (each behaviour picks one)

Modes   == {"0644", "0600", "0755", "0444"}
TmpMode == "0600"                   \* what os.CreateTemp asks for
Kinds   == {"unfmt", "fmtd", "bad"} \* parses+changes, parses+fixed point, does not parse
Errnos  == {"ENOSPC", "EIO", "EACCES", "EPERM"}
Ops     == {"write", "check", "checkstdin"}

FsCalls   == {"open_src", "stat_src", "read_src", "close_src", "create_tmp", "write_tmp",
              "chmod_tmp", "close_tmp", "stat_tgt", "rename", "unlink_tmp", "other"}
Calls     == FsCalls \cup {"exit"}
Essential == {"open_src", "read_src", "create_tmp", "write_tmp", "chmod_tmp", "close_tmp", "rename"}

VARIABLES
  variant, \* the protocol of this behaviour (never changes)
  op,      \* which command line
  files,   \* kinds of the files named on the command line (never changes)
  cur,     \* index of the file being processed
  omode,   \* permission bits of the target before the run
  target,  \* [exists, content, mode] of the file(s) named on the command line
  temp,    \* [exists, content, mode, open] of the temporary file
  srcopen, \* the read-only descriptor on the target is open
  pc,
  fault,   \* the one fault of this behaviour, once it has happened
  exit     \* "none" | "zero" | "nonzero" | "killed"

vars == <<variant, op, files, cur, omode, target, temp, srcopen, pc, fault, exit>>

NoTemp  == [exists |-> FALSE, content |-> "none", mode |-> "none", open |-> FALSE]
NoFault == [type |-> "none", call |-> "-", errno |-> "-"]
kind    == files[cur]
Target0(m) == [exists |-> TRUE, content |-> "orig", mode |-> m]

Variants == IF Variant = "all" THEN {"intended", "asimpl", "inplace"} ELSE {Variant}

InitFor(o, fs, m) ==
  \* the deviating protocols are only there to be refuted: one input, one mode is enough
  /\ variant \in (IF o = "write" /\ fs = <<"unfmt">> /\ m = "0644" THEN Variants ELSE {"intended"})
  /\ op = o /\ files = fs /\ cur = 1 /\ omode = m
  /\ target = Target0(m) /\ temp = NoTemp /\ srcopen = FALSE
  /\ pc = "start" /\ fault = NoFault /\ exit = "none"

Init ==
  \/ \E k \in Kinds, m \in Modes : InitFor("write", <<k>>, m)
  \/ \E k \in Kinds, m \in Modes : InitFor("check", <<k>>, m)
  \/ \E k1 \in Kinds, k2 \in Kinds : InitFor("check", <<k1, k2>>, "0644")
  \/ \E k \in Kinds : InitFor("checkstdin", <<k>>, "0644")

Running  == exit = "none"
Aborting == pc = "abort" \/ fault.type = "err"

---------------------------------------------------------------------------
(* when may call c be issued *)
CallEnabled(c) ==
  /\ Running
  /\ CASE c = "open_src"   -> pc = "start" /\ op # "checkstdin"
       [] c = "stat_src"   -> srcopen
       [] c = "read_src"   -> srcopen /\ pc \in {"opened", "read"}
       [] c = "close_src"  -> srcopen /\ pc # "opened"
       [] c = "create_tmp" -> pc = "parsed" /\ op = "write" /\ variant # "inplace"
       [] c = "write_tmp"  -> pc = "created" /\ temp.open
       [] c = "chmod_tmp"  -> temp.exists /\ pc \in {"created", "written"}
       [] c = "close_tmp"  -> temp.open /\ pc \in {"written", "abort"}
       [] c = "stat_tgt"   -> TRUE
       [] c = "rename"     -> pc = "written" /\ ~temp.open /\ temp.content = "fmt"
       [] c = "unlink_tmp" -> Aborting /\ temp.exists
       [] c = "other"      -> TRUE
       [] c = "exit"       -> pc = "done" \/ Aborting
       [] OTHER            -> FALSE

(* the effect of a successful call *)
OpenSrc  == /\ CallEnabled("open_src") /\ srcopen' = TRUE /\ pc' = "opened"
            /\ UNCHANGED <<variant, op, files, cur, omode, target, temp, fault, exit>>
StatSrc  == CallEnabled("stat_src") /\ UNCHANGED vars
ReadSrc  == /\ CallEnabled("read_src") /\ pc' = "read"
            /\ UNCHANGED <<variant, op, files, cur, omode, target, temp, srcopen, fault, exit>>
ReadStdin == /\ Running /\ op = "checkstdin" /\ pc = "start" /\ pc' = "read"
             /\ UNCHANGED <<variant, op, files, cur, omode, target, temp, srcopen, fault, exit>>
CloseSrc == /\ CallEnabled("close_src") /\ srcopen' = FALSE
            /\ UNCHANGED <<variant, op, files, cur, omode, target, temp, pc, fault, exit>>
StatTgt  == CallEnabled("stat_tgt") /\ UNCHANGED vars
Other    == CallEnabled("other") /\ UNCHANGED vars

\* format(): nothing is written before the whole input has parsed
ParseOK   == /\ Running /\ pc = "read" /\ kind # "bad" /\ pc' = "parsed"
             /\ UNCHANGED <<variant, op, files, cur, omode, target, temp, srcopen, fault, exit>>
ParseFail == /\ Running /\ pc = "read" /\ kind = "bad" /\ pc' = "abort"
             /\ UNCHANGED <<variant, op, files, cur, omode, target, temp, srcopen, fault, exit>>

\* fmt -c: compare, never write; the next file only after a formatted one
CheckMode == /\ Running /\ pc = "parsed" /\ op \in {"check", "checkstdin"}
             /\ IF kind # "fmtd" THEN pc' = "abort" /\ cur' = cur
                ELSE IF cur < Len(files) THEN pc' = "start" /\ cur' = cur + 1
                ELSE pc' = "done" /\ cur' = cur
             /\ UNCHANGED <<variant, op, files, omode, target, temp, srcopen, fault, exit>>

\* fmt -w on a file that is already formatted may skip the rewrite
NoChange == /\ Running /\ pc = "parsed" /\ op = "write" /\ kind = "fmtd" /\ pc' = "done"
            /\ UNCHANGED <<variant, op, files, cur, omode, target, temp, srcopen, fault, exit>>

CreateTemp(m) == /\ CallEnabled("create_tmp")
                 /\ temp' = [exists |-> TRUE, content |-> "empty", mode |-> m, open |-> TRUE]
                 /\ pc' = "created"
                 /\ UNCHANGED <<variant, op, files, cur, omode, target, srcopen, fault, exit>>
WritePart == /\ CallEnabled("write_tmp") /\ temp' = [temp EXCEPT !.content = "partial"]
             /\ UNCHANGED <<variant, op, files, cur, omode, target, srcopen, pc, fault, exit>>
WriteAll  == /\ CallEnabled("write_tmp") /\ temp' = [temp EXCEPT !.content = "fmt"] /\ pc' = "written"
             /\ UNCHANGED <<variant, op, files, cur, omode, target, srcopen, fault, exit>>
Chmod(m)  == /\ CallEnabled("chmod_tmp") /\ temp' = [temp EXCEPT !.mode = m]
             /\ UNCHANGED <<variant, op, files, cur, omode, target, srcopen, pc, fault, exit>>
CloseTmp  == /\ CallEnabled("close_tmp") /\ temp' = [temp EXCEPT !.open = FALSE]
             /\ UNCHANGED <<variant, op, files, cur, omode, target, srcopen, pc, fault, exit>>
\* the only step that changes the target: it takes over content AND mode of the temp file
Rename    == /\ CallEnabled("rename")
             /\ (variant = "intended" => temp.mode = omode)   \* the mode was restored (Chmod) before
             /\ target' = [exists |-> TRUE, content |-> temp.content, mode |-> temp.mode]
             /\ temp' = NoTemp /\ pc' = "done"
             /\ UNCHANGED <<variant, op, files, cur, omode, srcopen, fault, exit>>
Cleanup   == /\ CallEnabled("unlink_tmp") /\ temp' = NoTemp /\ pc' = "abort"
             /\ UNCHANGED <<variant, op, files, cur, omode, target, srcopen, fault, exit>>
Exit(s)   == /\ CallEnabled("exit")
             /\ \/ s = "zero" /\ pc = "done"
                \/ s = "nonzero" /\ Aborting
             /\ exit' = s
             /\ UNCHANGED <<variant, op, files, cur, omode, target, temp, srcopen, pc, fault>>

\* Variant "inplace" only: O_TRUNC open of the target, then write it (what a naive fmt -w does)
TruncTarget == /\ Running /\ variant = "inplace" /\ pc = "parsed" /\ op = "write"
               /\ target' = [target EXCEPT !.content = "empty"] /\ pc' = "created"
               /\ UNCHANGED <<variant, op, files, cur, omode, temp, srcopen, fault, exit>>
WriteTarget == /\ Running /\ variant = "inplace" /\ pc = "created" /\ ~temp.exists
               /\ \/ target' = [target EXCEPT !.content = "partial"] /\ pc' = pc
                  \/ target' = [target EXCEPT !.content = "fmt"] /\ pc' = "done"
               /\ UNCHANGED <<variant, op, files, cur, omode, temp, srcopen, fault, exit>>

---------------------------------------------------------------------------
(* faults *)
Fail(c, e) ==
  /\ c \in FsCalls /\ CallEnabled(c) /\ fault = NoFault
  /\ fault' = [type |-> "err", call |-> c, errno |-> e]
  /\ pc' = IF c \in Essential THEN "abort" ELSE pc
  /\ IF c = "write_tmp"      \* a failing write may have written a part
     THEN temp' \in {temp, [temp EXCEPT !.content = "partial"]}
     ELSE temp' = temp
  /\ UNCHANGED <<variant, op, files, cur, omode, target, srcopen, exit>>

Kill(c) ==
  /\ CallEnabled(c) /\ fault = NoFault
  /\ fault' = [type |-> "kill", call |-> c, errno |-> "-"]
  /\ exit' = "killed"
  /\ UNCHANGED <<variant, op, files, cur, omode, target, temp, srcopen, pc>>

Step ==
  \/ OpenSrc \/ StatSrc \/ ReadSrc \/ ReadStdin \/ CloseSrc \/ StatTgt \/ Other
  \/ ParseOK \/ ParseFail \/ CheckMode \/ NoChange
  \/ \E m \in Modes : CreateTemp(m)
  \/ WritePart \/ WriteAll \/ Chmod(omode) \/ CloseTmp \/ Rename \/ Cleanup
  \/ Exit("zero") \/ Exit("nonzero")
  \/ TruncTarget \/ WriteTarget

Next ==
  \/ Step
  \/ \E c \in FsCalls, e \in Errnos : Fail(c, e)
  \/ \E c \in Calls : Kill(c)

Spec == Init /\ [][Next]_vars

---------------------------------------------------------------------------
(* the property *)
TypeOK ==
  /\ op \in Ops /\ omode \in Modes /\ cur \in 1..Len(files)
  /\ target.content \in {"orig", "fmt", "partial", "empty"} /\ target.mode \in Modes
  /\ temp.content \in {"none", "empty", "partial", "fmt"}
  /\ pc \in {"start", "opened", "read", "parsed", "created", "written", "done", "abort"}
  /\ exit \in {"none", "zero", "nonzero", "killed"}

\* at EVERY state (hence after a kill or a failure at any point)
Atomic == /\ target.exists
          /\ target.content \in {"orig", "fmt"}
          /\ target.mode = omode
AtomicIntended == variant = "intended" => Atomic
\* sanity: the invariant can fail.  States of the two deviating protocols that violate Atomic at the end of a
\* run are printed; the driver demands at least one witness per deviating variant.
Refuted == (variant # "intended" /\ ~Atomic /\ exit \in {"zero", "killed"} /\ fault.call \in {"-", "exit", "other"})
             => PrintT(ToJson([refuted |-> variant, omode |-> omode, content |-> target.content,
                               mode |-> target.mode, exit |-> exit, fault |-> fault]))

\* a file that does not parse is left untouched, exit status non-zero
ParseFailSafe == (op = "write" /\ kind = "bad") => (target = Target0(omode) /\ exit # "zero")

\* -c never writes; exit 0 exactly when every input is in formatted form
AllFormatted == \A i \in 1..Len(files) : files[i] = "fmtd"
CheckNeverWrites == op # "write" => (target = Target0(omode) /\ ~temp.exists)
CheckTruth == op # "write" =>
                /\ exit = "zero" => AllFormatted
                /\ (exit = "nonzero" /\ fault = NoFault) => ~AllFormatted
CheckIsPure == [][op # "write" => UNCHANGED <<target, temp>>]_vars

\* -w: success is only claimed once the file holds the formatted text
ExitTruth == op = "write" =>
                /\ exit = "zero" => (target.content = "fmt" \/ kind = "fmtd")
                /\ (exit = "nonzero" /\ fault = NoFault) => kind = "bad"
\* the target changes in one step, from orig to fmt, and only by the rename
OnlyRename == [][(variant = "intended" /\ target' # target) => (target.content = "orig" /\ target'.content = "fmt" /\ temp.exists /\ ~temp'.exists)]_vars

---------------------------------------------------------------------------
(* direction A: every terminal state is one expected outcome of one schedule *)
CaseJson == [op |-> op, files |-> files, omode |-> omode, fault |-> fault,
             expect |-> [content |-> target.content, mode |-> target.mode, exit |-> exit]]
Emit == (exit # "none" /\ variant = "intended") => PrintT(ToJson(CaseJson))
=============================================================================
