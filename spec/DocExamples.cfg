CONSTANTS
  StopMode = "none"
  Lys = {}
INIT DocInit
NEXT Next
INVARIANTS NoStuck HeapWF AnyConcrete
CONSTRAINT Emit
CHECK_DEADLOCK FALSE
