CONSTANTS
  StopMode = "none"
  Lys = {}
  MaxSteps = @MAXSTEPS@
INIT DocInit
NEXT Next
INVARIANTS NoStuck HeapWF AnyConcrete
CONSTRAINT Emit
CONSTRAINT WithinSteps
CHECK_DEADLOCK FALSE
