INIT Init
NEXT Next
INVARIANTS TypeOK
CONSTRAINT Emit
CHECK_DEADLOCK FALSE
