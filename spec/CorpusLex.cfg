INIT Init
NEXT Next
INVARIANTS PositionsRightLast Progress
CONSTRAINT Emit
CHECK_DEADLOCK FALSE
