"""C03 - parsing is total and every diagnostic is located."""
import glob
import json
import os
import random

from . import common, machine

replay_one = machine.replay_one
NA = 20
NH = 18      # size of FamMutate's header vocabulary

BINARY = [
    [0], [0xff], [0xc3], [0xe2, 0x82], [0xf0, 0x9f], [13], [13, 10], [0xef, 0xbb, 0xbf],
    list(b"print 1\x00print 2\n"), list(b"x := \"a\xffb\"\nprint x\n"), list(b"print \"\xc3\"\n"), list(b"a\xcc\x81 := 1\nprint a\xcc\x81\n"),
    list(b"print 1\r\nprint 2\r\n"), list(b"func"), list(b"func\n"), list(b"func \n"), list(b"on"), list(b"on\n"), list(b"func f:\n"),
    list(b"func f x\nend\n"), list(b"func f x:\nend\n"), list(b"for\n"), list(b"for x := range\n"), list(b"if\n"), list(b"while\nend\n"),
    list(b"x := [\n"), list(b"x := {a:\n"), list(b"x := {a:1\n"), list(b"print (\n"), list(b"print )\n"), list(b"x := 1 +\n"), list(b"\"\n"),
    list(b"\"\\\n"), list(b"//"), list(b"x.("), list(b"x:[]"), list(b"x:{}{}\n"), list(b"a[1:2:3]\n"), list(b"a := [1][\n"), list(b"end\n"),
    list(b"else\n"), list(b"return\n"), list(b"break\n"), list(b"func f\n return 1\nend\n"), list(b"on key k:num\n print k\nend\n"),
    list(b"x := 99999999999999999999999999999999999999999999999999999999999999999999999999999999999999999999999999e999\n"),
    list(b"x := " + b"(" * 3000 + b"1" + b")" * 3000 + b"\nprint x\n"), list(b"x := " + b"[" * 2000 + b"]" * 2000 + b"\nprint x\n"),
    list(b"x := " + b"-" * 5000 + b"1\nprint x\n"), list(b"x := 1" + b"+1" * 20000 + b"\nprint x\n"),
    list(("print " + "\u00e4" * 10000 + "\n").encode()), list(b"if true\n" * 500),
]


def edits(tier, rnd):
    e1 = set()
    npos = 260
    for kind in (1, 4, 5):
        for i in range(npos):
            e1.add(kind * 1000000 + i * 100)
    if tier == "quick":
        for _ in range(700):
            e1.add(rnd.choice((2, 3)) * 1000000 + rnd.randrange(npos) * 100 + rnd.randrange(40))
        n2 = 150
    else:
        for kind in (2, 3):
            for i in range(npos):
                for v in range(40):
                    e1.add(kind * 1000000 + i * 100 + v)
        n2 = 4000
    e2 = set()
    for _ in range(n2):
        e = rnd.choice((1, 2, 3, 4, 5)) * 1000000 + rnd.randrange(npos) * 100 + rnd.randrange(40)
        e2.add(e * 10 + rnd.randrange(10))
    return e1, e2


def tlaset(xs):
    return "{" + ", ".join(str(x) for x in sorted(xs)) + "}"


def run(chk):
    rnd = random.Random(common.seed())
    # (a) lexer: exhaustive short strings + sampled longer ones
    maxlen, slen, nsample = (3, 6, 400) if chk.tier == "quick" else (4, 7, 5000)
    sample = {rnd.randrange(NA ** slen) for _ in range(nsample)}
    res = common.run_tlc("FamLex", "FamLex.cfg", defines={"MAXLEN": maxlen, "SAMPLELEN": slen, "SAMPLE": tlaset(sample)}, timeout=1800)
    chk.add_tlc(res, "FamLex")
    cases = []
    for n, c in enumerate(res.cases):
        cases.append({"id": "lex-%d" % n, "stage": "lex", "inp": c["inp"], "toks": c["toks"], "class": "lex",
                      "expect": {"tokens": c["toks"]}})
    # (B) lexer on repository files, through the same specification
    files = sorted(glob.glob(os.path.join(common.REPO, "**", "*.evy"), recursive=True))
    small = [f for f in files if os.path.getsize(f) < (1500 if chk.tier == "quick" else 6000)]
    rnd.shuffle(small)
    small = small[: 30 if chk.tier == "quick" else 200]
    lines = []
    for f in small:
        try:
            text = open(f, encoding="utf-8").read()
        except Exception:
            continue
        lines.append(json.dumps({"file": os.path.relpath(f, common.REPO), "cp": [ord(ch) for ch in text]}))
    if lines:
        res2 = common.run_tlc("CorpusLex", "CorpusLex.cfg", extra_files=[(("\n".join(lines) + "\n").encode(), "corpus.ndjson")],
                              timeout=1800, java_opts=["-Xss1g"])
        chk.add_tlc(res2, "CorpusLex")
        for n, c in enumerate(res2.cases):
            cases.append({"id": "corpus-%d" % n, "stage": "lex", "inp": c["inp"], "toks": c["toks"], "class": "lex-corpus/" + c["file"],
                          "expect": {"tokens": "(%d tokens)" % len(c["toks"])}})
    # (b) parser: edits of valid programs
    e1, e2 = edits(chk.tier, rnd)
    hdr = set()
    full = 2 if chk.tier == "quick" else 3
    for ln in range(0, full + 1):
        for c in range(NH ** ln):
            hdr.add(ln * 10000000 + c)
    for ln, n in ((3, 500), (4, 500)) if chk.tier == "quick" else ((4, 20000), (5, 10000)):
        for _ in range(n):
            hdr.add(ln * 10000000 + rnd.randrange(NH ** ln))
    # headers after a keyword and a name, with bodies that use the parameter in every expression and statement form
    hdr2 = set()
    for ln in range(0, 4):
        for c in range(NH ** ln):
            hdr2.add(ln * 10000000 + c)
    if chk.tier != "quick":
        for _ in range(8000):
            hdr2.add(4 * 10000000 + rnd.randrange(NH ** 4))
    res3 = common.run_tlc("FamMutate", "FamMutate.cfg", defines={"TIER": chk.tier, "EDITS1": tlaset(e1), "EDITS2": tlaset(e2), "HEADERS": tlaset(hdr),
                                                                 "HEADERS2": tlaset(hdr2)}, timeout=1800)
    chk.add_tlc(res3, "FamMutate")
    for n, c in enumerate(res3.cases):
        cases.append({"id": "mut-%d" % n, "stage": "parsetotal", "src": c["src"],
                      "class": ("header/%d" % c["seed"]) if c["seed"] < 0 else "mutant/seed%d/%d/%d" % (c["seed"], c["e1"] // 1000000, c["e2"] // 1000000),
                      "expect": {"claim": "program XOR non-empty located errors; no crash; terminates"}})
    # what a learner has on the screen while typing: every character-level prefix of the seed programs (the whole
    # seed is the longest truncation mutant), behind a comment line of every length 0..15 (so that the prefix ends
    # at every alignment of the text length)
    whole = {}
    for c in res3.cases:
        if c["seed"] > 0 and c["e1"] // 1000000 == 5 and c["e2"] == 0:
            t = machine.text_of(c["src"])
            if len(t) > len(whole.get(c["seed"], "")):
                whole[c["seed"]] = t
    npre = 0
    for sd, t in sorted(whole.items()):
        ks = range(len(t) + 1)
        pads = range(16)
        if chk.tier == "quick":
            # every prefix that ends inside or just after a string literal, escape or comment, and a seed-chosen third of the others
            ks = [k for k in ks if (k > 0 and t[k - 1] in '"\\/.') or rnd.random() < 0.34]
        for k in ks:
            for pad in pads:
                cases.append({"id": "pre-%d-%d-%d" % (sd, k, pad), "stage": "parsetotal", "src": ["//" + "x" * pad + "\n" + t[:k]],
                              "class": "prefix/seed%d" % sd, "expect": {"claim": "program XOR non-empty located errors; no crash; terminates; token positions exist"}})
                npre += 1
    chk.extra["character_prefixes"] = npre
    # the repository's own programs, damaged the way an editor session damages them: a span deleted, a line
    # duplicated or moved, two words swapped, a word of another place or of the vocabulary inserted, cut anywhere
    vocab = ["func", "on", "end", "if", "else", "while", "for", "range", "return", "break", ":=", "=", ":", "...", "[", "]", "{", "}", "(", ")",
             ".", ".(", "[]", "{}", "num", "string", "bool", "any", "\"", "//", "+", "-", "*", "/", "%", "==", "!", "and", "or", "1", "x", "\n"]
    texts = []
    for f in files:
        try:
            t = open(f, encoding="utf-8").read()
        except Exception:
            continue
        if 0 < len(t) < 4000:
            texts.append((os.path.relpath(f, common.REPO), t))
    rnd.shuffle(texts)
    texts = texts[: 60 if chk.tier == "quick" else 400]
    ndam = 0
    for rel, t in texts:
        for k in range(40 if chk.tier == "quick" else 150):
            kind = rnd.randrange(7)
            lines = t.split("\n")
            words = t.split(" ")
            if kind == 0:
                a = rnd.randrange(len(t)); m = t[:a] + t[a + 1 + rnd.randrange(12):]
            elif kind == 1:
                a = rnd.randrange(len(lines)); m = "\n".join(lines[:a] + [lines[a]] + lines[a:])
            elif kind == 2:
                a, b = rnd.randrange(len(lines)), rnd.randrange(len(lines)); ls = list(lines); ls[a], ls[b] = ls[b], ls[a]; m = "\n".join(ls)
            elif kind == 3 and len(words) > 1:
                a, b = rnd.randrange(len(words)), rnd.randrange(len(words)); ws = list(words); ws[a], ws[b] = ws[b], ws[a]; m = " ".join(ws)
            elif kind == 4:
                a = rnd.randrange(len(t) + 1); m = t[:a] + rnd.choice(vocab) + t[a:]
            elif kind == 5:
                a = rnd.randrange(len(t) + 1); m = t[:a] + " " + rnd.choice(vocab) + " " + t[a:]
            else:
                m = t[:rnd.randrange(len(t) + 1)]
            cases.append({"id": "dam-%d" % ndam, "stage": "parsetotal", "src": [m], "class": "damaged/" + rel,
                          "expect": {"claim": "program XOR non-empty located errors; no crash; terminates; token positions exist"}})
            ndam += 1
    chk.extra["damaged_repository_programs"] = ndam
    for n, b in enumerate(BINARY):
        cases.append({"id": "bin-%d" % n, "stage": "parsetotal", "src": [{"bytes": b}], "class": "binary/%d" % n,
                      "expect": {"claim": "program XOR non-empty located errors; no crash; terminates"}})
    results = common.replay(cases, deadline="20s", name="c03")
    shown = 0
    for c in cases:
        if shown < 4 and c["id"].startswith(("lex-1", "mut-7")):
            chk.sample({"input": machine.text_of([c.get("inp")] if "inp" in c else c["src"]), "class": c["class"], "expect": c["expect"]})
            shown += 1
    chk.take_results(cases, results, key=lambda c: c["id"])
    nacc = sum(1 for c in cases if (results[c["id"]].get("obs") or {}).get("verdict") == "accepted")
    nrej = sum(1 for c in cases if (results[c["id"]].get("obs") or {}).get("verdict") == "rejected")
    chk.extra.update({"lexer_inputs": sum(1 for c in cases if c["stage"] == "lex"), "mutants_accepted": nacc, "mutants_rejected": nrej,
                      "corpus_files_lexed": len(lines)})
    chk.rule = ("lexer: all strings up to length %d over a 20-character alphabet (blank, tab, newline, ASCII and non-ASCII letters, "
                "digit, dot, quote, backslash, operators, a non-letter symbol; for every input, spec or not: offsets increase, lie inside the input, EOF at its end, line/column of every token recomputed from its offset) plus %d seed-chosen strings of length %d and the texts of "
                "repository .evy files, token kinds/offsets/lines/columns from EvyLexer.tla; parser: every deletion, transposition and "
                "prefix, and (sampled in quick, all in thorough) insertions/substitutions from a 40-token vocabulary at every piece of three "
                "seed programs, pairs of edits, every character-level prefix of the seed programs behind a comment of each length 0..15, seed-chosen damage (deleted spans, duplicated / swapped lines, swapped words, inserted vocabulary, cuts) to repository programs, every sequence of up to 3 header tokens after `func f`, `func f:num`, `on key`, `on down` with bodies that use the "
                "parameter in every expression and statement form, and %d binary / truncated / deeply nested inputs; non-trivial = distinct input"
                % (maxlen, nsample, slen, len(BINARY)))
    chk.exhaustive = False
    chk.assumptions += ["token extents of malformed stretches (several dots in a number, bad escape, unterminated string, CR, NUL) are not prescribed, their positions are",
                        "inputs of megabytes and nesting beyond a few thousand levels are outside the explored bounds"]
