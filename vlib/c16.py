"""C16 - compiled bytecode behaves like the tree-walking evaluator."""
from . import machine, vmtrace

replay_one = machine.replay_one


def run(chk):
    lys = ("canon",)
    res = machine.tlc_family(chk, "FamCompile", chk.tier, layouts=lys)
    cases = machine.expand(res.cases, "vm", layouts=lys, stage="compile")
    chk.rule = ("family FamCompile: top-level programs without user functions (operator x operand table, precedence pairs, "
                "arrays/maps, index/slice/store sweeps, numeric/array/string/map loops with break and block locals, if "
                "chains) whose results are global variables, plus one minimal program per node kind; three-way comparison "
                "of final globals / panic class: specification vs evaluator vs compiler+VM (a compile-time rejection is "
                "accepted); non-trivial = distinct program the compiler accepts")
    chk.exhaustive = True
    results = machine.replay_family(chk, cases)
    accepted = [c for c in cases if (results[c["id"]].get("obs") or {}).get("vm") not in (None, "rejected")]
    rejected = [c for c in cases if (results[c["id"]].get("obs") or {}).get("vm") == "rejected"]
    chk.nontrivial = {machine.text_of(c["src"]) for c in accepted}
    chk.extra["compiler_accepted"] = len(accepted)
    chk.extra["compiler_rejected"] = len(rejected)
    # direction B: the step traces of the real VM on these programs against the instruction-set specification
    vmtrace.run(chk, [(c["id"], machine.text_of(c["src"])) for c in cases])
    chk.assumptions += ["division or modulo by zero may be ErrDivideByZero on the VM (as the property states)"]
