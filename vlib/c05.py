"""C05 - invalid programs are rejected and nothing of them runs."""
import os
import random
import shutil
import subprocess

from . import common, machine

replay_one = machine.replay_one


def cli_case(text, tmp, i):
    """evy run on a file and on stdin: stdout empty, stderr non-empty, status != 0, no SVG written."""
    f = os.path.join(tmp, "p%d.evy" % i)
    svg = os.path.join(tmp, "p%d.svg" % i)
    open(f, "w", encoding="utf-8").write(text)
    problems = []
    for how in ("file", "stdin"):
        args = [common.EVY, "run", "--svg-out", svg] + ([f] if how == "file" else [])
        r = subprocess.run(args, input=text.encode() if how == "stdin" else b"line\n", capture_output=True, timeout=30)
        if r.returncode == 0:
            problems.append("evy run (%s) exits 0" % how)
        if r.stdout:
            problems.append("evy run (%s) wrote to stdout: %r" % (how, r.stdout[:80]))
        if not r.stderr:
            problems.append("evy run (%s) wrote nothing to stderr" % how)
        if os.path.exists(svg):
            problems.append("evy run (%s) created the SVG file" % how)
            os.remove(svg)
    return problems


def run(chk):
    res = common.run_tlc("FamBreak", "FamBreak.cfg", defines={"TIER": chk.tier}, timeout=900)
    chk.add_tlc(res, "FamBreak")
    cases = []
    for n, c in enumerate(res.cases):
        if c["extra"]:
            # text-level edit prescribed by the specification: append extra to the n-th line that is `end`
            lines = machine.text_of(c["src"]).split("\n")
            k = 0
            for i, l in enumerate(lines):
                if l.strip() == "end":
                    k += 1
                    if k == c["n"]:
                        lines[i] = l + c["extra"]
            c["src"] = ["\n".join(lines)]
        cases.append({"id": "brk-%d" % n, "stage": "reject", "src": c["src"], "valid": c["valid"],
                      "class": "%s@%s%s" % (c["rule"], c["site"], c["n"] or ""),
                      "expect": {"rejected": not c["valid"], "platform_calls": 0}})
    results = common.replay(cases, name="reject")
    for c in cases[:1] + cases[len(cases) // 2: len(cases) // 2 + 2]:
        chk.sample({"source": machine.text_of(c["src"]), "class": c["class"], "must_be_rejected": not c["valid"]})
    chk.take_results(cases, results, key=lambda c: machine.text_of(c["src"]), nontrivial=lambda c: not c["valid"])
    # CLI level
    common.build_evy()
    rnd = random.Random(common.seed())
    sel = [c for c in cases if not c["valid"]]
    if chk.tier == "quick":
        sel = rnd.sample(sel, min(60, len(sel)))
    tmp = common.scratch("c05cli")
    ncli = 0
    for i, c in enumerate(sel):
        probs = cli_case(machine.text_of(c["src"]), tmp, i)
        ncli += 1
        chk.evaluations += 1
        chk.traces += 1
        for p in probs:
            chk.mismatch("cli/" + c["class"], p, {"case": c})
    shutil.rmtree(tmp, ignore_errors=True)
    chk.extra["cli_runs"] = ncli * 2
    chk.rule = ("one effectful valid seed program x one rule-breaking edit, for %d static rules at every site where the rule "
                "applies (top level start/end, if, else-if, else, while, for, nested block, procedure, function, handler) and "
                "stray text after each of the 8 `end` lines; library entry point: parser.Errors with located entries, zero "
                "platform calls, zero yields; evy run on file and stdin: stdout empty, stderr non-empty, status != 0, no "
                "SVG; non-trivial = distinct mutant" % len({c["class"].split("@")[0] for c in cases}))
    chk.exhaustive = True
