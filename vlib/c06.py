"""C06 - formatting changes nothing but whitespace; C07 - formatting is canonical and idempotent.
Both properties are decided on the same groups of whitespace variants (family FamFormat)."""
import glob
import json
import os
import random
import shutil
import subprocess

from . import common, machine

C06_MARKS = ("token sequence", "formatted text is rejected", "different syntax tree", "behave differently")


def codes(tier, rnd):
    fixed = [0]
    # every trivia kind on every line, and alternating patterns
    for d in range(1, 7):
        fixed.append(sum(d * 7 ** i for i in range(9)))
    fixed += [sum(((i % 6) + 1) * 7 ** i for i in range(9)), sum(((2 * i) % 7) * 7 ** i for i in range(9))]
    n = 40 if tier == "quick" else 600
    return sorted(set(fixed + [rnd.randrange(7 ** 9) for _ in range(n)]))


def groups(chk, rnd):
    cs = codes(chk.tier, rnd)
    res = common.run_tlc("FamFormat", "FamFormat.cfg", defines={"TIER": chk.tier, "CODES": "{" + ", ".join(map(str, cs)) + "}"}, timeout=1500)
    chk.add_tlc(res, "FamFormat")
    cases = []
    for n, c in enumerate(res.cases):
        cases.append({"id": "fmt-%d" % n, "stage": "format", "variants": c["variants"], "hasFuncs": c["hasFuncs"],
                      "class": "prog%d/code%d/tail%d" % (c["prog"], c["code"], (c["code"] // 7) % 5),
                      "expect": {"laws": "C06 + C07 on 4 whitespace variants"}})
    return cases


def corpus_cases(chk, rnd):
    """Direction B: the repository's own .evy files as single-variant groups."""
    files = sorted(glob.glob(os.path.join(common.REPO, "**", "*.evy"), recursive=True))
    out = []
    for i, f in enumerate(files):
        try:
            text = open(f, encoding="utf-8").read()
        except Exception:
            continue
        rel = os.path.relpath(f, common.REPO)
        if "/testdata/" in rel and ("err" in os.path.basename(rel) or "/err" in rel):
            continue
        out.append({"id": "corpus-%d" % i, "stage": "format", "variants": [[text]], "hasFuncs": True, "class": "corpus/" + rel + ("/trailing-blank" if text.endswith("\n\n") else ""), "corpus": True,
                    "expect": {"laws": "C06 + C07 on the file as it is"}})
    if chk.tier == "quick":
        rnd.shuffle(out)
        out = out[:120]
    return out


def header_cases(chk, rnd):
    """Every sequence of up to three header tokens after func f / func f:num / on key / on down (family FamMutate),
    with bodies that use the parameter: whatever the parser accepts of these the formatter must leave as it is."""
    nh = 18
    hdr2 = {ln * 10000000 + c for ln in range(0, 4) for c in range(nh ** ln)}
    res = common.run_tlc("FamMutate", "FamMutate.cfg", defines={"TIER": chk.tier, "EDITS1": "{}", "EDITS2": "{}", "HEADERS": "{}",
                                                                 "HEADERS2": "{" + ", ".join(map(str, sorted(hdr2))) + "}"}, timeout=1500, name="fmthdr")
    chk.add_tlc(res, "FamMutate/headers")
    out = []
    for n, c in enumerate(res.cases):
        out.append({"id": "hdr-%d" % n, "stage": "format", "variants": [c["src"]], "hasFuncs": True, "mayReject": True, "corpus": True,
                    "class": "header/%d" % c["seed"], "expect": {"laws": "C06 + C07 if the parser accepts the text"}})
    return out


def cli_check(chk, cases, results, rnd):
    """evy fmt -c exits 0 exactly for text that equals its own formatted form, and changes nothing."""
    common.build_evy()
    tmp = common.scratch("fmtc")
    sel = [c for c in cases if results[c["id"]]["ok"] and not c.get("corpus")]
    rnd.shuffle(sel)
    sel = sel[: 25 if chk.tier == "quick" else 200]
    n = 0
    for i, c in enumerate(sel):
        formatted = results[c["id"]]["obs"]["formatted"]
        texts = [("formatted", formatted, True)]
        for vi, v in enumerate(c["variants"]):
            t = machine.text_of(v)
            texts.append(("variant%d" % (vi + 1), t, t == formatted))
        # the formatted text with other line ends and blank-line tails: evy fmt -c must say exactly what evy fmt does
        # (exit 0 iff evy fmt accepts the text and returns it unchanged)
        for name, text in (("tail1", formatted + "\n"), ("tail2", formatted + "\n\n"), ("tail3", formatted + "\n\n\n"),
                           ("head1", "\n" + formatted), ("nofinalnl", formatted.rstrip("\n")), ("crlf", formatted.replace("\n", "\r\n")),
                           ("trailingblank", formatted.replace("\n", " \n", 1)), ("tabindent", formatted.replace("    ", "\t", 1))):
            rf = subprocess.run([common.EVY, "fmt"], input=text.encode(), capture_output=True, timeout=30)
            texts.append((name, text, rf.returncode == 0 and rf.stdout == text.encode()))
        for name, text, want_ok in texts:
            f = os.path.join(tmp, "g%d_%s.evy" % (i, name))
            open(f, "w", encoding="utf-8", newline="").write(text)
            os.chmod(f, 0o644)
            before = (open(f, "rb").read(), os.stat(f).st_mtime_ns)
            r1 = subprocess.run([common.EVY, "fmt", "-c", f], capture_output=True, timeout=30)
            r2 = subprocess.run([common.EVY, "fmt", "-c"], input=text.encode(), capture_output=True, timeout=30)
            after = (open(f, "rb").read(), os.stat(f).st_mtime_ns)
            n += 2
            for how, r in (("file", r1), ("stdin", r2)):
                if (r.returncode == 0) != want_ok:
                    chk.mismatch("fmt-c/" + c["class"], "evy fmt -c (%s) on %s text exits %d, text %s its own formatted form"
                                 % (how, name, r.returncode, "equals" if want_ok else "differs from"), {"case": c, "text": text})
            if before != after:
                chk.mismatch("fmt-c/" + c["class"], "evy fmt -c modified the file", {"case": c, "text": text})
    # several files in one invocation: exit 0 iff every one of them is in formatted form, whatever their order
    nm = 0
    for i, c in enumerate(sel[: 8 if chk.tier == "quick" else 40]):
        formatted = results[c["id"]]["obs"]["formatted"]
        unf = next((machine.text_of(v) for v in c["variants"] if machine.text_of(v) != formatted), None)
        if unf is None:
            continue
        fa, fb, fu = (os.path.join(tmp, "m%d_%s.evy" % (i, x)) for x in ("a", "b", "u"))
        for f, t in ((fa, formatted), (fb, formatted), (fu, unf)):
            open(f, "w", encoding="utf-8", newline="").write(t)
        for files, want_ok in (([fa, fb], True), ([fu, fa], False), ([fa, fu], False), ([fa, fu, fb], False), ([fu, fa, fb], False), ([fa, fb, fu], False)):
            r = subprocess.run([common.EVY, "fmt", "-c"] + files, capture_output=True, timeout=30)
            nm += 1
            if (r.returncode == 0) != want_ok:
                chk.mismatch("fmt-c-files/" + c["class"], "evy fmt -c on %d files (%s) exits %d" % (len(files), " ".join("formatted" if f != fu else "UNFORMATTED" for f in files), r.returncode),
                             {"case": c, "files": [os.path.basename(f) for f in files]})
    n += nm
    shutil.rmtree(tmp, ignore_errors=True)
    chk.traces += n
    chk.evaluations += n
    chk.extra["fmt_c_runs"] = n


def family_groups(chk, rnd):
    """The programs of the expression and control-flow families (written for C01 and C10, not for the formatter), each in
    the three layouts the syntax specification renders: the layouts differ in optional whitespace only, so the laws
    of a variant group apply; accepted token edits of valid programs as groups of one."""
    out = []
    for mod in ("FamExpr",) if chk.tier == "quick" else ("FamExpr", "FamControl"):
        res = machine.tlc_family(chk, mod, chk.tier, layouts=machine.LAYOUTS, label=mod + "(format)", timeout=1500,
                                 defines={"DEPTH": 2} if mod == "FamControl" else None)
        seen = set()
        progs = []
        for c in res.cases:
            srcs = c.get("srcs") or {}
            if c.get("soundOnly") or not all(ly in srcs for ly in machine.LAYOUTS):
                continue
            key = json.dumps(srcs, sort_keys=True)
            if key in seen:
                continue
            seen.add(key)
            progs.append(c)
        if chk.tier == "quick":
            rnd.shuffle(progs)
            progs = progs[:1500]
        for n, c in enumerate(progs):
            out.append({"id": "%s-%d" % (mod, n), "stage": "format", "variants": [c["srcs"][ly] for ly in machine.LAYOUTS], "hasFuncs": True,
                        "class": "family/%s/%s" % (mod, c.get("class")), "expect": {"laws": "C06 + C07 on the three layouts"}})
    return out


def run_both(chk, which):
    rnd = random.Random(common.seed())
    cases = groups(chk, rnd) + corpus_cases(chk, rnd) + header_cases(chk, rnd) + family_groups(chk, rnd)
    results = common.replay(cases, deadline="30s", name="format")
    for c in cases[:1]:
        chk.sample({"variant1": machine.text_of(c["variants"][0]), "variant3": machine.text_of(c["variants"][2]),
                    "formatted": (results[c["id"]].get("obs") or {}).get("formatted"), "class": c["class"]})
    for c in cases:
        r = results[c["id"]]
        chk.evaluations += len(c["variants"])
        chk.traces += len(c["variants"])
        chk.nontrivial.add(c["class"])
        if not r["ok"]:
            d = r.get("diff", "")
            is06 = any(m in d for m in C06_MARKS) or r.get("crash") or r.get("timeout")
            # a formatted text that is rejected breaks both properties: it is not the program any more (C06) and it cannot be
            # formatted a second time (C07)
            if (which == "C06") == bool(is06) or "valid program, parser rejects" in d or "formatted text is rejected" in d:
                chk.mismatch(("corpus" if c.get("corpus") else "fam") + "/" + c["class"], d, {"case": c, "result": r})
    if which == "C07":
        cli_check(chk, cases, results, rnd)
    else:
        # the command line formats as the library does: evy fmt on standard input gives the text Program.Format gives
        common.build_evy()
        sel = [c for c in cases if results[c["id"]]["ok"] and not c.get("corpus")]
        byprog = {}
        for c in sel:
            byprog.setdefault(c["class"].split("/")[0], []).append(c)
        ncli = 0
        for prog, cs in sorted(byprog.items()):
            for c in cs[:3]:
                for v in c["variants"][:2]:
                    text = machine.text_of(v)
                    r = subprocess.run([common.EVY, "fmt"], input=text.encode(), capture_output=True, timeout=30)
                    ncli += 1
                    want = results[c["id"]]["obs"]["formatted"]
                    if r.returncode != 0 or r.stdout.decode("utf-8", "replace") != want:
                        chk.mismatch("fmt-cli/" + c["class"], "evy fmt on standard input (exit %d) does not give the text the formatter gives: formatting changed the token sequence or more: %r vs %r"
                                     % (r.returncode, r.stdout.decode("utf-8", "replace")[:200], want[:200]), {"case": c, "text": text})
        chk.traces += ncli
        chk.evaluations += ncli
        chk.extra["fmt_cli_runs"] = ncli
    chk.extra["groups"] = sum(1 for c in cases if not c.get("corpus"))
    chk.extra["corpus_files"] = sum(1 for c in cases if c.get("corpus"))
    chk.exhaustive = False
    chk.rule = ("family FamFormat: 4 programs (all statement forms, functions, handler, multi-line array/map literals, nested "
                "blocks) x trivia codes (per line: end-of-line comment, comment lines, blank-line runs and combinations; trailing "
                "[and the programs of FamExpr (thorough: also FamControl) in the canon / tight / wide layouts as variant groups] "
                "comment / blank lines; fixed all-lines patterns + seed-chosen codes) x 4 variants (canon/tight/wide layout, blank "
                "runs of 1-3, blanks or tab before //), plus the repository's .evy files; non-trivial = distinct (program, trivia)")


def run(chk):
    run_both(chk, "C06")
    chk.assumptions += ["the real lexer (checked by C03) is used to read the token sequences of source and formatted text",
                        "C07's laws on the same groups are reported by the C07 check"]


def replay_one(data):
    return machine.replay_one({"property": data["property"], "data": {"case": data["data"]["case"]}})
