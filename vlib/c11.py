"""C11 - index and slice laws for arrays and strings."""
from . import machine

replay_one = machine.replay_one


def run(chk):
    lys = ("canon", "wide") if chk.tier == "quick" else machine.LAYOUTS
    res = machine.tlc_family(chk, "FamIndex", chk.tier, layouts=lys)
    cases = machine.expand(res.cases, "idx", layouts=lys)
    chk.rule = ("all arrays [10..10n] and strings of n code points (1,2,3,4-byte characters), n = 0..N, crossed with "
                "every index in [-n-2, n+2], +-0.5, 1.5, +-(2^31-1), +-2^63, nan, +-inf (literal and through a variable), "
                "element stores through each index, all pairs of slice bounds incl. missing ones, freshness of array "
                "slices; non-trivial = distinct program text")
    chk.exhaustive = True
    machine.replay_family(chk, cases)
    chk.assumptions += [
        "for an index that is not finite or of magnitude >= 2^63 either documented panic class (bounds / index value) is accepted",
        "N = 3 (quick) / 4 (thorough)",
    ]
