"""C10 - lexical scoping and structured control flow."""
from . import docex, machine, scopetrace

replay_one = machine.replay_one


def run(chk):
    depth = 2 if chk.tier == "quick" else 3
    lys = ("canon",) if chk.tier == "quick" else ("canon", "wide")
    res = machine.tlc_family(chk, "FamControl", chk.tier, defines={"DEPTH": depth}, timeout=1500, layouts=lys)
    cases = machine.expand(res.cases, "ctl", layouts=lys)
    chk.rule = ("all nestings to depth %d of if/else/else-if, while, for over num/array/string/map ranges and calls, with "
                "a print, a shadowing declaration, an update of x, a (conditional) break or return innermost and tracer "
                "prints at every block entry/exit; numeric ranges over all 1-, 2- and 3-operand tuples of a value set "
                "(negative, fractional, zero step, empty); hand-picked recursion / call-before-definition / "
                "evaluated-once / condition-before-every-iteration programs; programs of examples/human-eval (a seeded sample of 24 "
                "at the quick tier, all 162 at the thorough tier) exported from the real parser's tree and run by the machine; non-trivial = distinct program text" % depth)
    chk.exhaustive = True
    # whole programs of the repository, parsed by the real parser and run by the same machine
    cases += docex.corpus(chk, chk.tier)
    machine.replay_family(chk, cases)
    # direction B: scope and variable events of these programs and of repository programs against ScopeStack.tla
    scopetrace.run(chk, cases)
    first = chk.extra.get("scope_traces")
    # ... and of programs nobody wrote for this property: the token edits of valid programs (FamMutate) that the real
    # parser accepts (the recorder skips the others)
    from . import common
    import random
    rnd = random.Random(common.seed())
    npos = 260
    e1 = {kind * 1000000 + i * 100 for kind in (1, 4, 5) for i in range(npos)}
    for _ in range(2500 if chk.tier == "quick" else 20000):
        e1.add(rnd.choice((2, 3)) * 1000000 + rnd.randrange(npos) * 100 + rnd.randrange(40))
    tlaset = lambda xs: "{" + ", ".join(str(x) for x in sorted(xs)) + "}"
    resm = common.run_tlc("FamMutate", "FamMutate.cfg", defines={"TIER": chk.tier, "EDITS1": tlaset(e1), "EDITS2": "{}",
                                                                 "HEADERS": "{}", "HEADERS2": "{}"}, timeout=1800)
    chk.add_tlc(resm, "FamMutate")
    scopetrace.run(chk, [{"src": c["src"], "class": "edited/seed%d" % c["seed"]} for c in resm.cases], model=False, corpus=0)
    chk.extra["scope_traces_of_token_edits"] = chk.extra.get("scope_traces")
    chk.extra["scope_traces"] = first
