"""C10 - lexical scoping and structured control flow."""
from . import docex, machine, scopetrace

replay_one = machine.replay_one


def run(chk):
    depth = 2 if chk.tier == "quick" else 3
    lys = ("canon",) if chk.tier == "quick" else ("canon", "wide")
    res = machine.tlc_family(chk, "FamControl", chk.tier, defines={"DEPTH": depth}, timeout=1500, layouts=lys)
    cases = machine.expand(res.cases, "ctl", layouts=lys)
    chk.rule = ("all nestings to depth %d of if/else/else-if, while, for over num/array/string/map ranges and calls, with "
                "a print, a shadowing declaration, an update of x, a (conditional) break or return innermost and tracer "
                "prints at every block entry/exit; numeric ranges over all 1-, 2- and 3-operand tuples of a value set "
                "(negative, fractional, zero step, empty); hand-picked recursion / call-before-definition / "
                "evaluated-once / condition-before-every-iteration programs; programs of examples/human-eval (a seeded sample of 24 "
                "at the quick tier, all 162 at the thorough tier) exported from the real parser's tree and run by the machine; non-trivial = distinct program text" % depth)
    chk.exhaustive = True
    # whole programs of the repository, parsed by the real parser and run by the same machine
    cases += docex.corpus(chk, chk.tier)
    machine.replay_family(chk, cases)
    # direction B: scope and variable events of these programs and of repository programs against ScopeStack.tla
    scopetrace.run(chk, cases)
