"""C09 - basic values are copied, composites are shared."""
from . import machine

replay_one = machine.replay_one


def run(chk):
    lys = ("canon",) if chk.tier == "quick" else ("canon", "tight")
    res = machine.tlc_family(chk, "FamAlias", chk.tier, layouts=lys)
    cases = machine.expand(res.cases, "alias", layouts=lys)
    chk.rule = ("alias triples of family FamAlias: alias made by :=, typed declaration + =, re-assignment, parameter, "
                "variadic parameter, return value, array-literal element, map-literal value, any variable, any element, "
                "loop variable, slice/concatenation/repetition, reads of err/errmsg; update by assignment or in-place "
                "store through either name; all names printed after every update; types num, string, bool, []num, "
                "{}num, [][]num, any; non-trivial = distinct program text")
    chk.exhaustive = True
    machine.replay_family(chk, cases)
