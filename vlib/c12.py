"""C12 - maps are insertion-ordered dictionaries."""
import random

from . import common, machine

replay_one = machine.replay_one
NOPS = 23


def sample(n_by_len):
    rnd = random.Random(common.seed())
    out = set()
    for ln, n in n_by_len.items():
        for _ in range(n):
            out.add((ln, rnd.randrange(NOPS ** ln)))
    return "{" + ", ".join(str(ln * 200000000 + h) for ln, h in sorted(out)) + "}"


def run(chk):
    if chk.tier == "quick":
        exh, smp = 2, {3: 250, 4: 150}
    else:
        exh, smp = 3, {4: 3000, 5: 1500, 6: 500}
    lys = ("canon",)
    res = machine.tlc_family(chk, "FamMap", chk.tier, defines={"EXHLEN": exh, "SAMPLE": sample(smp)}, timeout=1500, layouts=lys)
    cases = machine.expand(res.cases, "map", layouts=lys)
    chk.rule = ("histories of map operations (23 operations: insert/overwrite via . and [], del, lookup, and seven loops "
                "that mutate the map they iterate over, through the map m and its alias n) from three initial maps; "
                "all histories up to length %d plus a seed-chosen sample of lengths %s; after every operation the map, len "
                "and has of every key are printed; non-trivial = distinct program with >= 1 mutation" % (exh, sorted(smp)))
    chk.exhaustive = False
    machine.replay_family(chk, cases)
    chk.assumptions += ["exhaustive up to history length %d, sampled beyond (VERIF_SEED)" % exh]
