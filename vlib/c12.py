"""C12 - maps are insertion-ordered dictionaries."""
import glob
import json
import os
import random
import shutil
import subprocess

from . import common, machine
from .common import HarnessError

replay_one = machine.replay_one
NOPS = 26


def sample(n_by_len):
    rnd = random.Random(common.seed())
    out = set()
    for ln, n in n_by_len.items():
        for _ in range(n):
            out.add((ln, rnd.randrange(NOPS ** ln)))
    return "{" + ", ".join(str(ln * 200000000 + h) for ln, h in sorted(out)) + "}"


def run(chk):
    if chk.tier == "quick":
        exh, smp = 2, {3: 250, 4: 150}
    else:
        exh, smp = 3, {4: 3000, 5: 1500, 6: 500}
    lys = ("canon",)
    res = machine.tlc_family(chk, "FamMap", chk.tier, defines={"EXHLEN": exh, "SAMPLE": sample(smp)}, timeout=1500, layouts=lys)
    cases = machine.expand(res.cases, "map", layouts=lys)
    chk.rule = ("histories of map operations (26 operations: insert/overwrite via . and [], del, lookup, and ten loops "
                "that mutate the map they iterate over, through the map m and its alias n) from three initial maps; "
                "all histories up to length %d plus a seed-chosen sample of lengths %s; after every operation the map, len "
                "and has of every key are printed; non-trivial = distinct program with >= 1 mutation" % (exh, sorted(smp)))
    chk.exhaustive = False
    machine.replay_family(chk, cases)
    chk.assumptions += ["exhaustive up to history length %d, sampled beyond (VERIF_SEED)" % exh]
    direction_b(chk)


KEYS = ["a", "b", "c", "d", "e"]


def gen_prog(rnd, nops):
    """A random program that works on maps through several names, loops over them while changing
    them (nested loops, break), passes them to functions and copies them with array repetition."""
    out = ["m := {a:1 b:2}", "n := m", "o:{}num", "arr := [m o] * 2", "func touch mm:{}num k:string", "    mm[k] = 7",
           "    del mm \"a\"", "end", "func build:{}num x:num", "    r := {z:x}", "    r.y = x", "    return r", "end"]
    names = ["m", "n", "o", "arr[0]", "arr[3]"]

    def op(ind, depth):
        v = rnd.choice(names)
        k = rnd.choice(KEYS)
        r = rnd.random()
        if r < 0.30:
            return [ind + "%s[\"%s\"] = %d" % (v, k, rnd.randrange(100))]
        if r < 0.50:
            return [ind + "del %s \"%s\"" % (v, k)]
        if r < 0.58:
            return [ind + "touch %s \"%s\"" % (v, k)]
        if r < 0.64:
            return [ind + "o = (build %d)" % rnd.randrange(9)]
        if r < 0.70:
            return [ind + "print %s (len %s) (has %s \"%s\")" % (v, v, v, k)]
        if depth < 2:
            lv = "k%d" % depth
            body = []
            for _ in range(rnd.randrange(1, 4)):
                body += op(ind + "    ", depth + 1)
            extra = rnd.choice(["del %s %s" % (v, lv), "%s[%s] = 5" % (v, lv), "print %s" % lv,
                                "if %s == \"b\"\n%s        break\n%s    end" % (lv, ind, ind)])
            return [ind + "for %s := range %s" % (lv, v), ind + "    print %s" % lv] + body + [ind + "    " + extra, ind + "end"]
        return [ind + "%s.%s = %d" % (v, k, rnd.randrange(100))] if "[" not in v else [ind + "del %s \"%s\"" % (v, k)]

    for _ in range(nops):
        out += op("", 0)
    out.append("print m n o arr")
    return "\n".join(out) + "\n"


def direction_b(chk):
    """Hook-recorded map events of random programs and of repository programs, validated by TLC against EvyMapTrace."""
    rnd = random.Random(common.seed() + 17)
    res = common.run_tlc("EvyMapMC", "EvyMapMC.cfg", defines={"MAXOPS": 6 if chk.tier == "quick" else 8}, timeout=1200)
    chk.add_tlc(res, "EvyMapMC")
    common.build_harness()
    d = common.scratch("maprec")
    recs = []
    nprog = 60 if chk.tier == "quick" else 600
    for i in range(nprog):
        recs.append({"id": "rnd%d" % i, "src": gen_prog(rnd, rnd.randrange(4, 14)), "maxEvents": 400})
    files = sorted(glob.glob(os.path.join(common.REPO, "**", "*.evy"), recursive=True))
    nfile = 0
    for f in files:
        try:
            text = open(f, encoding="utf-8").read()
        except Exception:
            continue
        if "{" in text and (":=" in text):
            recs.append({"id": os.path.relpath(f, common.REPO), "src": text, "maxEvents": 300})
            nfile += 1
    inp, outp = os.path.join(d, "recs.ndjson"), os.path.join(d, "trace.ndjson")
    with open(inp, "w") as fh:
        for r in recs:
            fh.write(json.dumps(r) + "\n")
    r = subprocess.run([common.HARNESS, "record-map", "-in", inp, "-out", outp], capture_output=True, text=True, timeout=900)
    if r.returncode != 0:
        raise HarnessError("record-map failed: " + r.stderr[-2000:])
    lines = [l for l in open(outp).read().splitlines() if l.strip()]
    shutil.rmtree(d, ignore_errors=True)
    # chunks of whole traces
    chunks, cur = [], []
    for l in lines:
        if '"ev":"Reset"' in l and len(cur) > 15000:
            chunks.append(cur)
            cur = []
        cur.append(l)
    if cur:
        chunks.append(cur)
    ntr = nev = 0
    for i, ch in enumerate(chunks):
        data = ("\n".join(ch) + "\n").encode()
        res = common.run_tlc("EvyMapTrace", "EvyMapTrace.cfg", workers=1, timeout=900, extra_files=[(data, "trace.ndjson")],
                             allow_violation=True, name="maptrace")
        chk.add_tlc(res, "EvyMapTrace-%d" % i)
        n = sum(1 for l in ch if '"ev":"Reset"' in l)
        if res.violation or res.depth != len(ch) + 1:
            j = max(res.depth - 1, 0)
            start = max([k for k in range(min(j + 1, len(ch))) if '"ev":"Reset"' in ch[k]] or [0])
            chk.mismatch("maptrace", "map events of the real evaluator are not a behaviour of EvyMap: line %d rejected: %s (%s)"
                         % (j + 1, ch[j] if j < len(ch) else "<end>", (res.violation or "no action matches").splitlines()[0][:160]),
                         {"trace_head": ch[start], "context": ch[max(0, j - 8): j + 1]})
        else:
            ntr += n
            nev += len(ch)
    chk.traces += ntr
    chk.evaluations += ntr
    chk.extra["map_traces_validated"] = ntr
    chk.extra["map_events_validated"] = nev
    chk.extra["repository_programs_with_maps"] = nfile
    chk.sample({"map_trace_head": lines[:6]})
