"""Corpus of Evy programs for C17 (seed-driven generator + fixed list +
size-scaled variants).  The programs are inputs only: what is expected of the
code the real compiler emits for them comes from spec/VMStack.tla."""
import random

# ---------------------------------------------------------------------------
# fixed list: every statement / expression form of compiler.go's switch

FIXED = {
    "empty": "",
    "decl-num": "x := 1\nx = x\n",
    "decl-all": "a := 1\nb := \"s\"\nc := true\nd := [1 2 3]\ne := {k:1 l:2}\nf := [[1] [2 3]]\n"
                "a = a\nb = b\nc = c\nd = d\ne = e\nf = f\n",
    "arith": "x := 1 + 2 * 3 - 4 / 5 % 6\nx = -x\nx = (x + 1) * -(x - 2)\n",
    "cmp-num": "a := 1\nb := a < 2\nb = a <= 2\nb = a > 2\nb = a >= 2\nb = a == 2\nb = a != 2\nb = !b\n",
    "cmp-str": "a := \"x\"\nb := a < \"y\"\nb = a <= \"y\"\nb = a > \"y\"\nb = a >= \"y\"\nb = a == \"y\"\nb = a != \"y\"\n"
               "a = a + \"z\" + a\n",
    "arr-ops": "a := [1 2] + [3]\na = a * 2\na = a[1:]\na = a[:2]\na = a[1:2]\na = a[:]\nx := a[0]\nx = a[-1]\na[0] = x\n",
    "arr-nested": "a := [[1 2] [3 4]]\na[0][1] = 5\nx := a[1][0]\nx = x\nb := a[0]\nb = b\n",
    "map-ops": "m := {a:1 b:2}\nx := m[\"a\"]\nm[\"c\"] = x\nm[\"a\"] = 3\nk := \"b\"\nx = m[k]\n",
    "map-nested": "m := {a:[1 2] b:[3]}\nm[\"a\"][0] = 9\nx := m[\"b\"][0]\nx = x\nn := {p:{q:1}}\nn[\"p\"][\"q\"] = 2\n",
    "str-ops": "s := \"hello\"\nc := s[0]\nc = s[-1]\nt := s[1:3]\nt = s[:2] + s[2:]\nc = c + t\n",
    # constants of different types that print alike, in both textual orders, each consumed by a typed instruction
    "const-clash-str-first": "label := \"0\"\nn := 0\nfor ch := range \"abc\"\n    label = label + ch\n    n = n + 1\nend\nfor e := range [1 2]\n    n = n + e\nend\nlabel = label + \"1\"\n",
    "const-clash-num-first": "n := 0\nn = n + 1\nlabel := \"0\" + \"1\"\nfor ch := range \"10\"\n    label = label + ch\nend\nm := {k:\"1\"}\nlabel = label + m[\"k\"]\nx := [10 1 0][n]\nx = x\n",
    "const-clash-bool": "b := true\ns := \"true\"\ns = s + \"false\"\nb = b and false\nb = !b\nt := \"2\" < \"10\"\nu := 2 < 10\nt = t == u\n",
    "const-clash-range": "y := 2024\nc := 0\nfor ch := range \"2024\"\n    c = c + 1\nend\nfor i := range 2\n    c = c + i\nend\ns := \"2\" + \"0\"\nc = c + y\ns = s\n",
    # strings with code points of 2, 3 and 4 bytes: ranged over, indexed, sliced, compared
    "str-nonascii-range": "n := 0\ns := \"\"\nfor ch := range \"d\u00e9j\u00e0 vu\"\n    n = n + 1\n    s = s + ch\nend\nfor range \"\u65e5\u672c\"\n    n = n + 1\nend\nw := \"a\u20acb\U0001f600\"\nfor c := range w\n    s = c + s\nend\n",
    "str-nonascii-ops": "s := \"d\u00e9j\u00e0\"\nc := s[1]\nc = s[-1]\nt := s[1:3]\nt = s[:2] + s[2:]\nb := s < \"e\"\nb = s == t\nc = c + t\n",
    "if": "x := 1\nif x > 0\n    x = 2\nend\n",
    "if-else": "x := 1\nif x > 0\n    x = 2\nelse\n    x = 3\nend\n",
    "if-elseif": "x := 1\nif x > 2\n    x = 2\nelse if x > 1\n    x = 3\nelse if x > 0\n    x = 4\nend\n",
    "if-elseif-else": "x := 1\nif x > 2\n    x = 2\nelse if x > 1\n    x = 3\nelse\n    x = 5\nend\nx = x + 1\n",
    "if-elseif-4-else": ("x := 3\nif x == 0\n    x = 10\nelse if x == 1\n    x = 11\nelse if x == 2\n    x = 12\nelse if x == 3\n    x = 13\n"
                         "else if x == 4\n    x = 14\nelse\n    x = 15\nend\nx = x\n"),
    "if-last": "x := 1\nif x == 1\n    x = 2\nend\n",
    "while": "i := 0\nwhile i < 3\n    i = i + 1\nend\n",
    "while-true-break": "i := 0\nwhile true\n    i = i + 1\n    if i > 2\n        break\n    end\nend\n",
    "while-bare-break": "while true\n    break\nend\n",
    "while-endless": "i := 0\nwhile true\n    i = i + 1\nend\n",
    "for-range-n": "x := 0\nfor range 3\n    x = x + 1\nend\n",
    "for-range-var": "x := 0\nfor i := range 3\n    x = x + i\nend\n",
    "for-range-2": "x := 0\nfor i := range 1 4\n    x = x + i\nend\n",
    "for-range-3": "x := 0\nfor i := range 10 0 -3\n    x = x + i\nend\n",
    "for-range-expr": "n := 2\nx := 0\nfor i := range n n * 3 n - 1\n    x = x + i\nend\n",
    "for-range-zero-step": "x := 0\nfor i := range 0 3 0\n    x = x + i\nend\n",
    "for-array": "x := 0\nfor e := range [1 2 3]\n    x = x + e\nend\n",
    "for-array-novar": "x := 0\nfor range [1 2 3]\n    x = x + 1\nend\n",
    "for-string": "s := \"\"\nfor c := range \"abc\"\n    s = c + s\nend\n",
    "for-map": "s := \"\"\nm := {a:1 b:2}\nfor k := range m\n    s = s + k\nend\n",
    "for-empty": "for i := range 0\n    x := i\n    x = x\nend\nfor e := range \"\"\n    y := e\n    y = y\nend\n",
    "for-break": "for i := range 10\n    if i == 2\n        break\n    end\nend\n",
    "for-bare-break": "for i := range 10\n    j := i\n    j = j\n    break\nend\n",
    "for-in-block": "if true\n    for i := range 3\n        x := i\n        x = x\n    end\nend\n",
    "for-in-block-novar": "if true\n    y := 0\n    for range 3\n        x := y\n        x = x\n    end\nend\n",
    "nested-loops-break": ("for i := range 3\n    for j := range 3\n        while true\n            if i == j\n                break\n"
                           "            end\n            break\n        end\n        if j == 1\n            break\n        end\n    end\n"
                           "    if i == 1\n        break\n    end\nend\n"),
    "block-locals": ("if true\n    a := 1\n    if true\n        b := 2\n        if true\n            c := a + b\n            c = c\n"
                     "        end\n        d := b\n        d = d\n    end\n    e := a\n    e = e\nend\nif true\n    f := 1\n    f = f\nend\n"),
    "block-locals-siblings": ("if true\n    a := 1\n    a = a\nelse\n    b := 2\n    c := 3\n    b = c\n    c = b\nend\n"
                              "while false\n    d := 1\n    d = d\nend\n"),
    "shadow": "a := 1\nif true\n    a := 2\n    a = a\n    if true\n        a := \"s\"\n        a = a\n    end\n    a = a + 1\nend\na = a\n",
    "loopvar-global-and-local": "for i := range 2\n    x := i\n    x = x\nend\nif true\n    for i := range 2\n        x := i\n        x = x\n    end\nend\n",
    "deep-expr-stack": "x := 1 + (2 + (3 + (4 + (5 + (6 + (7 + (8 + 9)))))))\nx = x\na := [[1 2 3] [4 5 6] [7 8 9]]\na = a\n",
    "div-zero": "x := 1\nx = x / 0\nx = 5\n",
    "index-oob": "a := [1 2]\nx := a[5]\nx = x\n",
    "bool-and-or": "a := true\nb := a and false\nb = a or b\n",
    # forms the compiler has no case for (they parse; what the compiler does with them is its business)
    "u-print": "print 1\n",
    "u-print-expr": "x := 1\nprint x + 1 \"a\"\n",
    "u-typed-decl": "x:num\nprint x\n",
    "u-typed-decl-used": "x:num\nx = 1\n",
    "u-call-expr": "x := len \"abc\"\nx = x\n",
    "u-call-in-cond": "if (len \"abc\") > 2\n    x := 1\n    x = x\nend\n",
    "u-call-in-while": "i := 0\nwhile (len \"ab\") > i\n    i = i + 1\nend\n",
    "u-call-in-range": "for i := range (len \"abc\")\n    x := i\n    x = x\nend\n",
    "u-field-assign": "m := {a:1}\nm.a = 2\n",
    "u-field-assign-loop": "m := {a:1}\nfor range 5\n    m.a = 2\nend\n",
    "u-field-read": "m := {a:1}\nx := m.a\nx = x\n",
    "u-any-array": "x := [1 \"a\"]\nx = x\n",
    "u-any-map": "x := {a:1 b:\"s\"}\nx = x\n",
    "u-any-assert": "a:any\nb := a.(num)\nb = b\n",
    "u-func-def": "func f\n    x := 1\n    x = x\nend\nf\n",
    "u-func-ret": "func f:num\n    return 1\nend\nx := f\nx = x\n",
    "u-func-ret-arg": "func f:num n:num\n    return n * 2\nend\nx := 1 + (f 2)\nx = x\n",
    "u-on-handler": "on key k:string\n    print k\nend\n",
    "u-return-top": "x := 1\nx = x\nreturn\n",
    "u-call-args-in-loop": "for i := range 3\n    print i\nend\n",
    "u-call-index": "a := [1 2 3]\nx := a[len \"a\"]\nx = x\n",
    "u-call-setindex": "a := [1 2 3]\na[len \"a\"] = 2\n",
    "u-call-slice": "a := [1 2 3]\nb := a[len \"a\":]\nb = b\n",
    "u-call-binary": "x := 1 + (len \"abc\")\nx = x\n",
    "u-call-unary": "x := -(len \"abc\")\nx = x\n",
    "u-call-array-elem": "a := [1 (len \"abc\")]\na = a\n",
    "u-call-map-val": "m := {a:(len \"abc\")}\nm = m\n",
    "u-typed-then-block": "x:num\nif true\n    y := 1\n    y = y\nend\nprint x\n",
}

NUM, STR, BOOL, ANUM, ASTR, MNUM, AANUM = "num", "string", "bool", "[]num", "[]string", "{}num", "[][]num"
TYPES = [NUM, STR, BOOL, ANUM, ASTR, MNUM, AANUM]
KEYS = ["a", "b", "c"]


class Gen:
    """Random well-typed programs over the forms the compiler has cases for."""

    def __init__(self, rnd, maxdepth=3, budget=14, allow_andor=False):
        self.r = rnd
        self.maxdepth = maxdepth
        self.budget = budget
        self.scopes = [[]]          # list of scopes; each scope a list of [name, type, used]
        self.counter = 0
        self.inloop = 0
        self.allow_andor = allow_andor
        self.feat = set()

    # -- environment
    def fresh(self):
        self.counter += 1
        base = self.r.choice(["x", "y", "z", "v", "w"])
        return "%s%d" % (base, self.counter)

    def visible(self, ty):
        out = {}
        for sc in self.scopes:
            for v in sc:
                out[v[0]] = v
        return [v for v in out.values() if v[1] == ty]

    def usevar(self, ty):
        vs = self.visible(ty)
        if not vs:
            return None
        v = self.r.choice(vs)
        v[2] = True
        return v[0]

    # -- expressions
    def expr(self, ty, d=0):
        r = self.r
        leaf = d >= 3 or r.random() < 0.35
        if r.random() < (0.5 if leaf else 0.25):
            v = self.usevar(ty)
            if v:
                return v
        if ty == NUM:
            if leaf:
                return str(r.choice([0, 1, 2, 3, 5, 10, 0.5, 100]))
            k = r.randrange(9)
            if k < 4:
                op = r.choice(["+", "-", "*", "/", "%"])
                if op in "/%" and r.random() < 0.9:     # mostly no division by zero
                    return "%s %s %s" % (self.atom(NUM, d + 1), op, r.choice(["1", "2", "3", "0.5"]))
                return "%s %s %s" % (self.atom(NUM, d + 1), op, self.atom(NUM, d + 1))
            if k == 4:
                return "-" + self.atom(NUM, d + 1)
            if k == 5:
                return "(" + self.expr(NUM, d + 1) + ")"
            if k == 6:
                return "%s[%s]" % (self.atom(ANUM, d + 1), self.index(d))
            if k == 7:
                return "%s[%s]" % (self.atom(MNUM, d + 1), self.key(d))
            return "%s[%s][%s]" % (self.atom(AANUM, d + 1), self.index(d), self.index(d))
        if ty == STR:
            if leaf:
                # also strings that look like the number and boolean constants of the program
                return '"%s"' % r.choice(["a", "bc", "hello", "x y", "a", "bc", "hello", "x y", "", "0", "1", "2", "3", "5", "10", "0.5", "100", "true", "false", "-1", "d\u00e9j\u00e0", "\u65e5\u672c", "a\u20acb", "\U0001f600"])
            k = r.randrange(4)
            if k == 0 and self.inloop:
                k = 1       # no concatenation inside loops (s = s + s doubles the value every time round)
            if k == 0:
                return "%s + %s" % (self.atom(STR, d + 1), self.atom(STR, d + 1))
            if k == 1:
                return "%s[%s]" % (self.atom(STR, d + 1), self.index(d))
            if k == 2:
                return "%s[%s]" % (self.atom(ASTR, d + 1), self.index(d))
            return self.atom(STR, d + 1) + self.slice(d)
        if ty == BOOL:
            if leaf:
                return r.choice(["true", "false"])
            k = r.randrange(7 if self.allow_andor else 6)
            if k < 2:
                op = r.choice(["<", "<=", ">", ">=", "==", "!="])
                return "%s %s %s" % (self.atom(NUM, d + 1), op, self.atom(NUM, d + 1))
            if k == 2:
                op = r.choice(["<", "<=", ">", ">=", "==", "!="])
                return "%s %s %s" % (self.atom(STR, d + 1), op, self.atom(STR, d + 1))
            if k == 3:
                return "!" + self.atom(BOOL, d + 1)
            if k == 4:
                t = r.choice([BOOL, ANUM, MNUM])
                return "%s %s %s" % (self.atom(t, d + 1), r.choice(["==", "!="]), self.atom(t, d + 1))
            if k == 5:
                return "(" + self.expr(BOOL, d + 1) + ")"
            self.feat.add("andor")
            return "%s %s %s" % (self.atom(BOOL, d + 1), r.choice(["and", "or"]), self.atom(BOOL, d + 1))
        if ty in (ANUM, ASTR, AANUM):
            el = {ANUM: NUM, ASTR: STR, AANUM: ANUM}[ty]
            if leaf or r.random() < 0.5:
                n = r.choice([1, 2, 3, 3, 4])
                return "[" + " ".join(self.atom(el, d + 2) for _ in range(n)) + "]"
            k = r.randrange(4)
            if k < 2 and self.inloop:
                k = 2       # no concatenation / repetition inside loops (exponential growth)
            if k == 0:
                return "%s + %s" % (self.atom(ty, d + 1), self.atom(ty, d + 1))
            if k == 1:
                return "%s * %s" % (self.atom(ty, d + 1), r.choice(["1", "2", "2", "3", "0"] if r.random() < 0.15 else ["1", "2"]))
            if k == 2:
                return self.atom(ty, d + 1) + self.slice(d)
            if ty == ANUM:
                return "%s[%s]" % (self.atom(AANUM, d + 1), self.index(d))
            return "(" + self.expr(ty, d + 1) + ")"
        if ty == MNUM:
            n = r.choice([1, 2, 3])
            ks = ["a"] + r.sample(KEYS[1:], n - 1)
            return "{" + " ".join("%s:%s" % (k, self.atom(NUM, d + 2)) for k in ks) + "}"
        raise ValueError(ty)

    def atom(self, ty, d):
        """An expression usable as an operand / element without ambiguity."""
        e = self.expr(ty, d)
        if " " in e and not (e[0] in "[{\"" and self.balanced(e)):
            return "(" + e + ")"
        if e.startswith("-") or e.startswith("!"):
            return "(" + e + ")"
        return e

    @staticmethod
    def balanced(e):
        # the whole of e is one bracketed / quoted token
        if e[0] == '"':
            return e.count('"') == 2 and e[-1] == '"'
        close = {"[": "]", "{": "}"}[e[0]]
        depth = 0
        for i, ch in enumerate(e):
            if ch == e[0]:
                depth += 1
            elif ch == close:
                depth -= 1
                if depth == 0:
                    return i == len(e) - 1
        return False

    def index(self, d):
        r = self.r
        if r.random() < 0.88:
            return "0"
        if r.random() < 0.7:
            return str(r.choice([1, -1, 2]))
        return self.atom(NUM, d + 2)

    def key(self, d):
        r = self.r
        if r.random() < 0.9:
            return '"a"'
        if r.random() < 0.7:
            return '"%s"' % r.choice(KEYS)
        return self.atom(STR, d + 2)

    def slice(self, d):
        r = self.r
        k = r.randrange(4)
        a, b = "0", "1"
        if r.random() < 0.12:
            a, b = str(r.choice([0, 1])), str(r.choice([1, 2, -1]))
            if k < 2 and r.random() < 0.3:
                a = self.atom(NUM, d + 2)
        return ["[%s:%s]" % (a, b), "[%s:]" % a, "[:%s]" % b, "[:]"][k]

    # -- statements
    def block(self, depth, lines, ind, loopbreak=False, extra=()):
        """Statements of one block (a new scope unless depth == 0)."""
        r = self.r
        if depth > 0:
            self.scopes.append([])
        n = r.choice([1, 2, 2, 3, 4]) if depth else r.choice([3, 4, 5, 6, 8])
        start = len(lines)
        for _ in range(n):
            if self.budget <= 0:
                break
            self.stmt(depth, lines, ind)
        if len(lines) == start and not any(not v[2] for v in self.scopes[-1]) and not (loopbreak and False):
            self.stmt_decl(lines, ind)      # a block needs at least one statement
        sc = list(extra) + self.scopes[-1]
        for v in sc:
            if not v[2]:
                lines.append(ind + "%s = %s" % (v[0], v[0]))
                v[2] = True
        if loopbreak and r.random() < 0.35:
            lines.append(ind + "break")
            self.feat.add("break")
        if depth > 0:
            self.scopes.pop()

    def stmt(self, depth, lines, ind):
        r = self.r
        self.budget -= 1
        choices = ["decl", "decl", "assign", "assign", "setindex"]
        if depth < self.maxdepth:
            choices += ["if", "if", "while", "for", "for", "foriter"]
        k = r.choice(choices)
        if k == "decl":
            ty = r.choice(TYPES)
            e = self.expr(ty)
            name = self.fresh()
            if r.random() < 0.15:
                vs = [v for sc in self.scopes[:-2] for v in sc]
                cand = r.choice(vs)[0] if vs else None
                if cand and not any(v[0] == cand for sc in self.scopes[-2:] for v in sc):
                    name = cand                 # shadow an outer variable
                    self.feat.add("shadow")
            lines.append(ind + "%s := %s" % (name, e))
            self.scopes[-1].append([name, ty, False])
        elif k == "assign":
            ty = r.choice(TYPES)
            v = self.usevar(ty)
            if v is None:
                return self.stmt_decl(lines, ind)
            lines.append(ind + "%s = %s" % (v, self.expr(ty)))
        elif k == "setindex":
            ty = r.choice([ANUM, ASTR, MNUM, AANUM])
            v = self.usevar(ty)
            if v is None:
                return self.stmt_decl(lines, ind)
            if ty == ANUM:
                lines.append(ind + "%s[%s] = %s" % (v, self.index(1), self.expr(NUM, 1)))
            elif ty == ASTR:
                lines.append(ind + "%s[%s] = %s" % (v, self.index(1), self.expr(STR, 1)))
            elif ty == MNUM:
                lines.append(ind + "%s[%s] = %s" % (v, self.key(1), self.expr(NUM, 1)))
            else:
                if r.random() < 0.5:
                    lines.append(ind + "%s[%s][%s] = %s" % (v, self.index(1), self.index(1), self.expr(NUM, 1)))
                else:
                    lines.append(ind + "%s[%s] = %s" % (v, self.index(1), self.expr(ANUM, 1)))
            self.feat.add("setindex")
        elif k == "if":
            lines.append(ind + "if " + self.expr(BOOL))
            self.block(depth + 1, lines, ind + "    ", loopbreak=self.inloop > 0)
            for _ in range(r.choice([0, 0, 0, 1, 1, 2, 3, 4])):
                lines.append(ind + "else if " + self.expr(BOOL))
                self.block(depth + 1, lines, ind + "    ", loopbreak=self.inloop > 0)
            if r.random() < 0.5:
                lines.append(ind + "else")
                self.block(depth + 1, lines, ind + "    ", loopbreak=self.inloop > 0)
            lines.append(ind + "end")
            self.feat.add("if")
        elif k == "while":
            # a counter makes most loops terminate
            c = self.fresh()
            lines.append(ind + "%s := 0" % c)
            self.scopes[-1].append([c, NUM, True])
            cond = "%s < %d" % (c, r.choice([0, 1, 2, 3]))
            if r.random() < 0.25:
                cond = self.expr(BOOL)
            lines.append(ind + "while " + cond)
            self.inloop += 1
            self.scopes.append([])
            lines.append(ind + "    %s = %s + 1" % (c, c))
            self.scopes.pop()
            self.block(depth + 1, lines, ind + "    ", loopbreak=True)
            self.inloop -= 1
            lines.append(ind + "end")
            self.feat.add("while")
        elif k == "for":
            nargs = r.choice([1, 1, 2, 3])
            if nargs == 1:
                rng = self.atom(NUM, 2) if r.random() < 0.3 else str(r.choice([0, 1, 2, 3]))
            elif nargs == 2:
                rng = "%s %s" % (r.choice([0, 1]), r.choice([2, 3]))
            else:
                rng = r.choice(["0 4 2", "3 0 -1", "0 3 0", "5 1 -2"])
            self.for_(depth, lines, ind, "range " + rng, NUM)
        elif k == "foriter":
            ty = r.choice([ANUM, ASTR, STR, MNUM, AANUM])
            el = {ANUM: NUM, ASTR: STR, STR: STR, MNUM: STR, AANUM: ANUM}[ty]
            self.for_(depth, lines, ind, "range " + self.atom(ty, 1), el)

    def for_(self, depth, lines, ind, rng, elty):
        r = self.r
        withvar = r.random() < 0.7
        self.inloop += 1
        if withvar:
            lv = self.fresh()
            lines.append(ind + "for %s := %s" % (lv, rng))
            # the compiler defines the loop variable in the scope that
            # contains the for statement; the parser in the block's scope
            self.scopes.append([[lv, elty, False]])
            self.block(depth + 1, lines, ind + "    ", loopbreak=True, extra=self.scopes[-1])
            self.scopes.pop()
        else:
            lines.append(ind + "for " + rng)
            self.block(depth + 1, lines, ind + "    ", loopbreak=True)
        self.inloop -= 1
        lines.append(ind + "end")
        self.feat.add("for")

    def stmt_decl(self, lines, ind):
        ty = self.r.choice(TYPES)
        name = self.fresh()
        lines.append(ind + "%s := %s" % (name, self.expr(ty)))
        self.scopes[-1].append([name, ty, False])

    def program(self):
        lines = []
        self.block(0, lines, "")
        return "\n".join(lines) + "\n"


def random_programs(seed, n):
    out = []
    rnd = random.Random(seed * 7919 + 17)
    for i in range(n):
        g = Gen(random.Random(rnd.getrandbits(48)), maxdepth=3,
                budget=rnd.choice([4, 8, 12, 16, 24]), allow_andor=(i % 40 == 39))
        src = g.program()
        out.append(("g%d" % i, src))
    return out


# ---------------------------------------------------------------------------
# size-scaled variants

def scaled(tier):
    """(id, source, size features) of programs whose sizes cross the 16-bit
    operand width.  Sources are produced lazily (some are > 1 MB)."""
    out = []
    reps = [1, 10, 7000, 22000]
    for n in reps:
        out.append(("rep-assign-%d" % n, "x := 0\n" + "x = x + 1\n" * n, {"stmts": n}))
        out.append(("rep-if-%d" % n, "x := 0\n" + "if x > 0\n    x = 1\nend\n" * n, {"stmts": n}))
        out.append(("rep-setindex-%d" % n, "a := [0 0]\n" + "a[0] = a[1]\n" * n, {"stmts": n}))
        out.append(("rep-for-%d" % n, "x := 0\n" + "for i := range 2\n    x = i\nend\n" * n, {"stmts": n}))
        out.append(("rep-local-decl-%d" % n, "if true\n" + "".join("    v%d := %d\n    v%d = v%d\n" % (i, i % 7, i, i) for i in range(n)) + "end\n",
                    {"stmts": n, "locals": n}))
        out.append(("rep-global-decl-%d" % n, "".join("v%d := %d\nv%d = v%d\n" % (i, i % 7, i, i) for i in range(n)),
                    {"stmts": n, "globals": n}))
        # a block whose end lies n statements ahead: forward jump over the body
        out.append(("big-if-body-%d" % n, "x := 0\nif x == 0\n" + "    x = x + 1\n" * n + "else\n    x = 2\nend\nx = 3\n", {"stmts": n}))
        out.append(("big-while-body-%d" % n, "x := 0\nwhile x < 1\n" + "    x = x + 1\n" * n + "end\n", {"stmts": n}))
        out.append(("big-for-body-%d" % n, "x := 0\nfor i := range 1\n" + "    x = x + i\n" * n + "end\n", {"stmts": n}))
        out.append(("big-while-break-%d" % n, "x := 0\nwhile true\n    if x > 0\n        break\n    end\n" + "    x = x + 1\n" * n + "end\n", {"stmts": n}))
    for n in ([3, 300, 2000, 70000]):
        out.append(("const-distinct-%d" % n, "x := 0\n" + "".join("x = %d\n" % (i + 1) for i in range(n)), {"consts": n}))
        out.append(("array-elems-%d" % n, "a := [" + " ".join(str(i % 10) for i in range(n)) + "]\na = a\n", {"elems": n}))
        out.append(("map-elems-%d" % n, "m := {" + " ".join("k%d:%d" % (i, i % 10) for i in range(n)) + "}\nm = m\n", {"elems": n}))
    for n in [2, 50, 4000, 9000]:
        chain = "x := 5\nif x == 0\n    x = 100\n" + "".join("else if x == %d\n    x = %d\n" % (i + 1, 100 + i) for i in range(n)) + "else\n    x = 1\nend\nx = x\n"
        out.append(("if-chain-%d" % n, chain, {"arms": n}))
    for n in [2, 40, 400]:
        nest = "x := 0\n"
        for i in range(n):
            nest += "    " * 0 + "if x == 0\n"
        nest += "x = 1\n" + "end\n" * n
        out.append(("if-nest-%d" % n, nest, {"depth": n}))
        nestl = "if true\n    v := 0\n"
        for i in range(n):
            nestl += "if v == 0\n    v%d := v\n    v%d = v%d\n" % (i, i, i)
        nestl += "end\n" * n + "end\n"
        out.append(("local-nest-%d" % n, nestl, {"depth": n}))
    for n in [5, 300, 2500]:
        # operand stack depth (StackSize is 2048): documented ErrStackOverflow, not a crash
        out.append(("deep-expr-%d" % n, "x := " + "(1 + " * n + "1" + ")" * n + "\nx = x\n", {"exprdepth": n}))
        out.append(("deep-array-%d" % n, "x := [" + " ".join("[%d]" % i for i in range(n)) + "]\nx = x\n", {"elems": n}))
    return out
