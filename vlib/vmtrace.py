"""Direction B for C16 / C17: step traces of the real VM (ip, stack height, value on top before every
instruction) on the real compiler's code, validated against EvyVM.tla."""
import json
import os
import re
import shutil
import subprocess

from . import common
from .common import HarnessError


def _text(m):
    try:
        return '"' + "".join(chr(int(x)) for x in m.group(1).split(",") if x.strip()) + '"'
    except ValueError:
        return m.group(0)


def run(chk, sources, label="EvyVM", max_steps=1500):
    """sources: list of (id, text). Returns {id: verdict}."""
    common.build_harness()
    d = common.scratch("vmrec")
    inp, outp = os.path.join(d, "src.ndjson"), os.path.join(d, "vmprogs.ndjson")
    seen = set()
    with open(inp, "w") as f:
        for sid, text in sources:
            if text in seen:
                continue
            seen.add(text)
            f.write(json.dumps({"id": sid, "src": text}) + "\n")
    r = subprocess.run([common.HARNESS, "record-vm", "-in", inp, "-out", outp, "-max", str(max_steps)], capture_output=True, text=True, timeout=1200)
    if r.returncode != 0:
        raise HarnessError("record-vm failed: " + r.stderr[-2000:])
    progs = [json.loads(l) for l in open(outp) if l.strip()]
    verdicts = {}
    if progs:
        res = common.run_tlc("EvyVM", "EvyVM.cfg", extra_files=[(outp, "vmprogs.ndjson")], timeout=1500, name="evyvm", java_opts=["-Xss1g"])
        if res.violation:
            raise HarnessError("EvyVM.tla violates its own invariant: " + res.violation[:400])
        chk.add_tlc(res, label)
        for c in res.cases:
            verdicts[c["id"]] = c
    byid = {p["id"]: p for p in progs}
    nsteps = nok = nuns = 0
    for pid, pr in byid.items():
        v = verdicts.get(pid)
        if v is None:
            raise HarnessError("EvyVM.tla gave no verdict for program " + pid)
        nsteps += v["steps"]
        vd = re.sub(r"<<([0-9, ]*)>>", _text, v["verdict"])       # code-point lists as text
        if vd in ("ok", "ok-cut"):
            nok += 1
        elif vd.startswith("unspec@"):
            nuns += 1
        else:
            chk.mismatch("vmtrace", "VM trace is not a run of EvyVM: " + vd + " :: " + pr["src"].replace("\n", " / ")[:300],
                         {"program": pr["src"], "verdict": vd, "vm_result": pr["result"]})
    # vacuity guard: which instructions of the instruction set did the validated runs execute
    ALL = ["OpConstant", "OpGetGlobal", "OpSetGlobal", "OpDrop", "OpGetLocal", "OpSetLocal", "OpAdd", "OpSubtract", "OpMultiply", "OpDivide", "OpModulo",
           "OpTrue", "OpFalse", "OpNot", "OpMinus", "OpEqual", "OpNotEqual", "OpNumLessThan", "OpNumLessThanEqual", "OpNumGreaterThan",
           "OpNumGreaterThanEqual", "OpStringLessThan", "OpStringLessThanEqual", "OpStringGreaterThan", "OpStringGreaterThanEqual",
           "OpStringConcatenate", "OpArray", "OpArrayConcatenate", "OpArrayRepeat", "OpMap", "OpIndex", "OpSetIndex", "OpSlice", "OpNone", "OpJump",
           "OpJumpOnFalse", "OpStepRange", "OpIterRange"]
    opcount = dict.fromkeys(ALL, 0)
    for pr in byid.values():
        at = {i["ip"]: i["op"] for i in pr["code"]}
        for st in pr["trace"][: verdicts[pr["id"]]["steps"] if pr["id"] in verdicts else 0]:
            opcount[at.get(st["ip"], "?")] = opcount.get(at.get(st["ip"], "?"), 0) + 1
    chk.traces += nok + nuns
    chk.evaluations += len(byid)
    chk.extra["vm_traces"] = {"programs_compiled": len(byid), "accepted": nok, "accepted_up_to_an_unspecified_point": nuns,
                              "steps_validated": nsteps, "programs_offered": len(seen),
                              "instructions_never_executed": sorted(k for k, v in opcount.items() if v == 0),
                              "steps_by_instruction": {k: v for k, v in sorted(opcount.items()) if v}}
    shutil.rmtree(d, ignore_errors=True)
    return verdicts
