"""C20 - sealed answers round-trip and answer verification is exact.

Two specifications, both bound in direction A (spec -> code):

* spec/Seal.tla    the envelope of learn.Encrypt/Decrypt with symbolic crypto.
  TLC enumerates every tamper schedule (text class x region x kind x key) and
  checks NeverDifferent / RoundTrip / WrongKeyRejected / OriginalOnlyIfIntact in
  the model; every schedule is replayed by harness stage c20seal on REAL
  ciphertexts made by learn.Encrypt with key pairs generated for this run, each
  abstract cell expanded to every byte position of its block.
  Verdict (from the real code only): Decrypt returns an error or exactly the
  original text - a different text, a panic or a hang is a violation; the
  untouched value with the matching key must give the original.
* spec/Verify.tla  every cell (form x answer type x n x outputs x marked set)
  with the verdict accept <=> marked = matching; stage c20verify writes the
  cell as a question markdown file, loads it with learn.NewQuestionModel and
  compares Verify() with the prescribed verdict.
"""
import json
import os
import random
import shutil
import time

from . import common

# abstract cells per region: spec/Seal.tla L, T and CtCells
PARTS = {"ver": 1, "len": 2, "rsa": 2, "tag": 2}
CT_CELLS = {"empty": 0, "one": 1}
TAGLEN = 16  # AES-GCM tag
BOUNDARY_LENS = [2, 3, 4, 15, 16, 17, 32, 33, 64, 255, 256, 300]


def _keys(tier):
    # one modulus whose length is not a whole number of bytes (levy crypto keygen -l takes any length)
    sizes = ["1024", "1024", "2048", "1031"] if tier == "quick" else ["1024", "1024", "2048", "1031", "1536", "2047", "1100"]
    r = common.harness_cmd(["c20keys"] + sizes, timeout=300)
    if r.returncode != 0:
        raise common.HarnessError("key generation failed: " + r.stderr[-500:])
    return json.loads(r.stdout)


def _sig(sched):
    return "+".join("/".join(x for x in (s["kind"], s["region"], str(s["part"]) if s["part"] else "", s["arg"]) if x)
                    for s in sched) or "untouched"


def _merge(tlc_cases):
    """One behaviour per (text class, key, schedule); the outcome class is the
    union over the model's resolutions of what a cell corruption does."""
    m = {}
    for c in tlc_cases:
        k = (c["tc"], c["key"], json.dumps(c["sched"], sort_keys=True))
        m.setdefault(k, set()).add(c["outcome"])
    out = []
    for (tc, key, sj), oc in sorted(m.items()):
        if "different" in oc:
            raise common.HarnessError("Seal.tla emitted outcome 'different' (spec bug)")
        pred = "original-or-reject" if len(oc) > 1 else next(iter(oc))
        out.append({"tc": tc, "key": key, "sched": json.loads(sj), "predicted": pred})
    return out


def _lens(tc, tier, rnd, nsteps, key):
    if tc == "empty":
        return [0]
    if tc == "one":
        return list(range(12)) if nsteps <= 1 else rnd.sample(range(12), 2)
    if nsteps == 0 and key == "right" and tier != "quick":
        return list(range(2, 301))      # round trip: every length in every class
    if nsteps >= 2 and key == "wrong":
        return [rnd.choice([2, 3, 16, 17, rnd.randint(4, 300)])]
    if nsteps >= 2 or key == "wrong":
        return sorted({rnd.choice([2, 3, 4, 5, 16, 17]), rnd.randint(6, 300)})
    if tier == "quick":
        base = [2, 3, 16, 17, 300]
        return sorted(set(base + rnd.sample(range(4, 300), 3)))
    # thorough: every length 2..300 is used by one of the four text classes
    # (which one rotates with the seed), the boundary lengths by all
    idx = ["ascii", "multibyte", "ctl", "mixed"].index(tc)
    lens = [n for n in range(2, 301) if (n + common.seed()) % 4 == idx]
    return sorted(set(lens + BOUNDARY_LENS))


def _seal_cases(chk, behaviours, keys):
    rnd = random.Random(common.seed())
    tier = chk.tier
    malformed = ["", "AAAA", "not base64 !"]
    cases = []
    for i, b in enumerate(behaviours):
        n = len(b["sched"])
        # rotate key pairs; thorough also seals with the bigger keys
        nk = len(keys)
        ki = rnd.randrange(nk) if (n <= 1 and b["key"] == "right") else rnd.choice([0, 1])
        if tier == "quick" and keys[ki]["bits"] != 1024 and b["sched"]:
            ki = rnd.choice([0, 1])
        kp = keys[ki]
        others = [k["priv"] for j, k in enumerate(keys) if j != ki]
        wrong = others[:3] + malformed + [kp["pub"]]
        lens = _lens(b["tc"], tier, rnd, n, b["key"])
        parts = dict(PARTS, ct=CT_CELLS.get(b["tc"], 2))
        cap1 = 0 if (n <= 1 and b["key"] == "right") else (20 if b["key"] == "right" else 4)
        if b["key"] == "wrong" and n <= 1:
            cap1 = 24
        chunk = 4 if tier == "quick" else 12
        for j in range(0, len(lens), max(chunk, 1)):
            cases.append({
                "id": "s%05d.%d" % (i, j // max(chunk, 1)), "stage": "c20seal",
                "class": "seal:%s:%s:%s" % (b["tc"], b["key"], _sig(b["sched"])),
                "tc": b["tc"], "key": b["key"], "bits": kp["bits"], "pub": kp["pub"], "priv": kp["priv"],
                "wrong": wrong, "sched": b["sched"], "lens": lens[j:j + chunk], "seed": common.seed(),
                "cap1": cap1, "cap2": 3 if b["key"] == "right" else 2, "parts": parts, "taglen": TAGLEN,
                "predicted": b["predicted"],
            })
    return cases


def _verify_cases(chk, cells, keys, tmp):
    rnd = random.Random(common.seed() + 1)
    nseal = 400 if chk.tier == "quick" else 2000
    sealed_idx = set(rnd.sample(range(len(cells)), min(nseal, len(cells))))
    cases = []
    for i, c in enumerate(cells):
        kp = keys[i % 2]
        sealed = i in sealed_idx or (chk.tier != "quick" and c["expect"] == "accept")
        cases.append({
            "id": "v%05d" % i, "stage": "c20verify", "class": c["class"], "form": c["form"], "atype": c["atype"],
            "n": c["n"], "out": c["out"], "marked": c["marked"], "spell": c.get("spell", "lower"), "expect": c["expect"], "seed": common.seed(),
            "tmp": tmp, "sealed": sealed,
            "pub": kp["pub"] if sealed else "", "priv": kp["priv"] if sealed else "",
            "wrong": keys[1 - i % 2]["priv"] if sealed else "",
        })
    return cases


def _triage(chk, cases, results, fidelity):
    """Results -> violations; anything that is the machinery's fault -> HarnessError."""
    for c in cases:
        r = results[c["id"]]
        obs = r.get("obs") or {}
        if c["stage"] == "c20seal":
            chk.evaluations += int(obs.get("evals", 0))
            chk.nontrivial.add(c["class"])
            if r["ok"]:
                no, nr = int(obs.get("original", 0)), int(obs.get("reject", 0))
                f = fidelity.setdefault(c["predicted"], {"behaviours": 0, "original": 0, "reject": 0, "disagree": []})
                f["behaviours"] += 1
                f["original"] += no
                f["reject"] += nr
                if (c["predicted"] == "reject" and no) or (c["predicted"] == "original" and nr):
                    f["disagree"].append(c["class"])
        else:
            chk.evaluations += 1
            chk.nontrivial.add((c["form"], c["atype"], c["n"], tuple(c["out"]), tuple(c["marked"])))
        chk.traces += 1
        if r["ok"]:
            continue
        diff = r.get("diff", "")
        if (diff.startswith("harness:") or diff.startswith("layout:")) and not r.get("crash") and not r.get("timeout"):
            raise common.HarnessError("case %s (%s): %s" % (c["id"], c["class"], diff[:1500]))
        small = {k: v for k, v in c.items()}
        chk.mismatch(c["class"], diff, {"case": small, "result": r})


def run(chk):
    tier = chk.tier
    common.build_harness()
    keys = _keys(tier)
    fidelity = {}
    phases = {}
    t0 = time.time()

    # ---- Seal -----------------------------------------------------------
    res = common.run_tlc("Seal", "Seal.cfg", defines={"TIER": tier, "AUTH": "TRUE"}, timeout=300)
    chk.add_tlc(res, "Seal %s (Authenticated)" % tier)
    behaviours = _merge(res.cases)
    if not behaviours:
        raise common.HarnessError("Seal.tla emitted no behaviour")
    # negative control: without authentication the model must reach 'different'
    neg = common.run_tlc("Seal", "Seal.cfg", defines={"TIER": "quick", "AUTH": "FALSE"}, allow_violation=True,
                         timeout=120, name="SealNeg")
    if not (neg.violation and "NeverDifferent" in neg.violation):
        raise common.HarnessError("negative control: NeverDifferent is not violated with Authenticated = FALSE (vacuous invariant)")
    chk.extra["negative_control"] = "NeverDifferent violated in the model when GCM is replaced by an unauthenticated mode"
    if tier != "quick":
        deep = common.run_tlc("Seal", "Seal.cfg", defines={"TIER": "deep", "AUTH": "TRUE"}, timeout=400, name="SealDeep")
        chk.add_tlc(deep, "Seal deep (3 tamper steps, invariants only)")
    scases = _seal_cases(chk, behaviours, keys)
    common.log("C20: %d seal behaviours -> %d replay cases" % (len(behaviours), len(scases)))
    phases["seal_tlc"] = time.time() - t0
    t0 = time.time()
    sres = common.replay(scases, deadline="600s", name="c20seal")
    phases["seal_replay"] = time.time() - t0
    t0 = time.time()
    _triage(chk, scases, sres, fidelity)
    for c in scases[:1] + [c for c in scases if c["predicted"] == "original-or-reject"][:1]:
        o = sres[c["id"]].get("obs") or {}
        chk.sample({"behaviour": c["class"], "predicted": c["predicted"],
                    "observed": {k: o.get(k) for k in ("evals", "original", "reject")}})
    for c in scases:
        if c["sched"] and c["key"] == "right" and c["sched"][0]["kind"] == "flip" and c["sched"][0]["region"] == "tag":
            o = sres[c["id"]].get("obs") or {}
            chk.sample({"behaviour": c["class"], "bits": c["bits"], "text_lengths": c["lens"][:8],
                        "predicted": c["predicted"], "observed": {k: o.get(k) for k in ("evals", "original", "reject")}})
            break

    # ---- Verify ---------------------------------------------------------
    vres = common.run_tlc("Verify", "Verify.cfg", defines={"TIER": tier}, timeout=300)
    chk.add_tlc(vres, "Verify %s" % tier)
    cells = sorted(vres.cases, key=lambda c: json.dumps(c, sort_keys=True))
    if not cells:
        raise common.HarnessError("Verify.tla emitted no cell")
    tmp = os.path.join(common.OUT, "scratch", "c20q.%d" % os.getpid())
    os.makedirs(tmp, exist_ok=True)
    try:
        vcases = _verify_cases(chk, cells, keys, tmp)
        common.log("C20: %d verify cells" % len(vcases))
        phases["verify_tlc"] = time.time() - t0
        t0 = time.time()
        vr = common.replay(vcases, deadline="120s", name="c20verify")
        phases["verify_replay"] = time.time() - t0
    finally:
        shutil.rmtree(tmp, ignore_errors=True)
    _triage(chk, vcases, vr, fidelity)
    acc = [c for c in vcases if c["expect"] == "accept"]
    for c in acc[:1] + [c for c in vcases if ":beyond:rest-exact" in c["class"]][:1]:
        o = vr[c["id"]].get("obs") or {}
        chk.sample({"cell": {k: c[k] for k in ("form", "atype", "n", "out", "marked", "expect")},
                    "answer": o.get("answer"), "verdict": o.get("verdict")})

    chk.extra["phase_wall_s"] = {k: round(v, 1) for k, v in phases.items()}
    chk.extra["seal_behaviours"] = len(behaviours)
    chk.extra["seal_replay_cases"] = len(scases)
    chk.extra["verify_cells"] = len(vcases)
    chk.extra["verify_cells_with_front_matter_seal_unseal"] = sum(1 for c in vcases if c["sealed"])
    chk.extra["key_pairs_this_run_bits"] = [k["bits"] for k in keys]
    chk.extra["model_vs_code_outcome"] = {
        p: {"behaviours": f["behaviours"], "decrypt_original": f["original"], "decrypt_rejected": f["reject"],
            "disagreeing_behaviours": sorted(set(f["disagree"]))[:20]} for p, f in sorted(fidelity.items())}
    chk.rule = ("Seal: every tamper schedule of Seal.tla (text class x region cell x kind x key, up to %d steps), each cell "
                "expanded on real ciphertexts to every byte position of its block (flips with masks 01/80/ff/random, every "
                "truncation length, extension by 1..3 bytes, every length-field value up to the total length and the extremes, "
                "every armour character); texts of 0..300 runes incl. multi-byte UTF-8, NUL, CR/LF. "
                "Verify: every cell form x answer-type x n x outputs x marked set of Verify.tla. "
                "non-trivial = distinct (text class, key, schedule) / distinct verify cell; evaluations = Decrypt calls + cells"
                % (1 if tier == "quick" else 2))
    chk.exhaustive = True
    chk.assumptions += [
        "Go crypto/rsa (OAEP), crypto/aes + cipher (GCM), encoding/base64, crypto/x509 are trusted; cryptographic strength is "
        "not modelled: Seal.tla uses symbolic crypto (decryption succeeds iff key, key block, ciphertext and tag are the ones "
        "produced) - the replay on real ciphertexts is what speaks about the code",
        "an adversary who makes a NEW sealed value with the public key is outside the property (corruptions of a sealed value)",
        "the outcome class predicted by the model (original / reject) is compared with the code for information only "
        "(model_vs_code_outcome): the property allows either for an altered value",
        "two-step schedules, wrong-key schedules: first step sampled (20 / 4..24 variants), later steps 3 / 2 variants",
        "Verify: outputs are three clearly different values; questions are built valid, an error other than ErrWrongAnswer is a "
        "harness error; empty answers and single-choice answers with several letters are refused before verification and "
        "are not cells",
    ]
    dis = sum(len(f["disagree"]) for f in fidelity.values())
    if dis:
        chk.notes.append("%d behaviour(s) where the code's outcome differs from the model's prediction although the property "
                         "holds (see coverage.model_vs_code_outcome)" % dis)


def replay_one(data):
    case = data["data"]["case"]
    if case["stage"] == "c20verify":
        case = dict(case, tmp=os.path.join(common.OUT, "scratch", "c20q.replay.%d" % os.getpid()))
    try:
        res = common.replay([case], deadline="600s")[case["id"]]
    finally:
        if case["stage"] == "c20verify":
            shutil.rmtree(case["tmp"], ignore_errors=True)
    print(json.dumps({"class": case.get("class"), "result": res}, indent=1, ensure_ascii=False)[:6000])
    if not res["ok"]:
        print("VIOLATION property=%s replay=%s" % (data["property"], "(replayed)"))
        return 1
    return 0
