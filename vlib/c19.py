"""C19 - SVG output is well formed and shows exactly what was drawn.

Direction A: spec/FamSvg.tla (actions of spec/Svg.tla, written from
docs/builtins.md) enumerates sequences of graphics built-in calls; each
sequence becomes an Evy program that is run in-process (cli.WithSVG platform +
evaluator + WriteSVG) and, for a seed-chosen subset, through the real binary
`evy run --svg-out -`; the SVG text is parsed, flattened (harness/svgflat.go)
and compared shape by shape with the model's `drawn`.
Direction B: platform call traces of the repository's drawing programs,
together with the flattened SVG they produce, validated by spec/SvgTrace.tla.
"""
import json
import os
import random
import re
import resource
import shutil
import time

from . import common
from .common import HarnessError

NAN = 2000000000
# what the model calls "MARKUP": XML markup characters, quotes, a CDATA end, a
# comment opener, an entity look-alike, non-ASCII, tab and newline, double blank
MARKUP = 'a<b  &"c]]>\'\u00e9\t<!--x-->&amp;\n;'

NFULL = 80
STYLE_OPS = {"color", "colour", "stroke", "fill", "width", "dash", "linecap", "font"}


# --------------------------------------------------------------------------
# rendering a command sequence as an Evy program (one call per line)

def num(v):
    if v == NAN:
        return "nan"
    s = "%d" % (v // 10) if v % 10 == 0 else repr(v / 10)
    return "(%s)" % s if v < 0 else s


def lit(s):
    s = MARKUP if s == "MARKUP" else s
    out = s.replace("\\", "\\\\").replace('"', '\\"').replace("\t", "\\t").replace("\n", "\\n")
    return '"' + out + '"'


def strarg(c):
    if c["hs"]:
        return "(hsl " + " ".join(num(x) for x in c["hs"]) + ")"
    return lit(c["s"])


def render_cmd(c):
    op = c["op"]
    if op == "poly":
        parts, k = [], 0
        for n in c["vl"]:
            parts.append("[" + " ".join(num(x) for x in c["n"][k:k + n]) + "]")
            k += n
        return " ".join([op] + parts)
    if op == "font":
        props = []
        for p in c["fp"]:
            v = num(p["num"]) if p["k"] in ("size", "weight", "letterspacing") else lit(p["str"])
            props.append("%s:%s" % (p["k"], v))
        return "font {" + " ".join(props) + "}"
    if op == "gridn":
        return "gridn %s %s" % (num(c["n"][0]), strarg(c))
    args = [num(x) for x in c["n"]]
    if c["ns"]:
        args.append(strarg(c))
    return " ".join([op] + args)


def uses_nan(cmds):
    return any(x == NAN for c in cmds for x in list(c["n"]) + list(c["hs"]) + [p["num"] for p in c["fp"]])


def render(cmds):
    lines = [render_cmd(c) for c in cmds]
    if uses_nan(cmds):
        lines = ["nan := 0/0"] + lines
    return "\n".join(lines) + "\n"


def subst(drawn):
    """Replace the model's MARKUP token in expected values (text content and font family are the only places an
    arbitrary string can reach: invalid colours and linecaps never enter the style)."""
    for e in drawn:
        if e["k"] == "text":
            if e["t"] == "MARKUP":
                e["t"] = MARKUP
            if e["ts"]["family"] == "MARKUP":
                e["ts"]["family"] = MARKUP
    return drawn


# --------------------------------------------------------------------------
# classes

def case_class(raw):
    """Class of a case as a whole (used when there is no per-shape diff)."""
    last = raw["cmds"][-1]
    if raw["outcome"] == "unspec":
        u = last["n"][0]
        return "gridn-nan" if u == NAN else "gridn-nonpositive"
    return "case"


def diff_classes(case, result):
    """[(class, text)] for one failed case: every difference is attributed to
    the tags the specification attached to that field of that shape."""
    out = {}
    diffs = (result.get("obs") or {}).get("diffs")
    if not diffs:
        cls = case["cclass"]
        out.setdefault(cls, []).append(result.get("diff", "").strip() or "no result")
        return out
    for d in diffs:
        i = d["i"]
        if i < 0:
            cls = "document"
        else:
            tags = sorted({t[1] for t in case["tags"][i] if t[0] == d["field"]})
            cls = "+".join(tags) if tags else "untagged"
        text = ("document: %s: spec %s, implementation %s" % (d["field"], json.dumps(d["exp"]), json.dumps(d["got"]))
                if i < 0 else
                "shape %d (%s): %s: spec %s, implementation %s" % (i, d["kind"], d["field"], json.dumps(d["exp"]),
                                                                    json.dumps(d["got"])))
        out.setdefault(cls, []).append(text)
    return out


# --------------------------------------------------------------------------

def make_cases(raws, prefix):
    cases = []
    seen = set()
    for n, r in enumerate(raws):
        src = render(r["cmds"])
        if src in seen:
            continue
        seen.add(src)
        drawn = subst(r["drawn"])
        c = {"id": "%s-%d" % (prefix, n), "stage": "svg", "mode": "inproc", "src": src,
             "outcome": r["outcome"], "flags": {},
             "drawn": [{k: v for k, v in e.items() if k != "tg"} for e in drawn],
             "tags": [e["tg"] for e in drawn], "nt": r["nt"], "cclass": case_class(r),
             "ncmd": len(r["cmds"])}
        cases.append(c)
    return cases


def bin_variant(c, k, tmp):
    b = dict(c)
    b["id"] = c["id"] + "-bin"
    b["mode"] = "bin"
    b["evy"] = common.EVY
    b["tmp"] = tmp
    b["stdin"] = (k % 3 == 0)
    b["out"] = ("stdout", "longer", "fresh", "shorter", "stdout")[k % 5]
    b["timeoutMs"] = 60000
    b["cpuSecs"] = 4
    if k % 2 == 0:
        b["flags"] = {"style": 'border: 1px solid "red" & <b>', "width": "400", "height": "50%"}
    return b


def sample_of(c):
    return {"program": c["src"], "outcome": c["outcome"],
            "expected_shapes": [{"kind": e["k"], "geometry_tenths": e["g"],
                                 "style": {f: (e["st"].get(f, (e.get("ts") or {}).get(f))) for f in e["obs"]},
                                 **({"text": e["t"]} if e["k"] == "text" else {})}
                                for e in c["drawn"][:6]]}


def account(chk, cases, results):
    for c in cases:
        r = results[c["id"]]
        chk.evaluations += 1
        chk.traces += 1
        if c["nt"]:
            chk.nontrivial.add(c["src"])
        if r["ok"]:
            continue
        for cls, texts in diff_classes(c, r).items():
            chk.mismatch(cls, "\n".join(texts[:8]), {"case": c, "class": cls, "result": {k: v for k, v in r.items() if k != "obs"}})


def tlc(chk, tier, maxlen, *, simulate=None, label=None, workers=None):
    cfg = "FamSvgSim.cfg" if simulate else "FamSvg.cfg"
    res = common.run_tlc("FamSvg", cfg, defines={"TIER": tier, "MAXLEN": maxlen}, simulate=simulate,
                         depth=maxlen + 1 if simulate else None, timeout=900, java_opts=["-Xss16m"], workers=workers,
                         name=(label or "FamSvg").replace("/", "_"))
    chk.add_tlc(res, label or ("FamSvg/" + tier))
    if not res.cases:
        raise HarnessError("TLC produced no cases for FamSvg/" + tier)
    return res


def replay(cases, *, deadline, workers=None, name="c19", batch=40):
    """Replay "svg" cases in batches (one round trip to a worker per batch); a batch without per-case results
    (hang, crash) is run again case by case so that the verdict is attributed to the right case."""
    svg = [c for c in cases if c.get("stage") == "svg" and batch > 1]
    rest = [c for c in cases if not (c.get("stage") == "svg" and batch > 1)]
    groups = {}
    for c in svg:
        groups.setdefault(c.get("mode"), []).append(c)
    batches = []
    for mode, lst in groups.items():
        n = batch if mode != "bin" else 8
        for i in range(0, len(lst), n):
            batches.append({"id": "batch-%s-%d" % (mode, i), "stage": "svgbatch", "cases": lst[i:i + n]})
    raw = replay_raw(rest + batches, deadline=deadline, workers=workers, name=name)
    results = {c["id"]: raw[c["id"]] for c in rest}
    redo = []
    for b in batches:
        sub = (raw[b["id"]].get("obs") or {}).get("results")
        if sub is None or len(sub) != len(b["cases"]):
            redo += b["cases"]
            continue
        for r in sub:
            results[r["id"]] = r
    if redo:
        results.update(replay_raw(redo, deadline=deadline, workers=workers, name=name + "single"))
    for c in cases:
        r = results[c["id"]]
        if (not r["ok"]) and (r.get("diff") or "").startswith("harness:"):
            raise HarnessError("case %s: %s" % (c["id"], r["diff"]))
    return results


def replay_raw(cases, *, deadline, workers=None, name="c19"):
    """common.replay under an address-space limit for the worker processes (a hanging drawing loop allocates)."""
    if not cases:
        return {}
    soft, hard = resource.getrlimit(resource.RLIMIT_AS)
    cap = 8 << 30
    try:
        resource.setrlimit(resource.RLIMIT_AS, (cap if hard == resource.RLIM_INFINITY else min(cap, hard), hard))
        return common.replay(cases, deadline=deadline, workers=workers, name=name)
    finally:
        resource.setrlimit(resource.RLIMIT_AS, (soft, hard))


def timed_out(r):
    return (not r["ok"]) and r.get("timeout")


def replay_robust(cases, *, deadline="120s", name="c19", batch=40):
    """Replay; a case that only ran out of WALL-CLOCK time (pool deadline, or the binary's wall timeout without
    having used its CPU budget) is run again alone with a long deadline: slowness of a loaded machine is no hang."""
    results = replay(cases, deadline=deadline, name=name, batch=batch)
    again = [c for c in cases if timed_out(results[c["id"]]) and not (results[c["id"]].get("obs") or {}).get("cpulimit")]
    if again:
        if len(again) > 40:
            raise HarnessError("%d cases ran out of wall-clock time: the machine is too loaded to judge" % len(again))
        results.update(replay(again, deadline="300s", workers=2, name=name + "retry", batch=1))
    return results


def run(chk):
    tier = chk.tier
    common.build_harness()
    common.build_evy()
    rnd = random.Random(common.seed())
    timing = chk.extra.setdefault("timing_s", {})
    t0 = [time.time()]

    def lap(name):
        timing[name] = round(time.time() - t0[0], 1)
        t0[0] = time.time()
    os.environ.setdefault("GOMAXPROCS", "2")   # many small cases: one OS thread pair per worker process is plenty

    raws = tlc(chk, "quick" if tier == "quick" else "thorough", 3, workers=8 if tier == "quick" else None).cases
    cases = make_cases(raws, "s")
    # style histories: all sequences of 3 (thorough: 4) style changes followed by one shape
    hist = tlc(chk, "hist", 4 if tier == "quick" else 5, workers=8, label="FamSvg/hist")
    have0 = {c["src"] for c in cases}
    cases += [c for c in make_cases(hist.cases, "h") if c["src"] not in have0]
    if tier != "quick":
        have = {c["src"] for c in cases}
        for n in (5, 4):
            # -simulate evaluates the emitting invariant on every successor it generates, so each random walk
            # yields its last state's ~80 siblings: 30 walks x 8 workers = 240 random prefixes per length
            sim = tlc(chk, "sim", n, simulate=30, workers=8, label="FamSvg/sim%d" % n)
            new = [c for c in make_cases(sim.cases, "r%d" % n) if c["src"] not in have]
            have.update(c["src"] for c in new)
            cases += new

    lap("tlc+cases")
    tmp = os.path.join(common.OUT, "scratch", "c19bin.%d" % os.getpid())
    try:
        # gridn with a unit that is not > 0 (only termination is demanded). The binary decides (CPU-time limit);
        # an in-process timeout is believed only if the binary hangs too, otherwise it is re-run with a long deadline.
        risky = [c for c in cases if c["cclass"] == "gridn-nonpositive"]
        normal = [c for c in cases if c["cclass"] != "gridn-nonpositive"]
        probe = rnd.sample(risky, min(4, len(risky)))
        probe_bin = [bin_variant(c, k, tmp) for k, c in enumerate(probe[:2])]
        for b in probe_bin:
            b["cpuSecs"] = 2
        bres = replay_robust(probe_bin, name="c19probebin", batch=1)
        account(chk, probe_bin, bres)
        bin_hangs = any((bres[b["id"]].get("obs") or {}).get("cpulimit") for b in probe_bin)
        if bin_hangs:
            pres = replay(probe[:3], deadline="5s", workers=3, name="c19probe", batch=1)
            account(chk, probe[:3], pres)
            chk.notes.append("gridn with a unit <= 0 does not terminate (%d probes through the binary, %d in-process); the "
                             "other %d sequences of that class were not run" % (len(probe_bin), 3, len(risky) - len(probe[:3])))
            nrisky = len(probe[:3])
        else:
            normal += risky
            nrisky = 0

        lap("hang-probe")
        nbin = 400 if tier == "quick" else 2000
        chosen = rnd.sample(normal, min(nbin, len(normal)))
        bins = [bin_variant(c, k, tmp) for k, c in enumerate(chosen)]
        results = replay_robust(normal + bins)
    finally:
        shutil.rmtree(tmp, ignore_errors=True)
    account(chk, normal + bins, results)
    lap("replay")

    direction_b(chk, rnd)
    lap("direction-b")

    for c in (normal[:1] + [c for c in normal if c["nt"] and c["ncmd"] == 3][:2]
              + [c for c in normal if c["outcome"] != "ok"][:1]):
        chk.sample(sample_of(c))
    chk.extra["cases_in_process"] = len(normal) + nrisky
    chk.extra["cases_through_binary"] = len(bins) + len(probe_bin)
    chk.extra["sequences_by_length"] = {str(n): sum(1 for c in cases if c["ncmd"] == n) for n in range(1, 6)}

    chk.rule = ("every sequence of graphics built-in calls over the alphabet of FamSvg.tla that contains a drawing "
                "command: all of <= 2 calls over all %d calls, all of 3 calls over the %s%s; direction B: platform "
                "call traces of %s drawing programs of the repository accepted by SvgTrace.tla and their SVG documents "
                "compared with the model's canvas; non-trivial = distinct program with a style change before a "
                "drawing command"
                % (NFULL, "21 core calls" if tier == "quick" else "41 core+second calls",
                   "" if tier == "quick" else ", plus random sequences of 4 and 5 calls (TLC -simulate, seeded)",
                   "a seed-chosen subset of the" if tier == "quick" else "all"))
    chk.exhaustive = True
    chk.assumptions += [
        "oracle = spec/Svg.tla written from docs/builtins.md only; numbers are tenths of a canvas unit (1e-5 unit in "
        "recorded traces, compared with tolerance 5e-5), NaN a sentinel",
        "the flattener (harness/svgflat.go) resolves inheritance as SVG 2 / CSS do (dominant-baseline inherited), "
        "ignores presentation attributes whose value is invalid (as a renderer does), reads numbers leniently "
        "(NaN, negative) and undoes ONE coordinate transform (x/10, 100-y/10) for every kind of shape",
        "not observed (documentation silent): width of thin grid lines under a non-default pen width; dash, linecap, "
        "fill, order and direction of grid lines; stroke, width, dash, linecap of text and of the clear background; "
        "direction of the ellipse tilt; default font family; anything after gridn with a unit that is not > 0 "
        "except termination",
        "a hang is judged by CPU time for the binary (ulimit -t) and by a wall-clock deadline in-process; runs that "
        "only exceed a wall-clock limit are repeated alone with a 300 s deadline before they count",
    ]


# --------------------------------------------------------------------------
# direction B: recorded platform calls of the repository's drawing programs

GFX = re.compile(r"^\s*(move|line|rect|circle|poly|ellipse|text|clear|grid|gridn|color|colour|stroke|fill|width|dash|"
                 r"linecap|font)\b", re.M)


def corpus():
    files = []
    for root, dirs, names in os.walk(common.REPO):
        dirs[:] = [d for d in dirs if d not in (".git", "node_modules", "out")]
        for n in names:
            if n.endswith(".evy"):
                p = os.path.join(root, n)
                try:
                    if GFX.search(open(p, encoding="utf-8").read()):
                        files.append(p)
                except (OSError, UnicodeDecodeError):
                    pass
    return sorted(files)


def trace_cases(reports, recs):
    """doc-mode cases: the model's canvas at the end of each trace against the document the run wrote."""
    cases = []
    for rep in reports:
        rec = recs[rep["id"]]
        strs = rec["strs"]
        drawn = rep["drawn"]
        for e in drawn:
            if e["k"] == "text":
                e["t"] = strs.get(e["t"], e["t"])
                e["ts"]["family"] = strs.get(e["ts"]["family"], e["ts"]["family"])
        cases.append({"id": "t-" + rep["id"], "stage": "svg", "mode": "doc", "doc": rec["doc"], "unit": 100000,
                      "tol": 5e-5, "src": "(recorded) " + rep["id"], "outcome": "ok", "flags": {},
                      "drawn": [{k: v for k, v in e.items() if k != "tg"} for e in drawn],
                      "tags": [e["tg"] for e in drawn], "nt": True, "cclass": "trace", "ncmd": rep["total"],
                      "path": rep["id"]})
    return cases


def direction_b(chk, rnd):
    files = corpus()
    if not files:
        raise HarnessError("no drawing programs found under " + common.REPO)
    pick = files if chk.tier != "quick" else rnd.sample(files, min(24, len(files)))
    rel = lambda p: os.path.relpath(p, common.REPO)
    rcases = [{"id": rel(p), "stage": "svgrec", "path": p, "maxCalls": 300} for p in pick]
    rres = replay(rcases, deadline="60s", name="c19rec")
    recs, skipped = {}, []
    for c in rcases:
        r = rres[c["id"]]
        obs = r.get("obs") or {}
        if not r["ok"]:
            if r.get("timeout"):
                skipped.append((c["id"], "no result within the deadline"))
                continue
            chk.mismatch("trace-record", r.get("diff", ""), {"case": c, "class": "trace-record", "result": r})
            continue
        if obs.get("skip") or not obs.get("ncalls"):
            skipped.append((c["id"], obs.get("skip") or "no graphics call at top level"))
            continue
        recs[c["id"]] = obs
    if not recs:
        raise HarnessError("no drawing program produced a trace")
    lines = "".join(json.dumps({"id": k, "calls": v["calls"]}) + "\n" for k, v in sorted(recs.items()))
    res = common.run_tlc("SvgTrace", "SvgTrace.cfg", workers=1, timeout=600, java_opts=["-Xss64m"],
                         extra_files=[(lines.encode(), "svgtrace.ndjson")], name="SvgTrace")
    chk.add_tlc(res, "SvgTrace (%d traces, %d calls)" % (len(recs), sum(len(v["calls"]) for v in recs.values())))
    reports = {r["id"]: r for r in res.cases}
    if set(reports) != set(recs):
        raise HarnessError("SvgTrace reported %d of %d traces" % (len(reports), len(recs)))
    accepted = []
    for k, rep in sorted(reports.items()):
        if rep["consumed"] != rep["total"]:
            chk.traces += 1
            chk.mismatch("trace-rejected", "%s: call %d of %d (%s) is not a step of Svg: the specification is in status %s"
                         % (k, rep["consumed"] + 1, rep["total"], json.dumps(recs[k]["calls"][rep["consumed"]]),
                            rep["outcome"]), {"case": {"id": k, "path": k, "mode": "trace"}, "class": "trace-rejected"})
        else:
            accepted.append(rep)
    dcases = trace_cases(accepted, recs)
    dres = replay_robust(dcases, deadline="60s", name="c19doc")
    account(chk, dcases, dres)
    chk.extra["direction_b"] = {"drawing_programs_in_repo": len(files), "recorded": len(pick), "validated": len(recs),
                                "calls": sum(len(v["calls"]) for v in recs.values()),
                                "skipped": ["%s: %s" % x for x in skipped][:40]}
    if dcases:
        c = dcases[0]
        chk.sample({"recorded_program": c["path"], "calls": c["ncmd"], "shapes": len(c["drawn"])})


def replay_one(data):
    d = data["data"]
    case = dict(d["case"])
    case["keepDoc"] = True
    if case.get("mode") == "bin":
        common.build_evy()
        case["evy"] = common.EVY
        case["tmp"] = os.path.join(common.OUT, "scratch", "c19bin.%d" % os.getpid())
    res = replay([case], deadline="60s", workers=1, batch=1)[case["id"]]
    shutil.rmtree(case.get("tmp", "/nonexistent"), ignore_errors=True)
    print(case["src"])
    print(json.dumps({k: v for k, v in res.items() if k != "obs"}, indent=1, ensure_ascii=False))
    print((res.get("obs") or {}).get("doc", ""))
    if not res["ok"]:
        classes = diff_classes(case, res)
        if d.get("class") in classes or d.get("class") is None:
            print("VIOLATION property=%s replay=%s" % (data["property"], "(replayed)"))
            return 1
        print("the recorded difference (class %s) is gone; remaining classes: %s" % (d.get("class"), sorted(classes)))
    return 0
