"""Shared machinery of the /verif checks.

Every check is:  TLC on a specification in /verif/spec  ->  behaviours
("cases") or a verdict on a recorded trace  ->  conformance against the real
code built from /repo's working tree  ->  evidence file + exit status.

Exit status: 0 property held on everything explored, 1 violation reproduced on
the real code, 2 trouble in the machinery itself (never reported as a
violation).
"""
import json
import os
import re
import shutil
import subprocess
import sys
import time

VERIF = os.path.dirname(os.path.dirname(os.path.abspath(__file__)))
REPO = os.environ.get("VERIF_REPO", "/repo")
OUT = os.path.join(VERIF, "out")
SPEC = os.path.join(VERIF, "spec")
# with VERIF_REPO (a scratch copy of the repository with a seeded change) every process builds into its own
# directory, so that several such runs and the normal checks never overwrite each other's binaries
_ALT = REPO != "/repo"
BIN = os.path.join(OUT, "bin.%d" % os.getpid()) if _ALT else os.path.join(OUT, "bin")
HARNESS = os.path.join(BIN, "evyverif")
EVY = os.path.join(BIN, "evy")
NCPU = min(16, os.cpu_count() or 4)

GOENV = dict(os.environ, GOFLAGS="-mod=mod", GOPROXY="off", GOSUMDB="off",
             GOTOOLCHAIN="local", CGO_ENABLED="0")


if _ALT:
    import atexit

    def _cleanup_alt():
        shutil.rmtree(BIN, ignore_errors=True)
        shutil.rmtree(os.path.join(OUT, "harness-alt.%d" % os.getpid()), ignore_errors=True)
    atexit.register(_cleanup_alt)


class HarnessError(Exception):
    """Trouble in the verification machinery (exit 2, never a violation)."""


def log(*a):
    print(*a, file=sys.stderr, flush=True)


def seed():
    try:
        return int(os.environ.get("VERIF_SEED", "1"))
    except ValueError:
        return 1


_built = {}


def build_harness():
    """Rebuild the Go harness against /repo's current working tree, hooks on."""
    if _built.get("harness"):
        return
    os.makedirs(BIN, exist_ok=True)
    hdir = os.path.join(VERIF, "harness")
    # go.sum is the union of the repository's two go.sum files (offline build)
    sums = set()
    for p in (os.path.join(REPO, "go.sum"), os.path.join(REPO, "learn", "go.sum")):
        if os.path.exists(p):
            sums.update(l for l in open(p).read().splitlines() if l.strip())
    with open(os.path.join(hdir, "go.sum"), "w") as f:
        f.write("\n".join(sorted(sums)) + "\n")
    gomod = open(os.path.join(hdir, "go.mod")).read()
    if REPO != "/repo":
        gomod = gomod.replace("=> /repo", "=> " + REPO)
        hdir2 = os.path.join(OUT, "harness-alt.%d" % os.getpid())
        shutil.rmtree(hdir2, ignore_errors=True)
        shutil.copytree(hdir, hdir2)
        open(os.path.join(hdir2, "go.mod"), "w").write(gomod)
        hdir = hdir2
    r = subprocess.run(["go", "build", "-tags", "verif", "-o", HARNESS, "."],
                       cwd=hdir, env=GOENV, capture_output=True, text=True)
    if r.returncode != 0:
        raise HarnessError("harness does not build against %s:\n%s" % (REPO, r.stderr[-4000:]))
    _built["harness"] = True


def build_evy():
    """Build the evy CLI from /repo's working tree (hooks on)."""
    if _built.get("evy"):
        return
    os.makedirs(BIN, exist_ok=True)
    r = subprocess.run(["go", "build", "-tags", "verif", "-o", EVY, "."],
                       cwd=REPO, env=GOENV, capture_output=True, text=True)
    if r.returncode != 0:
        raise HarnessError("evy does not build:\n" + r.stderr[-4000:])
    _built["evy"] = True


def scratch(name):
    d = os.path.join(OUT, "scratch", "%s.%d" % (name, os.getpid()))
    shutil.rmtree(d, ignore_errors=True)
    os.makedirs(d)
    return d


class TLCResult:
    def __init__(self):
        self.generated = 0
        self.distinct = 0
        self.depth = 0
        self.outdeg_max = None
        self.cases = []
        self.stdout = ""
        self.wall = 0.0
        self.violation = None  # text of an invariant/property violation inside the model
        self.coverage_zero = []
        self.ok = True


_STATS = re.compile(r"(\d+) states generated, (\d+) distinct states found")
_SIMSTATS = re.compile(r"The number of states generated: (\d+)")
_DEPTH = re.compile(r"The depth of the complete state graph search is (\d+)")
_OUTDEG = re.compile(r"the maximum (\d+)")


def run_tlc(module, cfg, **kw):
    """run_tlc_once with one retry when TLC itself fails (not a verdict: e.g. a JVM hiccup on a loaded machine);
    the output of the failed attempt is kept under out/tlc-failures/."""
    try:
        return run_tlc_once(module, cfg, **kw)
    except HarnessError as e:
        if "timed out" in str(e) or "violates its own property" in str(e):
            raise
        os.makedirs(os.path.join(OUT, "tlc-failures"), exist_ok=True)
        with open(os.path.join(OUT, "tlc-failures", "%s-%d.txt" % (module, int(time.time()))), "w") as f:
            f.write(str(e))
        log("TLC failed once on %s, retrying: %s" % (module, str(e).splitlines()[0][:200]))
        return run_tlc_once(module, cfg, **kw)


def _tlc_classpath():
    default = "/opt/veriftools/tla/tla2tools.jar:/opt/veriftools/tla/CommunityModules-deps.jar"
    w = shutil.which("tlc")
    if w:
        try:
            m = re.search(r"-cp\s+(\S+)", open(w).read())
            if m:
                return m.group(1)
        except OSError:
            pass
    return default


def run_tlc_once(module, cfg, *, workers=None, simulate=None, depth=None, timeout=600,
                 extra_files=(), defines=None, allow_violation=False, coverage=False,
                 dfs=False, java_opts=None, keep=False, name=None):
    """Run TLC on spec/<module>.tla with spec/<cfg> in a scratch copy of spec/.

    defines: dict of text substitutions written into a generated MC module
    (constants are set through the cfg instead where possible).
    Returns TLCResult; raises HarnessError if TLC itself fails.
    """
    d = scratch(name or module)
    for f in os.listdir(SPEC):
        if f.endswith(".tla") or f.endswith(".cfg"):
            shutil.copy(os.path.join(SPEC, f), d)
    for src, dst in extra_files:
        if isinstance(src, bytes):
            open(os.path.join(d, dst), "wb").write(src)
        else:
            shutil.copy(src, os.path.join(d, dst))
    if defines:
        cfgtext = open(os.path.join(d, cfg)).read()
        for k, v in defines.items():
            cfgtext = cfgtext.replace("@" + k + "@", str(v))
        open(os.path.join(d, cfg), "w").write(cfgtext)
    # java is called directly (same jar and class path as the `tlc` wrapper) so that -Xss is on the command line:
    # the launcher sizes the main thread, which computes the initial states, before JAVA_TOOL_OPTIONS is read
    cmd = ["java", "-Xss256m", "-XX:+UseParallelGC", "-cp", _tlc_classpath(), "tlc2.TLC",
           "-metadir", os.path.join(d, "md"), "-config", cfg]
    if simulate:
        cmd += ["-simulate", "num=%d" % simulate, "-seed", str(seed())]
        if depth:
            cmd += ["-depth", str(depth)]
    elif depth:
        pass
    cmd += ["-workers", str(workers or NCPU)]
    if coverage:
        cmd += ["-coverage", "1"]
    cmd += [module + ".tla"]
    env = dict(os.environ)
    jopts = ["-Xss256m"]
    if dfs:
        jopts.append("-Dtlc2.tool.queue.IStateQueue=StateDeque")
    if java_opts:
        jopts += java_opts
    env["JAVA_TOOL_OPTIONS"] = " ".join(jopts)
    t0 = time.time()
    # the thorough tier is fitted to an idle machine; under load the same run takes 3-5 times longer, and a
    # time-out is machinery trouble (exit 2), never a verdict: leave room
    if os.environ.get("VERIF_TIER") == "thorough":
        timeout = int(timeout * 4)
    try:
        r = subprocess.run(["timeout", str(timeout)] + cmd, cwd=d, env=env,
                           capture_output=True, text=True)
    finally:
        pass
    res = TLCResult()
    res.wall = time.time() - t0
    res.stdout = r.stdout
    out = r.stdout
    if r.returncode == 124:
        shutil.rmtree(d, ignore_errors=True)
        raise HarnessError("TLC timed out after %ds on %s/%s" % (timeout, module, cfg))
    for line in out.splitlines():
        if line.startswith('"') and line.endswith('"'):
            try:
                inner = json.loads(line)
                if inner.startswith("{") or inner.startswith("["):
                    res.cases.append(json.loads(inner))
            except Exception:
                pass
    m = None
    for m in _STATS.finditer(out):
        pass
    if m:
        res.generated, res.distinct = int(m.group(1)), int(m.group(2))
    m = _SIMSTATS.search(out)
    if m and not res.generated:
        res.generated = int(m.group(1))
        res.distinct = res.generated
    m = _DEPTH.search(out)
    if m:
        res.depth = int(m.group(1))
    m = _OUTDEG.search(out)
    if m:
        res.outdeg_max = int(m.group(1))
    bad = None
    if "is violated" in out or ("Invariant" in out and "violated" in out) or ("Postcondition" in out and "is false" in out):
        i = out.find("Error:")
        res.violation = out[i:i + 6000]
        res.ok = False
    elif "Error:" in out or r.returncode not in (0,):
        i = out.find("Error:")
        nonjson = "\n".join(l for l in out.splitlines() if not l.startswith('"'))
        j = nonjson.find("Error:")
        bad = nonjson[j:j + 3000] if j >= 0 else (nonjson[-2000:] + r.stderr[-2000:])
    if coverage:
        for line in out.splitlines():
            if re.search(r": 0$", line.strip()) and "line" in line:
                res.coverage_zero.append(line.strip())
    if not keep:
        shutil.rmtree(d, ignore_errors=True)
    if bad and not (allow_violation and res.violation):
        raise HarnessError("TLC failed on %s/%s (exit %d):\n%s" % (module, cfg, r.returncode, bad))
    if res.violation and not allow_violation:
        raise HarnessError("the specification violates its own property (spec bug, not a verdict about the code):\n" + res.violation)
    return res


def replay(cases, *, deadline="10s", workers=None, name="replay", _retry=False):
    """Run cases through the Go replayer; returns {id: result}."""
    build_harness()
    d = scratch(name)
    inp = os.path.join(d, "cases.ndjson")
    outp = os.path.join(d, "results.ndjson")
    with open(inp, "w") as f:
        for c in cases:
            f.write(json.dumps(c) + "\n")
    r = subprocess.run([HARNESS, "replay", "-in", inp, "-out", outp, "-deadline", deadline,
                        "-workers", str(workers or NCPU)], capture_output=True, text=True)
    if r.returncode != 0:
        raise HarnessError("replayer failed: " + r.stderr[-2000:])
    results = {}
    for line in open(outp):
        line = line.strip()
        if line:
            x = json.loads(line)
            results[x["id"]] = x
    shutil.rmtree(d, ignore_errors=True)
    # a deadline miss counts only if it is reproducible: on a loaded machine a harmless case can be slow.
    # The cases that timed out are run again, four at a time, with six times the deadline (three times when
    # the deadline is a minute or more).  As soon as one batch
    # confirms a hang the verdict of the run is settled: the late cases not yet retried are left undecided
    # (not counted as violations) instead of being waited for, six deadlines each.
    late = [c for c in cases if results.get(c["id"], {}).get("timeout")]
    if late and not _retry:
        m = re.match(r"(\d+)s", deadline)
        secs = int(m.group(1)) if m else 20
        longer = "%ds" % (secs * (6 if secs < 60 else 3))
        confirmed = False
        for i in range(0, len(late), 4):
            batch = late[i:i + 4]
            if confirmed:
                for c in batch:
                    results[c["id"]] = {"id": c["id"], "ok": False, "undecided": True,
                                        "diff": "undecided: deadline exceeded once; not retried because another case of this run hangs reproducibly"}
                continue
            again = replay(batch, deadline=longer, workers=4, name=name + "-retry", _retry=True)
            for c in batch:
                results[c["id"]] = again[c["id"]]
                confirmed = confirmed or bool(again[c["id"]].get("timeout"))
    if len(results) != len({c["id"] for c in cases}):
        raise HarnessError("replayer returned %d results for %d cases" % (len(results), len(cases)))
    return results


def harness_cmd(args, *, input=None, timeout=600):
    build_harness()
    r = subprocess.run([HARNESS] + list(args), input=input, capture_output=True, text=True, timeout=timeout)
    return r


# ---------------------------------------------------------------------------
# known findings

def load_known(prop):
    p = os.path.join(VERIF, "known-findings.jsonl")
    out = []
    if os.path.exists(p):
        for line in open(p):
            line = line.strip()
            if not line or line.startswith("#"):
                continue
            e = json.loads(line)
            if e.get("property") == prop and not e.get("fixed"):
                out.append(e)
    return out


def match_known(known, cls, diff):
    for e in known:
        if re.search(e["class_re"], cls or "") and re.search(e["diff_re"], diff or "", re.S):
            return e
    return None


# ---------------------------------------------------------------------------
# evidence / verdict

class Check:
    """Accumulates what a check covered, its mismatches and writes evidence."""

    def __init__(self, prop, tier):
        self.prop = prop
        self.tier = tier
        self.t0 = time.time()
        self.states = 0
        self.transitions = 0
        self.traces = 0
        self.evaluations = 0
        self.nontrivial = set()
        self.samples = []
        self.violations = []   # (cls, diff, replaydata)
        self.known_hits = {}   # finding id -> count
        self.notes = []
        self.assumptions = []
        self.rule = ""
        self.exhaustive = None
        self.extra = {}
        self.known = load_known(prop)
        self.tlc_runs = []

    def add_tlc(self, res, label):
        self.states += res.distinct
        self.transitions += res.generated
        self.tlc_runs.append({"run": label, "distinct_states": res.distinct,
                              "states_generated": res.generated, "depth": res.depth,
                              "wall_s": round(res.wall, 1), "cases": len(res.cases),
                              "max_outdegree": res.outdeg_max})
        if res.coverage_zero:
            self.extra.setdefault("coverage_zero_count_lines", []).extend(res.coverage_zero[:40])

    def mismatch(self, cls, diff, replaydata):
        if str(diff).startswith("undecided:"):
            self.extra["undecided_late_cases"] = self.extra.get("undecided_late_cases", 0) + 1
            return
        k = match_known(self.known, cls, diff)
        if k is not None:
            self.known_hits.setdefault(k["id"], [k, 0, replaydata])
            self.known_hits[k["id"]][1] += 1
        else:
            self.violations.append((cls, diff, replaydata))

    def take_results(self, cases, results, *, nontrivial=lambda c: True, key=lambda c: c["id"]):
        """Standard treatment of replayed cases."""
        for c in cases:
            r = results[c["id"]]
            self.evaluations += 1
            self.traces += 1
            if nontrivial(c):
                self.nontrivial.add(key(c))
            if not r["ok"]:
                self.mismatch(c.get("class", ""), r.get("diff", ""), {"case": c, "result": r})

    def sample(self, x):
        if len(self.samples) < 6:
            self.samples.append(x)

    def finish(self):
        wall = time.time() - self.t0
        # a run against a scratch copy with a seeded change (VERIF_REPO) never touches the committed evidence or the
        # replay files of the real checks
        evdir = os.path.join(OUT, "evidence-alt") if _ALT else os.path.join(VERIF, "evidence")
        os.makedirs(evdir, exist_ok=True)
        rdir = os.path.join(OUT, "replay-alt.%d" % os.getpid() if _ALT else "replay", self.prop)
        os.makedirs(rdir, exist_ok=True)
        lines = []
        for k, (e, n, rd) in sorted(self.known_hits.items()):
            lines.append("KNOWN-FINDING: property=%s %s [%s; %d case(s) this run]" % (self.prop, e["what"], k, n))
        with open(os.path.join(rdir, "all.json"), "w") as f:
            json.dump([{"class": c, "diff": d, "src": (rd.get("result", {}).get("obs") or {}).get("src") if isinstance(rd, dict) else None}
                       for c, d, rd in self.violations], f, indent=1, ensure_ascii=False)
        shown = {}
        nviol = 0
        for i, (cls, diff, rd) in enumerate(self.violations):
            nviol += 1
            sig = (cls, re.sub(r"\d+", "N", diff)[:80])
            if sig in shown and shown[sig] >= 3:
                continue
            shown[sig] = shown.get(sig, 0) + 1
            if len(shown) > 40:
                continue
            path = os.path.join(rdir, "v%03d.json" % i)
            with open(path, "w") as f:
                json.dump({"property": self.prop, "class": cls, "diff": diff, "data": rd}, f, indent=1)
            lines.append("VIOLATION property=%s replay=%s" % (self.prop, path))
            lines.append("  class=%s: %s" % (cls, diff.splitlines()[0][:300] if diff else ""))
        cov = {
            "states": self.states,
            "transitions": self.transitions,
            "traces_validated_against_impl": self.traces,
            "samples": self.samples or ["(no sample recorded)"],
            "evaluations": self.evaluations,
            "distinct_nontrivial": len(self.nontrivial),
            "rule": self.rule,
            "tlc_runs": self.tlc_runs,
            "known_findings_matched": {k: v[1] for k, v in self.known_hits.items()},
        }
        if self.exhaustive is not None:
            cov["exhaustive"] = self.exhaustive
        cov.update(self.extra)
        ev = {
            "property_id": self.prop,
            "tier": self.tier,
            "seed": seed(),
            "level": "model_checking",
            "coverage": cov,
            "assumptions": self.assumptions,
            "wall_s": round(wall, 1),
            "violations": nviol,
        }
        if self.notes:
            ev["notes"] = self.notes
        with open(os.path.join(evdir, self.prop + ".json"), "w") as f:
            json.dump(ev, f, indent=1, ensure_ascii=False)
        for l in lines:
            print(l)
        print("%s %s: %d states, %d cases/traces against the implementation, %d violation(s), %d known finding(s), %.1fs"
              % (self.prop, self.tier, self.states, self.traces, nviol, len(self.known_hits), wall))
        sys.stdout.flush()
        return 1 if nviol else 0


def pick(lst, n, sd=None):
    """Deterministic sub-sample of lst (n items) driven by the seed."""
    import random
    if len(lst) <= n:
        return list(lst)
    rnd = random.Random(seed() if sd is None else sd)
    return rnd.sample(list(lst), n)
