"""C15 - events run their handlers in order, isolated, on shared globals."""
import json

from . import docex, machine, scopetrace
from .common import HarnessError

replay_one = machine.replay_one


def total_effects(c):
    eff = list(c["expect"]["effects"])
    for e in c["expect"]["events"]:
        eff += e["effects"]
    return eff


def run(chk):
    lys = ("canon",)
    maxev = 2 if chk.tier == "quick" else 3
    res = machine.tlc_family(chk, "FamEvents", chk.tier, layouts=lys, defines={"MAXEV": maxev}, timeout=1500)
    # HandlerIsProcedure, in the model: a handler program and its procedure twin have the same cumulative effects
    pairs = {}
    for c in res.cases:
        pairs.setdefault(json.dumps(c["tag"]), {})[c["class"]] = c
    for tag, p in pairs.items():
        if set(p) != {"on", "twin"}:
            raise HarnessError("unpaired case " + tag)
        if total_effects(p["on"]) != total_effects(p["twin"]):
            raise HarnessError("specification: handler program and procedure twin differ for " + tag)
    cases = machine.expand(res.cases, "ev", layouts=lys)
    chk.rule = ("7 handler sets (all parameters / none / `_`; locals shadowing globals; early return) x all event "
                "sequences up to length %d over key, down, up, move, animate, input with payloads, each also as a twin "
                "program calling equivalent procedures; effects after every delivery and the result are compared; the repository's sample programs that declare handlers, exported from the real "
                "parser's tree, under event sequences drawn from the seed; non-trivial = distinct (program, event sequence) with >= 1 delivered event" % maxev)
    chk.exhaustive = True
    # the repository's sample programs with handlers (games, animations) under seeded event sequences
    cases += docex.samples(chk, chk.tier)
    machine.replay_family(chk, cases)
    chk.extra["handler_vs_procedure_pairs_equal_in_model"] = len(pairs)
    # direction B: every handler of these programs run several times, scope and variable events against ScopeStack.tla
    # (a handler starts in a scope of its own, sees the globals and nothing else, leaves nothing behind)
    scopetrace.run(chk, [c for c in cases if c.get("class", "").startswith("on")], model=False, corpus=40 if chk.tier == "quick" else 400)
