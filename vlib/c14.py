"""C14 - running programs stay interruptible and stop cleanly."""
import glob
import json
import os
import random
import subprocess

from . import common, machine
from .common import HarnessError

replay_one = None


def _strip_summary(eff):
    if eff and eff[-1][0] == "print":
        t = eff[-1][1]
        if isinstance(t, dict) and t.get("cp") and t["cp"][0] in (9989, 10060):
            return eff[:-1]
    return eff


def corpus(n, rnd):
    files = sorted(glob.glob(os.path.join(common.REPO, "**", "*.evy"), recursive=True))
    files = [f for f in files if "/testdata/" not in f or "/err" not in f]
    rnd.shuffle(files)
    return files[:n]


def validate_traces(chk, lines, label):
    if not lines:
        return
    data = ("\n".join(lines) + "\n").encode()
    res = common.run_tlc("StopYieldTrace", "StopYieldTrace.cfg", workers=1, timeout=900,
                         extra_files=[(data, "trace.ndjson")], allow_violation=True, name="stoptrace")
    chk.add_tlc(res, label)
    ntr = sum(1 for l in lines if '"Reset"' in l)
    if res.violation or res.depth != len(lines) + 1:
        # find the rejected line: the longest matched prefix has depth-1 lines
        j = max(res.depth - 1, 0)
        ctx = lines[max(0, j - 6): j + 1]
        start = max(i for i in range(j + 1) if '"Reset"' in lines[i]) if any('"Reset"' in x for x in lines[: j + 1]) else 0
        chk.mismatch("trace/" + label, "trace of the real evaluator is not a behaviour of StopYield: line %d %s rejected (%s)"
                     % (j + 1, lines[j] if j < len(lines) else "<end>", (res.violation or "no matching action").splitlines()[0][:200]),
                     {"trace_head": lines[start], "context": ctx})
    else:
        chk.traces += ntr
        chk.evaluations += ntr


def run(chk):
    rnd = random.Random(common.seed())
    lys = ("canon",)
    maxsteps = 150 if chk.tier == "quick" else 400
    res = machine.tlc_family(chk, "FamStop", chk.tier, layouts=lys, defines={"MAXSTEPS": maxsteps, "STOPMODE": "any"}, timeout=1500)
    # group the behaviours of the specification by program
    progs = {}
    for c in res.cases:
        key = json.dumps([c["srcs"]["canon"], c.get("tag")])
        # the handlers' effects follow those of the top-level code; the events a stopped or cut run did not reach
        # are not in its case, so the delivered sequence is taken from the uninterrupted run (below)
        eff = list(c["expect"]["effects"])
        for e in c["expect"].get("events", []):
            eff += e["effects"]
        c["expect"]["effects"] = eff
        if c["expect"].get("events"):
            last = [e for e in c["expect"]["events"] if e["result"] != ["ok"] and e["result"] != ["nohandler"]]
            c["expect"]["result"] = last[0]["result"] if last else ["ok"]
        p = progs.setdefault(key, {"src": c["srcs"]["canon"], "full": None, "stopped": [], "cut": [], "events": []})
        if len(c.get("events", [])) > len(p["events"]):
            p["events"] = c["events"]
        if c["stopped"]:
            if not c["cut"]:
                p["stopped"].append(eff)
        elif c["cut"]:
            p["cut"].append(eff)
        else:
            p["full"] = c
    cases = []
    for i, (key, p) in enumerate(sorted(progs.items())):
        nonterm = p["full"] is None
        ref = _strip_summary(p["full"]["expect"]["effects"]) if not nonterm else max(p["cut"], key=len)
        # prefix property inside the model
        for s in p["stopped"]:
            s2 = _strip_summary(s)
            if s2 != ref[:len(s2)] and not (nonterm and len(s2) > len(ref)):
                raise HarnessError("specification: a stopped outcome is not a prefix of the uninterrupted run")
        c = {"id": "stop-%d" % i, "stage": "stop", "class": "stop/" + ("nonterm" if nonterm else "term"), "src": p["src"],
             "inputs": [], "events": p["events"], "nonterm": nonterm, "refK": 3000, "capK": 400 if chk.tier == "quick" else 3000,
             "seed": common.seed(), "expect": p["full"]["expect"] if not nonterm else {"effects": [], "result": []},
             "stopped": p["stopped"] if not nonterm else []}
        cases.append(c)
    results = common.replay(cases, deadline="120s", name="stop")
    nk = 0
    for c in cases:
        r = results[c["id"]]
        chk.evaluations += 1
        if r["ok"]:
            nk += r["obs"]["ks"]
            chk.nontrivial.add(c["id"])
        else:
            chk.mismatch(c["class"], r.get("diff", ""), {"case": c, "result": r})
    chk.traces += nk
    chk.evaluations += nk
    chk.sample({"source": machine.text_of(cases[0]["src"]), "stop_points_tried": results[cases[0]["id"]].get("obs", {}).get("ks"),
                "uninterrupted_effects": machine.show(dict(cases[0], expect=cases[0]["expect"]))["expect"]})
    chk.extra["stop_points_replayed"] = nk

    # direction B: monitor traces of the family programs and of repository programs
    common.build_harness()
    d = common.scratch("stoprec")
    recs = []
    for c in cases:
        text = machine.text_of(c["src"])
        y = results[c["id"]].get("obs", {}).get("yields", 50) or 50
        for k in [0] + [rnd.randint(1, max(1, min(y, 400))) for _ in range(3 if chk.tier == "quick" else 12)]:
            recs.append({"id": c["id"] + "@%d" % k, "src": text, "stopAt": k, "maxEvents": 1500})
    nfiles = 60 if chk.tier == "quick" else 400
    for f in corpus(nfiles, rnd):
        try:
            text = open(f, encoding="utf-8").read()
        except Exception:
            continue
        rel = os.path.relpath(f, common.REPO)
        recs.append({"id": rel + "@0", "src": text, "stopAt": 0, "maxEvents": 1500})
        recs.append({"id": rel + "@k", "src": text, "stopAt": rnd.randint(1, 300), "maxEvents": 1500})
    inp = os.path.join(d, "recs.ndjson")
    outp = os.path.join(d, "trace.ndjson")
    with open(inp, "w") as fh:
        for r in recs:
            fh.write(json.dumps(r) + "\n")
    r = subprocess.run([common.HARNESS, "record-stop", "-in", inp, "-out", outp], capture_output=True, text=True, timeout=600)
    if r.returncode != 0:
        raise HarnessError("record-stop failed: " + r.stderr[-2000:])
    lines = [l for l in open(outp).read().splitlines() if l.strip()]
    # validate in chunks so that a rejection leaves the other traces checked
    chunk, cur = [], []
    for l in lines:
        if '"Reset"' in l and len(cur) > 40000:
            chunk.append(cur)
            cur = []
        cur.append(l)
    if cur:
        chunk.append(cur)
    for i, ch in enumerate(chunk):
        validate_traces(chk, ch, "StopYieldTrace-%d" % i)
    chk.sample({"monitor_trace_head": lines[:12]})
    chk.extra["monitor_events_validated"] = len(lines)
    import shutil
    shutil.rmtree(d, ignore_errors=True)
    chk.rule = ("family FamStop (7 terminating, 4 non-terminating programs): stop raised at every yield of the real run "
                "(all k up to a cap, then seed-sampled), each checked for: result stopped, no yield after the raise, "
                "effects a prefix of the uninterrupted run and an outcome of the specification, at most one effect after "
                "the raise; plus monitor traces (Yield/Iter/Call/Effect/StopRaised/StopSeen/End) of these programs and of "
                "repository .evy programs validated against StopYield.tla; non-trivial = program with >= 1 stop point that "
                "interrupts it")
    chk.exhaustive = False
    chk.assumptions += ["the browser yielder (pkg/wasm sleepingYielder) cannot be built here; a scripted Yielder stands in for it",
                        "non-terminating programs are explored for %d machine steps in the model and 3000 yields on the real evaluator" % maxsteps]


def replay_one(data):
    case = data["data"].get("case")
    if not case:
        print(json.dumps(data, indent=1)[:3000])
        return 1
    res = common.replay([case], deadline="120s")[case["id"]]
    print(json.dumps(res, indent=1, ensure_ascii=False)[:3000])
    if not res["ok"]:
        print("VIOLATION property=C14 replay=(replayed)")
        return 1
    return 0
