"""C02 - accepted programs never go wrong (type soundness)."""
import random

from . import common, docex, machine

replay_one = machine.replay_one


def run(chk):
    lys = ("canon",)
    res = machine.tlc_family(chk, "FamSound", chk.tier, layouts=lys)
    exact = machine.expand(res.cases, "snd", layouts=lys)
    sound = machine.expand(res.cases, "sndo", layouts=lys, sound_only=True)
    chk.rule = ("family FamSound: untyped empty literals in every inference context, constants converted to every "
                "any-based composite target (assignment, parameter, return), any values with assertions that hold and "
                "fail, every numeric/graphics/format built-in and the index/slice/repetition/range operators on nan, "
                "infinities, 2^63, 2^31-1, negative and tiny arguments; exact oracle where the documentation defines the "
                "outcome (typeof of every variable), 'never goes wrong' oracle elsewhere; the rule-breaking programs of FamBreak, which must "
                "never go wrong if the parser accepts them; the token edits of valid programs of FamMutate (all deletions, transpositions, "
                "prefixes; seed-chosen insertions, substitutions and pairs), run whenever the real parser accepts them; non-trivial = distinct program")
    chk.exhaustive = False   # FamSound and FamBreak are enumerated completely, the token edits are sampled
    # two accepted programs outside the machine's bounds (they do not terminate in the model either):
    # they are replayed with the "never goes wrong" oracle only
    extra = [
        {"id": "snd-x-cyclic", "stage": "run", "soundOnly": True, "class": "host-crash/cyclic-print",
         "src": ["a:[]any\na = [1]\na[0] = a\nprint (len a)\nprint a\n"], "expect": {"effects": [], "result": []}},
        {"id": "snd-x-recursion", "stage": "run", "soundOnly": True, "class": "host-crash/unbounded-recursion",
         "src": ["func f n:num\n    f n+1\nend\nf 1\n"], "expect": {"effects": [], "result": []}},
    ]
    # repository programs that leave the exact model (sqrt of a non-square, pi ...): the machine's effects up to
    # that point must be a prefix of the real run, which must not go wrong
    beyond = docex.corpus(chk, chk.tier, sound_only=True)
    chk.extra["corpus_programs_beyond_the_model"] = len(beyond)
    # programs the specification calls ill-formed (one rule-breaking edit each, family FamBreak of C05): nothing is
    # claimed here when the parser rejects them, but one that the parser accepts must still never go wrong
    resb = common.run_tlc("FamBreak", "FamBreak.cfg", defines={"TIER": chk.tier}, timeout=900)
    chk.add_tlc(resb, "FamBreak")
    illformed = [{"id": "snd-ill-%d" % n, "stage": "run", "soundOnly": True, "mayReject": True, "inputs": ["input line"],
                  "class": "ill-formed/%s@%s" % (c["rule"], c["site"]), "src": c["src"], "expect": {"effects": [], "result": []}}
                 for n, c in enumerate(resb.cases) if not c["valid"] and not c["extra"]]
    chk.extra["ill_formed_programs_run_if_accepted"] = len(illformed)
    # what the parser accepts among the token edits of valid programs (family FamMutate of C03: every deletion,
    # transposition and prefix, sampled insertions / substitutions, pairs of edits, headers with bodies that use
    # the parameter): "accepted" is decided by the real parser, so each accepted one must never go wrong; runs
    # are ended after 3000 yields (an edit can make a loop endless, which is not going wrong)
    rnd = random.Random(common.seed())
    npos = 260
    e1 = {kind * 1000000 + i * 100 for kind in (1, 4, 5) for i in range(npos)}
    for _ in range(2500 if chk.tier == "quick" else 20000):
        e1.add(rnd.choice((2, 3)) * 1000000 + rnd.randrange(npos) * 100 + rnd.randrange(40))
    e2 = set()
    for _ in range(400 if chk.tier == "quick" else 6000):
        e = rnd.choice((1, 2, 3, 4, 5)) * 1000000 + rnd.randrange(npos) * 100 + rnd.randrange(40)
        e2.add(e * 10 + rnd.randrange(10))
    nh = 18
    hdr2 = {ln * 10000000 + c for ln in range(0, 3 if chk.tier == "quick" else 4) for c in range(nh ** ln)}
    tlaset = lambda xs: "{" + ", ".join(str(x) for x in sorted(xs)) + "}"
    resm = common.run_tlc("FamMutate", "FamMutate.cfg", defines={"TIER": chk.tier, "EDITS1": tlaset(e1), "EDITS2": tlaset(e2),
                                                                 "HEADERS": "{}", "HEADERS2": tlaset(hdr2)}, timeout=1800)
    chk.add_tlc(resm, "FamMutate")
    edited = [{"id": "snd-mut-%d" % n, "stage": "run", "soundOnly": True, "mayReject": True, "inputs": ["input line", "7"], "stopAt": 3000,
               "class": ("edited/header" if c["seed"] < 0 else "edited/seed%d/%d/%d" % (c["seed"], c["e1"] // 1000000, c["e2"] // 1000000)),
               "src": c["src"], "expect": {"effects": [], "result": []}} for n, c in enumerate(resm.cases)]
    chk.extra["token_edits_run_if_accepted"] = len(edited)
    machine.replay_family(chk, exact + sound + extra + beyond + illformed + edited, deadline="60s")
    chk.extra["exact_oracle_cases"] = len(exact)
    chk.extra["never_goes_wrong_only_cases"] = len(sound)
    chk.assumptions += [
        "TypeSound, AnyConcrete, NoStuck and HeapWF are invariants of the machine in every family run (progress and preservation in the model)",
        "resource exhaustion (unbounded recursion, astronomically large repetition counts) is outside the explored bounds",
    ]
