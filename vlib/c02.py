"""C02 - accepted programs never go wrong (type soundness)."""
from . import common, docex, machine

replay_one = machine.replay_one


def run(chk):
    lys = ("canon",)
    res = machine.tlc_family(chk, "FamSound", chk.tier, layouts=lys)
    exact = machine.expand(res.cases, "snd", layouts=lys)
    sound = machine.expand(res.cases, "sndo", layouts=lys, sound_only=True)
    chk.rule = ("family FamSound: untyped empty literals in every inference context, constants converted to every "
                "any-based composite target (assignment, parameter, return), any values with assertions that hold and "
                "fail, every numeric/graphics/format built-in and the index/slice/repetition/range operators on nan, "
                "infinities, 2^63, 2^31-1, negative and tiny arguments; exact oracle where the documentation defines the "
                "outcome (typeof of every variable), 'never goes wrong' oracle elsewhere; the rule-breaking programs of FamBreak, which must "
                "never go wrong if the parser accepts them; non-trivial = distinct program")
    chk.exhaustive = True
    # two accepted programs outside the machine's bounds (they do not terminate in the model either):
    # they are replayed with the "never goes wrong" oracle only
    extra = [
        {"id": "snd-x-cyclic", "stage": "run", "soundOnly": True, "class": "host-crash/cyclic-print",
         "src": ["a:[]any\na = [1]\na[0] = a\nprint (len a)\nprint a\n"], "expect": {"effects": [], "result": []}},
        {"id": "snd-x-recursion", "stage": "run", "soundOnly": True, "class": "host-crash/unbounded-recursion",
         "src": ["func f n:num\n    f n+1\nend\nf 1\n"], "expect": {"effects": [], "result": []}},
    ]
    # repository programs that leave the exact model (sqrt of a non-square, pi ...): the machine's effects up to
    # that point must be a prefix of the real run, which must not go wrong
    beyond = docex.corpus(chk, chk.tier, sound_only=True)
    chk.extra["corpus_programs_beyond_the_model"] = len(beyond)
    # programs the specification calls ill-formed (one rule-breaking edit each, family FamBreak of C05): nothing is
    # claimed here when the parser rejects them, but one that the parser accepts must still never go wrong
    resb = common.run_tlc("FamBreak", "FamBreak.cfg", defines={"TIER": chk.tier}, timeout=900)
    chk.add_tlc(resb, "FamBreak")
    illformed = [{"id": "snd-ill-%d" % n, "stage": "run", "soundOnly": True, "mayReject": True, "inputs": ["input line"],
                  "class": "ill-formed/%s@%s" % (c["rule"], c["site"]), "src": c["src"], "expect": {"effects": [], "result": []}}
                 for n, c in enumerate(resb.cases) if not c["valid"] and not c["extra"]]
    chk.extra["ill_formed_programs_run_if_accepted"] = len(illformed)
    machine.replay_family(chk, exact + sound + extra + beyond + illformed, deadline="60s")
    chk.extra["exact_oracle_cases"] = len(exact)
    chk.extra["never_goes_wrong_only_cases"] = len(sound)
    chk.assumptions += [
        "TypeSound, AnyConcrete, NoStuck and HeapWF are invariants of the machine in every family run (progress and preservation in the model)",
        "resource exhaustion (unbounded recursion, astronomically large repetition counts) is outside the explored bounds",
    ]
