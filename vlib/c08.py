"""C08 - parsing, formatting and running are deterministic."""
import json
import os
import random
import shutil
import subprocess

from . import common, machine
from .common import HarnessError

replay_one = machine.replay_one

# site -> is the fold, as implemented in the current tree, expected to be order independent?
SITES = ["unused-sorted", "combine", "equals", "fontprops-ordered", "names"]
AS_WAS = ["unused", "fontprops"]   # the folds as they were before the fix commits: must be refuted by TLC


def run(chk):
    rnd = random.Random(common.seed())
    # (ii) the adversarial schedule in the model: every enumeration order of every instance
    dependent = []
    for site in SITES + AS_WAS:
        res = common.run_tlc("GoMapFold", "GoMapFold.cfg", defines={"SITE": site}, timeout=600, allow_violation=True, name="fold-" + site)
        chk.add_tlc(res, "GoMapFold/" + site)
        if res.violation:
            dependent.append(site)
    chk.extra["folds_order_dependent_in_model"] = dependent
    for site in AS_WAS:
        if site not in dependent:
            raise HarnessError("GoMapFold no longer refutes the order-dependent fold '%s' (vacuity guard)" % site)
    # "combine" IS order dependent in the model (a variable, a literal and an empty literal of the same kind):
    # the implementation must therefore combine in a fixed (source) order - checked on the real code below.
    res = common.run_tlc("FamDeterminism", "FamDeterminism.cfg", defines={"TIER": chk.tier}, timeout=900)
    chk.add_tlc(res, "FamDeterminism")
    reps = 24 if chk.tier == "quick" else 60
    cases = []
    for n, c in enumerate(res.cases):
        cases.append({"id": "det-%d" % n, "stage": "determinism", "src": c["src"], "reps": reps, "class": c["class"],
                      "expect": {"claim": "%d repetitions byte-identical" % reps}})
    if chk.tier == "quick":
        keep = [c for c in cases if c["class"] != "maplit-types"]
        ml = [c for c in cases if c["class"] == "maplit-types"]
        rnd.shuffle(ml)
        cases = keep + ml[:160]
    # programs nobody wrote for this property: the rule-breaking programs of FamBreak (their diagnostics) and token
    # edits of valid programs (FamMutate; mostly rejected, often with several diagnostics), fewer repetitions each
    resb = common.run_tlc("FamBreak", "FamBreak.cfg", defines={"TIER": chk.tier}, timeout=900)
    chk.add_tlc(resb, "FamBreak")
    wide = [{"id": "det-brk-%d" % n, "stage": "determinism", "src": c["src"], "reps": 8, "class": "rule-break/%s" % c["rule"],
             "expect": {"claim": "8 repetitions byte-identical"}} for n, c in enumerate(resb.cases)]
    npos = 260
    e1 = {kind * 1000000 + i * 100 for kind in (1, 4, 5) for i in range(npos)}
    e2 = set()
    for _ in range(600 if chk.tier == "quick" else 6000):
        e = rnd.choice((1, 2, 3, 4, 5)) * 1000000 + rnd.randrange(npos) * 100 + rnd.randrange(40)
        e2.add(e * 10 + rnd.randrange(10))
    tlaset = lambda xs: "{" + ", ".join(str(x) for x in sorted(xs)) + "}"
    resm = common.run_tlc("FamMutate", "FamMutate.cfg", defines={"TIER": chk.tier, "EDITS1": tlaset(e1), "EDITS2": tlaset(e2),
                                                                 "HEADERS": "{}", "HEADERS2": "{}"}, timeout=1800)
    chk.add_tlc(resm, "FamMutate")
    muts = [{"id": "det-mut-%d" % n, "stage": "determinism", "src": c["src"], "reps": 6, "class": "edited/seed%d" % c["seed"],
             "expect": {"claim": "6 repetitions byte-identical"}} for n, c in enumerate(resm.cases)]
    if chk.tier == "quick":
        rnd.shuffle(muts)
        muts = muts[:2500]
    wide += muts
    chk.extra["programs_of_other_families"] = len(wide)
    cases += wide
    results = common.replay(cases, deadline="60s", name="det")
    for c in cases[:1] + [x for x in cases if x["class"] == "unused"][:1] + [x for x in cases if x["class"] == "maplit-types"][:1]:
        chk.sample({"source": machine.text_of(c["src"]), "class": c["class"], "repetitions": reps,
                    "first_observation": {k: (results[c["id"]].get("obs") or {}).get(k) for k in ("parseErr", "result")}})
    for c in cases:
        r = results[c["id"]]
        chk.evaluations += c["reps"]
        chk.traces += c["reps"]
        chk.nontrivial.add(machine.text_of(c["src"]))
        if not r["ok"]:
            chk.mismatch(c["class"], r.get("diff", ""), {"case": c, "result": r})
    # fresh processes: evy run / evy fmt twice each, byte-identical stdout, stderr, status
    common.build_evy()
    tmp = common.scratch("c08cli")
    sel = [c for c in cases if c["class"] != "run-state" and not c["class"].startswith("edited/")]
    rnd.shuffle(sel)
    sel = [c for c in cases if c["class"] == "run-state"] + sel[: 40 if chk.tier == "quick" else 300]
    nproc = 0
    for i, c in enumerate(sel):
        f = os.path.join(tmp, "p%d.evy" % i)
        open(f, "w", encoding="utf-8").write(machine.text_of(c["src"]))
        outs = []
        for _ in range(3):
            r1 = subprocess.run([common.EVY, "run", "--rand-seed", "5", "--svg-out", "-", f], input=b"in1\nin2\n", capture_output=True, timeout=60)
            r2 = subprocess.run([common.EVY, "fmt"], input=open(f, "rb").read(), capture_output=True, timeout=60)
            outs.append((r1.returncode, r1.stdout, r1.stderr, r2.returncode, r2.stdout, r2.stderr))
            nproc += 2
        if any(o != outs[0] for o in outs[1:]):
            chk.mismatch("process/" + c["class"], "evy run / evy fmt differ between fresh processes on the same input", {"case": c})
    shutil.rmtree(tmp, ignore_errors=True)
    chk.traces += nproc
    chk.evaluations += nproc
    chk.extra["fresh_process_runs"] = nproc
    chk.rule = ("GoMapFold.tla: all enumeration orders of all instances (<= 4 entries) of the folds the implementation performs "
                "over Go maps; FamDeterminism: map literals over 8 value kinds^3 (variables, literals, empties, different types), "
                "map literals with side effects, 2-5 unused variables per scope kind, font maps with several bad properties, programs "
                "with many errors / handlers, programs that read the run state first (err, errmsg, rand, rand1, test counts) and change it last; each parsed, formatted and run %d times in one process and 3 times in fresh processes; the rule-breaking "
                "programs of FamBreak (8 times) and token edits of valid programs of FamMutate (6 times), whose diagnostics must repeat; "
                "non-trivial = distinct program" % reps)
    chk.exhaustive = False
    chk.assumptions += ["Go map order cannot be scheduled: an order-dependent result escapes %d repetitions with probability <= 2^-%d" % (reps, reps - 1),
                        "the order of Evaluator.EventHandlerNames (not user visible) is not observed"]
