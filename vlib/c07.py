"""C07 - formatting is canonical and idempotent (same groups as C06, see c06.py)."""
from . import c06

replay_one = c06.replay_one


def run(chk):
    c06.run_both(chk, "C07")
    chk.assumptions += ["block depth of a formatted line is recomputed from the keywords if/while/for/func/on/else/end and open brackets at line ends",
                        "where the formatter places the blank lines it inserts around func/on is not prescribed: only the laws are"]
