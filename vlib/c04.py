"""C04 - static typing rules are exactly those of the specification."""
import json

from . import common, machine

replay_one = machine.replay_one


def run(chk):
    res = common.run_tlc("FamTypes", "FamTypes.cfg", defines={"TIER": chk.tier}, timeout=1500)
    chk.add_tlc(res, "FamTypes")
    cases = []
    seen = set()
    for n, c in enumerate(res.cases):
        key = json.dumps(c["srcs"]["canon"])
        if key in seen:
            continue
        seen.add(key)
        cases.append({"id": "cell-%d" % n, "stage": "typecell", "src": c["srcs"]["canon"], "accept": c["accept"], "either": c["class"].startswith("deeplitvar"),
                      "out": c["out"], "class": "%s/%s/%s" % (c["ctx"], c["class"], "accept" if c["accept"] else "reject"),
                      "expect": {"accept": c["accept"], "typeof": c["out"]}})
    results = common.replay(cases, name="typecell")
    for c in cases[:2] + cases[len(cases) // 2: len(cases) // 2 + 2]:
        chk.sample({"source": machine.text_of(c["src"]), "spec_accepts": c["accept"],
                    "typeof": [machine.text_of([o]) for o in c["out"]], "class": c["class"]})
    chk.take_results(cases, results, key=lambda c: machine.text_of(c["src"]))
    chk.extra["accepted_cells"] = sum(1 for c in cases if c["accept"])
    chk.extra["rejected_cells"] = sum(1 for c in cases if not c["accept"])
    chk.rule = ("typing cells: (target type x value type x value kind [variable, literal witness, untyped empty literal, "
                "constant expression, expression over a variable]) in the contexts assignment, map field, parameter, "
                "variadic parameter, return, inferred declaration; all binary/unary operators, index, slice, field, type "
                "assertion, condition and range operands over pairs/triples of operand types; verdict and typeof "
                "output predicted by EvyTypes.tla; non-trivial = distinct program")
    chk.exhaustive = True
    chk.assumptions += ["types to nesting depth 1 plus selected depth-2 types (quick) / all types to depth 2 (thorough)",
                        "a literal that contains a basic-typed variable ([x]) is not observed (documentation and evident intent disagree)"]
