"""C18 - `evy fmt -w` never damages a source file, `evy fmt -c` tells the truth.

spec/FmtWrite.tla     the atomic-replace protocol with one fault (error of a call / SIGKILL at a call)
direction A           every fault schedule that TLC enumerates is replayed on the real binary under
                      `strace -e inject=...`; target bytes, mode and exit status are compared with the
                      outcomes the specification allows for that schedule
direction B           the strace log of every run (clean and faulty) is reduced to the calls touching the
                      target / its directory and validated against spec/FmtWriteTrace.tla
check mode            exit status 0 iff input == real formatter output, nothing modified (CheckMode action)
"""
import base64
import concurrent.futures
import json
import os
import re
import shutil
import subprocess

from . import common
from .common import HarnessError

BASE = os.path.join(common.OUT, "c18.%d" % os.getpid())
ERRNOS = ["ENOSPC", "EIO", "EACCES"]
# calls whose permission-class failures code is tempted to wave through: always refused permission, too
PERM_CALLS = ("fchmod", "chmod", "fchmodat", "rename", "renameat", "renameat2")
MODES = ["0644", "0600", "0755", "0444"]
# system calls that get faults injected (at every occurrence of a clean run)
INJECTABLE = ["openat", "open", "read", "pread64", "write", "pwrite64", "writev", "close", "fstat", "newfstatat",
              "statx", "lstat", "stat", "renameat", "renameat2", "rename", "fchmod", "fchmodat", "fchmodat2",
              "chmod", "unlinkat", "unlink", "fsync", "fdatasync", "ftruncate", "linkat"]
KILL_ONLY = ["exit_group"]
STRACE = ["strace", "-f", "-e", "trace=file,desc,process"]

# ---------------------------------------------------------------------------
# inputs

UNFMT = b'x:=1\nprint   x\nif x>0\nprint "pos"\nend\n'
UNFMT2 = b'for i:=range 3\nprint i   "x"\nend\n\n\n\nprint  "done"\n'
BAD = b"x := \nprint y\n"
BAD2 = b"print 1\nif true\nprint 2\n"
TRAIL = b"print 1\n\n\n"
TXTAR = (b"an archive\n-- a.evy --\nx:=1\nprint   x\n-- notes.txt --\nkeep   this  as is\n"
         b"-- b.evy --\nprint 2\n")
# members that GROW under formatting by more than the marker line that follows them, and members that shrink
TXTARGROW = (b"-- grow.evy --\nif true\nif true\nprint 1\nprint 2\nprint 3\nend\nend\n-- data.txt --\n1 2 3\n-- shrink.evy --\nx  :=   [  1    2   ]\nprint     x\n"
             b"-- grow2.evy --\nfor i := range 2\nfor j := range 2\nfor k := range 2\nprint i j k\nend\nend\nend\n-- last.txt --\nend of archive\n")
TXTARBAD = b"-- a.evy --\nprint 1\n-- b.evy --\nx := \n"
BIG = b"".join(b"print   %d  %d\n" % (i, i * 7) for i in range(6000))


def evy_fmt_stdin(data):
    """The real formatter as the oracle of 'formatted text': (bytes | None if it does not parse)."""
    r = subprocess.run([common.EVY, "fmt"], input=data, capture_output=True, timeout=120)
    if r.returncode != 0:
        return None
    return r.stdout


def txtar_parse(data):
    """golang.org/x/tools/txtar Parse for archives whose lines all end in \\n."""
    comment, files, cur = [], [], None
    for line in data.splitlines(keepends=True):
        m = re.match(rb"^-- (.*) --\n?$", line)
        name = m.group(1).strip() if m else b""
        if name:
            cur = [name, []]
            files.append(cur)
        elif cur is None:
            comment.append(line)
        else:
            cur[1].append(line)
    return b"".join(comment), [(n, b"".join(d)) for n, d in files]


def txtar_format(comment, files):
    def fixnl(b):
        return b if not b or b.endswith(b"\n") else b + b"\n"
    out = fixnl(comment)
    for n, d in files:
        out += b"-- " + n + b" --\n" + fixnl(d)
    return out


# inputs that do not parse BY CONSTRUCTION (assignment without a value, `if` without `end`): their kind is not
# taken from the formatter, so a formatter that starts to accept them is reported, not believed
BAD_BY_CONSTRUCTION = set()


def oracle(name, data):
    """(formatted bytes or None, kind) of a command line file."""
    if data in BAD_BY_CONSTRUCTION:
        return None, "bad"
    if name.endswith(".txtar"):
        comment, files = txtar_parse(data)
        out = []
        for n, d in files:
            if n.endswith(b".evy"):
                d = evy_fmt_stdin(d)
                if d is None:
                    return None, "bad"
            out.append((n, d))
        f = txtar_format(comment, out)
    else:
        f = evy_fmt_stdin(data)
        if f is None:
            return None, "bad"
    return f, ("fmtd" if f == data else "unfmt")


# spec.md: a newline is "\n"; a carriage return is not a character of the language, so a text with CR LF line ends
# does not parse, however well it is laid out otherwise
CRLF = b'x := 1\r\nprint x\r\nif x > 0\r\n    print "pos"\r\nend\r\n'
CRLFUNFMT = UNFMT.replace(b"\n", b"\r\n")
BAD_BY_CONSTRUCTION.update({BAD, BAD2, TXTARBAD, CRLF, CRLFUNFMT})


def write_inputs():
    """label -> (file name, bytes); the kind is computed by the oracle, not assumed."""
    fm = evy_fmt_stdin(UNFMT)
    if fm is None:
        raise HarnessError("the reference input does not parse")
    tf, _ = oracle("a.txtar", TXTAR)
    return {
        "unfmt": ("a.evy", UNFMT),
        "fmtd": ("a.evy", fm),
        "bad": ("a.evy", BAD),
        "txtar": ("a.txtar", TXTAR),
        "txtarbad": ("a.txtar", TXTARBAD),
        "unfmt2": ("prog.evy", UNFMT2),
        "big": ("big.evy", BIG),
        "txtarfmtd": ("a.txtar", tf),
        "txtargrow": ("g.txtar", TXTARGROW),
    }


# ---------------------------------------------------------------------------
# strace log -> system calls -> FmtWrite calls

_LINE = re.compile(r"^(\d+)\s+(.*)$")
_CALL = re.compile(r"^(\w+)\((.*)\)\s+= (\S+)(.*)$", re.S)
_RESUMED = re.compile(r"^<\.\.\. (\w+) resumed>\s?(.*)$", re.S)


def parse_strace(text):
    """-> list of {pid, name, args, ret, tail} in log order, plus {pid, special}."""
    out, pending = [], {}
    for line in text.splitlines():
        m = _LINE.match(line)
        if not m:
            continue
        pid, rest = m.group(1), m.group(2)
        if rest.startswith("+++"):
            out.append({"pid": pid, "special": rest})
            continue
        if rest.startswith("---"):
            continue
        if rest.endswith("<unfinished ...>"):
            pending[pid] = rest[:-len("<unfinished ...>")].rstrip()
            continue
        m2 = _RESUMED.match(rest)
        if m2:
            rest = pending.pop(pid, m2.group(1) + "(") + m2.group(2)
        m3 = _CALL.match(rest)
        if not m3:
            continue
        out.append({"pid": pid, "name": m3.group(1), "args": split_args(m3.group(2)),
                    "ret": m3.group(3), "tail": m3.group(4)})
    for pid, rest in pending.items():     # interrupted for good (killed while inside the call)
        m4 = re.match(r"^(\w+)\((.*)$", rest, re.S)
        if m4 and m4.group(1) != "exit_group":
            out.append({"pid": pid, "name": m4.group(1), "args": split_args(m4.group(2)), "ret": "?", "tail": ""})
    return out


def split_args(s):
    args, cur, depth, i, n = [], [], 0, 0, len(s)
    while i < n:
        ch = s[i]
        if ch == '"':
            j = i + 1
            while j < n and s[j] != '"':
                j += 2 if s[j] == "\\" else 1
            cur.append(s[i:j + 1])
            i = j + 1
            continue
        if ch in "([{":
            depth += 1
        elif ch in ")]}":
            depth -= 1
        if ch == "," and depth == 0:
            args.append("".join(cur).strip())
            cur = []
        else:
            cur.append(ch)
        i += 1
    if cur or args:
        args.append("".join(cur).strip())
    return args


def unq(a):
    """path argument -> str (None if it is not a string literal)."""
    if not a.startswith('"'):
        return None
    j = a.rfind('"')
    body = a[1:j]
    try:
        return body.encode("latin-1").decode("unicode_escape").encode("latin-1").decode("utf-8", "replace")
    except Exception:
        return body


def octmode(a):
    try:
        return "%04o" % (int(a, 8) & 0o7777)
    except ValueError:
        return a


def num(a, default=-1):
    try:
        return int(a, 0)
    except ValueError:
        return default


class Tracker:
    """Follows descriptors and temp files of one run; maps a system call to a FmtWrite call."""

    def __init__(self, rundir, targets):
        self.rundir = rundir
        self.targets = {os.path.join(rundir, t) for t in targets}
        self.tdirs = {os.path.dirname(t) for t in self.targets}
        self.fds = {}
        self.tmps = {}   # path -> created in a target's directory

    def path(self, dirfd, a):
        p = unq(a)
        if p is None:
            return None
        if not os.path.isabs(p):
            if dirfd != "AT_FDCWD":
                return None
            p = os.path.join(self.rundir, p)
        return os.path.normpath(p)

    def classify(self, sc):
        """-> dict(call, ok, errno, n, mode, flag); call 'other' = does not touch target/dir/temp."""
        name, a, ret = sc["name"], sc["args"], sc["ret"]
        ok = ret != "?" and num(ret) >= 0
        m = re.match(r"\s*([A-Z][A-Z0-9]+)", sc["tail"])
        ev = {"call": "other", "ok": ok, "errno": m.group(1) if (m and not ok) else "-", "n": 0, "mode": "-",
              "flag": False}

        def done(call, **kw):
            ev["call"] = call
            ev.update(kw)
            return ev

        if name in ("openat", "open", "creat"):
            if name == "openat":
                dirfd, pa, flags = a[0], a[1], a[2] if len(a) > 2 else ""
                modearg = a[3] if len(a) > 3 else "0"
            elif name == "open":
                dirfd, pa, flags = "AT_FDCWD", a[0], a[1] if len(a) > 1 else ""
                modearg = a[2] if len(a) > 2 else "0"
            else:
                dirfd, pa, flags, modearg = "AT_FDCWD", a[0], "O_CREAT|O_WRONLY|O_TRUNC", a[1]
            p = self.path(dirfd, pa)
            if p is not None and p.startswith("/sys/kernel/mm/transparent_hugepage/"):
                # osinit of the Go runtime, before any Go code runs; a failure only sets physHugePageSize = 0
                if ok:
                    self.fds[num(ret)] = ("prelude", p)
                return done("other", prelude=True)
            fl = set(flags.split("|"))
            writing = bool(fl & {"O_WRONLY", "O_RDWR", "O_TRUNC", "O_CREAT", "O_APPEND"})
            if p in self.targets:
                if writing:
                    return done("bad:open_target_for_writing(%s)" % flags)
                if ok:
                    self.fds[num(ret)] = ("src", p)
                return done("open_src")
            if p is not None and "O_CREAT" in fl:
                same = os.path.dirname(p) in self.tdirs
                if ok:
                    self.fds[num(ret)] = ("tmp", p)
                    self.tmps[p] = same
                return done("create_tmp", mode=octmode(modearg), flag=same)
            if p is not None and p in self.tmps:
                if ok:
                    self.fds[num(ret)] = ("tmp", p)
                return done("other")
            return ev
        fd = num(a[0]) if a else -1
        role = self.fds.get(fd, (None, None))
        if role[0] == "prelude":
            if name == "close" and ok:
                del self.fds[fd]
            return done("other", prelude=True)
        if name in ("read", "pread64", "readv"):
            return done("read_src") if role[0] == "src" else ev
        if name == "fstat":
            return done("stat_src") if role[0] == "src" else ev
        if name in ("write", "pwrite64", "writev"):
            if role[0] == "tmp":
                return done("write_tmp", n=max(num(ret), 0))
            if role[0] == "src":
                return done("bad:write_to_target_descriptor")
            return ev
        if name in ("ftruncate", "fallocate"):
            return done("bad:truncate_target") if role[0] == "src" else ev
        if name == "fchmod":
            if role[0] == "tmp":
                return done("chmod_tmp", mode=octmode(a[1]))
            if role[0] == "src":
                return done("bad:chmod_target(%s)" % octmode(a[1]))
            return ev
        if name == "close":
            if role[0] is not None and ok:
                del self.fds[fd]
            if role[0] == "src":
                return done("close_src")
            if role[0] == "tmp":
                return done("close_tmp")
            return ev
        if name in ("fchmodat", "fchmodat2", "chmod"):
            dirfd, pa, md = (a[0], a[1], a[2]) if name != "chmod" else ("AT_FDCWD", a[0], a[1])
            p = self.path(dirfd, pa)
            if p in self.targets:
                return done("bad:chmod_target(%s)" % octmode(md))
            if p in self.tmps:
                return done("chmod_tmp", mode=octmode(md))
            return ev
        if name in ("newfstatat", "statx", "stat", "lstat", "access", "faccessat", "faccessat2", "readlinkat",
                    "readlink"):
            dirfd, pa = (a[0], a[1]) if name in ("newfstatat", "statx", "faccessat", "faccessat2",
                                                 "readlinkat") else ("AT_FDCWD", a[0])
            if name in ("newfstatat", "statx") and unq(pa) == "" and fd in self.fds:
                return done("stat_src") if role[0] == "src" else ev
            p = self.path(dirfd, pa)
            return done("stat_tgt") if p in self.targets else ev
        if name in ("renameat", "renameat2", "rename"):
            if name == "rename":
                src, dst = self.path("AT_FDCWD", a[0]), self.path("AT_FDCWD", a[1])
            else:
                src, dst = self.path(a[0], a[1]), self.path(a[2], a[3])
            if dst in self.targets:
                good = bool(self.tmps.get(src, False))
                if ok:
                    self.tmps.pop(src, None)
                return done("rename", flag=good)
            if src in self.targets:
                return done("bad:rename_target_away")
            return ev
        if name in ("unlinkat", "unlink"):
            p = self.path(a[0], a[1]) if name == "unlinkat" else self.path("AT_FDCWD", a[0])
            if p in self.targets:
                return done("bad:unlink_target")
            if p in self.tmps:
                if ok:
                    self.tmps.pop(p, None)
                return done("unlink_tmp")
            return ev
        if name in ("truncate",):
            return done("bad:truncate_target") if self.path("AT_FDCWD", a[0]) in self.targets else ev
        if name in ("linkat", "link", "symlinkat", "symlink"):
            dst = self.path(a[-3], a[-2]) if name == "linkat" else self.path("AT_FDCWD" if name != "symlinkat" else a[1], a[-1])
            return done("bad:link_over_target") if dst in self.targets else ev
        if name in ("utimensat", "utimes", "futimesat"):
            return ev
        if name == "exit_group":
            return done("exit", n=num(a[0], 1) if a else 1, ok=True, errno="-")
        return ev


def analyse(trace_text, rundir, targets, inj):
    """-> dict(events=[FmtWrite-level events], sites=[(sysname, k, call)], fired=(sysname, k, call)|None,
               exit_status=int|None, killed=bool)"""
    scs = parse_strace(trace_text)
    tr = Tracker(rundir, targets)
    counts, tcounts, events, sites, fired, nfired = {}, {}, [], [], None, 0
    exit_status, killed, mainpid = None, False, None
    for sc in scs:
        if "special" in sc:
            if "killed by SIGKILL" in sc["special"]:
                killed = True
            continue
        if mainpid is None:
            mainpid = sc["pid"]
        name = sc["name"]
        if name == "execve":
            continue
        if name == "exit_group" and exit_status is not None:
            continue          # strace shows the exit_group of the process once per thread that notices it
        counts[name] = counts.get(name, 0) + 1
        tcounts[sc["pid"], name] = tcounts.get((sc["pid"], name), 0) + 1
        ev = tr.classify(sc)
        site = (name, counts[name], ev["call"], tcounts[sc["pid"], name])
        if name in INJECTABLE or name in KILL_ONLY:
            sites.append(site)
        injected_here = False
        if inj is not None and name == inj["syscall"]:
            if inj["errno"] is None:      # SIGKILL at call entry: the call never returns
                injected_here = sc["ret"] == "?" and name != "exit_group"
            else:
                injected_here = "(INJECTED)" in sc["tail"]
        if name == "exit_group":
            exit_status = ev["n"]
        prelude = ev.pop("prelude", False)
        if injected_here and prelude and inj["errno"] is not None:
            # an injected error in the runtime's start-up probe of the huge page size is ignored by the runtime
            # and does not count as the fault of the run (strace counts per thread, so `when=1` can hit the
            # probe on the first thread and the first call of the main goroutine on another one)
            if fired is None:
                fired = site
            continue
        if injected_here:
            nfired += 1
        if injected_here and inj["errno"] is None:
            fired = site
            events.append(dict(ev, ev="killed"))
            continue
        if injected_here:
            fired = site
        ev.pop("prelude", None)
        if ev["call"] != "other" or injected_here:
            # calls that do not touch the target are left out of the trace, except the injected failure of one
            # (e.g. reading stdin): it is the fault of the run and may change what the program does next
            events.append(dict(ev, ev="call"))
    if inj is not None and inj["errno"] is None and inj["syscall"] == "exit_group" and killed:
        # SIGKILL delivered at the entry of exit_group: the log shows `exit_group(n) = ?` as for a normal exit
        if exit_status is not None and events and events[-1]["call"] == "exit":
            e = events.pop()
            fired = ("exit_group", counts.get("exit_group", 1), "exit", 1)
            nfired = 1
            events.append(dict(e, ev="killed"))
            exit_status = None
    if killed and fired is None:
        events.append({"ev": "killed", "call": "other", "ok": False, "errno": "-", "n": 0, "mode": "-", "flag": False})
    # strace counts `when=` per thread: after a thread migration of the Go runtime the fault can fire twice
    return {"events": events, "sites": sites, "fired": fired, "exit_status": exit_status, "killed": killed,
            "multifault": nfired > 1}


# ---------------------------------------------------------------------------
# one run of the real binary

def b64(b):
    return base64.b64encode(b).decode()


def unb64(s):
    return base64.b64decode(s)


def mk_run(rid, label, op, files, args, stdin=None, inject=None):
    """files: [(name, bytes, mode-string)]"""
    return {"id": rid, "label": label, "op": op, "args": args, "inject": inject,
            "files": [{"name": n, "data": b64(d), "mode": m} for n, d, m in files],
            "stdin": b64(stdin) if stdin is not None else None}


def do_run(rs, keep=False):
    """Run `evy fmt ARGS` under strace in a fresh directory; return all observations."""
    d = os.path.join(BASE, rs["id"])
    shutil.rmtree(d, ignore_errors=True)
    os.makedirs(d)
    tracefile = d + ".trace"
    before = {}
    for f in rs["files"]:
        p = os.path.join(d, f["name"])
        os.makedirs(os.path.dirname(p), exist_ok=True)
        with open(p, "wb") as fh:
            fh.write(unb64(f["data"]))
        os.chmod(p, int(f["mode"], 8))
        st = os.stat(p)
        before[f["name"]] = (st.st_mtime_ns, st.st_ino)
    cmd = STRACE + ["-o", tracefile]
    inj = rs.get("inject")
    if inj:
        what = "signal=KILL" if inj["errno"] is None else "error=" + inj["errno"]
        cmd += ["-e", "inject=%s:%s:when=%d" % (inj["syscall"], what, inj["when"])]
    cmd += [common.EVY, "fmt"] + [a.replace("{DIR}", d) for a in rs["args"]]
    kw = {"input": unb64(rs["stdin"])} if rs.get("stdin") is not None else {"stdin": subprocess.DEVNULL}
    try:
        r = subprocess.run(cmd, cwd=d, capture_output=True, timeout=120, umask=0o022, **kw)
    except subprocess.TimeoutExpired:
        raise HarnessError("evy fmt under strace hung: %s" % rs["id"])
    try:
        text = open(tracefile, errors="replace").read()
    except OSError:
        raise HarnessError("strace wrote no log (%s): %s" % (rs["id"], r.stderr[-300:]))
    an = analyse(text, d, [f["name"] for f in rs["files"]], inj)
    obs = {"rc": r.returncode, "stderr": r.stderr.decode("utf-8", "replace")[-400:], "files": {}, "leftover": []}
    for f in rs["files"]:
        p = os.path.join(d, f["name"])
        try:
            st = os.lstat(p)
            data = open(p, "rb").read()
            obs["files"][f["name"]] = {"data": b64(data), "mode": "%04o" % (st.st_mode & 0o7777),
                                       "same_inode_mtime": (st.st_mtime_ns, st.st_ino) == before[f["name"]]}
        except OSError:
            obs["files"][f["name"]] = None
    names = {f["name"] for f in rs["files"]}
    obs["leftover"] = sorted(x for x in os.listdir(d) if x not in names)
    # exit class, cross-checked with the log so that trouble of strace itself is never read as a verdict
    if an["killed"] and r.returncode == -9:
        obs["exit"] = "killed"
    elif an["exit_status"] is not None and r.returncode == an["exit_status"] and not an["killed"]:
        obs["exit"] = "zero" if r.returncode == 0 else "nonzero"
    else:
        raise HarnessError("strace run %s: status %s does not fit the log (exit_group %s, killed %s): %s"
                           % (rs["id"], r.returncode, an["exit_status"], an["killed"], r.stderr[-300:]))
    if not keep:
        shutil.rmtree(d, ignore_errors=True)
        try:
            os.unlink(tracefile)
        except OSError:
            pass
    return {"run": rs, "obs": obs, "an": an}


def probe_strace():
    """strace must be able to inject errors and signals here; otherwise nothing can be checked."""
    os.makedirs(BASE, exist_ok=True)
    log = os.path.join(BASE, "probe.trace")
    try:
        r1 = subprocess.run(["strace", "-f", "-o", log, "-e", "trace=write", "-e", "inject=write:error=ENOSPC:when=1",
                             "/bin/sh", "-c", "echo hi"], capture_output=True, timeout=30)
        t1 = open(log).read()
        r2 = subprocess.run(["strace", "-f", "-o", log, "-e", "trace=write", "-e", "inject=write:signal=KILL:when=1",
                             "/bin/sh", "-c", "echo hi"], capture_output=True, timeout=30)
        t2 = open(log).read()
        os.unlink(log)
    except (OSError, subprocess.TimeoutExpired) as e:
        raise HarnessError("strace is not usable: %s" % e)
    if "(INJECTED)" not in t1 or r1.stdout.strip() == b"hi":
        raise HarnessError("strace cannot inject errors in this environment: " + r1.stderr.decode()[-300:])
    if r2.returncode != -9 or "killed by SIGKILL" not in t2:
        raise HarnessError("strace cannot inject signals in this environment: " + r2.stderr.decode()[-300:])


# ---------------------------------------------------------------------------
# expectations from the specification

def spec_table(chk=None):
    """One TLC run: Atomic & co. for the intended protocol (every terminal state = one allowed outcome of one
    schedule) and, as a sanity check that the invariant can fail, witnesses of its violation for the protocol
    without mode restoration (what main.go does) and for rewriting in place."""
    res = common.run_tlc("FmtWrite", "FmtWrite.cfg", timeout=600)
    if chk is not None:
        chk.add_tlc(res, "FmtWrite (intended protocol: all single faults and kill points; deviating protocols refuted)")
    table, refuted = {}, {}
    for c in res.cases:
        if "refuted" in c:
            refuted.setdefault(c["refuted"], c)
            continue
        f = c["fault"]
        k = (c["op"], tuple(c["files"]), c["omode"], f["type"], f["call"], f["errno"])
        e = c["expect"]
        table.setdefault(k, set()).add((e["content"], e["mode"], e["exit"]))
    if not table:
        raise HarnessError("TLC emitted no schedules for FmtWrite")
    for v in ("asimpl", "inplace"):
        if v not in refuted:
            raise HarnessError("invariant Atomic is not sensitive: TLC found no violating state for variant " + v)
    if chk is not None:
        chk.extra["model_level_refutations"] = [
            "Variant=%s: Atomic violated, e.g. target [content %s, mode %s] (was mode %s) at exit=%s, fault=%s:%s"
            % (v, w["content"], w["mode"], w["omode"], w["exit"], w["fault"]["type"], w["fault"]["call"])
            for v, w in sorted(refuted.items())]
    return table


def sched_text(rs, fired):
    inj = rs.get("inject")
    if not inj:
        return "no fault"
    what = "SIGKILL at" if inj["errno"] is None else inj["errno"] + " from"
    hit = "%s = %s #%d" % (fired[2], fired[0], fired[1]) if fired else "did not fire"
    return "%s %s #%d (%s)" % (what, inj["syscall"], inj["when"], hit)


def judge(out, table, oracles):
    """Compare one run with what the specification allows. -> list of (class, diff)."""
    rs, obs, an = out["run"], out["obs"], out["an"]
    inj, fired = rs.get("inject"), an["fired"]
    kinds = tuple(oracles[f["name"], f["data"]][1] for f in rs["files"]) or (oracles["<stdin>", rs["stdin"]][1],)
    omode = rs["files"][0]["mode"] if rs["files"] else "0644"
    if fired is None:
        key = (rs["op"], kinds, omode, "none", "-", "-")
    elif inj["errno"] is None:
        key = (rs["op"], kinds, omode, "kill", fired[2] if not fired[2].startswith("bad:") else "other", "-")
    else:
        key = (rs["op"], kinds, omode, "err", fired[2] if not fired[2].startswith("bad:") else "other", inj["errno"])
    allowed = table.get(key)
    if allowed is None:
        if (rs["op"], kinds, omode, "none", "-", "-") not in table:
            raise HarnessError("the specification has no behaviour for %r" % (key[:3],))
        # the fault hit a call that FmtWrite never issues in this command (e.g. creating a file in check mode)
        return [("unexpected-call/%s/%s" % (rs["label"], omode),
                 "`evy fmt %s` issued the call %s (%s), which the specification does not have for op=%s, files=%s"
                 % (" ".join(rs["args"]), key[4], sched_text(rs, fired), rs["op"], list(kinds)))]
    # observed content class(es) of the command line files taken together
    classes, modes_ok, detail = {"orig", "fmt"}, True, []
    for f in rs["files"]:
        o = obs["files"][f["name"]]
        fm = oracles[f["name"], f["data"]][0]
        if o is None:
            classes = set()
            detail.append("%s is gone" % f["name"])
            continue
        mine = set()
        if o["data"] == f["data"]:
            mine.add("orig")
        if fm is not None and unb64(o["data"]) == fm:
            mine.add("fmt")
        if not mine:
            detail.append("%s holds %d bytes that are neither its original (%d bytes) nor its formatted text (%s bytes)"
                          % (f["name"], len(unb64(o["data"])), len(unb64(f["data"])), len(fm) if fm is not None else "-"))
        if len(rs["files"]) > 1:      # several files: the specification speaks about them collectively (check mode)
            mine = {"orig"} if o["data"] == f["data"] else set()
        classes &= mine
        if o["mode"] != f["mode"]:
            modes_ok = False
            detail.append("mode %s -> %s (%s)" % (f["mode"], o["mode"], f["name"]))
    label = "%s/%s" % (rs["label"], omode)
    sched = sched_text(rs, fired)
    out_m = []
    content_ok = [a for a in allowed if a[0] in classes]
    if not content_ok:
        out_m.append(("content/" + label, "after `evy fmt %s` with %s: %s; the specification allows content %s"
                      % (" ".join(rs["args"]), sched, "; ".join(d for d in detail if "mode" not in d) or
                         "target holds its %s text" % "/".join(sorted(classes)),
                         sorted({a[0] for a in allowed}))))
    else:
        if not [a for a in content_ok if a[2] == obs["exit"]]:
            out_m.append(("exit/" + label, "after `evy fmt %s` with %s: exit status is %s (rc %s) with the %s text in "
                          "place; the specification allows %s" % (" ".join(rs["args"]), sched, obs["exit"], obs["rc"],
                                                                   "/".join(sorted(classes)),
                                                                   sorted((a[0], a[2]) for a in allowed))))
    if not modes_ok:
        out_m.append(("mode-change/" + label, "%s after `evy fmt %s` with %s; the permission bits must not change"
                      % ("; ".join(d for d in detail if d.startswith("mode")), " ".join(rs["args"]), sched)))
    if rs["op"] != "write":
        for f in rs["files"]:
            o = obs["files"][f["name"]]
            if o is not None and not o["same_inode_mtime"]:
                out_m.append(("check-modified/" + label, "`evy fmt %s` changed mtime/inode of %s"
                              % (" ".join(rs["args"]), f["name"])))
        if obs["leftover"]:
            out_m.append(("check-modified/" + label, "`evy fmt %s` created %s" % (" ".join(rs["args"]), obs["leftover"])))
    return out_m


# ---------------------------------------------------------------------------
# direction B

def trace_events(t, out, oracles):
    rs, obs, an = out["run"], out["obs"], out["an"]
    kinds = [oracles[f["name"], f["data"]][1] for f in rs["files"]] or [oracles["<stdin>", rs["stdin"]][1]]
    omode = rs["files"][0]["mode"] if rs["files"] else "0644"
    flen = 0
    if rs["op"] == "write":
        fm = oracles[rs["files"][0]["name"], rs["files"][0]["data"]][0]
        flen = len(fm) if fm is not None else 0
    base = {"t": t, "label": rs["label"], "op": rs["op"], "kinds": [], "call": "-", "ok": True, "errno": "-", "n": 0,
            "mode": "-", "flag": False, "kind": "-"}
    evs = [dict(base, ev="begin", kinds=kinds, mode=omode, n=flen)]
    for e in an["events"]:
        evs.append(dict(base, **e))
    seen, mode = {"orig", "fmt"}, omode
    for f in rs["files"]:
        o = obs["files"][f["name"]]
        fm = oracles[f["name"], f["data"]][0]
        if o is None:
            seen = set()
            continue
        mine = set()
        if o["data"] == f["data"]:
            mine.add("orig")
        if fm is not None and unb64(o["data"]) == fm and len(rs["files"]) == 1:
            mine.add("fmt")
        seen &= mine
        if o["mode"] != f["mode"]:
            mode = o["mode"]
    content = "both" if seen == {"orig", "fmt"} else (sorted(seen)[0] if seen else "damaged")
    evs.append(dict(base, ev="end", kind=content, mode=mode))
    return evs


def validate_traces(chk, outs, oracles, label="FmtWriteTrace"):
    """All runs in one TLC run. -> {t: reject record}"""
    lines = []
    for t, out in enumerate(outs):
        for e in trace_events(t, out, oracles):
            lines.append(json.dumps(e))
    nev = len(lines)
    res = common.run_tlc("FmtWriteTrace", "FmtWriteTrace.cfg", workers=1, timeout=900,
                         extra_files=[(("\n".join(lines) + "\n").encode(), "fmtwrite_trace.ndjson")])
    if chk is not None:
        chk.add_tlc(res, "%s (%d runs, %d events)" % (label, len(outs), nev))
    rejects = {}
    for c in res.cases:
        if isinstance(c, dict) and "why" in c:
            rejects.setdefault(c["t"], c)
    return rejects


def reject_mismatch(out, rj):
    rs = out["run"]
    omode = rs["files"][0]["mode"] if rs["files"] else "0644"
    sched = sched_text(rs, out["an"]["fired"])
    if rj["why"] == "mode-change":
        diff = ("system-call trace of `evy fmt %s` (%s) is not a behaviour of FmtWrite: rename of the temp file "
                "(mode %s) over the target without restoring its permission bits: mode %s -> %s"
                % (" ".join(rs["args"]), sched, rj["tmpmode"], omode, rj["tmpmode"]))
    else:
        what = rj["call"] if rj["ev"] != "end" else "final state content=%s mode=%s" % (rj["ekind"], rj["emode"])
        diff = ("system-call trace of `evy fmt %s` (%s) is not a behaviour of FmtWrite: no action matches event #%d "
                "%s %s (ok=%s n=%s mode=%s flag=%s) in state pc=%s temp=[%s %s open=%s] target=[%s %s] fault=%s exit=%s"
                % (" ".join(rs["args"]), sched, rj["idx"], rj["ev"], what, rj["ok"], rj["n"], rj["emode"], rj["flag"],
                   rj["pc"], rj["tmpcontent"], rj["tmpmode"], rj["tmpopen"], rj["tcontent"], rj["tmode"],
                   rj["fault"]["type"] + ":" + rj["fault"]["call"], rj["exit"]))
    cls = "%s/%s/%s" % (rj["why"] if rj["why"] == "mode-change" else "trace-" + rj["why"], rs["label"], omode)
    return cls, diff


# ---------------------------------------------------------------------------
# the campaign

def pool_map(fn, items):
    with concurrent.futures.ThreadPoolExecutor(max_workers=common.NCPU) as ex:
        return list(ex.map(fn, items))


def fault_runs(prefix, label, op, files, args, clean, stdin=None, tier="thorough"):
    """One run per (site of the clean run) x (errno | kill); the quick tier takes one errno per site."""
    runs = []
    for n, (sysname, k, call, _) in enumerate(clean["an"]["sites"]):
        errs = ERRNOS if tier == "thorough" else [ERRNOS[(common.seed() + n) % len(ERRNOS)]]
        if sysname in PERM_CALLS:
            errs = list(dict.fromkeys(errs + ["EACCES"] + (["EPERM"] if tier == "thorough" else [])))
        kinds = [None] if sysname in KILL_ONLY else errs + [None]
        for e in kinds:
            rid = "%s-%s%d-%s" % (prefix, sysname, k, e or "KILL")
            runs.append(mk_run(rid, label, op, files, args, stdin=stdin,
                               inject={"syscall": sysname, "site": k, "when": k, "errno": e, "want": call}))
    return runs


def run_with_retries(runs, attempts=4):
    """strace counts `when=k` per thread and the Go runtime may move the main goroutine to another thread, so
    a fault can miss the intended call, hit another one, or fire twice.  A run with exactly one fault is a valid
    observation whatever it hit (it is judged by what actually happened); a run with two faults is outside the
    single-fault model and dropped.  The intended site is retried, alternating between its global ordinal and the
    per-thread ordinal it had in the last miss."""
    outs, todo, dropped = [], list(runs), 0
    for a in range(attempts):
        if not todo:
            break
        res = pool_map(do_run, [dict(r, id=r["id"] + ".%d" % a) for r in todo])
        nxt = []
        for r, o in zip(todo, res):
            inj = r["inject"]
            f = o["an"]["fired"]
            if o["an"]["multifault"]:
                dropped += 1
            else:
                outs.append(o)
                if f is not None and (f[0], f[1]) == (inj["syscall"], inj["site"]):
                    continue
            alt = [st[3] for st in o["an"]["sites"] if (st[0], st[1]) == (inj["syscall"], inj["site"])]
            k2 = inj["site"] if inj["when"] != inj["site"] else (alt[0] if alt and alt[0] != inj["site"]
                                                                 else max(1, inj["site"] - 1))
            nxt.append(dict(r, inject=dict(inj, when=k2)))
        todo = nxt
    return outs, todo, dropped


def run(chk):
    import time
    t0 = time.time()
    phases = chk.extra.setdefault("phase_wall_s", {})

    def lap(name):
        nonlocal t0
        phases[name] = round(time.time() - t0, 1)
        t0 = time.time()
    common.build_evy()
    probe_strace()
    shutil.rmtree(BASE, ignore_errors=True)
    os.makedirs(BASE)
    table = spec_table(chk)
    lap("build+TLC FmtWrite")

    inputs = write_inputs()
    oracles = {}

    def orc(name, data):
        k = (name, b64(data))
        if k not in oracles:
            oracles[k] = oracle(name, data)
        return oracles[k]

    # ---- fmt -w: (input, mode) combinations
    combos = [(lab, m) for lab in inputs for m in MODES]
    if chk.tier == "quick":
        core = [(lab, m) for lab in ("unfmt", "fmtd", "bad", "txtar", "txtargrow") for m in MODES]
        sel = common.pick(core, 3)
        for must in ("unfmt", "bad", "txtargrow"):          # always one file that changes, one that does not parse, one archive
            if not any(l == must for l, _ in sel):
                sel.append((must, common.pick(MODES, 1)[0]))
        combos = sel
    all_outs = []
    unrealised = []
    for lab, m in combos:
        name, data = inputs[lab]
        orc(name, data)
    cleans = pool_map(do_run, [mk_run("w-%s-%s-clean" % (lab, m), lab, "write", [(inputs[lab][0], inputs[lab][1], m)],
                                      ["-w", inputs[lab][0]]) for lab, m in combos])
    all_outs += cleans
    fruns = []
    for (lab, m), cl in zip(combos, cleans):
        fruns += fault_runs("w-%s-%s" % (lab, m), lab, "write", [(inputs[lab][0], inputs[lab][1], m)],
                            ["-w", inputs[lab][0]], cl, tier=chk.tier)
    outs, missed, dropped = run_with_retries(fruns, attempts=4 if chk.tier == "thorough" else 3)
    all_outs += outs
    unrealised += [r["id"] for r in missed]

    # absolute path argument and a file in a subdirectory (the temp file must still be a sibling of the target)
    sub = [mk_run("w-subdir-%s" % m, "subdir", "write", [("d/e/a.evy", UNFMT, m)], ["-w", "d/e/a.evy"]) for m in MODES[:2]]
    sub.append(mk_run("w-abs", "abs", "write", [("a.evy", UNFMT, "0600")], ["-w", "{DIR}/a.evy"]))
    sub.append(mk_run("w-dot", "dot", "write", [("d/a.evy", UNFMT2, "0600")], ["-w", "./d/../d/a.evy"]))
    sub.append(mk_run("w-crlf", "crlf", "write", [("c.evy", CRLF, MODES[0])], ["-w", "c.evy"]))
    sub.append(mk_run("w-crlfunfmt", "crlfunfmt", "write", [("cu.evy", CRLFUNFMT, MODES[-1])], ["-w", "cu.evy"]))
    orc("c.evy", CRLF)
    orc("cu.evy", CRLFUNFMT)
    orc("d/e/a.evy", UNFMT)
    orc("a.evy", UNFMT)
    orc("d/a.evy", UNFMT2)
    all_outs += pool_map(do_run, sub)

    lap("strace fmt -w")
    # ---- fmt -c
    check_outs, d2 = check_family(chk, inputs, orc, table)
    lap("strace fmt -c")
    all_outs += check_outs
    chk.extra["runs_dropped_for_a_double_fault"] = dropped + d2

    # ---- verdicts, direction A
    seen_sched = set()
    for o in all_outs:
        rs = o["run"]
        chk.evaluations += 1
        chk.traces += 1
        for cls, diff in judge(o, table, oracles):
            chk.mismatch(cls, diff, {"run": rs, "fired": o["an"]["fired"]})
        f = o["an"]["fired"]
        if f is not None:
            inj = rs["inject"]
            chk.nontrivial.add((rs["label"], rs["files"][0]["mode"] if rs["files"] else "-", rs["op"], f[2],
                                inj["errno"] or "KILL"))
            seen_sched.add((rs["op"], f[2], "kill" if inj["errno"] is None else "err"))
    multi_file_write(chk, orc)

    # ---- direction B: every log must be a behaviour of FmtWrite
    rejects = validate_traces(chk, all_outs, oracles)
    for t, rj in sorted(rejects.items()):
        cls, diff = reject_mismatch(all_outs[t], rj)
        chk.mismatch(cls, diff, {"run": all_outs[t]["run"], "fired": all_outs[t]["an"]["fired"], "trace": True})
    chk.traces += len(all_outs) - len(rejects)
    lap("judge + TLC FmtWriteTrace")

    # ---- evidence
    spec_sched = {(k[0], k[4], k[3]) for k in table if k[3] != "none"}
    chk.extra["schedules_of_the_specification"] = len({k for k in table})
    chk.extra["fault_kinds_realised_on_the_binary"] = sorted("%s:%s:%s" % s for s in seen_sched)
    chk.extra["fault_kinds_without_a_call_in_the_binary"] = sorted(
        "%s:%s:%s" % s for s in spec_sched - seen_sched)
    chk.extra["schedules_not_hit_after_retries"] = unrealised[:40]
    chk.extra["schedules_not_hit_count"] = len(unrealised)
    chk.extra["strace_runs"] = len(all_outs)
    chk.extra["runs_with_fault_fired"] = sum(1 for o in all_outs if o["an"]["fired"] is not None)
    left = sum(1 for o in all_outs if o["obs"]["leftover"] and o["run"]["op"] == "write")
    chk.extra["runs_leaving_a_temp_file_behind"] = left
    chk.notes.append("temp files left behind after a failed or killed run are not part of the property: %d of %d "
                     "runs left one" % (left, len(all_outs)))
    chk.extra["combinations"] = ["%s/%s" % c for c in combos]
    for o in (all_outs[0], outs[len(outs) // 3] if outs else all_outs[0], outs[-1] if outs else all_outs[0],
              check_outs[0]):
        rs = o["run"]
        chk.sample({"cmd": "evy fmt " + " ".join(rs["args"]), "input": rs["label"],
                    "mode": rs["files"][0]["mode"] if rs["files"] else "-",
                    "schedule": sched_text(rs, o["an"]["fired"]),
                    "observed": {"exit": o["obs"]["exit"],
                                 "modes": {n: (v or {}).get("mode") for n, v in o["obs"]["files"].items()},
                                 "leftover": o["obs"]["leftover"]},
                    "calls": [e["call"] + ("" if e["ok"] else "=" + e["errno"]) for e in o["an"]["events"]]})
    chk.rule = ("a strace run = one (input, mode, system call #k, errno|SIGKILL) executed on the real binary and compared "
                "with the outcomes FmtWrite allows for the fault that fired, plus its system-call trace accepted by "
                "FmtWriteTrace; non-trivial = distinct (input, mode, command, FmtWrite call, errno|KILL) whose fault "
                "actually fired")
    chk.exhaustive = chk.tier == "thorough" and not unrealised
    chk.assumptions += [
        "faults are injected with strace (error return without executing the call / SIGKILL at call entry); "
        "short writes and power loss (no fsync in the protocol) are covered by the model only",
        "'formatted text' is what the real formatter prints for the input on stdin (C07 checks the formatter itself); "
        "txtar archives are re-assembled by a Python transcription of txtar.Format",
        "runs as root: EACCES only occurs injected; read-only directories are not exercised",
        "an injected error in the Go runtime's start-up probe of the huge page size (before any Go code runs; the "
        "runtime ignores it) does not count as the fault of a run",
        "exit status after a failed call: the specification demands non-zero when a call the protocol depends on "
        "fails, and allows either outcome for calls it does not depend on (fstat/close of the source, lstat of the "
        "target, calls that do not touch the directory)",
    ]
    shutil.rmtree(BASE, ignore_errors=True)


def check_family(chk, inputs, orc, table):
    fm = inputs["fmtd"][1]
    fam = {
        "fmtd": ("a.evy", fm), "unfmt": ("a.evy", UNFMT), "trail": ("a.evy", TRAIL), "bad": ("a.evy", BAD),
        "bad2": ("a.evy", BAD2), "empty": ("a.evy", b""), "nonl": ("a.evy", fm.rstrip(b"\n")),
        "unfmt2": ("a.evy", UNFMT2), "txtar": ("a.txtar", TXTAR), "txtarfmtd": inputs["txtarfmtd"],
        "txtarbad": ("a.txtar", TXTARBAD), "fmttrail": ("a.evy", fm + b"\n"), "txtargrow": ("g.txtar", TXTARGROW),
        # an archive whose last member lacks the final newline: evy fmt -w adds it, so the archive is not in formatted form
        "txtarnonl": ("n.txtar", b"-- a.evy --\nx := 1\nprint x"), "txtarnonl2": ("n.txtar", b"comment\n-- a.evy --\nprint 1\n-- t.txt --\nlast line"),
        "crlf": ("a.evy", CRLF), "crlfunfmt": ("a.evy", CRLFUNFMT), "fmtcrlf": ("a.evy", fm.replace(b"\n", b"\r\n")),
        "fmtbom": ("a.evy", b"\xef\xbb\xbf" + fm), "fmttrailblank": ("a.evy", fm.replace(b"\n", b" \n", 1)),
    }
    labs = list(fam)
    modes = MODES if chk.tier == "thorough" else [common.pick(MODES, 1)[0]]
    runs = []
    for lab in labs:
        name, data = fam[lab]
        orc(name, data)
        for m in modes:
            runs.append(mk_run("c-%s-%s" % (lab, m), lab, "check", [(name, data, m)], ["-c", name]))
        if not name.endswith(".txtar"):
            orc("<stdin>", data)
            runs.append(mk_run("c-%s-stdin" % lab, lab, "checkstdin", [], ["-c"], stdin=data))
            if chk.tier == "thorough":
                runs.append(mk_run("c-%s-stdin2" % lab, lab, "checkstdin", [], ["--check"], stdin=data))
    pairs = [(a, b) for a in ("fmtd", "unfmt", "bad", "trail") for b in ("fmtd", "unfmt", "bad", "txtarfmtd")]
    if chk.tier == "quick":
        pairs = common.pick([p for p in pairs if p != ("fmtd", "fmtd")], 5) + [("fmtd", "fmtd")]
    for a, b in pairs:
        na, nb = "one" + os.path.splitext(fam[a][0])[1], "two" + os.path.splitext(fam[b][0])[1]
        orc(na, fam[a][1])
        orc(nb, fam[b][1])
        runs.append(mk_run("c2-%s-%s" % (a, b), "%s+%s" % (a, b), "check",
                           [(na, fam[a][1], "0644"), (nb, fam[b][1], "0644")], ["-c", na, nb]))
    outs = pool_map(do_run, runs)
    # faults in check mode: nothing may be modified whatever fails
    frs = []
    for lab in (common.pick(["fmtd", "unfmt"], 1) if chk.tier == "quick" else ("fmtd", "unfmt", "bad", "txtar")):
        name, data = fam[lab]
        cl = next(o for o in outs if o["run"]["id"] == "c-%s-%s" % (lab, modes[0]))
        frs += fault_runs("cf-%s-%s" % (lab, modes[0]), lab, "check", [(name, data, modes[0])], ["-c", name], cl,
                          tier=chk.tier)
    for lab in (common.pick(["fmtd", "unfmt"], 1, common.seed() + 1) if chk.tier == "quick" else ["fmtd", "unfmt", "bad"]):
        cl = next(o for o in outs if o["run"]["id"] == "c-%s-stdin" % lab)
        frs += fault_runs("cf-%s-stdin" % lab, lab, "checkstdin", [], ["-c"], cl, stdin=fam[lab][1], tier=chk.tier)
    fo, _, dropped = run_with_retries(frs, attempts=2)
    chk.extra["check_mode_runs"] = len(outs) + len(fo)
    return outs + fo, dropped


def multi_file_write(chk, orc):
    """`evy fmt -w a.evy bad.evy c.evy`: every file is original or formatted, the unparseable one is untouched,
    modes as before, exit status non-zero.  (The specification is per file; this is its conjunction.)"""
    fm = evy_fmt_stdin(UNFMT)
    files = [("a.evy", UNFMT, "0600"), ("bad.evy", BAD, "0600"), ("c.evy", UNFMT2, "0600")]
    rs = mk_run("w-multi", "multi", "write", files, ["-w", "a.evy", "bad.evy", "c.evy"])
    o = do_run(rs)
    chk.evaluations += 1
    obs = o["obs"]
    fm2 = evy_fmt_stdin(UNFMT2)
    probs = []
    for (n, d, m), f in zip(files, (fm, None, fm2)):
        got = obs["files"][n]
        if got is None or unb64(got["data"]) not in ((d,) if f is None else (d, f)):
            probs.append("%s is neither original nor formatted" % n)
        elif got["mode"] != m:
            probs.append("mode %s -> %s (%s)" % (m, got["mode"], n))
    if obs["exit"] != "nonzero":
        probs.append("exit status %s although bad.evy does not parse" % obs["exit"])
    if probs:
        chk.mismatch("multi/0600", "after `evy fmt -w a.evy bad.evy c.evy`: " + "; ".join(probs), {"run": rs, "multi": True})


# ---------------------------------------------------------------------------
# --replay

def replay_one(data):
    common.build_evy()
    probe_strace()
    os.makedirs(BASE, exist_ok=True)
    rd = data["data"]
    rs = rd["run"]
    if rd.get("multi"):
        class C:          # minimal stand-in
            evaluations = 0
            bad = []

            def mismatch(self, cls, diff, x):
                self.bad.append((cls, diff))
        c = C()
        multi_file_write(c, None)
        for cls, diff in c.bad:
            print("  class=%s: %s" % (cls, diff))
        if c.bad:
            print("VIOLATION property=%s replay=(replayed)" % data["property"])
        return 1 if c.bad else 0
    table = spec_table()
    oracles = {}
    for f in rs["files"]:
        oracles[f["name"], f["data"]] = oracle(os.path.basename(f["name"]), unb64(f["data"]))
    if rs.get("stdin") is not None:
        oracles["<stdin>", rs["stdin"]] = oracle("<stdin>", unb64(rs["stdin"]))
    want = rd.get("fired")
    found = []
    for a in range(8):
        r2 = dict(rs, id="replay.%d" % a)
        o = do_run(r2)
        got = o["an"]["fired"]
        if o["an"]["multifault"] or (want is not None and (got is None or list(got)[:3] != list(want)[:3])):
            rs = dict(rs, inject=dict(rs["inject"], when=max(1, rs["inject"]["when"] + (-1 if a % 2 == 0 else 1))))
            continue
        found = judge(o, table, oracles)
        rej = validate_traces(None, [o], oracles)
        if 0 in rej:
            found.append(reject_mismatch(o, rej[0]))
        print(json.dumps({"cmd": "evy fmt " + " ".join(rs["args"]), "schedule": sched_text(rs, got),
                          "observed": {"exit": o["obs"]["exit"], "leftover": o["obs"]["leftover"],
                                       "modes": {n: (v or {}).get("mode") for n, v in o["obs"]["files"].items()}},
                          "calls": [e["call"] + ("" if e["ok"] else "=" + e["errno"]) for e in o["an"]["events"]]},
                         indent=1))
        break
    else:
        raise HarnessError("the recorded fault did not fire again in 8 attempts")
    shutil.rmtree(BASE, ignore_errors=True)
    want_cls = data.get("class")
    hit = [(c, d) for c, d in found if want_cls is None or c == want_cls] or found
    for cls, diff in hit:
        print("  class=%s: %s" % (cls, diff))
    if hit:
        print("VIOLATION property=%s replay=(replayed)" % data["property"])
        return 1
    return 0
