"""Documented examples: every ```evy block of docs/builtins.md and docs/spec.md
that is followed by an ```evy:output block (optionally an ```evy:input block in
between), as the repository's own doctest.awk reads them."""
import os
import re

from . import common

FILES = ("docs/builtins.md", "docs/spec.md", "docs/syntax-by-example.md")
FENCE = re.compile(r"^```(\S*)\s*$")


def blocks(text):
    out, cur, lang = [], None, None
    for line in text.split("\n"):
        m = FENCE.match(line)
        if m and cur is None and m.group(1):
            lang, cur = m.group(1), []
        elif m and cur is not None and m.group(1) == "":
            out.append((lang, "\n".join(cur)))
            cur = None
        elif cur is not None:
            cur.append(line)
    return out


def examples():
    ex = []
    for f in FILES:
        p = os.path.join(common.REPO, f)
        if not os.path.exists(p):
            continue
        bs = blocks(open(p, encoding="utf-8").read())
        i = 0
        while i < len(bs):
            lang, code = bs[i]
            if lang in ("evy", "evy:err"):
                inp, outp, j = None, None, i + 1
                if j < len(bs) and bs[j][0] == "evy:input":
                    inp = bs[j][1]
                    j += 1
                if j < len(bs) and bs[j][0] == "evy:output":
                    outp = bs[j][1]
                    j += 1
                if outp is not None:
                    ex.append({"id": "%s#%d" % (os.path.basename(f), len(ex)), "file": f, "src": code + "\n",
                               "inputs": inp.split("\n") if inp is not None else [],
                               "output": outp, "err": lang == "evy:err"})
                    i = j
                    continue
            i += 1
    return ex


# ---------------------------------------------------------------------------
# three-way comparison: documentation / specification / implementation

def _dec(v):
    if isinstance(v, dict) and "cp" in v:
        return "".join(chr(c) for c in v["cp"])
    if isinstance(v, str):
        return v
    if isinstance(v, list):
        return "".join(_dec(x) for x in v)
    return str(v)


def spec_output(case):
    """Text on the terminal after the machine's run: prints after the last cls."""
    out = ""
    for eff in case["expect"]["effects"]:
        if eff[0] == "print":
            out += _dec(eff[1:])
        elif eff[0] == "cls":
            out = ""
    return out


CLEAR = re.compile(r"\x1b\[[0-9;]*[HJ]")


def cli_output(src, inputs, tmp):
    import subprocess
    f = os.path.join(tmp, "doc.evy")
    open(f, "w", encoding="utf-8").write(src)
    env = dict(os.environ, TERM="xterm")
    r = subprocess.run([common.EVY, "run", f], input=("\n".join(inputs) + "\n").encode(), capture_output=True,
                       timeout=60, env=env)
    out = r.stdout.decode("utf-8", "replace")
    parts = CLEAR.split(out)
    return parts[-1] + r.stderr.decode("utf-8", "replace"), r.returncode


def same_text(a, b):
    return a.rstrip("\n") == b.rstrip("\n")


def run(chk):
    """Returns the replay cases produced by the machine for the documented examples."""
    import json
    from .common import HarnessError
    ex = examples()
    if len(ex) < 40:
        raise HarnessError("only %d documented examples with output found under %s/docs" % (len(ex), common.REPO))
    byid = {e["id"]: e for e in ex}
    tmp = common.scratch("docex")
    inp = os.path.join(tmp, "in.ndjson")
    with open(inp, "w", encoding="utf-8") as f:
        for e in ex:
            f.write(json.dumps({"id": e["id"], "src": e["src"], "inputs": e["inputs"]}) + "\n")
    cases_path = os.path.join(tmp, "examples.ndjson")
    skipped_path = os.path.join(tmp, "skipped.ndjson")
    r = common.harness_cmd(["export-ast", "-in", inp, "-out", cases_path, "-skipped", skipped_path])
    if r.returncode != 0:
        raise HarnessError("export-ast failed: " + r.stderr[-2000:])
    skipped = [json.loads(l) for l in open(skipped_path, encoding="utf-8") if l.strip()]
    res = common.run_tlc("DocExamples", "DocExamples.cfg", extra_files=[(cases_path, "examples.ndjson")], timeout=600,
                         defines={"MAXSTEPS": "100000"})
    chk.add_tlc(res, "DocExamples")
    if res.violation:
        raise HarnessError("DocExamples: " + res.violation)
    # 1. implementation against documentation, all examples (command line, as doctest.awk runs them)
    common.build_evy()
    for e in ex:
        got, rc = cli_output(e["src"], e["inputs"], tmp)
        chk.evaluations += 1
        chk.traces += 1
        chk.nontrivial.add("doc:" + e["id"])
        if not same_text(got, e["output"]) or (rc != 0) != (e["err"] or "exit " in e["src"]):
            chk.mismatch("doc-example/" + e["file"],
                         "documented output %r, evy run prints %r (exit status %d)" % (e["output"], got, rc),
                         {"example": e, "got": got, "status": rc})
    # 2. specification against documentation (a disagreement is an error of the specification)
    cases, agree, open_ = [], 0, []
    for n, c in enumerate(res.cases):
        e = byid[c["class"]]
        if c["soundOnly"]:
            open_.append(e["id"])
            continue
        out = spec_output(c)
        result = c["expect"]["result"]
        if result == ["ok"]:
            good = same_text(out, e["output"])
        else:
            # the run ends with an error: the documentation shows the output so far, then the error text
            rest = e["output"][len(out.rstrip("\n")):] if e["output"].startswith(out.rstrip("\n")) else None
            good = rest is not None and all(_dec(m) in rest for m in c["expect"]["errContains"])
        if not good:
            raise HarnessError("specification disagrees with the documentation on %s: documented %r, machine prints %r (%s)"
                               % (e["id"], e["output"], out, result))
        agree += 1
        # 3. implementation against specification: the usual replay
        x = {k: v for k, v in c.items() if k not in ("srcs", "tag")}
        x.update(id="doc-%d" % n, stage="run", src=[e["src"]], layout="doc", **{"class": "doc/" + e["id"]})
        cases.append(x)
    chk.extra["documented_examples"] = {
        "found": len(ex), "run_by_the_machine": len(res.cases), "machine_agrees_with_documentation": agree,
        "outside_the_exact_model": sorted(open_ + [s["id"] + ": " + s["why"] for s in skipped]),
        "implementation_compared_with_documentation": len(ex)}
    return cases


def corpus(chk, tier, sound_only=False):
    """Whole programs of the repository (examples/human-eval) through the machine; returns replay cases:
    the programs that finish inside the exact model, or (sound_only) those that leave it - for these the
    machine's effects so far must be a prefix and the run must not go wrong (C02)."""
    import glob
    import json
    import random
    from .common import HarnessError
    files = sorted(glob.glob(os.path.join(common.REPO, "examples", "human-eval", "*.evy")))
    if len(files) < 100:
        raise HarnessError("examples/human-eval: only %d programs found" % len(files))
    if tier == "quick":
        files = random.Random(common.seed()).sample(files, 24)
        cap = 2500
    else:
        cap = 30000
    tmp = common.scratch("corpus-in")
    inp = os.path.join(tmp, "in.ndjson")
    src = {}
    with open(inp, "w", encoding="utf-8") as f:
        for p in files:
            src[os.path.basename(p)] = open(p, encoding="utf-8").read()
            f.write(json.dumps({"id": os.path.basename(p), "src": src[os.path.basename(p)], "inputs": []}) + "\n")
    cases_path = os.path.join(tmp, "examples.ndjson")
    skipped_path = os.path.join(tmp, "skipped.ndjson")
    r = common.harness_cmd(["export-ast", "-in", inp, "-out", cases_path, "-skipped", skipped_path])
    if r.returncode != 0:
        raise HarnessError("export-ast failed: " + r.stderr[-2000:])
    nskip = sum(1 for l in open(skipped_path, encoding="utf-8") if l.strip())
    res = common.run_tlc("DocExamples", "DocExamples.cfg", extra_files=[(cases_path, "examples.ndjson")], timeout=3000,
                         defines={"MAXSTEPS": str(cap)}, name="corpus")
    chk.add_tlc(res, "DocExamples(human-eval)")
    if res.violation:
        raise HarnessError("DocExamples(human-eval): " + res.violation)
    cases = []
    for n, c in enumerate(res.cases):
        if bool(c["soundOnly"]) != sound_only:
            continue
        x = {k: v for k, v in c.items() if k not in ("srcs", "tag")}
        x.update(id="corpus-%d" % n, stage="run", src=[src[c["class"]]], layout="corpus", **{"class": "corpus/" + c["class"]})
        cases.append(x)
    chk.extra["corpus_programs"] = {
        "selected": len(files), "numbers_outside_the_exact_model": nskip,
        "left_the_documented_domain (sqrt of a non-square, ...)": sum(1 for c in res.cases if c["soundOnly"]),
        "finished_within_%d_steps_and_replayed" % cap: len(cases)}
    if not cases and not sound_only:
        raise HarnessError("no corpus program finished in the machine")
    return cases


# ---------------------------------------------------------------------------
# sample programs with event handlers under seeded event sequences (C15)

KEYS_EV = ["a", "ArrowLeft", " ", "ä", "Enter", "x"]
ALL_EVENTS = ["down", "up", "move", "key", "input", "animate"]


def _event(name, rnd, clock):
    if name in ("down", "up", "move"):
        return {"ev": name, "args": [rnd.randrange(0, 201) / 2, rnd.randrange(0, 201) / 2]}
    if name == "key":
        return {"ev": name, "args": [rnd.choice(KEYS_EV)]}
    if name == "input":
        return {"ev": name, "args": [rnd.choice(["sliderx", "slidery", "s1"]), rnd.choice(["5", "50", "abc", "100", ""])]}
    clock[0] += rnd.choice([16, 17, 33])
    return {"ev": "animate", "args": [clock[0]]}


def samples(chk, tier):
    """Sample programs of the repository that declare event handlers: real parser -> specification tree
    -> machine, with event sequences drawn from the seed; returns replay cases."""
    import glob
    import json
    import random
    from .common import HarnessError
    rnd = random.Random(common.seed())
    files = []
    for pat in ("frontend/play/samples/**/*.evy", "frontend/lab/samples/**/*.evy"):
        files += glob.glob(os.path.join(common.REPO, pat), recursive=True)
    progs = []
    for p in sorted(files):
        text = open(p, encoding="utf-8").read()
        hs = re.findall(r"(?m)^on\s+(\w+)", text)
        if hs:
            progs.append((os.path.relpath(p, common.REPO), text, hs))
    if len(progs) < 10:
        raise HarnessError("only %d sample programs with event handlers found" % len(progs))
    nseq, length, cap = (2, 8, 6000) if tier == "quick" else (12, 20, 40000)
    tmp = common.scratch("samples-in")
    inp = os.path.join(tmp, "in.ndjson")
    src = {}
    with open(inp, "w", encoding="utf-8") as f:
        for rel, text, hs in progs:
            for k in range(nseq):
                clock = [0]
                evs = [_event(rnd.choice(hs) if rnd.random() < 0.8 else rnd.choice(ALL_EVENTS), rnd, clock)
                       for _ in range(length)]
                cid = "%s#%d" % (rel, k)
                src[cid] = text
                f.write(json.dumps({"id": cid, "src": text, "inputs": ["5", "hello"], "events": evs}) + "\n")
    cases_path = os.path.join(tmp, "examples.ndjson")
    skipped_path = os.path.join(tmp, "skipped.ndjson")
    r = common.harness_cmd(["export-ast", "-in", inp, "-out", cases_path, "-skipped", skipped_path])
    if r.returncode != 0:
        raise HarnessError("export-ast failed: " + r.stderr[-2000:])
    nskip = sum(1 for l in open(skipped_path, encoding="utf-8") if l.strip())
    res = common.run_tlc("DocExamples", "DocExamples.cfg", extra_files=[(cases_path, "examples.ndjson")], timeout=3000,
                         defines={"MAXSTEPS": str(cap)}, name="samples")
    chk.add_tlc(res, "DocExamples(samples with handlers)")
    if res.violation:
        raise HarnessError("DocExamples(samples): " + res.violation)
    cases = []
    delivered = 0
    for n, c in enumerate(res.cases):
        if c["soundOnly"]:
            continue
        x = {k: v for k, v in c.items() if k not in ("srcs", "tag")}
        x.update(id="sample-%d" % n, stage="run", src=[src[c["class"]]], layout="sample", **{"class": "sample/" + c["class"]})
        delivered += len(c["events"])
        cases.append(x)
    chk.extra["sample_programs_with_handlers"] = {
        "programs": len(progs), "event_sequences": len(src), "numbers_outside_the_exact_model": nskip,
        "left_the_model (rand, hsl, font, sqrt ...)": sum(1 for c in res.cases if c["soundOnly"]),
        "replayed": len(cases), "events_delivered_in_replayed_cases": delivered}
    return cases
