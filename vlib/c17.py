"""C17 - emitted bytecode is well formed and the VM cannot be crashed.

Deciding engines: spec/Symtab.tla (symbol table, direction A: every history of
push/pop/define/resolve replayed on the exported SymbolTable API and, rendered
as an Evy program, on the real compiler) and spec/VMStack.tla (a bytecode
verifier as a TLA+ state machine, direction B: the code the real compiler
emits is the data TLC walks; the (ip, sp) trace of the real VM must be a path
of the state graph TLC computed)."""
import concurrent.futures as cf
import glob
import json
import os
import re
import subprocess
import time

from . import c17gen, common
from .common import HarnessError

SPEC_OPS = None

TIERS = {
    #            symtab hist len, symtab invariant len, random programs, TLC bound (bytes of code), VM step limit
    "quick":    dict(symscaled=[3, 300], symlen=6, syminv=8, nrandom=1200, maxtlc=2500, limit=6000, scaled_max=7000, batch=45000),
    "thorough": dict(symscaled=[3, 300, 70000], symlen=7, syminv=12, nrandom=10000, maxtlc=30000, limit=30000, scaled_max=10 ** 9, batch=60000),
}

JAVA = ["-XX:ParallelGCThreads=2", "-XX:CICompilerCount=2"]

# hand-written codes the verifier must reject (or accept) for the named reason:
# (name, bytes, nconst, globals, locals, expected verdict)
CONTROLS = [
    ("ctl-ok-empty", [], 0, 0, 0, "ok"),
    ("ctl-ok-branch", [11, 35, 0, 8, 11, 3, 0, 1], 0, 0, 0, "ok"),
    ("ctl-ok-locals", [11, 5, 0, 1, 4, 0, 0, 2, 0, 0], 0, 1, 2, "ok"),
    ("ctl-underflow", [35, 0, 3], 0, 0, 0, "underflow@0:OpJumpOnFalse"),
    ("ctl-underflow-locals", [5, 0, 0], 0, 0, 1, "underflow@0:OpSetLocal"),
    ("ctl-const-range", [0, 0, 5, 3, 0, 1], 1, 0, 0, "constant-range@0:OpConstant"),
    ("ctl-global-range", [1, 0, 3, 3, 0, 1], 0, 1, 0, "global-range@0:OpGetGlobal"),
    ("ctl-setglobal-range", [11, 2, 0, 1], 0, 1, 0, "global-range@1:OpSetGlobal"),
    ("ctl-local-range", [4, 0, 0, 3, 0, 1], 0, 0, 0, "local-range@0:OpGetLocal"),
    ("ctl-setlocal-range", [11, 5, 0, 2], 0, 0, 2, "local-range@1:OpSetLocal"),
    ("ctl-jump-mid-operand", [11, 35, 0, 2], 0, 0, 0, "jump-off-boundary@1:OpJumpOnFalse"),
    ("ctl-jump-beyond", [34, 39, 15], 0, 0, 0, "jump-off-boundary@0:OpJump"),
    ("ctl-jump-to-end", [34, 0, 3], 0, 0, 0, "ok"),
    ("ctl-unknown-opcode", [11, 200], 0, 0, 0, "unknown-opcode@1"),
    ("ctl-truncated", [11, 0, 0], 1, 0, 0, "truncated@1"),
    ("ctl-end-height", [11], 0, 0, 0, "end-height@1:end"),
    ("ctl-loop-leak", [11, 34, 0, 0], 0, 0, 0, "height-conflict@1:OpJump"),
    ("ctl-branch-imbalance", [11, 35, 0, 5, 11, 11, 3, 0, 1], 0, 0, 0, "height-conflict@4:OpTrue"),
    ("ctl-range-untested", [11, 11, 11, 36, 0, 1, 13, 3, 0, 4], 0, 0, 0, "range-result-untested@6:OpNot"),
    ("ctl-range-untested-end", [11, 11, 37, 0, 1], 0, 0, 0, "range-result-untested@5:end"),
    ("ctl-ok-steprange", [11, 11, 11, 36, 0, 1, 35, 0, 15, 2, 0, 0, 34, 0, 3, 3, 0, 3], 0, 1, 0, "ok"),
    ("ctl-ok-iterrange-novar", [11, 11, 37, 0, 0, 35, 0, 11, 34, 0, 2, 3, 0, 2], 0, 0, 0, "ok"),
    ("ctl-array-underflow", [11, 26, 0, 2, 3, 0, 1], 0, 0, 0, "underflow@1:OpArray"),
    ("ctl-map-underflow", [11, 11, 11, 29, 0, 2, 3, 0, 1], 0, 0, 0, "underflow@3:OpMap"),
    ("ctl-drop-underflow", [11, 3, 0, 2], 0, 0, 0, "underflow@1:OpDrop"),
]


def _par(jobs, nthreads):
    """Run callables concurrently, return their results in order."""
    with cf.ThreadPoolExecutor(max_workers=nthreads) as ex:
        futs = [ex.submit(j) for j in jobs]
        return [f.result() for f in futs]


# ---------------------------------------------------------------------------
# Symtab

def symtab_invariants(chk, cfg):
    res = common.run_tlc("Symtab", "Symtab.cfg", defines={"MAXOPS": cfg["syminv"], "HIST": "FALSE"},
                         workers=4, timeout=900, name="Symtab-inv", java_opts=JAVA)
    return res


def symtab_cases(chk, cfg):
    parts = [0] if cfg["symlen"] <= 6 else [1, 2, 3, 4]

    def job(part):
        return lambda: common.run_tlc("Symtab", "SymtabHist.cfg", defines={"MAXOPS": cfg["symlen"], "PART": part},
                                      workers=4, timeout=1500, name="Symtab-hist%d" % part, java_opts=JAVA)
    rs = _par([job(p) for p in parts], 2)
    res = rs[0]
    for r in rs[1:]:
        res.cases += r.cases
        res.distinct += r.distinct
        res.generated += r.generated
        res.wall = max(res.wall, r.wall)
    if not res.cases:
        raise HarnessError("Symtab.tla produced no histories")
    return res


# histories are kept in the compact form Symtab.tla prints:
# [op, name, found, scope, index], op 1 push 2 pop 3 define 4 resolve, scope 1 GLOBAL 2 LOCAL
def sym_class(c):
    depth = 0
    maxd = 0
    for o in c["ops"]:
        if o[0] == 1:
            depth += 1
            maxd = max(maxd, depth)
        elif o[0] == 2 and depth > 0:
            depth -= 1
    nloc = sum(1 for o in c["ops"] if o[0] == 3 and o[3] == 2)
    return "depth=%d/localdefs=%d" % (maxd, nloc)


def sym_show(c):
    names = " abcdefgh"
    out = []
    for o in c["ops"]:
        t = ["", "push", "pop", "define", "resolve"][o[0]]
        if o[0] >= 3:
            t += " " + names[o[1]] + (" -> %s %d" % (["", "GLOBAL", "LOCAL"][o[3]], o[4]) if o[2] else " -> not found")
        out.append(t)
    return out


SYMBATCH = 200


def scaled_histories(cfg):
    """One scope with n distinct variables (n beyond the 16-bit slot operand in
    the thorough tier).  Expected slots by the rule of Symtab.tla's Define
    (k-th fresh name of a scope gets index k-1): TLC cannot enumerate a
    70000-step history, the rule is extrapolated."""
    out = []
    for n in cfg["symscaled"]:
        for local in (False, True):
            ops = ([[1, 0, 0, 0, 0]] if local else []) + [[3, k, 1, 2 if local else 1, k - 1] for k in range(1, n + 1)]
            out.append(({"ops": ops, "globals": 0 if local else n, "maxlocal": n - 1 if local else -1},
                        "scaled/%s=%d" % ("locals" if local else "globals", n)))
    return out


def symtab_work(chk, cfg):
    """TLC + replay (no access to chk: runs in a helper thread).  Returns the
    TLC result and one (case, stage, ok, diff, status) per history and stage."""
    res = symtab_cases(chk, cfg)
    t0 = time.time()
    hs = res.cases
    batches = [{"id": "symb-%d" % i, "stage": "c17symbatch", "items": hs[i:i + SYMBATCH]}
               for i in range(0, len(hs), SYMBATCH)]
    results = common.replay(batches, deadline="120s", name="c17sym")
    out = []
    for b in batches:
        r = results[b["id"]]
        if r["ok"] and len(r["obs"]["results"]) == len(b["items"]):
            for h, x in zip(b["items"], r["obs"]["results"]):
                out.append((h, "c17sym", x["sym_ok"], x["sym_diff"], "compiled"))
                out.append((h, "c17render", x["ren_ok"], x["ren_diff"], x["ren_status"]))
            continue
        if (r.get("diff") or "").startswith("harness:"):
            raise HarnessError("c17symbatch: " + r["diff"])
        # a crash inside the batch: attribute it by replaying the items one by one
        singles = []
        for j, h in enumerate(b["items"]):
            singles.append(dict(h, id="%s-%d-s" % (b["id"], j), stage="c17sym"))
            singles.append(dict(h, id="%s-%d-r" % (b["id"], j), stage="c17render"))
        rs = common.replay(singles, deadline="20s", name="c17sym1")
        for c in singles:
            x = rs[c["id"]]
            h = {k: v for k, v in c.items() if k not in ("id", "stage")}
            out.append((h, c["stage"], x["ok"], x.get("diff", ""), (x.get("obs") or {}).get("status", "compiled")))
    # size-scaled scopes
    sc = scaled_histories(cfg)
    singles = []
    for j, (h, cls) in enumerate(sc):
        singles.append(dict(h, id="symscaled-%d-s" % j, stage="c17sym"))
        singles.append(dict(h, id="symscaled-%d-r" % j, stage="c17render"))
    rs = common.replay(singles, deadline="240s", name="c17symscaled")
    for j, (h, cls) in enumerate(sc):
        small = {"ops": h["ops"] if len(h["ops"]) < 100 else [], "regen": cls, "globals": h["globals"], "maxlocal": h["maxlocal"],
                 "class_override": cls}
        for suffix, stage in (("s", "c17sym"), ("r", "c17render")):
            x = rs["symscaled-%d-%s" % (j, suffix)]
            out.append((small, stage, x["ok"], ("crash: " if x.get("crash") or x.get("timeout") else "") + (x.get("diff") or ""),
                        (x.get("obs") or {}).get("status", "compiled")))
    common.log("C17: Symtab TLC %.1fs, %d histories replayed (API + rendered) in %.1fs" % (res.wall, len(hs), time.time() - t0))
    return res, out


def symtab_account(chk, res, out):
    nren = 0
    for h, stage, ok, diff, status in out:
        if (diff or "").startswith("harness:"):
            raise HarnessError(stage + ": " + diff)
        if stage == "c17render":
            if ok and status != "compiled":
                continue        # not an Evy program (pop of the global scope) or rejected by the parser
            nren += 1
        chk.evaluations += 1
        chk.traces += 1
        if any(o[3] == 2 for o in h["ops"]):
            chk.nontrivial.add(hash(stage + ":" + json.dumps(h["ops"])))
        if not ok:
            cls = ("render/" if stage == "c17render" else "symtab/") + (h.get("class_override") or sym_class(h))
            chk.mismatch(cls, diff, {"case": dict(h, id="sym-replay", stage=stage, **{"class": cls}), "history": sym_show(h)})
    mid = res.cases[len(res.cases) // 2]
    chk.sample({"symtab_history": sym_show(mid), "expect_globals": mid["globals"], "expect_maxlocal": mid["maxlocal"]})
    chk.extra["symtab_histories"] = len(res.cases)
    chk.extra["symtab_histories_rendered_as_programs"] = nren
    if nren == 0:
        raise HarnessError("no Symtab history could be rendered as an Evy program")


# ---------------------------------------------------------------------------
# corpus

def repo_programs():
    out = []
    r = subprocess.run(["find", common.REPO, "-name", "*.evy", "-not", "-path", "*/node_modules/*"],
                       capture_output=True, text=True)
    for p in sorted(r.stdout.split()):
        try:
            src = open(p, encoding="utf-8").read()
        except Exception:
            continue
        out.append(("repo:" + os.path.relpath(p, common.REPO), src))
    return out


def corpus(cfg, tier):
    progs = []          # (id, src, origin, sizefeat)
    for k, v in c17gen.FIXED.items():
        progs.append(("fixed:" + k, v, "fixed", {}))
    for k, v in c17gen.random_programs(common.seed(), cfg["nrandom"]):
        progs.append(("gen:%d:%s" % (common.seed(), k), v, "gen", {}))
    for k, v, f in c17gen.scaled(tier):
        if max(f.values()) <= cfg["scaled_max"] or k in ("array-elems-70000",):
            progs.append(("scaled:" + k, v, "scaled", f))
    for k, v in repo_programs():
        progs.append((k, v, "repo", {}))
    return progs


def prog_class(origin, obs, sizefeat):
    dropped = ",".join(obs.get("dropped") or [])
    big = []
    if obs.get("len", 0) > 65535:
        big.append("code>65535")
        if obs.get("njump", 0) > 0:
            big.append("jumps")
    if obs.get("nconst", 0) > 65536:
        big.append("const>65535")
    if obs.get("globals", 0) > 65536:
        big.append("globals>65535")
    if obs.get("locals", 0) > 65536:
        big.append("locals>65535")
    if sizefeat.get("elems", 0) > 65535:
        big.append("elems>65535")
    return "prog/%s;dropped=%s;big=%s" % (origin, dropped, ",".join(big))


# ---------------------------------------------------------------------------
# VMStack

def tlc_batch(label, lines):
    data = ("\n".join(lines) + "\n").encode()
    res = common.run_tlc("VMStack", "VMStack.cfg", extra_files=[(data, "c17progs.ndjson")],
                         workers=4, timeout=1500, name="VMStack-" + label, java_opts=JAVA)
    verdicts = {}
    allow = {}
    for c in res.cases:
        if c["k"] == "v":
            verdicts[c["p"]] = c
        else:
            allow.setdefault(c["p"], {})[str(c["ip"])] = c["al"]
    if len(verdicts) != len(lines):
        raise HarnessError("VMStack gave %d verdicts for %d programs (%s)" % (len(verdicts), len(lines), label))
    return res, verdicts, allow


def make_batches(items, budget):
    """items: (key, ninstr, line); batches of at most `budget` instructions."""
    batches, cur, tot = [], [], 0
    for it in sorted(items, key=lambda x: x[1]):
        if cur and (tot + it[1] + 2 > budget or len(cur) >= 600):
            batches.append(cur)
            cur, tot = [], 0
        cur.append(it)
        tot += it[1] + 2
    if cur:
        batches.append(cur)
    return batches


def controls():
    cases = [{"id": n, "stage": "c17decode", "bytes": b} for n, b, *_ in CONTROLS]
    res = common.replay(cases, name="c17ctl")
    items = []
    for n, b, nconst, g, l, want in CONTROLS:
        o = res[n]["obs"]
        line = json.dumps({"id": n, "bytes": b, "instrs": o["instrs"], "ipx": o["ipx"], "nconst": nconst,
                           "globals": g, "locals": l})
        items.append((n, len(o["instrs"]), line))
    return items


def programs_part(chk, cfg, tier):
    progs = corpus(cfg, tier)
    byid = {p[0]: p for p in progs}
    cases = [{"id": pid, "stage": "c17compile", "src": src, "maxtlc": cfg["maxtlc"], "limit": cfg["limit"]}
             for pid, src, _, _ in sorted(progs, key=lambda p: -len(p[1]))]      # the huge ones first
    t0 = time.time()
    comp = common.replay(cases, deadline="240s", name="c17compile")
    common.log("C17: %d sources compiled in %.1fs" % (len(cases), time.time() - t0))
    stats = {"sources": len(progs), "parse_error": 0, "compile_error": 0, "compiled": 0, "tlc": 0, "fallback": 0}
    tlc_items = {}     # codesum -> (ninstr, line)
    users = {}         # codesum -> [pid]
    sums = {}
    fallback = []
    for pid, src, origin, sf in progs:
        r = comp[pid]
        obs = r.get("obs") or {}
        if r.get("crash") or r.get("timeout") or not r["ok"]:
            if (r.get("diff") or "").startswith("harness:"):
                raise HarnessError("c17compile: " + r["diff"])
            if r.get("timeout"):
                # 240 s without an answer for one source: an overloaded machine, not a verdict
                raise HarnessError("c17compile: no result for %s within the deadline" % pid)
            chk.evaluations += 1
            chk.mismatch("prog/%s;crash-in-parse-or-compile" % origin,
                         "compiler crash: " + (r.get("diff") or "")[:1500], {"case": {"id": pid, "src": src[:20000], "stage": "c17compile"}, "result": r})
            continue
        st = obs.get("status")
        if st == "parse-error":
            stats["parse_error"] += 1
            continue
        if st == "compile-error":
            stats["compile_error"] += 1
            continue
        stats["compiled"] += 1
        if obs.get("opendepth", 0) != 0:
            chk.mismatch(prog_class(origin, obs, sf), "Compile returned nil with %d scope(s) still open" % obs["opendepth"],
                         {"case": {"id": pid, "src": src[:20000]}})
        if obs.get("fallback"):
            stats["fallback"] += 1
            fallback.append(pid)
            continue
        stats["tlc"] += 1
        key = json.dumps([obs["bytes"], obs["nconst"], obs["globals"], obs["locals"]])
        sums[pid] = key
        users.setdefault(key, []).append(pid)
        if key not in tlc_items:
            line = json.dumps({"id": pid, "bytes": obs["bytes"], "instrs": obs["instrs"], "ipx": obs["ipx"],
                               "nconst": obs["nconst"], "globals": obs["globals"], "locals": obs["locals"]})
            tlc_items[key] = (key, obs["ninstr"], line)
    if stats["compiled"] < 50:
        raise HarnessError("only %d programs compiled - corpus or harness broken" % stats["compiled"])

    # --- TLC on every distinct code (plus the negative controls in the first batch)
    ctl = controls()
    batches = make_batches(list(tlc_items.values()), cfg["batch"])
    batches[0] = [("ctl:" + n, k, line) for n, k, line in ctl] + batches[0]

    def job(i, b):
        return lambda: tlc_batch(str(i), [x[2] for x in b])
    t0 = time.time()
    outs = _par([job(i, b) for i, b in enumerate(batches)], 4)
    common.log("C17: %d TLC batches (%d distinct codes) in %.1fs" % (len(batches), len(tlc_items), time.time() - t0))
    verdict_of, allow_of = {}, {}
    for b, (res, verdicts, allow) in zip(batches, outs):
        chk.add_tlc(res, "VMStack batch of %d codes" % len(b))
        for i, it in enumerate(b):
            verdict_of[it[0]] = verdicts[i + 1]["verdict"]
            allow_of[it[0]] = allow.get(i + 1, {})
    for n, b, nconst, g, l, want in CONTROLS:
        got = verdict_of["ctl:" + n]
        if got != want:
            raise HarnessError("VMStack.tla control %s: verdict %r, expected %r" % (n, got, want))
    chk.extra["vmstack_negative_controls"] = len(CONTROLS)

    # --- verdicts + VM runs
    run_cases = []
    accepted = 0
    for pid in sums:
        _, src, origin, sf = byid[pid]
        obs = comp[pid]["obs"]
        key = sums[pid]
        v = verdict_of[key]
        cls = prog_class(origin, obs, sf)
        chk.evaluations += 1
        if obs["njump"] > 0 or obs["nlocalops"] > 0:
            chk.nontrivial.add(key)
        if v == "ok":
            accepted += 1
            chk.traces += 1
        else:
            chk.mismatch(cls, "VMStack rejects the emitted code: %s (code length %d, %d constants, GlobalCount %d, LocalCount %d)"
                         % (v, obs["len"], obs["nconst"], obs["globals"], obs["locals"]),
                         {"case": {"id": pid, "stage": "c17compile", "src": src, "maxtlc": cfg["maxtlc"], "class": cls},
                          "verdict": v})
        run_cases.append({"id": pid, "stage": "c17run", "src": src, "limit": cfg["limit"], "verdict": v,
                          "allow": allow_of[key], "class": cls})
    t0 = time.time()
    runres = common.replay(run_cases, deadline="60s", name="c17run")
    common.log("C17: %d VM runs checked in %.1fs" % (len(run_cases), time.time() - t0))
    ran = {"ran_ok": 0, "run_err": 0, "cut": 0, "panic": 0, "steps": 0}
    for c in run_cases:
        r = runres[c["id"]]
        d = r.get("diff") or ""
        if d.startswith("harness:"):
            raise HarnessError("c17run: " + d)
        obs = r.get("obs") or {}
        if obs and not obs.get("fallback_agrees", True):
            raise HarnessError("the Go transcription of VMStack disagrees with TLC on %s: TLC %s, Go %s"
                               % (c["id"], c["verdict"], obs.get("fallback_verdict")))
        ran["steps"] += obs.get("steps", 0)
        ran["ran_ok"] += 1 if obs.get("ran_ok") else 0
        ran["run_err"] += 1 if obs.get("run_err") else 0
        ran["cut"] += 1 if obs.get("cut") else 0
        ran["panic"] += 1 if obs.get("run_panic") else 0
        if c["verdict"] == "ok" and not obs.get("run_panic"):
            chk.traces += 1
        if r.get("timeout"):
            # no result within the deadline: an endless or exploding loop of the program that the
            # guards did not cut (not a crash of the host); counted, not a verdict
            ran["timeouts"] = ran.get("timeouts", 0) + 1
            continue
        if not r["ok"]:
            if r.get("crash"):
                d = "vm-crash: " + d
            small = {k: v for k, v in c.items() if k != "allow"}
            chk.mismatch(c["class"], d, {"case": dict(small, allow=c["allow"] if len(c["allow"]) < 400 else {}), "result": r})

    # --- fallback programs (code beyond the TLC bound): walked and run inside c17compile
    for pid in fallback:
        _, src, origin, sf = byid[pid]
        obs = comp[pid]["obs"]
        cls = prog_class(origin, obs, sf)
        chk.evaluations += 1
        if obs["njump"] > 0 or obs["nlocalops"] > 0:
            chk.nontrivial.add(pid)
        rd = {"case": {"id": pid, "stage": "c17compile", "src": src if len(src) < 30000 else "", "regen": pid, "maxtlc": 0,
                       "limit": cfg["limit"], "class": cls}, "obs": {k: v for k, v in obs.items() if k not in ("kinds",)}}
        if obs["verdict"] != "ok":
            chk.mismatch(cls, "VMStack rejects the emitted code: %s (Go transcription, code too long for TLC; code length %d, "
                              "%d constants, GlobalCount %d, LocalCount %d)"
                         % (obs["verdict"], obs["len"], obs["nconst"], obs["globals"], obs["locals"]), rd)
        else:
            accepted += 1
            chk.traces += 1
        if obs.get("run_panic"):
            chk.mismatch(cls, "vm-panic: " + obs["run_panic"], rd)
        elif obs.get("trace_diff"):
            chk.mismatch(cls, "trace: " + obs["trace_diff"], rd)
        elif obs["verdict"] == "ok":
            chk.traces += 1
        ran["steps"] += obs.get("steps", 0)
        ran["ran_ok"] += 1 if obs.get("ran_ok") else 0
        ran["run_err"] += 1 if obs.get("run_err") else 0
        ran["cut"] += 1 if obs.get("cut") else 0
        ran["panic"] += 1 if obs.get("run_panic") else 0

    stats["distinct_codes_checked_by_tlc"] = len(tlc_items)
    stats["accepted_by_vmstack"] = accepted
    chk.extra["program_counts"] = stats
    chk.extra["vm_runs"] = ran
    # samples
    for pid in list(sums)[:1] + [p for p in sums if p.startswith("gen:")][:1] + fallback[:1]:
        _, src, origin, sf = byid[pid]
        o = comp[pid]["obs"]
        chk.sample({"program": pid, "source": src if len(src) < 600 else src[:600] + "...", "code_length": o["len"],
                    "LocalCount": o["locals"], "verdict": verdict_of.get(sums.get(pid), o.get("verdict")),
                    "engine": "Go transcription (fallback)" if o.get("fallback") else "TLC"})
    return stats


# ---------------------------------------------------------------------------

def run(chk):
    tier = chk.tier if chk.tier in TIERS else "quick"
    cfg = dict(TIERS[tier])
    for k in list(cfg):                      # development overrides, e.g. C17_NRANDOM=100
        if os.environ.get("C17_" + k.upper()) and isinstance(cfg[k], int):
            cfg[k] = int(os.environ["C17_" + k.upper()])
    common.build_harness()
    t0 = time.time()
    with cf.ThreadPoolExecutor(max_workers=2) as ex:
        f_inv = ex.submit(symtab_invariants, chk, cfg)
        f_hist = ex.submit(symtab_work, chk, cfg)
        programs_part(chk, cfg, tier)
        inv = f_inv.result()
        hist, sout = f_hist.result()
        chk.add_tlc(inv, "Symtab invariants, all histories of <= %d operations (state based)" % cfg["syminv"])
        chk.add_tlc(hist, "Symtab histories of %d operations with results" % cfg["symlen"])
        symtab_account(chk, hist, sout)
    chk.rule = ("Symtab: every history of %d push/pop/define/resolve operations over 3 names (names introduced in order), each "
                "replayed on the SymbolTable API and, where it is an Evy program, through the real compiler; VMStack: every "
                "source of the corpus (fixed list of all statement/expression forms, seeded random programs nested to depth 3, "
                "size-scaled variants, every .evy file of the repository) that the compiler accepts: emitted code walked on "
                "ALL paths by TLC (Go transcription only for code longer than %d bytes), VM step trace checked against the "
                "state graph; non-trivial = distinct code with >= 1 jump or >= 1 local-variable access, or a history with a LOCAL symbol"
                % (cfg["symlen"], cfg["maxtlc"]))
    # complete for the Symtab histories and for the control-flow paths of each program; the
    # program corpus itself is a (fixed + seeded) sample of an infinite space
    chk.exhaustive = False
    chk.extra["explanation"] = ("exhaustive parts: every Symtab history up to the bound (TLC), every control-flow path of every "
                                "emitted program (TLC work-list until the seen-map saturates); sampled part: the program corpus")
    chk.assumptions += [
        "Symtab.tla is written from the doc comments of pkg/bytecode/symbol.go; exact slot numbers are documented there "
        "(index inherited from the outer scope, 0 below the global scope); LocalCount is only required to be >= 1 + the "
        "highest local slot (over-allocation is not a violation)",
        "VMStack.tla: stack effects per opcode from the opcode documentation in code.go and the comments in vm.go; a jump "
        "to the code length is the end of the program; OpStepRange/OpIterRange with a loop variable leave one more value "
        "when they push true (state R), consumed only by OpJumpOnFalse",
        "code longer than %d bytes is walked by the Go transcription of VMStack.tla (harness/c17.go), which is compared "
        "with TLC on every program TLC handles (verdict and successor relation must be identical)" % cfg["maxtlc"],
        "VM runs are cut after %d steps; a run-time error value (ErrPanic: stack overflow, index out of range, "
        "division by zero) ends a trace and is not a crash; a Go panic is" % cfg["limit"],
        "wrong-but-in-range operands (constant index or global slot truncated to 16 bits) are invisible to VMStack; "
        "they belong to C16 (same result as the evaluator)",
    ]
    chk.notes.append("wall %.0fs" % (time.time() - t0))


def replay_one(data):
    """--replay: re-run one recorded violation against the current tree."""
    common.build_harness()
    d = data["data"]
    case = dict(d["case"])
    if case.get("regen"):
        # huge size-scaled source: regenerate
        name = case["regen"].split(":", 1)[1]
        for k, v, f in c17gen.scaled("thorough"):
            if k == name:
                case["src"] = v
    if case.get("class_override"):
        for h, cls in scaled_histories({"symscaled": [3, 300, 70000]}):
            if cls == case["class_override"]:
                case["ops"] = h["ops"]
    stage = case.get("stage")
    bad = False
    if stage in ("c17sym", "c17render", "c17run"):
        if stage == "c17run" and not case.get("allow"):
            stage = case["stage"] = "c17compile"
            case["maxtlc"] = 2500
        else:
            res = common.replay([case], deadline="120s")[case["id"]]
            print(json.dumps(res, indent=1)[:3000])
            bad = not res["ok"]
    if stage == "c17compile":
        res = common.replay([dict(case, maxtlc=case.get("maxtlc", 2500))], deadline="240s")[case["id"]]
        obs = res.get("obs") or {}
        if not res["ok"]:
            bad = True
            print(res.get("diff"))
        elif obs.get("status") != "compiled":
            print("compiler now rejects the program:", obs.get("err"))
        elif obs.get("fallback"):
            print(json.dumps({k: obs.get(k) for k in ("verdict", "run_panic", "trace_diff", "run_err", "len", "locals")}))
            bad = obs["verdict"] != "ok" or bool(obs.get("run_panic")) or bool(obs.get("trace_diff"))
        else:
            line = json.dumps({"id": case["id"], "bytes": obs["bytes"], "instrs": obs["instrs"], "ipx": obs["ipx"],
                               "nconst": obs["nconst"], "globals": obs["globals"], "locals": obs["locals"]})
            _, verdicts, allow = tlc_batch("replay", [line])
            v = verdicts[1]["verdict"]
            print("VMStack verdict:", v)
            rr = common.replay([{"id": case["id"], "stage": "c17run", "src": case["src"], "verdict": v,
                                 "allow": allow.get(1, {}), "limit": case.get("limit", 6000)}])[case["id"]]
            print(json.dumps({k: v for k, v in rr.items() if k != "obs"}, indent=1)[:2000])
            bad = v != "ok" or not rr["ok"]
    if bad:
        print("VIOLATION property=%s replay=%s" % (data["property"], "(replayed)"))
        return 1
    print("not reproduced on the current tree")
    return 0
