"""C13 - built-in functions do what their documentation says."""
from . import docex, machine

replay_one = machine.replay_one


def run(chk):
    lys = ("canon",)
    res = machine.tlc_family(chk, "FamBuiltin", chk.tier, layouts=lys)
    cases = machine.expand(res.cases, "bi", layouts=lys)
    # behaviours the documentation leaves open (an argument at the edge of a domain, a number outside the exact
    # model): "never a host crash or a hang" is still claimed for them
    sound = machine.expand(res.cases, "bis", layouts=lys, sound_only=True)
    chk.extra["never_goes_wrong_only_cases"] = len(sound)
    for c in cases:
        # the specification predicts the documented panic for a verb whose argument has the wrong type
        if c["class"].startswith("fmt") and "panic:badargs" in c["expect"]["result"] and len(c["expect"]["result"]) == 3:
            c["class"] = "fmt-verb-mismatch"
    chk.rule = ("every non-graphics built-in of docs/builtins.md on argument tuples from value classes (empty, non-ASCII, "
                "negative, fractional, nan, infinities, nested composites, any-wrapped), conversion sequences observing "
                "err/errmsg after each call, printf/sprintf verbs, rand as a range monitor, exit/panic/test outcomes with "
                "--fail-fast and --no-test-summary; every example of docs/builtins.md and docs/spec.md that shows its output, "
                "parsed by the real parser, run by the machine and by evy run; non-trivial = distinct (program, flags)")
    chk.exhaustive = True
    # the documented examples: documentation, machine and implementation compared pairwise
    cases += docex.run(chk)
    machine.replay_family(chk, cases + sound)
    chk.assumptions += [
        "transcendental functions only at exactly representable points; upper/lower on ASCII only (no Unicode case tables in the model)",
        "printf: %v %s %q %t %f %% with the - and 0 prefixes, widths up to two digits and one-digit precision; %e, zero padding of negative numbers, precision on %q/%t and on %v of a number, width on composites are left open (unspec) because builtins.md does not settle them",
    ]
