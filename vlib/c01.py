"""C01 - expressions evaluate as the language definition prescribes."""
from . import machine

replay_one = machine.replay_one


def run(chk):
    res = machine.tlc_family(chk, "FamExpr", chk.tier)
    cases = machine.expand(res.cases, "expr")
    chk.rule = ("every expression tree of family FamExpr (precedence lattice over tracer calls; operator x operand "
                "table; literals, calls, index, slice with tracers), each rendered by the specification in three "
                "whitespace layouts; non-trivial = distinct source text with at least one operator or literal element")
    chk.exhaustive = True
    machine.replay_family(chk, cases)
    chk.assumptions += [
        "numbers: exact dyadic rationals with |m| < 2^14, e <= 8 (TLC has 32-bit integers); behaviours whose "
        "result is not exactly representable, is a negative zero, inf or nan that gets printed, or % with a "
        "negative operand are dropped as unspecified",
        "oracle = EvyMachine.tla / EvySyntax.tla written from docs/spec.md and docs/builtins.md",
    ]
