"""Direction A for families built on EvyMachine.tla: TLC enumerates the
behaviours of the abstract machine on every program of a family, each terminal
state prints one case, the cases are replayed on the real evaluator."""
import json

from . import common
from .common import HarnessError

LAYOUTS = ("canon", "tight", "wide")


def tlc_family(chk, module, tier, *, cfg=None, simulate=None, depth=None, timeout=900,
               defines=None, label=None, workers=None, layouts=LAYOUTS):
    d = {"TIER": tier, "LYS": "{" + ", ".join('"%s"' % l for l in layouts) + "}"}
    d.update(defines or {})
    res = common.run_tlc(module, cfg or (module + ".cfg"), defines=d, simulate=simulate,
                         depth=depth, timeout=timeout, workers=workers)
    chk.add_tlc(res, label or module)
    if res.outdeg_max is not None and res.outdeg_max > 1 and d.get("STOPMODE", "none") == "none":
        raise HarnessError("machine is not deterministic in %s (max out-degree %s)" % (module, res.outdeg_max))
    if not res.cases:
        raise HarnessError("TLC produced no cases for " + module)
    return res


def expand(raw_cases, prefix, layouts=LAYOUTS, stage="run", sound_only=False):
    """One replay case per (behaviour, layout). Behaviours the specification marks
    soundOnly (unspecified by the documentation) are used by C02 only."""
    out = []
    seen = set()
    for n, c in enumerate(raw_cases):
        if bool(c.get("soundOnly")) != sound_only:
            continue
        key = json.dumps(c, sort_keys=True)
        if key in seen:
            continue
        seen.add(key)
        for ly in layouts:
            if ly not in c["srcs"]:
                continue
            x = {k: v for k, v in c.items() if k != "srcs"}
            x["id"] = "%s-%d-%s" % (prefix, n, ly)
            x["stage"] = stage
            x["src"] = c["srcs"][ly]
            x["layout"] = ly
            x["class"] = (c.get("class") or "") + "/" + ly
            out.append(x)
    return out


def text_of(pieces):
    s = []
    for p in pieces:
        if isinstance(p, str):
            s.append(p)
        elif isinstance(p, dict) and "cp" in p:
            s.append("".join(chr(c) for c in p["cp"]))
    return "".join(s)


def show(c):
    """Readable sample of a case for the evidence file."""
    def dec(v):
        if isinstance(v, dict):
            if "cp" in v:
                return "".join(chr(c) for c in v["cp"])
            if "m" in v and "e" in v:
                return v["m"] / (2 ** v["e"])
            return {k: dec(x) for k, x in v.items()}
        if isinstance(v, list):
            return [dec(x) for x in v]
        return v
    return {"source": text_of(c["src"]), "expect": dec(c["expect"]), "class": c.get("class")}


def replay_family(chk, cases, *, nontrivial=lambda c: True, deadline="10s"):
    results = common.replay(cases, deadline=deadline)
    for c in cases[:2] + cases[len(cases) // 2: len(cases) // 2 + 1]:
        chk.sample(show(c))
    chk.take_results(cases, results, nontrivial=nontrivial,
                     key=lambda c: text_of(c["src"]))
    return results


def replay_one(data):
    """--replay: re-run one recorded case against the current tree."""
    case = data["data"]["case"]
    res = common.replay([case])[case["id"]]
    print(json.dumps({"source": text_of(case["src"]), "result": res}, indent=1, ensure_ascii=False))
    if not res["ok"]:
        print("VIOLATION property=%s replay=%s" % (data["property"], "(replayed)"))
        return 1
    return 0
