"""Direction B for C10: scope and variable events of the real evaluator validated against ScopeStack.tla."""
import glob
import json
import os
import random
import shutil
import subprocess

from . import common, machine
from .common import HarnessError


def model_check(chk):
    """Bounded exploration of the component specification itself (invariants and the two laws)."""
    depth, calls = (1, 1) if chk.tier == "quick" else (2, 1)
    res = common.run_tlc("ScopeStackMC", "ScopeStackMC.cfg", defines={"MAXDEPTH": depth, "MAXCALLS": calls}, timeout=1500,
                         name="scopemc")
    if res.violation:
        raise HarnessError("ScopeStack.tla violates its own property: " + res.violation[:300])
    chk.add_tlc(res, "ScopeStackMC")


def _validate(chk, lines, label, budget=6):
    data = ("\n".join(lines) + "\n").encode()
    res = common.run_tlc("ScopeStackTrace", "ScopeStackTrace.cfg", workers=1, timeout=1500,
                         extra_files=[(data, "trace.ndjson")], allow_violation=True, name="scopetrace")
    chk.add_tlc(res, label)
    ntr = sum(1 for l in lines if '"Reset"' in l)
    if res.violation or res.depth != len(lines) + 1:
        j = max(res.depth - 1, 0)
        heads = [i for i in range(min(j, len(lines) - 1) + 1) if '"Reset"' in lines[i]]
        start = heads[-1] if heads else 0
        head = json.loads(lines[start])
        chk.mismatch("scopetrace/" + label,
                     "scope/variable trace of the real evaluator is not a behaviour of ScopeStack: program %s, event %d %s rejected (%s)"
                     % (head.get("s"), j - start, lines[j] if j < len(lines) else "<end>",
                        (res.violation or "no matching action").splitlines()[0][:200]),
                     {"program": head.get("s"), "context": lines[max(start, j - 12): j + 1]})
        # the traces before the rejected one were accepted; the ones after it are validated separately
        done = sum(1 for i in heads[:-1])
        rest = [i for i in range(j + 1, len(lines)) if '"Reset"' in lines[i]]
        if rest and budget > 0:
            return done + _validate(chk, lines[rest[0]:], label + "+", budget - 1)
        if rest:
            chk.notes.append("%s: %d traces after the 7th rejection were not examined" % (label, len(rest)))
        return done
    return ntr


def run(chk, family_cases, model=True, corpus=None):
    if model:
        model_check(chk)
    rnd = random.Random(common.seed())
    common.build_harness()
    d = common.scratch("scoperec")
    recs = []
    seen = set()
    for c in family_cases:
        src = c.get("src")
        if not src:
            continue
        text = machine.text_of(src)
        if text in seen:
            continue
        seen.add(text)
        recs.append({"id": "fam:" + c.get("class", ""), "src": text, "maxEvents": 4000, "rounds": 2})
    nfam = len(recs)
    if chk.tier == "quick" and nfam > 1500:
        recs = common.pick(recs, 1500)
        nfam = len(recs)
    files = sorted(glob.glob(os.path.join(common.REPO, "**", "*.evy"), recursive=True))
    files = [f for f in files if "/testdata/" not in f or "/err" not in f]
    rnd.shuffle(files)
    nfiles = 0
    for f in files[: corpus if corpus is not None else (80 if chk.tier == "quick" else len(files))]:
        try:
            text = open(f, encoding="utf-8").read()
        except Exception:
            continue
        recs.append({"id": os.path.relpath(f, common.REPO), "src": text, "maxEvents": 3000 if chk.tier == "quick" else 12000, "rounds": 3})
        nfiles += 1
    inp = os.path.join(d, "recs.ndjson")
    outp = os.path.join(d, "trace.ndjson")
    with open(inp, "w") as fh:
        for r in recs:
            fh.write(json.dumps(r) + "\n")
    r = subprocess.run([common.HARNESS, "record-scope", "-in", inp, "-out", outp], capture_output=True, text=True, timeout=1200)
    if r.returncode != 0:
        raise HarnessError("record-scope failed: " + r.stderr[-2000:])
    lines = [l for l in open(outp).read().splitlines() if l.strip()]
    chunks, cur = [], []
    for l in lines:
        if '"Reset"' in l and len(cur) > 60000:
            chunks.append(cur)
            cur = []
        cur.append(l)
    if cur:
        chunks.append(cur)
    ok = 0
    for i, ch in enumerate(chunks):
        ok += _validate(chk, ch, "ScopeStackTrace-%d" % i)
    chk.traces += ok
    chk.evaluations += ok
    kinds = {}
    for l in lines:
        k = l.split('"ev":"', 1)[1].split('"', 1)[0]
        kinds[k] = kinds.get(k, 0) + 1
    chk.extra["scope_traces"] = {"programs_of_the_family": nfam, "repository_programs": nfiles, "events_validated": len(lines),
                                 "events_by_kind": kinds, "traces_accepted": ok}
    chk.sample({"scope_trace_head": lines[:14]})
    shutil.rmtree(d, ignore_errors=True)
