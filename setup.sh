#!/bin/sh
# setup_cmd: build the harness from files on disk only and parse every specification.
set -e
cd "$(dirname "$0")"
export GOFLAGS=-mod=mod GOPROXY=off GOSUMDB=off GOTOOLCHAIN=local
mkdir -p out/bin evidence
python3 - <<'PY'
import sys
sys.path.insert(0, '.')
from vlib import common
common.build_harness()
common.build_evy()
print("harness and evy built")
PY
