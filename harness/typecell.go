package main

import (
	"encoding/json"
	"errors"
	"fmt"
	"strings"

	"evylang.dev/evy/pkg/evaluator"
	"evylang.dev/evy/pkg/parser"
)

func init() {
	stages["typecell"] = stageTypeCell
}

// stageTypeCell: the parser's verdict on a typing cell must be the
// specification's; accepted cells are run and what typeof prints compared.
func stageTypeCell(raw json.RawMessage) Result {
	var c struct {
		Src    any   `json:"src"`
		Accept bool  `json:"accept"`
		Out    []any `json:"out"`
		// Either: the documentation does not settle whether the cell is accepted; what is claimed is that the
		// parser gives a verdict (a program or located errors, no crash) and that an accepted cell runs
		Either bool `json:"either"`
	}
	if err := json.Unmarshal(raw, &c); err != nil {
		return Result{OK: false, Diff: "harness: " + err.Error()}
	}
	src := pieces(c.Src)
	obs := map[string]any{"src": src}
	_, err := parser.Parse(src, evaluator.BuiltinDecls())
	if err != nil {
		var perrs parser.Errors
		if !errors.As(err, &perrs) || len(perrs) == 0 {
			return Result{OK: false, Obs: obs, Diff: "parser returned an error that is not a non-empty parser.Errors: " + err.Error()}
		}
		obs["parseErr"] = firstLine(err.Error())
		if c.Either {
			return Result{OK: true, Obs: obs}
		}
		if c.Accept {
			return Result{OK: false, Obs: obs, Diff: "specification accepts this cell, parser rejects it: " + firstLine(err.Error())}
		}
		return Result{OK: true, Obs: obs}
	}
	if c.Either {
		o := execute(src, nil, nil, 0, false, false, 1)
		if strings.HasPrefix(o.Result, "internal") || strings.HasPrefix(o.Result, "unknown") {
			return Result{OK: false, Obs: obs, Diff: "accepted cell goes wrong when run: " + o.Result}
		}
		return Result{OK: true, Obs: obs}
	}
	if !c.Accept {
		return Result{OK: false, Obs: obs, Diff: "specification rejects this cell, parser accepts it"}
	}
	if len(c.Out) == 0 {
		return Result{OK: true, Obs: obs}
	}
	o := execute(src, nil, nil, 0, false, false, 1)
	var sb strings.Builder
	for _, e := range o.Effects {
		if len(e) == 2 && e[0] == "print" {
			sb.WriteString(e[1].(string))
		}
	}
	want := strings.Join(strs(c.Out), "")
	if strings.HasPrefix(o.Result, "panic:") {
		// a documented run-time panic (the cell reads an element of an empty container): typing is not at stake
		obs["result"] = o.Result
		return Result{OK: true, Obs: obs}
	}
	if o.Result != "ok" {
		return Result{OK: false, Obs: obs, Diff: "accepted cell does not run to completion: " + o.Result}
	}
	if sb.String() != want {
		return Result{OK: false, Obs: obs, Diff: fmt.Sprintf("typeof: spec %q, implementation %q", want, sb.String())}
	}
	return Result{OK: true, Obs: obs}
}
