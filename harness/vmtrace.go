package main

import (
	"bufio"
	"encoding/json"
	"errors"
	"flag"
	"fmt"
	"math"
	"os"
	"strconv"
	"strings"
	"time"

	"evylang.dev/evy/pkg/bytecode"
	"evylang.dev/evy/pkg/evaluator"
	"evylang.dev/evy/pkg/parser"
)

func init() {
	commands["record-vm"] = recordVM
}

type vmInstr struct {
	IP int    `json:"ip"`
	Op string `json:"op"`
	A  int    `json:"a"` // the operand, -1 when the instruction has none
}

type vmStep struct {
	IP  int   `json:"ip"`
	SP  int   `json:"sp"`
	Top []int `json:"top"` // kind letter, ':', print form - as code points
}

type vmProg struct {
	ID       string           `json:"id"`
	Src      string           `json:"src"`
	Code     []vmInstr        `json:"code"`
	Ipx      []int            `json:"ipx"` // ip -> index into code (0: not an instruction boundary); one entry more than the code is long
	CodeLen  int              `json:"codelen"`
	Consts   []map[string]any `json:"consts"`
	NGlobals int              `json:"nglobals"`
	NLocals  int              `json:"nlocals"`
	Trace    []vmStep         `json:"trace"`
	Cut      bool             `json:"cut"`
	Result   string           `json:"result"`
	Globals  [][]int          `json:"globals"`
}

// vmDyadic returns m, e with f = m / 2^e, |m| < 2^14, e <= 8 when f is such a number.
func vmDyadic(f float64) (int, int, bool) {
	if math.IsNaN(f) || math.IsInf(f, 0) {
		return 0, 0, false
	}
	for e := 0; e <= 8; e++ {
		x := f * math.Pow(2, float64(e))
		if x == math.Trunc(x) {
			if math.Abs(x) >= 1<<14 {
				return 0, 0, false
			}
			return int(x), e, true
		}
	}
	return 0, 0, false
}

func vmErrClass(err error) string {
	switch {
	case err == nil:
		return "ok"
	case errors.Is(err, bytecode.ErrDivideByZero):
		return "error:divzero"
	case errors.Is(err, bytecode.ErrRangeValue):
		return "error:range"
	case errors.Is(err, bytecode.ErrBadRepetition):
		return "error:badrep"
	case errors.Is(err, bytecode.ErrBounds):
		return "error:bounds"
	case errors.Is(err, bytecode.ErrIndexValue):
		return "error:indexvalue"
	case errors.Is(err, bytecode.ErrMapKey):
		return "error:mapkey"
	case errors.Is(err, bytecode.ErrSlice):
		return "error:slice"
	case errors.Is(err, bytecode.ErrStackOverflow):
		return "error:stackoverflow"
	}
	return "error:other:" + firstLine(err.Error())
}

// recordVM compiles programs with the real compiler, runs them on the real VM
// with the step hook on and writes, per program the compiler accepts, the
// decoded code, the constants and the step trace (ip, sp, value on top of the
// stack) for validation by spec/EvyVM.tla.
func recordVM(args []string) int {
	fs := flag.NewFlagSet("record-vm", flag.ExitOnError)
	inPath := fs.String("in", "", "ndjson: {id, src}")
	outPath := fs.String("out", "", "programs + traces, ndjson")
	maxSteps := fs.Int("max", 1500, "cut the trace after this many steps")
	fs.Parse(args)
	in, err := os.Open(*inPath)
	if err != nil {
		fmt.Fprintln(os.Stderr, err)
		return 2
	}
	defer in.Close()
	out, err := os.Create(*outPath)
	if err != nil {
		fmt.Fprintln(os.Stderr, err)
		return 2
	}
	defer out.Close()
	w := bufio.NewWriter(out)
	defer w.Flush()
	sc := bufio.NewScanner(in)
	sc.Buffer(make([]byte, 1<<20), 1<<26)
	type cut struct{}
	for sc.Scan() {
		var c struct {
			ID  string `json:"id"`
			Src string `json:"src"`
		}
		if err := json.Unmarshal(sc.Bytes(), &c); err != nil {
			continue
		}
		prog, perr := parser.Parse(c.Src, evaluator.BuiltinDecls())
		if perr != nil {
			continue
		}
		var bc *bytecode.Bytecode
		func() {
			defer func() { recover() }()
			comp := bytecode.NewCompiler()
			if err := comp.Compile(prog); err != nil {
				return
			}
			bc = comp.Bytecode()
		}()
		if bc == nil {
			continue // rejected by the compiler: nothing to run
		}
		p := vmProg{ID: c.ID, Src: c.Src, NGlobals: bc.GlobalCount, NLocals: bc.LocalCount, CodeLen: len(bc.Instructions)}
		code := []byte(bc.Instructions)
		p.Ipx = make([]int, len(code)+1)
		bad := false
		for i := 0; i < len(code); {
			def, err := bytecode.Lookup(bytecode.Opcode(code[i]))
			if err != nil {
				bad = true
				break
			}
			ops, read := bytecode.ReadOperands(def, bytecode.Instructions(code[i+1:]))
			a := -1
			if len(ops) > 0 {
				a = ops[0]
			}
			p.Code = append(p.Code, vmInstr{IP: i, Op: def.Name, A: a})
			p.Ipx[i] = len(p.Code)
			i += 1 + read
		}
		if bad {
			continue // C17's business
		}
		outside := false
		for _, k := range bc.VerifConstants() {
			kind, text, _ := strings.Cut(k, ":")
			switch kind {
			case "n":
				f, err := strconv.ParseFloat(text, 64)
				m, e, ok := vmDyadic(f)
				if err != nil || !ok {
					outside = true
				}
				p.Consts = append(p.Consts, map[string]any{"t": "num", "s": "fin", "m": m, "e": e})
			case "s":
				p.Consts = append(p.Consts, map[string]any{"t": "str", "cp": cps(text)})
			default:
				outside = true
			}
		}
		if outside {
			continue // a constant outside the exact numbers of the specification
		}
		start := time.Now()
		bytecode.VerifStepTop = func(ip int, op byte, sp int, top string) {
			if len(p.Trace) >= *maxSteps || time.Since(start) > 5*time.Second {
				p.Cut = true
				panic(cut{})
			}
			p.Trace = append(p.Trace, vmStep{IP: ip, SP: sp, Top: cps(top)})
		}
		var vm *bytecode.VM
		func() {
			defer func() {
				if r := recover(); r != nil {
					if _, ok := r.(cut); ok {
						p.Result = "cut"
						return
					}
					p.Result = "gopanic:" + firstLine(fmt.Sprint(r))
				}
			}()
			vm = bytecode.NewVM(bc)
			p.Result = vmErrClass(vm.Run())
		}()
		bytecode.VerifStepTop = nil
		p.Globals = [][]int{}
		if vm != nil {
			vals, _ := vm.VerifGlobals()
			for _, v := range vals {
				p.Globals = append(p.Globals, cps(v))
			}
		}
		if p.Trace == nil {
			p.Trace = []vmStep{}
		}
		if p.Consts == nil {
			p.Consts = []map[string]any{}
		}
		if p.Code == nil {
			p.Code = []vmInstr{}
		}
		b, _ := json.Marshal(p)
		w.Write(b)
		w.WriteByte('\n')
	}
	return 0
}
