package main

import (
	"encoding/json"
	"fmt"
	"math/rand"
	"reflect"
	"strings"

	"evylang.dev/evy/pkg/evaluator"
	"evylang.dev/evy/pkg/parser"
)

func init() {
	stages["run"] = stageRun
}

type eventSpec struct {
	Name string `json:"name"`
	Args []any  `json:"args"`
}

type runCase struct {
	ID       string      `json:"id"`
	Src      any         `json:"src"`
	Inputs   []any       `json:"inputs"`
	Events   []eventSpec `json:"events"`
	StopAt   int         `json:"stopAt"`
	FailFast bool        `json:"failFast"`
	NoSumm   bool        `json:"noTestSummary"`
	Seed     int64       `json:"randSeed"`
	Sound    bool        `json:"soundOnly"`
	// MayReject: the specification calls this program ill-formed; nothing is claimed when the parser rejects it,
	// but if the parser accepts it the run must still never go wrong (C02 quantifies over accepted programs)
	MayReject bool `json:"mayReject"`
	Expect   struct {
		Effects     []any    `json:"effects"`
		Result      []string `json:"result"`
		ErrContains []any    `json:"errContains"`
		Events      []struct {
			Effects []any    `json:"effects"`
			Result  []string `json:"result"`
		} `json:"events"`
	} `json:"expect"`
}

type observation struct {
	ParseErr   error
	Effects    [][]any
	YieldAt    []int
	Result     string
	ResultErr  error
	Yields     int
	AfterStop  int
	EvEffects  [][][]any
	EvResults  []string
	// everything the platform saw, main code and handlers, with the yield count at each effect; the result of
	// the whole run (the first thing that did not end normally)
	AllEffects [][]any
	AllYieldAt []int
	AllResult  string
	// the same parsed program evaluated a second time by a new evaluator (uninterrupted runs only): what the
	// platform saw and how it ended
	AgainEffects [][]any
	AgainResult  string
	HandlerSet []string
}

// execute runs src on the real parser and evaluator with a recording
// platform. Events are delivered after the top-level code, only if it ended
// normally and only to handlers the program declares (as the platforms do).
func execute(src string, inputs []string, events []eventSpec, stopAt int, failFast, noSumm bool, seed int64) observation {
	var o observation
	evaluator.RandSource = rand.New(rand.NewSource(seed)) //nolint:gosec
	plat := newRecPlatform(inputs, stopAt)
	prog, err := parser.Parse(src, evaluator.BuiltinDecls())
	if err != nil {
		o.ParseErr = err
		o.Result = "parse"
		return o
	}
	ev := evaluator.NewEvaluator(plat)
	plat.y.ev = ev
	ev.TestInfo.FailFast = failFast
	ev.TestInfo.NoTestSummary = noSumm
	err = ev.Eval(prog)
	o.Result = classify(err)
	o.ResultErr = err
	o.Effects = plat.Effects
	o.YieldAt = plat.YieldAt
	o.HandlerSet = ev.EventHandlerNames
	if err == nil {
		for _, e := range events {
			has := false
			for _, h := range ev.EventHandlerNames {
				if h == e.Name {
					has = true
				}
			}
			if !has {
				o.EvEffects = append(o.EvEffects, nil)
				o.EvResults = append(o.EvResults, "nohandler")
				continue
			}
			before := len(plat.Effects)
			args := make([]any, len(e.Args))
			for i, a := range e.Args {
				args[i] = decode(a)
			}
			herr := ev.HandleEvent(evaluator.Event{Name: e.Name, Params: args})
			o.EvEffects = append(o.EvEffects, plat.Effects[before:])
			o.EvResults = append(o.EvResults, classify(herr))
			if herr != nil {
				break
			}
		}
	}
	if stopAt == 0 && len(events) == 0 {
		// a program is a value: running the same syntax tree again, on a new evaluator, gives the same run
		evaluator.RandSource = rand.New(rand.NewSource(seed)) //nolint:gosec
		plat2 := newRecPlatform(inputs, 0)
		ev2 := evaluator.NewEvaluator(plat2)
		plat2.y.ev = ev2
		ev2.TestInfo.FailFast = failFast
		ev2.TestInfo.NoTestSummary = noSumm
		o.AgainResult = classify(ev2.Eval(prog))
		o.AgainEffects = plat2.Effects
	}
	o.AllEffects = plat.Effects
	o.AllYieldAt = plat.YieldAt
	o.AllResult = o.Result
	for _, r := range o.EvResults {
		if o.AllResult == "ok" && r != "ok" && r != "nohandler" {
			o.AllResult = r
		}
	}
	o.Yields = plat.y.n
	o.AfterStop = plat.y.afterStop
	return o
}

func strs(v []any) []string {
	out := make([]string, len(v))
	for i, x := range v {
		s, _ := decode(x).(string)
		out[i] = s
	}
	return out
}

func contains(list []string, s string) bool {
	for _, x := range list {
		if x == s {
			return true
		}
	}
	return false
}

func diffEffects(want []any, got [][]any) string {
	w := decode(want).([]any)
	g := normEffects(got)
	if len(w) == 0 && len(g) == 0 {
		return ""
	}
	n := len(w)
	if len(g) < n {
		n = len(g)
	}
	for i := 0; i < n; i++ {
		if !reflect.DeepEqual(w[i], g[i]) {
			return fmt.Sprintf("effect %d: spec %s, implementation %s", i, effectString(w[i]), effectString(g[i]))
		}
	}
	if len(w) != len(g) {
		if len(w) > len(g) {
			return fmt.Sprintf("effect %d: spec %s, implementation has no further effect (%d effects)", n, effectString(w[n]), len(g))
		}
		return fmt.Sprintf("effect %d: spec has no further effect (%d effects), implementation %s", n, len(w), effectString(g[n]))
	}
	return ""
}

func stageRun(raw json.RawMessage) Result {
	var c runCase
	if err := json.Unmarshal(raw, &c); err != nil {
		return Result{OK: false, Diff: "harness: " + err.Error()}
	}
	src := pieces(c.Src)
	o := execute(src, strs(c.Inputs), c.Events, c.StopAt, c.FailFast, c.NoSumm, c.Seed)
	obs := map[string]any{"src": src, "result": o.Result, "effects": o.Effects}
	if o.ParseErr != nil && c.MayReject {
		obs["verdict"] = "rejected"
		return Result{OK: true, Obs: obs}
	}
	if o.ParseErr != nil {
		obs["parseErr"] = o.ParseErr.Error()
		return Result{OK: false, Obs: obs, Diff: "specification says this program is well-formed, parser rejects it: " + firstLine(o.ParseErr.Error())}
	}
	// (compared as text: a NaN argument of a platform call is not equal to itself)
	if o.AgainResult != "" && (o.AgainResult != o.Result || effectString(normEffects(o.AgainEffects)) != effectString(normEffects(o.Effects))) {
		return Result{OK: false, Obs: obs, Diff: fmt.Sprintf("the same syntax tree run a second time (new evaluator, same inputs and seed) behaves differently: %s with %d effects, then %s with %d effects; first difference: %s",
			o.Result, len(o.Effects), o.AgainResult, len(o.AgainEffects), firstEffectDiff(normEffects(o.Effects), normEffects(o.AgainEffects)))}
	}
	if c.Sound {
		return soundVerdict(c, o, obs)
	}
	if d := diffEffects(c.Expect.Effects, o.Effects); d != "" {
		if o.ResultErr != nil {
			obs["err"] = o.ResultErr.Error()
		}
		return Result{OK: false, Obs: obs, Diff: d + " (result " + o.Result + ")"}
	}
	if !contains(c.Expect.Result, o.Result) {
		if o.ResultErr != nil {
			obs["err"] = o.ResultErr.Error()
		}
		return Result{OK: false, Obs: obs, Diff: fmt.Sprintf("result: spec %v, implementation %s", c.Expect.Result, o.Result)}
	}
	for _, frag := range strs(c.Expect.ErrContains) {
		if o.ResultErr == nil || !strings.Contains(o.ResultErr.Error(), frag) {
			msg := "<nil>"
			if o.ResultErr != nil {
				msg = o.ResultErr.Error()
			}
			return Result{OK: false, Obs: obs, Diff: fmt.Sprintf("error text: spec says it contains %q, implementation %q", frag, msg)}
		}
	}
	for i, ee := range c.Expect.Events {
		if i >= len(o.EvResults) {
			return Result{OK: false, Obs: obs, Diff: fmt.Sprintf("event %d not delivered", i)}
		}
		if d := diffEffects(ee.Effects, o.EvEffects[i]); d != "" {
			return Result{OK: false, Obs: obs, Diff: fmt.Sprintf("event %d: %s", i, d)}
		}
		if !contains(ee.Result, o.EvResults[i]) {
			return Result{OK: false, Obs: obs, Diff: fmt.Sprintf("event %d result: spec %v, implementation %s", i, ee.Result, o.EvResults[i])}
		}
	}
	return Result{OK: true}
}

func firstEffectDiff(a, b []any) string {
	for i := 0; i < len(a) && i < len(b); i++ {
		if effectString(a[i]) != effectString(b[i]) {
			return fmt.Sprintf("effect %d: %s vs %s", i, effectString(a[i]), effectString(b[i]))
		}
	}
	return fmt.Sprintf("%d vs %d effects", len(a), len(b))
}

func firstLine(s string) string {
	if i := strings.IndexByte(s, '\n'); i >= 0 {
		return s[:i]
	}
	return s
}

// soundVerdict is the weaker oracle used where the documentation leaves the
// behaviour open: the run must not go wrong (internal error; Go panics and
// hangs are caught by the worker pool) and what the specification says
// happened before the open point must have happened.
func soundVerdict(c runCase, o observation, obs map[string]any) Result {
	if strings.HasPrefix(o.Result, "internal") || strings.HasPrefix(o.Result, "unknown") {
		if o.ResultErr != nil {
			obs["err"] = o.ResultErr.Error()
		}
		return Result{OK: false, Obs: obs, Diff: "accepted program went wrong: " + o.Result}
	}
	w := decode(c.Expect.Effects).([]any)
	g := normEffects(o.Effects)
	for i := range w {
		if i >= len(g) {
			return Result{OK: false, Obs: obs, Diff: fmt.Sprintf("effect %d (before the unspecified point): spec %s, implementation has no further effect (result %s)", i, effectString(w[i]), o.Result)}
		}
		if !reflect.DeepEqual(w[i], g[i]) {
			return Result{OK: false, Obs: obs, Diff: fmt.Sprintf("effect %d (before the unspecified point): spec %s, implementation %s", i, effectString(w[i]), effectString(g[i]))}
		}
	}
	return Result{OK: true}
}
