package main

import (
	"bufio"
	"encoding/json"
	"flag"
	"fmt"
	"math/rand"
	"os"
	"reflect"
	"strings"

	"evylang.dev/evy/pkg/evaluator"
	"evylang.dev/evy/pkg/parser"
)

func init() {
	stages["stop"] = stageStop
	commands["record-stop"] = recordStop
}

type stopCase struct {
	ID      string `json:"id"`
	Src     any    `json:"src"`
	Inputs  []any  `json:"inputs"`
	Events  []eventSpec `json:"events"`
	NonTerm bool   `json:"nonterm"`
	RefK    int    `json:"refK"`
	CapK    int    `json:"capK"`
	Seed    int64  `json:"seed"`
	Expect  struct {
		Effects []any    `json:"effects"`
		Result  []string `json:"result"`
	} `json:"expect"`
	// Stopped: effect lists of all stopped outcomes of the specification
	// (complete for terminating programs).
	Stopped [][]any `json:"stopped"`
}

func isSummary(e []any) bool {
	if len(e) == 2 && e[0] == "print" {
		if s, ok := e[1].(string); ok {
			return strings.HasPrefix(s, "✅") || strings.HasPrefix(s, "❌")
		}
	}
	return false
}

func stripSummary(e [][]any) [][]any {
	if n := len(e); n > 0 && isSummary(e[n-1]) {
		return e[:n-1]
	}
	return e
}

// stageStop raises the stop flag at every yield k of the run of one program
// and checks the laws of C14 for each k.
func stageStop(raw json.RawMessage) Result {
	var c stopCase
	if err := json.Unmarshal(raw, &c); err != nil {
		return Result{OK: false, Diff: "harness: " + err.Error()}
	}
	src := pieces(c.Src)
	inputs := strs(c.Inputs)
	refStop := 0
	if c.NonTerm {
		refStop = c.RefK
	}
	// with events the run is the top-level code followed by the handlers of the delivered events
	run := func(stopAt int) observation {
		o := execute(src, inputs, c.Events, stopAt, false, false, 1)
		if o.ParseErr == nil {
			o.Effects, o.YieldAt, o.Result = o.AllEffects, o.AllYieldAt, o.AllResult
		}
		return o
	}
	ref := run(refStop)
	obs := map[string]any{"src": src}
	if ref.ParseErr != nil {
		return Result{OK: false, Obs: obs, Diff: "specification says this program is well-formed, parser rejects it: " + firstLine(ref.ParseErr.Error())}
	}
	if !c.NonTerm {
		if d := diffEffects(c.Expect.Effects, ref.Effects); d != "" {
			return Result{OK: false, Obs: obs, Diff: "uninterrupted run: " + d}
		}
		if !contains(c.Expect.Result, ref.Result) {
			return Result{OK: false, Obs: obs, Diff: fmt.Sprintf("uninterrupted run: result spec %v, implementation %s", c.Expect.Result, ref.Result)}
		}
	} else if ref.Result != "stopped" {
		return Result{OK: false, Obs: obs, Diff: fmt.Sprintf("program that does not terminate in the specification ended with %s after %d yields", ref.Result, ref.Yields)}
	}
	y := ref.Yields
	obs["yields"] = y
	var ks []int
	if y <= c.CapK {
		for k := 1; k <= y; k++ {
			ks = append(ks, k)
		}
	} else {
		rnd := rand.New(rand.NewSource(c.Seed)) //nolint:gosec
		seen := map[int]bool{}
		add := func(k int) {
			if k >= 1 && k <= y && !seen[k] {
				seen[k] = true
				ks = append(ks, k)
			}
		}
		for k := 1; k <= c.CapK/3; k++ {
			add(k)
		}
		for k := y - c.CapK/6; k <= y; k++ {
			add(k)
		}
		for len(ks) < c.CapK {
			add(1 + rnd.Intn(y))
		}
	}
	refEff := normEffects(stripSummary(ref.Effects))
	// the stopped outcomes of the specification, without and with the test summary that may follow them
	stoppedSet := map[string]bool{}
	stoppedFull := map[string]bool{}
	for _, s := range c.Stopped {
		b, _ := json.Marshal(normEffects(stripSummary(toEffects(decode(s).([]any)))))
		stoppedSet[string(b)] = true
		b, _ = json.Marshal(normEffects(toEffects(decode(s).([]any))))
		stoppedFull[string(b)] = true
	}
	distinctPrefix := map[int]bool{}
	for _, k := range ks {
		o := run(k)
		tag := fmt.Sprintf("stop raised at yield %d of %d: ", k, y)
		if o.AfterStop != 0 {
			return Result{OK: false, Obs: obs, Diff: tag + fmt.Sprintf("the yielder was called %d more time(s) after the flag was raised", o.AfterStop)}
		}
		eff := normEffects(stripSummary(o.Effects))
		if o.Result != "stopped" {
			// the step in progress was the last one: the run must be the uninterrupted run
			if c.NonTerm || o.Result != ref.Result || !reflect.DeepEqual(eff, refEff) {
				return Result{OK: false, Obs: obs, Diff: tag + fmt.Sprintf("result %s (expected stopped); effects %d of %d", o.Result, len(eff), len(refEff))}
			}
			continue
		}
		if len(eff) > len(refEff) || !reflect.DeepEqual(eff, refEff[:len(eff)]) {
			return Result{OK: false, Obs: obs, Diff: tag + fmt.Sprintf("effects are not a prefix of the uninterrupted run: %s", effectString(eff))}
		}
		// effects at the moment of the raise: those recorded with fewer than k yields seen
		atRaise := 0
		for i, ya := range o.YieldAt {
			if ya < k && !isSummary(o.Effects[i]) {
				atRaise++
			}
		}
		if len(eff) > atRaise+1 {
			return Result{OK: false, Obs: obs, Diff: tag + fmt.Sprintf("%d effects happened after the flag was raised (at most the step in progress may complete)", len(eff)-atRaise)}
		}
		if len(stoppedSet) > 0 {
			b, _ := json.Marshal(eff)
			if !stoppedSet[string(b)] {
				return Result{OK: false, Obs: obs, Diff: tag + "effects " + effectString(eff) + " are not a stopped outcome of the specification"}
			}
			// only the summary of the tests run so far may follow
			full := normEffects(o.Effects)
			if b, _ := json.Marshal(full); !stoppedFull[string(b)] {
				return Result{OK: false, Obs: obs, Diff: tag + "effects with the test summary " + effectString(full) + " are not a stopped outcome of the specification (the summary must count the tests run so far)"}
			}
		}
		distinctPrefix[len(eff)] = true
	}
	obs["ks"] = len(ks)
	obs["distinctPrefixes"] = len(distinctPrefix)
	return Result{OK: true, Obs: obs}
}

func toEffects(a []any) [][]any {
	out := make([][]any, len(a))
	for i, e := range a {
		out[i], _ = e.([]any)
	}
	return out
}

// recordStop runs programs with the verif hooks on and writes the monitor
// events (Yield, Iter, Call, Effect, StopRaised, StopSeen, End) as NDJSON
// for validation by spec/StopYieldTrace.tla.
func recordStop(args []string) int {
	fs := flag.NewFlagSet("record-stop", flag.ExitOnError)
	inPath := fs.String("in", "", "ndjson: {id, src (text), stopAt}")
	outPath := fs.String("out", "", "trace ndjson")
	fs.Parse(args)
	in, err := os.Open(*inPath)
	if err != nil {
		fmt.Fprintln(os.Stderr, err)
		return 2
	}
	defer in.Close()
	out, err := os.Create(*outPath)
	if err != nil {
		fmt.Fprintln(os.Stderr, err)
		return 2
	}
	defer out.Close()
	w := bufio.NewWriter(out)
	defer w.Flush()
	emit := func(m map[string]any) {
		b, _ := json.Marshal(m)
		w.Write(b)
		w.WriteByte('\n')
	}
	sc := bufio.NewScanner(in)
	sc.Buffer(make([]byte, 1<<20), 1<<26)
	for sc.Scan() {
		var c struct {
			ID     string `json:"id"`
			Src    string `json:"src"`
			StopAt int    `json:"stopAt"`
			MaxEv  int    `json:"maxEvents"`
		}
		if err := json.Unmarshal(sc.Bytes(), &c); err != nil {
			continue
		}
		n := 0
		emit(map[string]any{"ev": "Reset", "id": c.ID, "k": c.StopAt})
		plat := newRecPlatform(nil, c.StopAt)
		plat.onEffect = func(e []any) {
			kind := "effect"
			if isSummary(e) {
				kind = "summary"
			}
			emit(map[string]any{"ev": "Effect", "kind": kind})
		}
		plat.y.onRaise = func() { emit(map[string]any{"ev": "StopRaised"}) }
		tooLong := false
		evaluator.VerifTrace = func(ev string, f map[string]any) {
			switch ev {
			case "Yield", "Iter", "Call", "StopSeen":
				n++
				if c.MaxEv > 0 && n > c.MaxEv {
					if !tooLong {
						tooLong = true
						plat.y.ev.Stopped = true // cut an endless recording; events after the cut are not written
					}
					return
				}
				emit(map[string]any{"ev": ev})
			}
		}
		prog, perr := parser.Parse(c.Src, evaluator.BuiltinDecls())
		if perr != nil {
			evaluator.VerifTrace = nil
			emit(map[string]any{"ev": "End", "result": "parse"})
			continue
		}
		ev := evaluator.NewEvaluator(plat)
		plat.y.ev = ev
		func() {
			defer func() {
				if r := recover(); r != nil {
					emit(map[string]any{"ev": "End", "result": "gopanic"})
				}
			}()
			err := ev.Eval(prog)
			res := classify(err)
			if tooLong {
				res = "cut"
			}
			emit(map[string]any{"ev": "End", "result": res})
		}()
		evaluator.VerifTrace = nil
	}
	return 0
}

func init() {
	commands["record-map"] = recordMap
}

// recordMap runs programs with the verif hooks on and writes the map
// events (MapLit, SetKey, Delete, RangeStart/Next/End, ForEnter/Exit) as
// NDJSON for validation by spec/EvyMapTrace.tla.
func recordMap(args []string) int {
	fs := flag.NewFlagSet("record-map", flag.ExitOnError)
	inPath := fs.String("in", "", "ndjson: {id, src}")
	outPath := fs.String("out", "", "trace ndjson")
	fs.Parse(args)
	in, err := os.Open(*inPath)
	if err != nil {
		fmt.Fprintln(os.Stderr, err)
		return 2
	}
	defer in.Close()
	out, err := os.Create(*outPath)
	if err != nil {
		fmt.Fprintln(os.Stderr, err)
		return 2
	}
	defer out.Close()
	w := bufio.NewWriter(out)
	defer w.Flush()
	emit := func(m map[string]any) {
		b, _ := json.Marshal(m)
		w.Write(b)
		w.WriteByte('\n')
	}
	sc := bufio.NewScanner(in)
	sc.Buffer(make([]byte, 1<<20), 1<<26)
	for sc.Scan() {
		var c struct {
			ID    string `json:"id"`
			Src   string `json:"src"`
			MaxEv int    `json:"maxEvents"`
		}
		if err := json.Unmarshal(sc.Bytes(), &c); err != nil {
			continue
		}
		prog, perr := parser.Parse(c.Src, evaluator.BuiltinDecls())
		if perr != nil {
			continue
		}
		emit(map[string]any{"ev": "Reset", "id": c.ID, "map": "", "key": "", "order": []string{}, "keys": []string{}})
		plat := newRecPlatform(nil, 0)
		n := 0
		evaluator.VerifTrace = func(ev string, f map[string]any) {
			switch ev {
			case "MapLit", "SetKey", "Delete", "RangeStart", "RangeNext", "RangeEnd":
				n++
				if c.MaxEv > 0 && n > c.MaxEv {
					plat.y.ev.Stopped = true
					return
				}
				f["ev"] = ev
				emit(f)
			case "ForEnter", "ForExit":
				if c.MaxEv > 0 && n > c.MaxEv {
					return
				}
				emit(map[string]any{"ev": ev, "map": "", "key": "", "order": []string{}, "keys": []string{}})
			}
		}
		ev := evaluator.NewEvaluator(plat)
		plat.y.ev = ev
		func() {
			defer func() { recover() }()
			ev.Eval(prog)
		}()
		evaluator.VerifTrace = nil
	}
	return 0
}
