package main

import (
	"encoding/json"
	"fmt"
	"reflect"
	"strconv"
	"strings"

	"evylang.dev/evy/pkg/evaluator"
	"evylang.dev/evy/pkg/lexer"
	"evylang.dev/evy/pkg/parser"
)

func init() {
	stages["format"] = stageFormat
}

type tokSig struct {
	Kind string
	Lit  string
}

// significant returns the non-whitespace token sequence of src (comments
// included); numbers are compared by value, everything else literally.
func significant(src string) []tokSig {
	lx := lexer.New(src)
	var out []tokSig
	for i := 0; i < 4*len(src)+8; i++ {
		t := lx.Next()
		if t.Type == lexer.EOF {
			break
		}
		if t.Type == lexer.WS || t.Type == lexer.NL {
			continue
		}
		lit := t.Literal
		if t.Type == lexer.NUM_LIT {
			if f, err := strconv.ParseFloat(lit, 64); err == nil {
				lit = strconv.FormatFloat(f, 'g', -1, 64)
			}
		}
		if t.Type == lexer.COMMENT {
			lit = strings.TrimRight(lit, " \t")
		}
		out = append(out, tokSig{t.Type.String(), lit})
	}
	return out
}

// layoutLaws checks the canonical-form laws of C07 on formatted text.
func layoutLaws(f string) string {
	if f == "" {
		return ""
	}
	if !strings.HasSuffix(f, "\n") {
		return "formatted text does not end with a newline"
	}
	if strings.HasSuffix(f, "\n\n") {
		return "formatted text ends with more than one newline"
	}
	lines := strings.Split(strings.TrimSuffix(f, "\n"), "\n")
	depth := 0
	prevBlank := false
	var brackets []int // depth stack for multi-line literals
	for i, l := range lines {
		if l == "" {
			if prevBlank {
				return fmt.Sprintf("line %d: more than one consecutive blank line", i+1)
			}
			prevBlank = true
			continue
		}
		prevBlank = false
		if strings.TrimRight(l, " \t") != l {
			return fmt.Sprintf("line %d: trailing whitespace", i+1)
		}
		body := strings.TrimLeft(l, " ")
		if strings.HasPrefix(body, "\t") {
			return fmt.Sprintf("line %d: tab in indentation", i+1)
		}
		indent := len(l) - len(body)
		// the statement part of the line (without a trailing comment) decides the block structure
		code := body
		if k := commentStart(body); k >= 0 {
			code = strings.TrimRight(body[:k], " ")
		}
		word := firstWord(code)
		d := depth
		if len(brackets) > 0 && (strings.HasPrefix(code, "]") || strings.HasPrefix(code, "}")) {
			d = brackets[len(brackets)-1]
		} else if len(brackets) == 0 && (word == "end" || word == "else") {
			d = depth - 1
		}
		if indent != 4*d {
			return fmt.Sprintf("line %d: indentation %d, block depth %d (%q)", i+1, indent, d, l)
		}
		if code == "" { // comment line
			continue
		}
		// multi-line literals: a line that opens more brackets than it closes starts one (its elements are one level
		// deeper), a line that starts with the closing bracket ends it
		net := bracketNet(code)
		if len(brackets) > 0 {
			if strings.HasPrefix(code, "]") || strings.HasPrefix(code, "}") {
				depth = brackets[len(brackets)-1]
				brackets = brackets[:len(brackets)-1]
				net++ // the closing bracket of this line has been accounted for
			}
			if net > 0 {
				brackets = append(brackets, depth)
				depth++
			}
			continue
		}
		switch word {
		case "if", "while", "for", "func", "on":
			depth++
		case "end":
			depth--
		}
		if net > 0 {
			brackets = append(brackets, depth)
			depth++
		}
	}
	return ""
}

// bracketNet counts opening minus closing square and curly brackets outside string literals.
func bracketNet(code string) int {
	n, inStr, esc := 0, false, false
	for i := 0; i < len(code); i++ {
		c := code[i]
		if inStr {
			if esc {
				esc = false
			} else if c == '\\' {
				esc = true
			} else if c == '"' {
				inStr = false
			}
			continue
		}
		switch c {
		case '"':
			inStr = true
		case '[', '{':
			n++
		case ']', '}':
			n--
		}
	}
	return n
}

func commentStart(s string) int {
	inStr := false
	esc := false
	for i := 0; i+1 < len(s)+1; i++ {
		if i >= len(s) {
			break
		}
		c := s[i]
		if inStr {
			if esc {
				esc = false
			} else if c == '\\' {
				esc = true
			} else if c == '"' {
				inStr = false
			}
			continue
		}
		if c == '"' {
			inStr = true
		} else if c == '/' && i+1 < len(s) && s[i+1] == '/' {
			return i
		}
	}
	return -1
}

func firstWord(s string) string {
	for i, c := range s {
		if !(c >= 'a' && c <= 'z' || c >= 'A' && c <= 'Z' || c >= '0' && c <= '9' || c == '_' || c >= 0x80) {
			return s[:i]
		}
	}
	return s
}

// stageFormat checks C06 and C07 on one group of whitespace variants of a program.
func stageFormat(raw json.RawMessage) Result {
	var c struct {
		Variants []any `json:"variants"`
		HasFuncs bool  `json:"hasFuncs"`
		// MayReject: the text is not known to be a program; nothing is claimed when the parser rejects it, but
		// what the parser accepts the formatter must leave as it is (C06 quantifies over accepted programs)
		MayReject bool `json:"mayReject"`
	}
	if err := json.Unmarshal(raw, &c); err != nil {
		return Result{OK: false, Diff: "harness: " + err.Error()}
	}
	var first string
	obs := map[string]any{}
	for vi, v := range c.Variants {
		src := pieces(v)
		if vi == 0 {
			obs["src"] = src
		}
		tag := fmt.Sprintf("variant %d: ", vi+1)
		prog, err := parser.Parse(src, evaluator.BuiltinDecls())
		if err != nil && c.MayReject {
			obs["verdict"] = "rejected"
			return Result{OK: true, Obs: obs}
		}
		if err != nil {
			obs["src"] = src
			return Result{OK: false, Obs: obs, Diff: tag + "specification says this text is a valid program, parser rejects it: " + firstLine(err.Error())}
		}
		f := prog.Format()
		// formatting is a function of the program: the same tree formats to the same text every time
		for k := 2; k <= 3; k++ {
			if fk := prog.Format(); fk != f {
				obs["src"] = src
				obs["formatted"] = f
				return Result{OK: false, Obs: obs, Diff: tag + fmt.Sprintf("formatting is not idempotent: Format call %d on the same program differs from the first: ", k) + textDiff(f, fk)}
			}
		}
		if vi == 0 {
			first = f
			obs["formatted"] = f
		}
		// C06: only whitespace changes
		if a, b := significant(src), significant(f); !reflect.DeepEqual(a, b) {
			obs["src"] = src
			obs["formatted"] = f
			return Result{OK: false, Obs: obs, Diff: tag + "formatting changed the token sequence: " + tokDiff(a, b)}
		}
		prog2, err := parser.Parse(f, evaluator.BuiltinDecls())
		if err != nil {
			obs["src"] = src
			obs["formatted"] = f
			return Result{OK: false, Obs: obs, Diff: tag + "formatted text is rejected: " + firstLine(err.Error())}
		}
		if squeezeNL(prog.String()) != squeezeNL(prog2.String()) {
			return Result{OK: false, Obs: obs, Diff: tag + "formatted text has a different syntax tree"}
		}
		// C07: idempotent, canonical
		if f2 := prog2.Format(); f2 != f {
			obs["src"] = src
			obs["formatted"] = f
			return Result{OK: false, Obs: obs, Diff: tag + "formatting is not idempotent: " + textDiff(f, f2)}
		}
		if d := layoutLaws(f); d != "" {
			obs["src"] = src
			obs["formatted"] = f
			return Result{OK: false, Obs: obs, Diff: tag + "canonical form: " + d}
		}
		if f != first {
			obs["src"] = src
			return Result{OK: false, Obs: obs, Diff: tag + "formats differently from variant 1 although only optional whitespace / blank-run lengths differ: " + textDiff(first, f)}
		}
	}
	// C06: same behaviour
	src := pieces(c.Variants[0])
	o1 := execute(src, []string{"in1", "in2"}, nil, 20000, false, false, 1) // endless programs are cut at yield 20000
	o2 := execute(first, []string{"in1", "in2"}, nil, 20000, false, false, 1)
	// (compared as text: a NaN argument of a platform call is not equal to itself)
	if o1.Result != o2.Result || effectString(normEffects(o1.Effects)) != effectString(normEffects(o2.Effects)) {
		return Result{OK: false, Obs: obs, Diff: fmt.Sprintf("source and formatted source behave differently: %s / %s", o1.Result, o2.Result)}
	}
	obs["result"] = o1.Result
	return Result{OK: true, Obs: obs}
}

// squeezeNL removes the empty statements (blank lines are whitespace) from
// the printed syntax tree.
func squeezeNL(s string) string {
	for strings.Contains(s, "\n\n") {
		s = strings.ReplaceAll(s, "\n\n", "\n")
	}
	return strings.TrimLeft(s, "\n")
}

func tokDiff(a, b []tokSig) string {
	n := len(a)
	if len(b) < n {
		n = len(b)
	}
	for i := 0; i < n; i++ {
		if a[i] != b[i] {
			return fmt.Sprintf("token %d: source %v, formatted %v", i, a[i], b[i])
		}
	}
	if len(a) > len(b) {
		return fmt.Sprintf("token %d %v of the source is missing in the formatted text", n, a[n])
	}
	return fmt.Sprintf("formatted text has an extra token %d %v", n, b[n])
}

func textDiff(a, b string) string {
	la, lb := strings.Split(a, "\n"), strings.Split(b, "\n")
	for i := 0; i < len(la) && i < len(lb); i++ {
		if la[i] != lb[i] {
			return fmt.Sprintf("line %d: %q vs %q", i+1, la[i], lb[i])
		}
	}
	return fmt.Sprintf("%d vs %d lines", len(la), len(lb))
}
