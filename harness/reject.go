package main

import (
	"encoding/json"
	"errors"
	"fmt"
	"regexp"
	"strconv"
	"strings"
	"unicode/utf8"

	"evylang.dev/evy/pkg/evaluator"
	"evylang.dev/evy/pkg/parser"
)

func init() {
	stages["reject"] = stageReject
}

var locRe = regexp.MustCompile(`^line (\d+) column (\d+): `)

// checkLocations verifies that every diagnostic is located at a line and
// column that exist in the input (the position just after the last
// character of a line, and the line after the last newline, count as
// existing: that is where end-of-line and end-of-input are reported).
func checkLocations(src string, errs parser.Errors) string {
	lines := strings.Split(src, "\n")
	for _, e := range errs {
		m := locRe.FindStringSubmatch(e.Error())
		if m == nil {
			return "diagnostic without location: " + e.Error()
		}
		ln, _ := strconv.Atoi(m[1])
		col, _ := strconv.Atoi(m[2])
		if ln < 1 || ln > len(lines) {
			return fmt.Sprintf("diagnostic on line %d, input has %d lines: %s", ln, len(lines), e.Error())
		}
		n := utf8.RuneCountInString(lines[ln-1])
		if col < 1 || col > n+1 {
			return fmt.Sprintf("diagnostic at column %d, line %d has %d characters: %s", col, ln, n, e.Error())
		}
	}
	return ""
}

// stageReject: a program that breaks a static rule is rejected with at
// least one located error and none of it runs.
func stageReject(raw json.RawMessage) Result {
	var c struct {
		Src   any  `json:"src"`
		Valid bool `json:"valid"`
	}
	if err := json.Unmarshal(raw, &c); err != nil {
		return Result{OK: false, Diff: "harness: " + err.Error()}
	}
	src := pieces(c.Src)
	obs := map[string]any{"src": src}
	plat := newRecPlatform([]string{"input line"}, 0)
	ev := evaluator.NewEvaluator(plat)
	plat.y.ev = ev
	err := ev.Run(src)
	if c.Valid {
		if err != nil {
			return Result{OK: false, Obs: obs, Diff: "the unedited seed program is rejected or fails: " + firstLine(err.Error())}
		}
		if len(plat.Effects) < 8 {
			return Result{OK: false, Obs: obs, Diff: "the unedited seed program has too few effects"}
		}
		return Result{OK: true, Obs: obs}
	}
	if err == nil {
		return Result{OK: false, Obs: obs, Diff: fmt.Sprintf("program that breaks a static rule is accepted and runs (%d platform calls)", len(plat.Effects))}
	}
	var perrs parser.Errors
	if !errors.As(err, &perrs) {
		return Result{OK: false, Obs: obs, Diff: "not rejected by the parser but failed at run time: " + firstLine(err.Error())}
	}
	if len(perrs) == 0 {
		return Result{OK: false, Obs: obs, Diff: "rejected with an empty error list"}
	}
	obs["errors"] = firstLine(err.Error())
	if d := checkLocations(src, perrs); d != "" {
		return Result{OK: false, Obs: obs, Diff: d}
	}
	if len(plat.Effects) != 0 || plat.y.n != 0 {
		return Result{OK: false, Obs: obs, Diff: fmt.Sprintf("rejected program had %d platform calls and %d yields", len(plat.Effects), plat.y.n)}
	}
	return Result{OK: true, Obs: obs}
}
