module evyverif

go 1.23.0

require (
	evylang.dev/evy v0.0.0
	evylang.dev/evy/learn v0.0.0
)

replace evylang.dev/evy => /repo

replace evylang.dev/evy/learn => /repo/learn
