package main

import (
	"bufio"
	"encoding/json"
	"flag"
	"fmt"
	"math"
	"os"
	"strings"

	"evylang.dev/evy/pkg/evaluator"
	"evylang.dev/evy/pkg/parser"
)

// export-ast: direction B for whole programs. An arbitrary Evy program (a
// documented example, a repository sample) is parsed by the real parser and
// its syntax tree is written in the shape of the abstract syntax of
// spec/EvyAst.tla, so that the abstract machine (spec/EvyMachine.tla) can run
// it and say what it must print. Programs that use something the machine has
// no rule for (numbers outside the exact domain, a node kind it does not
// know) are skipped with a reason; built-ins without a rule make the machine
// stop with status unspec.
func init() {
	commands["export-ast"] = exportAST
}

type unsupported struct{ why string }

func tySeq(t *parser.Type) []string {
	if t == nil {
		panic(unsupported{"nil type"})
	}
	var out []string
	for cur := t; cur != nil; cur = cur.Sub {
		switch cur.Name {
		case parser.NUM:
			out = append(out, "num")
		case parser.STRING:
			out = append(out, "string")
		case parser.BOOL:
			out = append(out, "bool")
		case parser.ANY:
			out = append(out, "any")
		case parser.ARRAY:
			out = append(out, "arr")
		case parser.MAP:
			out = append(out, "map")
		case parser.NONE:
			out = append(out, "none")
		}
	}
	if len(out) == 0 {
		panic(unsupported{"empty type"})
	}
	return out
}

func cps(s string) []int {
	out := []int{}
	for _, r := range s {
		out = append(out, int(r))
	}
	return out
}

// dyadic writes f as m / 2^e with |m| < 2^14 and e <= 8, the machine's exact domain.
func dyadic(f float64) map[string]any {
	if math.IsNaN(f) || math.IsInf(f, 0) || f < 0 {
		panic(unsupported{"number literal outside the exact domain"})
	}
	for e := 0; e <= 8; e++ {
		m := f * math.Pow(2, float64(e))
		if m == math.Trunc(m) {
			if m >= 1<<14 && !(e == 0 && m < 1<<31) {
				break
			}
			return map[string]any{"t": "num", "s": "fin", "m": int(m), "e": e}
		}
	}
	panic(unsupported{fmt.Sprintf("number literal %v outside the exact domain", f)})
}

func exprs(ns []parser.Node) []any {
	out := []any{}
	for _, n := range ns {
		out = append(out, expr(n))
	}
	return out
}

func expr(n parser.Node) map[string]any {
	base := func(k string) map[string]any {
		return map[string]any{"k": k, "ty": tySeq(n.Type()), "cn": false}
	}
	switch n := n.(type) {
	case *parser.NumLiteral:
		m := base("num")
		m["n"] = dyadic(n.Value)
		return m
	case *parser.StringLiteral:
		m := base("str")
		m["cp"] = cps(n.Value)
		return m
	case *parser.BoolLiteral:
		m := base("bool")
		m["b"] = n.Value
		return m
	case *parser.Var:
		m := base("var")
		m["nm"] = n.Name
		return m
	case *parser.Any:
		m := base("wrap")
		m["x"] = expr(n.Value)
		return m
	case *parser.ArrayLiteral:
		m := base("arr")
		m["xs"] = exprs(n.Elements)
		return m
	case *parser.MapLiteral:
		m := base("map")
		ks := []any{}
		xs := []any{}
		for _, k := range n.Order {
			ks = append(ks, cps(k))
			xs = append(xs, expr(n.Pairs[k]))
		}
		m["ks"] = ks
		m["xs"] = xs
		return m
	case *parser.UnaryExpression:
		m := base("un")
		m["op"] = n.Op.String()
		m["x"] = expr(n.Right)
		return m
	case *parser.BinaryExpression:
		m := base("bin")
		m["op"] = n.Op.String()
		m["l"] = expr(n.Left)
		m["r"] = expr(n.Right)
		return m
	case *parser.IndexExpression:
		m := base("idx")
		m["x"] = expr(n.Left)
		m["i"] = expr(n.Index)
		return m
	case *parser.SliceExpression:
		m := base("slice")
		m["x"] = expr(n.Left)
		lo, hi := []any{}, []any{}
		if n.Start != nil {
			lo = append(lo, expr(n.Start))
		}
		if n.End != nil {
			hi = append(hi, expr(n.End))
		}
		m["lo"] = lo
		m["hi"] = hi
		return m
	case *parser.DotExpression:
		m := base("dot")
		m["x"] = expr(n.Left)
		m["key"] = cps(n.Key)
		return m
	case *parser.TypeAssertion:
		m := map[string]any{"k": "assert", "ty": tySeq(n.T), "cn": false}
		m["x"] = expr(n.Left)
		return m
	case *parser.GroupExpression:
		m := base("grp")
		m["x"] = expr(n.Expr)
		return m
	case *parser.FuncCall:
		m := base("call")
		m["f"] = n.Name
		m["xs"] = exprs(n.Arguments)
		return m
	}
	panic(unsupported{fmt.Sprintf("expression node %T", n)})
}

func block(b *parser.BlockStatement) []any {
	out := []any{}
	for _, s := range b.Statements {
		out = append(out, stmt(s))
	}
	return out
}

func stmt(n parser.Node) map[string]any {
	switch n := n.(type) {
	case *parser.EmptyStmt:
		return map[string]any{"k": "raw", "ps": []any{}}
	case *parser.TypedDeclStmt:
		return map[string]any{"k": "decl", "nm": n.Decl.Var.Name, "ty": tySeq(n.Decl.Var.Type())}
	case *parser.InferredDeclStmt:
		return map[string]any{"k": "infer", "nm": n.Decl.Var.Name, "x": expr(n.Decl.Value)}
	case *parser.AssignmentStmt:
		return map[string]any{"k": "asg", "tg": expr(n.Target), "x": expr(n.Value)}
	case *parser.FuncCallStmt:
		return map[string]any{"k": "callst", "x": expr(n.FuncCall)}
	case *parser.ReturnStmt:
		xs := []any{}
		if n.Value != nil {
			xs = append(xs, expr(n.Value))
		}
		return map[string]any{"k": "ret", "xs": xs}
	case *parser.BreakStmt:
		return map[string]any{"k": "brk"}
	case *parser.IfStmt:
		cs := []any{expr(n.IfBlock.Condition)}
		bs := []any{block(n.IfBlock.Block)}
		for _, ei := range n.ElseIfBlocks {
			cs = append(cs, expr(ei.Condition))
			bs = append(bs, block(ei.Block))
		}
		el := []any{}
		if n.Else != nil {
			el = append(el, block(n.Else))
		}
		return map[string]any{"k": "if", "cs": cs, "bs": bs, "el": el}
	case *parser.WhileStmt:
		return map[string]any{"k": "while", "c": expr(n.Condition), "ss": block(n.Block)}
	case *parser.ForStmt:
		nm := ""
		if n.LoopVar != nil {
			nm = n.LoopVar.Name
		}
		m := map[string]any{"k": "for", "nm": nm, "ss": block(n.Block)}
		if sr, ok := n.Range.(*parser.StepRange); ok {
			xs := []any{}
			if sr.Start != nil {
				xs = append(xs, expr(sr.Start))
			}
			xs = append(xs, expr(sr.Stop))
			if sr.Step != nil {
				if sr.Start == nil {
					panic(unsupported{"step without start"})
				}
				xs = append(xs, expr(sr.Step))
			}
			m["kd"] = "num"
			m["xs"] = xs
			return m
		}
		switch n.Range.Type().Name {
		case parser.ARRAY:
			m["kd"] = "arr"
		case parser.STRING:
			m["kd"] = "str"
		case parser.MAP:
			m["kd"] = "map"
		default:
			panic(unsupported{"range type"})
		}
		m["xs"] = []any{expr(n.Range)}
		return m
	case *parser.FuncDefStmt, *parser.EventHandlerStmt:
		return map[string]any{"k": "raw", "ps": []any{}}
	}
	panic(unsupported{fmt.Sprintf("statement node %T", n)})
}

func params(vs []*parser.Var) []any {
	out := []any{}
	for _, v := range vs {
		out = append(out, map[string]any{"nm": v.Name, "ty": tySeq(v.Type())})
	}
	return out
}

func exportProgram(src string) (res map[string]any, why string) {
	defer func() {
		if r := recover(); r != nil {
			if u, ok := r.(unsupported); ok {
				res, why = nil, u.why
				return
			}
			panic(r)
		}
	}()
	prog, err := parser.Parse(src, evaluator.BuiltinDecls())
	if err != nil {
		return nil, "does not parse: " + firstLine(err.Error())
	}
	main := []any{}
	funcs := []any{}
	hs := []any{}
	for _, s := range prog.Statements {
		switch s := s.(type) {
		case *parser.FuncDefStmt:
			vp := []any{}
			if s.VariadicParam != nil {
				vp = append(vp, map[string]any{"nm": s.VariadicParam.Name, "ty": tySeq(s.VariadicParam.Type())})
			}
			funcs = append(funcs, map[string]any{"nm": s.Name, "ps": params(s.Params), "vp": vp, "rt": tySeq(s.ReturnType), "ss": block(s.Body)})
		case *parser.EventHandlerStmt:
			hs = append(hs, map[string]any{"ev": s.Name, "ps": params(s.Params), "ss": block(s.Body)})
		default:
			main = append(main, stmt(s))
		}
	}
	if len(main) == 0 {
		main = append(main, map[string]any{"k": "raw", "ps": []any{}})
	}
	return map[string]any{"main": main, "funcs": funcs, "hs": hs, "fl": false}, ""
}

func exportAST(args []string) int {
	fs := flag.NewFlagSet("export-ast", flag.ExitOnError)
	inPath := fs.String("in", "", "ndjson: {id, src, inputs}")
	outPath := fs.String("out", "", "ndjson of cases for spec/DocExamples.tla")
	skipPath := fs.String("skipped", "", "ndjson of skipped programs with reasons")
	fs.Parse(args)
	in, err := os.Open(*inPath)
	if err != nil {
		fmt.Fprintln(os.Stderr, err)
		return 2
	}
	defer in.Close()
	out, _ := os.Create(*outPath)
	defer out.Close()
	skip, _ := os.Create(*skipPath)
	defer skip.Close()
	sc := bufio.NewScanner(in)
	sc.Buffer(make([]byte, 1<<20), 1<<26)
	for sc.Scan() {
		var c struct {
			ID     string   `json:"id"`
			Src    string   `json:"src"`
			Inputs []string `json:"inputs"`
			Events []struct {
				Ev   string `json:"ev"`
				Args []any  `json:"args"`
			} `json:"events"`
		}
		if err := json.Unmarshal(sc.Bytes(), &c); err != nil {
			continue
		}
		prog, why := exportProgram(c.Src)
		if prog == nil {
			b, _ := json.Marshal(map[string]any{"id": c.ID, "why": why})
			skip.Write(append(b, '\n'))
			continue
		}
		inputs := []any{}
		for _, s := range c.Inputs {
			inputs = append(inputs, cps(s))
		}
		events := []any{}
		bad := ""
		for _, e := range c.Events {
			args := []any{}
			for _, a := range e.Args {
				switch v := a.(type) {
				case string:
					args = append(args, map[string]any{"t": "str", "cp": cps(v)})
				case float64:
					func() {
						defer func() {
							if r := recover(); r != nil {
								bad = "event argument outside the exact domain"
							}
						}()
						args = append(args, dyadic(v))
					}()
				}
			}
			events = append(events, map[string]any{"ev": e.Ev, "args": args})
		}
		if bad != "" {
			b, _ := json.Marshal(map[string]any{"id": c.ID, "why": bad})
			skip.Write(append(b, '\n'))
			continue
		}
		b, _ := json.Marshal(map[string]any{"fam": "Doc", "class": c.ID, "prog": prog, "inputs": inputs, "events": events,
			"failFast": false, "noSummary": false, "tag": []any{}, "text": cps(strings.TrimRight(c.Src, "\n") + "\n")})
		out.Write(append(b, '\n'))
	}
	return 0
}
