package main

import (
	"bufio"
	"encoding/json"
	"flag"
	"fmt"
	"os"
	"sort"
	"strconv"

	"evylang.dev/evy/pkg/evaluator"
	"evylang.dev/evy/pkg/parser"
)

func init() {
	commands["record-scope"] = recordScope
}

// payload a platform would deliver for each event (builtins.md Event Handlers)
var scopeEventArgs = map[string][]any{
	"key":     {"a"},
	"down":    {10.0, 20.0},
	"up":      {12.0, 22.0},
	"move":    {15.0, 25.0},
	"animate": {100.0},
	"input":   {"id", "val"},
}

// asciiName keeps plain ASCII names as they are and quotes every other one.
func asciiName(s string) string {
	for _, r := range s {
		if r < 0x21 || r > 0x7e || r == '"' || r == '\\' {
			return strconv.QuoteToASCII(s)
		}
	}
	return s
}

// recordScope runs programs with the verif hooks on and writes the scope and
// variable events (PushScope, PopScope, PushFuncScope, PopFuncScope, ForEnter,
// ForExit, Block, Declare, Update, Get, End) as NDJSON for validation by
// spec/ScopeStackTrace.tla.  After the top-level code every handler the
// program declares is run `rounds` times with a typical payload.
func recordScope(args []string) int {
	fs := flag.NewFlagSet("record-scope", flag.ExitOnError)
	inPath := fs.String("in", "", "ndjson: {id, src, maxEvents, rounds}")
	outPath := fs.String("out", "", "trace ndjson")
	fs.Parse(args)
	in, err := os.Open(*inPath)
	if err != nil {
		fmt.Fprintln(os.Stderr, err)
		return 2
	}
	defer in.Close()
	out, err := os.Create(*outPath)
	if err != nil {
		fmt.Fprintln(os.Stderr, err)
		return 2
	}
	defer out.Close()
	w := bufio.NewWriter(out)
	defer w.Flush()
	emit := func(ev, s, v string, n int) {
		// names and values as ASCII: the specification only compares them
		b, _ := json.Marshal(map[string]any{"ev": ev, "s": asciiName(s), "v": strconv.QuoteToASCII(v), "n": n})
		w.Write(b)
		w.WriteByte('\n')
	}
	sc := bufio.NewScanner(in)
	sc.Buffer(make([]byte, 1<<20), 1<<26)
	for sc.Scan() {
		var c struct {
			ID     string `json:"id"`
			Src    string `json:"src"`
			MaxEv  int    `json:"maxEvents"`
			Rounds int    `json:"rounds"`
		}
		if err := json.Unmarshal(sc.Bytes(), &c); err != nil {
			continue
		}
		prog, perr := parser.Parse(c.Src, evaluator.BuiltinDecls())
		if perr != nil {
			continue
		}
		emit("Reset", c.ID, "", 0)
		plat := newRecPlatform(nil, 0)
		n := 0
		cut := false
		evaluator.VerifTrace = func(ev string, f map[string]any) {
			switch ev {
			case "PushScope", "PopScope", "PushFuncScope", "PopFuncScope", "ForEnter", "ForExit", "Block", "Declare", "Update", "Get":
				if cut {
					return
				}
				n++
				if c.MaxEv > 0 && n > c.MaxEv {
					cut = true
					emit("Cut", "", "", 0)
					if plat.y.ev != nil {
						plat.y.ev.Stopped = true // end an endless recording; nothing after the cut is written
					}
					return
				}
				s, _ := f["s"].(string)
				v, _ := f["v"].(string)
				k, _ := f["n"].(int)
				emit(ev, s, v, k)
			}
		}
		ev := evaluator.NewEvaluator(plat)
		plat.y.ev = ev
		func() {
			defer func() { recover() }()
			err := ev.Eval(prog)
			if !cut {
				emit("End", classify(err), "", 0)
			}
			if err != nil || cut {
				return
			}
			names := append([]string{}, ev.EventHandlerNames...)
			sort.Strings(names)
			for r := 0; r < c.Rounds && !cut; r++ {
				for _, name := range names {
					herr := ev.HandleEvent(evaluator.Event{Name: name, Params: scopeEventArgs[name]})
					if cut {
						return
					}
					emit("End", classify(herr), "", 0)
					if herr != nil {
						return
					}
				}
			}
		}()
		evaluator.VerifTrace = nil
	}
	return 0
}
