package main

import (
	"encoding/json"
	"errors"
	"fmt"

	"evylang.dev/evy/pkg/evaluator"
	"evylang.dev/evy/pkg/lexer"
	"evylang.dev/evy/pkg/parser"
)

func init() {
	stages["lex"] = stageLex
	stages["parsetotal"] = stageParseTotal
}

// checkTokenPositions is the part of C03 that needs no token-level oracle: whatever the input, the
// offsets of the tokens increase, lie inside the input, EOF is at its end (or at a NUL character, where
// the lexer stops), and every line and column is the one of the character at the token's offset.
func checkTokenPositions(src string) string {
	runes := []rune(src)
	lx := lexer.New(src)
	prev := -1
	hasNUL := false
	for _, r := range runes {
		if r == 0 {
			hasNUL = true
		}
	}
	for i := 0; i < 4*len(runes)+8; i++ {
		t := lx.Next()
		if t.Offset < 0 || t.Offset > len(runes) {
			return fmt.Sprintf("token %s: offset %d is outside the input of %d characters", t.Type, t.Offset, len(runes))
		}
		if t.Offset <= prev {
			return fmt.Sprintf("token %s: offset %d does not advance (previous token at %d)", t.Type, t.Offset, prev)
		}
		prev = t.Offset
		line, start := 1, 0
		for j := 0; j < t.Offset; j++ {
			if runes[j] == '\n' {
				line++
				start = j + 1
			}
		}
		if t.Line != line || t.Col != t.Offset-start+1 {
			return fmt.Sprintf("token %s at offset %d: line %d column %d, the character is at line %d column %d", t.Type, t.Offset, t.Line, t.Col, line, t.Offset-start+1)
		}
		if t.Type == lexer.EOF {
			if t.Offset != len(runes) && !hasNUL {
				return fmt.Sprintf("EOF at offset %d, input has %d characters", t.Offset, len(runes))
			}
			return ""
		}
	}
	return "lexer does not reach EOF"
}

// stageLex compares the real lexer's token stream with the one the lexer
// specification produced for the same input: kind (unless "?"), offset,
// line and column of every token.
func stageLex(raw json.RawMessage) Result {
	var c struct {
		Inp  any `json:"inp"`
		Toks []struct {
			K string `json:"k"`
			O int    `json:"o"`
			L int    `json:"l"`
			C int    `json:"c"`
		} `json:"toks"`
	}
	if err := json.Unmarshal(raw, &c); err != nil {
		return Result{OK: false, Diff: "harness: " + err.Error()}
	}
	src, _ := decode(c.Inp).(string)
	obs := map[string]any{"src": src}
	if d := checkTokenPositions(src); d != "" {
		return Result{OK: false, Obs: obs, Diff: d}
	}
	lx := lexer.New(src)
	var got []*lexer.Token
	for i := 0; i < 4*len(src)+8; i++ {
		t := lx.Next()
		got = append(got, t)
		if t.Type == lexer.EOF {
			break
		}
	}
	if len(got) == 0 || got[len(got)-1].Type != lexer.EOF {
		return Result{OK: false, Obs: obs, Diff: "lexer does not reach EOF"}
	}
	// tokens whose extent the grammar does not prescribe ("?") may be cut differently:
	// compare by offset up to the first such token, then only positions of matching offsets
	wi, gi := 0, 0
	for wi < len(c.Toks) && gi < len(got) {
		w, g := c.Toks[wi], got[gi]
		if w.O != g.Offset {
			if wi > 0 && c.Toks[wi-1].K == "?" || hasUnspecBefore(c.Toks, wi) {
				// resynchronise on offsets after an unspecified stretch
				if g.Offset < w.O {
					gi++
				} else {
					wi++
				}
				continue
			}
			return Result{OK: false, Obs: obs, Diff: fmt.Sprintf("token %d: spec offset %d (%s), lexer offset %d (%s)", wi, w.O, w.K, g.Offset, g.Type)}
		}
		if w.L != g.Line || w.C != g.Col {
			return Result{OK: false, Obs: obs, Diff: fmt.Sprintf("token at offset %d: spec line %d column %d, lexer line %d column %d", w.O, w.L, w.C, g.Line, g.Col)}
		}
		if w.K != "?" && !hasUnspecBefore(c.Toks, wi) && w.K != g.Type.String() {
			return Result{OK: false, Obs: obs, Diff: fmt.Sprintf("token at offset %d: spec kind %s, lexer kind %s", w.O, w.K, g.Type)}
		}
		wi++
		gi++
	}
	if !hasUnspecBefore(c.Toks, len(c.Toks)) && (wi != len(c.Toks) || gi != len(got)) {
		return Result{OK: false, Obs: obs, Diff: fmt.Sprintf("token count: spec %d, lexer %d", len(c.Toks), len(got))}
	}
	return Result{OK: true, Obs: obs}
}

func hasUnspecBefore(toks []struct {
	K string `json:"k"`
	O int    `json:"o"`
	L int    `json:"l"`
	C int    `json:"c"`
}, i int) bool {
	for j := 0; j < i && j < len(toks); j++ {
		if toks[j].K == "?" {
			return true
		}
	}
	return false
}

// stageParseTotal: parsing an arbitrary text terminates (deadline in the
// pool), does not crash (recover / dead worker in the pool) and returns a
// program XOR a non-empty list of located errors.
func stageParseTotal(raw json.RawMessage) Result {
	var c struct {
		Src any `json:"src"`
	}
	if err := json.Unmarshal(raw, &c); err != nil {
		return Result{OK: false, Diff: "harness: " + err.Error()}
	}
	src := pieces(c.Src)
	obs := map[string]any{"src": src}
	if d := checkTokenPositions(src); d != "" {
		return Result{OK: false, Obs: obs, Diff: d}
	}
	prog, err := parser.Parse(src, evaluator.BuiltinDecls())
	if err == nil {
		if prog == nil {
			return Result{OK: false, Obs: obs, Diff: "neither a program nor an error"}
		}
		obs["verdict"] = "accepted"
		// an accepted program must also format and re-parse (cheap totality of the formatter)
		_ = prog.Format()
		return Result{OK: true, Obs: obs}
	}
	var perrs parser.Errors
	if !errors.As(err, &perrs) || len(perrs) == 0 {
		return Result{OK: false, Obs: obs, Diff: "error that is not a non-empty parser.Errors: " + err.Error()}
	}
	obs["verdict"] = "rejected"
	if d := checkLocations(src, perrs); d != "" {
		return Result{OK: false, Obs: obs, Diff: d}
	}
	return Result{OK: true, Obs: obs}
}
