package main

// C17 - emitted bytecode is well formed and the VM cannot be crashed.
//
// Stages (all dumb: the expected values come from the TLA+ specifications
// spec/Symtab.tla and spec/VMStack.tla):
//
//	c17sym     replay one Symtab behaviour (push/pop/define/resolve sequence)
//	           through the exported SymbolTable API, compare every Symbol.
//	c17render  the same behaviour rendered as an Evy program and c17compiled by
//	           the real compiler: the slot operands of the emitted
//	           OpSet*/OpGet* instructions and LocalCount/GlobalCount are
//	           compared with the specification's.
//	c17compile parse + compile one source, hand the emitted code (raw bytes
//	           and the decoding the real decoder gives) to the caller, which
//	           feeds it to VMStack.tla. Code longer than the bound is walked
//	           by the Go transcription of VMStack (fallback) and run here.
//	c17run     run the c17compiled program on the real VM with the VerifStep
//	           hook and compare the recorded (ip, sp) trace with the state
//	           graph TLC computed for that code.

import (
	"encoding/json"
	"errors"
	"fmt"
	"reflect"
	"runtime"
	"runtime/debug"
	"sort"
	"strings"
	"time"

	"evylang.dev/evy/pkg/bytecode"
	"evylang.dev/evy/pkg/evaluator"
	"evylang.dev/evy/pkg/parser"
)

func init() {
	stages["c17sym"] = stageC17Sym
	stages["c17symbatch"] = stageC17SymBatch
	stages["c17render"] = stageC17Render
	stages["c17compile"] = stageC17Compile
	stages["c17run"] = stageC17Run
}

// ---------------------------------------------------------------------------
// c17sym

type c17symOp struct {
	Op    string `json:"op"` // push pop def res
	Name  string `json:"n"`
	Found bool   `json:"found"`
	Scope string `json:"scope"`
	Index int    `json:"index"`
}

// UnmarshalJSON also accepts the compact form Symtab.tla prints:
// [op, name, found, scope, index] with op 1 push, 2 pop, 3 define, 4 resolve,
// name 0 none / 1.. = a.., scope 0 none, 1 GLOBAL, 2 LOCAL.
func (o *c17symOp) UnmarshalJSON(b []byte) error {
	if len(b) > 0 && b[0] == '[' {
		var a []int
		if err := json.Unmarshal(b, &a); err != nil {
			return err
		}
		if len(a) != 5 || a[0] < 1 || a[0] > 4 || a[1] < 0 || a[3] < 0 || a[3] > 2 {
			return fmt.Errorf("bad compact symtab op %s", b)
		}
		o.Op = []string{"", "push", "pop", "def", "res"}[a[0]]
		if a[1] > 0 {
			o.Name = c17symName(a[1])
		}
		o.Found = a[2] != 0
		o.Scope = []string{"", "GLOBAL", "LOCAL"}[a[3]]
		o.Index = a[4]
		return nil
	}
	type plain c17symOp
	return json.Unmarshal(b, (*plain)(o))
}

func c17symName(n int) string {
	if n <= 26 {
		return string(rune('a' + n - 1))
	}
	return fmt.Sprintf("v%d", n)
}

type c17symCase struct {
	ID       string  `json:"id"`
	Ops      []c17symOp `json:"ops"`
	Globals  int     `json:"globals"`  // number of globals the specification expects
	MaxLocal int     `json:"maxlocal"` // highest LOCAL index handed out (-1: none)
}

func c17privInt(v any, field string) (int, error) {
	rv := reflect.ValueOf(v)
	if rv.Kind() == reflect.Ptr {
		rv = rv.Elem()
	}
	f := rv.FieldByName(field)
	if !f.IsValid() || !f.CanInt() {
		return 0, fmt.Errorf("harness: no int field %q in %T", field, v)
	}
	return int(f.Int()), nil
}

func stageC17Sym(raw json.RawMessage) Result {
	var c c17symCase
	if err := json.Unmarshal(raw, &c); err != nil {
		return Result{OK: false, Diff: "harness: " + err.Error()}
	}
	st := bytecode.NewSymbolTable()
	var diffs []string
	for i, o := range c.Ops {
		switch o.Op {
		case "push":
			st = st.Push()
		case "pop":
			st = st.Pop()
		case "def":
			s := st.Define(o.Name)
			if s.Name != o.Name || string(s.Scope) != o.Scope || s.Index != o.Index {
				diffs = append(diffs, fmt.Sprintf("op %d Define(%s): got {%s %s %d}, specification {%s %s %d}",
					i, o.Name, s.Name, s.Scope, s.Index, o.Name, o.Scope, o.Index))
			}
		case "res":
			s, ok := st.Resolve(o.Name)
			if ok != o.Found {
				diffs = append(diffs, fmt.Sprintf("op %d Resolve(%s): found=%v, specification found=%v", i, o.Name, ok, o.Found))
			} else if ok && (s.Name != o.Name || string(s.Scope) != o.Scope || s.Index != o.Index) {
				diffs = append(diffs, fmt.Sprintf("op %d Resolve(%s): got {%s %s %d}, specification {%s %s %d}",
					i, o.Name, s.Name, s.Scope, s.Index, o.Name, o.Scope, o.Index))
			}
		default:
			return Result{OK: false, Diff: "harness: unknown op " + o.Op}
		}
	}
	// close every open scope as the compiler does at the end of a block and
	// read what the compiler would report as GlobalCount / LocalCount.
	for i := 0; i < len(c.Ops)+1; i++ {
		st = st.Pop()
	}
	globals, err := c17privInt(st, "index")
	if err != nil {
		return Result{OK: false, Diff: err.Error()}
	}
	locals, err := c17privInt(st, "nestedMaxIndex")
	if err != nil {
		return Result{OK: false, Diff: err.Error()}
	}
	if globals != c.Globals {
		diffs = append(diffs, fmt.Sprintf("GlobalCount: got %d, specification %d", globals, c.Globals))
	}
	if locals < c.MaxLocal+1 {
		diffs = append(diffs, fmt.Sprintf("LocalCount %d < 1 + highest local index %d", locals, c.MaxLocal))
	}
	obs := map[string]any{"globals": globals, "locals": locals}
	if len(diffs) > 0 {
		return Result{OK: false, Diff: strings.Join(diffs, "\n"), Obs: obs}
	}
	return Result{OK: true, Obs: obs}
}

// ---------------------------------------------------------------------------
// compile helpers

type c17compiled struct {
	parseErr   string
	compileErr string
	bc         *bytecode.Bytecode
	depth      int
	kinds      []string
	dropped    []string
}

func c17compileSrc(src string) c17compiled {
	var out c17compiled
	prog, err := parser.Parse(src, evaluator.BuiltinDecls())
	if err != nil {
		out.parseErr = c17firstLine(err.Error())
		return out
	}
	out.kinds = c17nodeKinds(prog)
	out.dropped = c17dropped(prog)
	comp := bytecode.NewCompiler()
	if err := comp.Compile(prog); err != nil {
		out.compileErr = c17firstLine(err.Error())
		return out
	}
	out.bc = comp.Bytecode()
	out.depth = comp.VerifDepth()
	return out
}

func c17firstLine(s string) string {
	if i := strings.IndexByte(s, '\n'); i >= 0 {
		s = s[:i]
	}
	if len(s) > 200 {
		s = s[:200]
	}
	return s
}

// nodeKinds returns the sorted set of parser node type names that occur in
// the program (reachable through exported fields).
func c17nodeKinds(prog *parser.Program) []string {
	seen := map[uintptr]bool{}
	kinds := map[string]bool{}
	var walk func(v reflect.Value, depth int)
	walk = func(v reflect.Value, depth int) {
		if depth > 100000 {
			return
		}
		switch v.Kind() {
		case reflect.Interface:
			if !v.IsNil() {
				walk(v.Elem(), depth+1)
			}
		case reflect.Ptr:
			if v.IsNil() {
				return
			}
			if seen[v.Pointer()] {
				return
			}
			seen[v.Pointer()] = true
			e := v.Elem()
			if e.Kind() == reflect.Struct && e.Type().PkgPath() == "evylang.dev/evy/pkg/parser" {
				name := e.Type().Name()
				if name == "Type" {
					return
				}
				if _, isNode := v.Interface().(parser.Node); isNode {
					kinds[name] = true
				}
				walk(e, depth+1)
			}
		case reflect.Struct:
			if v.Type().PkgPath() != "evylang.dev/evy/pkg/parser" {
				return
			}
			for i := 0; i < v.NumField(); i++ {
				f := v.Type().Field(i)
				if f.IsExported() && f.Name != "FuncDef" {
					walk(v.Field(i), depth+1)
				}
			}
		case reflect.Slice:
			for i := 0; i < v.Len(); i++ {
				walk(v.Index(i), depth+1)
			}
		case reflect.Map:
			it := v.MapRange()
			for it.Next() {
				walk(it.Value(), depth+1)
			}
		}
	}
	// Only the statements of the program: function bodies and event handlers
	// hang off FuncDefStmt / EventHandlerStmt nodes that are in Statements too.
	walk(reflect.ValueOf(prog.Statements), 0)
	var out []string
	for k := range kinds {
		out = append(out, k)
	}
	sort.Strings(out)
	return out
}

// c17dropped mirrors the traversal of Compiler.Compile and reports the node
// kinds the compiler reaches but has no case for, with the position they are
// in ("stmt", "value", "target"). Used ONLY to name the class of a case (so
// that known findings can be matched narrowly), never for a verdict.
func c17dropped(prog *parser.Program) []string {
	set := map[string]bool{}
	var visit func(n parser.Node, ctx string)
	block := func(b *parser.BlockStatement) {
		if b == nil {
			return
		}
		for _, s := range b.Statements {
			visit(s, "stmt")
		}
	}
	visit = func(n parser.Node, ctx string) {
		if n == nil || (reflect.ValueOf(n).Kind() == reflect.Ptr && reflect.ValueOf(n).IsNil()) {
			return
		}
		switch n := n.(type) {
		case *parser.Program:
			for _, s := range n.Statements {
				visit(s, "stmt")
			}
		case *parser.InferredDeclStmt:
			visit(n.Decl.Value, "value")
		case *parser.AssignmentStmt:
			visit(n.Value, "value")
			switch t := n.Target.(type) {
			case *parser.Var:
			case *parser.IndexExpression:
				visit(t.Left, "value")
				visit(t.Index, "value")
			default:
				visit(n.Target, "target")
			}
		case *parser.BinaryExpression:
			visit(n.Left, "value")
			visit(n.Right, "value")
		case *parser.UnaryExpression:
			visit(n.Right, "value")
		case *parser.GroupExpression:
			visit(n.Expr, ctx)
		case *parser.BreakStmt, *parser.Var, *parser.NumLiteral, *parser.BoolLiteral, *parser.StringLiteral:
		case *parser.BlockStatement:
			block(n)
		case *parser.ForStmt:
			if sr, ok := n.Range.(*parser.StepRange); ok {
				visit(sr.Stop, "value")
				if sr.Step != nil {
					visit(sr.Step, "value")
				}
				if sr.Start != nil {
					visit(sr.Start, "value")
				}
			} else {
				visit(n.Range, "value")
			}
			block(n.Block)
		case *parser.IfStmt:
			if n.IfBlock != nil {
				visit(n.IfBlock.Condition, "value")
				block(n.IfBlock.Block)
			}
			for _, e := range n.ElseIfBlocks {
				visit(e.Condition, "value")
				block(e.Block)
			}
			block(n.Else)
		case *parser.WhileStmt:
			visit(n.Condition, "value")
			block(n.Block)
		case *parser.SliceExpression:
			visit(n.Left, "value")
			visit(n.Start, "value")
			visit(n.End, "value")
		case *parser.IndexExpression:
			visit(n.Left, "value")
			visit(n.Index, "value")
		case *parser.ArrayLiteral:
			for _, e := range n.Elements {
				visit(e, "value")
			}
		case *parser.MapLiteral:
			for _, k := range n.Order {
				visit(n.Pairs[k], "value")
			}
		default:
			t := reflect.TypeOf(n)
			if t.Kind() == reflect.Ptr {
				t = t.Elem()
			}
			set[ctx+":"+t.Name()] = true
		}
	}
	visit(prog, "stmt")
	var out []string
	for k := range set {
		out = append(out, k)
	}
	sort.Strings(out)
	return out
}

type c17instr struct {
	IP int   `json:"ip"`
	Op int   `json:"op"`
	W  []int `json:"w"`
	A  []int `json:"a"`
}

// decode is the REAL decoder (bytecode.Lookup / bytecode.ReadOperands) run
// linearly over the code. It stops at the first instruction the real decoder
// cannot decode.
func c17decode(code []byte) (ins []c17instr, ipx []int, derr string) {
	ipx = make([]int, len(code)+1)
	for i := 0; i < len(code); {
		def, err := bytecode.Lookup(bytecode.Opcode(code[i]))
		if err != nil {
			return ins, ipx, fmt.Sprintf("ip %d: %v", i, err)
		}
		need := 0
		for _, w := range def.OperandWidths {
			need += w
		}
		if i+1+need > len(code) {
			return ins, ipx, fmt.Sprintf("ip %d: operands of %s run past the end of the code", i, def.Name)
		}
		ops, read := bytecode.ReadOperands(def, bytecode.Instructions(code[i+1:]))
		w := append([]int{}, def.OperandWidths...)
		if ops == nil {
			ops = []int{}
		}
		ins = append(ins, c17instr{IP: i, Op: int(code[i]), W: w, A: ops})
		ipx[i] = len(ins)
		i += 1 + read
	}
	return ins, ipx, ""
}

func c17bytesToInts(b []byte) []int {
	out := make([]int, len(b))
	for i, x := range b {
		out[i] = int(x)
	}
	return out
}

// ---------------------------------------------------------------------------
// The Go transcription of spec/VMStack.tla. It is NOT the deciding engine for
// normal-sized code: it is (1) compared with TLC's result on every program
// TLC handled, and (2) the fallback for code beyond the TLC bound.

const (
	opConstant = iota
	opGetGlobal
	opSetGlobal
	opDrop
	opGetLocal
	opSetLocal
	opAdd
	opSubtract
	opMultiply
	opDivide
	opModulo
	opTrue
	opFalse
	opNot
	opMinus
	opEqual
	opNotEqual
	opNumLessThan
	opNumLessThanEqual
	opNumGreaterThan
	opNumGreaterThanEqual
	opStringLessThan
	opStringLessThanEqual
	opStringGreaterThan
	opStringGreaterThanEqual
	opStringConcatenate
	opArray
	opArrayConcatenate
	opArrayRepeat
	opMap
	opIndex
	opSetIndex
	opSlice
	opNone
	opJump
	opJumpOnFalse
	opStepRange
	opIterRange
	numOps
)

var c17opNames = []string{"OpConstant", "OpGetGlobal", "OpSetGlobal", "OpDrop", "OpGetLocal", "OpSetLocal",
	"OpAdd", "OpSubtract", "OpMultiply", "OpDivide", "OpModulo", "OpTrue", "OpFalse",
	"OpNot", "OpMinus", "OpEqual", "OpNotEqual", "OpNumLessThan", "OpNumLessThanEqual",
	"OpNumGreaterThan", "OpNumGreaterThanEqual", "OpStringLessThan", "OpStringLessThanEqual",
	"OpStringGreaterThan", "OpStringGreaterThanEqual", "OpStringConcatenate", "OpArray",
	"OpArrayConcatenate", "OpArrayRepeat", "OpMap", "OpIndex", "OpSetIndex", "OpSlice",
	"OpNone", "OpJump", "OpJumpOnFalse", "OpStepRange", "OpIterRange"}

// specWidths mirrors OpWidth in VMStack.tla.
func c17specWidth(op int) int {
	switch op {
	case opConstant, opGetGlobal, opSetGlobal, opDrop, opGetLocal, opSetLocal,
		opArray, opMap, opJump, opJumpOnFalse, opStepRange, opIterRange:
		return 2
	}
	return 0
}

type c17walkResult struct {
	Verdict string
	// Allow[ip] = list of [sp, next ip] pairs the specification allows when
	// the VM is about to execute the instruction at ip.
	Allow map[int][][2]int
	// H[ip], Tag[ip] = abstract entry state
	H     map[int]int
	Tag   map[int]bool
	Steps int
}

func c17goWalk(code []byte, nconst, globals, locals int) c17walkResult {
	res := c17walkResult{Allow: map[int][][2]int{}, H: map[int]int{}, Tag: map[int]bool{}}
	n := len(code)
	// linear decode with the spec's own table
	boundary := make([]bool, n+1)
	for i := 0; i < n; {
		op := int(code[i])
		if op >= numOps {
			res.Verdict = fmt.Sprintf("unknown-opcode@%d", i)
			return res
		}
		if i+c17specWidth(op) >= n {
			res.Verdict = fmt.Sprintf("truncated@%d", i)
			return res
		}
		boundary[i] = true
		i += 1 + c17specWidth(op)
	}
	boundary[n] = true
	work := map[int]bool{0: true}
	res.H[0] = locals
	res.Tag[0] = false
	for len(work) > 0 {
		ip := -1
		for k := range work {
			if ip < 0 || k < ip {
				ip = k
			}
		}
		delete(work, ip)
		res.Steps++
		h, tag := res.H[ip], res.Tag[ip]
		if ip == n {
			if tag {
				res.Verdict = fmt.Sprintf("range-result-untested@%d:end", ip)
				return res
			}
			if h != locals {
				res.Verdict = fmt.Sprintf("end-height@%d:end", ip)
				return res
			}
			continue
		}
		op := int(code[ip])
		a := 0
		if c17specWidth(op) == 2 {
			a = int(code[ip+1])<<8 | int(code[ip+2])
		}
		next := ip + 1 + c17specWidth(op)
		if tag && op != opJumpOnFalse {
			res.Verdict = fmt.Sprintf("range-result-untested@%d:%s", ip, c17opNames[op])
			return res
		}
		type succ struct {
			ip, h int
			tag   bool
		}
		var succs []succ
		pops, bad := 0, ""
		switch op {
		case opConstant:
			if a >= nconst {
				bad = "constant-range"
			}
			succs = []succ{{next, h + 1, false}}
		case opGetGlobal:
			if a >= globals {
				bad = "global-range"
			}
			succs = []succ{{next, h + 1, false}}
		case opSetGlobal:
			if a >= globals {
				bad = "global-range"
			}
			pops = 1
			succs = []succ{{next, h - 1, false}}
		case opGetLocal:
			if a >= locals {
				bad = "local-range"
			}
			succs = []succ{{next, h + 1, false}}
		case opSetLocal:
			if a >= locals {
				bad = "local-range"
			}
			pops = 1
			succs = []succ{{next, h - 1, false}}
		case opDrop:
			pops = a
			succs = []succ{{next, h - a, false}}
		case opTrue, opFalse, opNone:
			succs = []succ{{next, h + 1, false}}
		case opNot, opMinus:
			pops = 1
			succs = []succ{{next, h, false}}
		case opAdd, opSubtract, opMultiply, opDivide, opModulo, opEqual, opNotEqual,
			opNumLessThan, opNumLessThanEqual, opNumGreaterThan, opNumGreaterThanEqual,
			opStringLessThan, opStringLessThanEqual, opStringGreaterThan, opStringGreaterThanEqual,
			opStringConcatenate, opArrayConcatenate, opArrayRepeat, opIndex:
			pops = 2
			succs = []succ{{next, h - 1, false}}
		case opArray:
			pops = a
			succs = []succ{{next, h - a + 1, false}}
		case opMap:
			pops = 2 * a
			succs = []succ{{next, h - 2*a + 1, false}}
		case opSetIndex:
			pops = 3
			succs = []succ{{next, h - 3, false}}
		case opSlice:
			pops = 3
			succs = []succ{{next, h - 2, false}}
		case opJump:
			succs = []succ{{a, h, false}}
		case opJumpOnFalse:
			if tag {
				// entry (h, R): sp = h+1 with true on top of the loop value, sp = h with false
				pops = 1
				succs = []succ{{next, h, false}, {a, h - 1, false}}
			} else {
				pops = 1
				succs = []succ{{next, h - 1, false}, {a, h - 1, false}}
			}
		case opStepRange:
			pops = 3
			if a != 0 {
				succs = []succ{{next, h + 1, true}}
			} else {
				succs = []succ{{next, h + 1, false}}
			}
		case opIterRange:
			pops = 2
			if a != 0 {
				succs = []succ{{next, h + 1, true}}
			} else {
				succs = []succ{{next, h + 1, false}}
			}
		}
		if bad != "" {
			res.Verdict = fmt.Sprintf("%s@%d:%s", bad, ip, c17opNames[op])
			return res
		}
		if h-pops < locals {
			res.Verdict = fmt.Sprintf("underflow@%d:%s", ip, c17opNames[op])
			return res
		}
		var al [][2]int
		if op == opJumpOnFalse && tag {
			al = [][2]int{{h + 1, next}, {h, a}}
		} else {
			for _, s := range succs {
				al = append(al, [2]int{h, s.ip})
			}
		}
		res.Allow[ip] = al
		for _, s := range succs {
			if s.ip < 0 || s.ip > n || !boundary[s.ip] {
				res.Verdict = fmt.Sprintf("jump-off-boundary@%d:%s", ip, c17opNames[op])
				return res
			}
		}
		for _, s := range succs {
			if oh, ok := res.H[s.ip]; ok {
				if oh != s.h || res.Tag[s.ip] != s.tag {
					res.Verdict = fmt.Sprintf("height-conflict@%d:%s", ip, c17opNames[op])
					return res
				}
			} else {
				res.H[s.ip] = s.h
				res.Tag[s.ip] = s.tag
				work[s.ip] = true
			}
		}
	}
	res.Verdict = "ok"
	return res
}

// ---------------------------------------------------------------------------
// VM run with the VerifStep hook

type c17step struct{ ip, op, sp int }

type c17runObs struct {
	steps   []c17step
	cut     bool   // step limit reached
	err     string // error returned by Run
	panicv  string // Go panic out of Run
	finalSP int
	ranOK   bool
	cutWhy  string
}

type c17cutRun struct{}

func c17runVM(bc *bytecode.Bytecode, limit int) (o c17runObs) {
	// Endless loops are cut after `limit` steps; loops that double a value
	// each time round (v = v + v) are cut by a heap / wall-clock guard before
	// they exhaust the machine. A cut run is a prefix of a legitimate run.
	start := time.Now()
	var ms runtime.MemStats
	n := 0
	bytecode.VerifStep = func(ip int, op byte, sp int) {
		if len(o.steps) >= limit {
			panic(c17cutRun{})
		}
		n++
		if n%8 == 0 {
			runtime.ReadMemStats(&ms)
			if ms.HeapAlloc > 256<<20 {
				o.cutWhy = "heap"
				panic(c17cutRun{})
			}
			if n%256 == 0 && time.Since(start) > 5*time.Second {
				o.cutWhy = "time"
				panic(c17cutRun{})
			}
		}
		o.steps = append(o.steps, c17step{ip, int(op), sp})
	}
	defer func() { bytecode.VerifStep = nil }()
	var vm *bytecode.VM
	func() {
		defer func() {
			if r := recover(); r != nil {
				if _, ok := r.(c17cutRun); ok {
					o.cut = true
					return
				}
				o.panicv = c17firstLine(fmt.Sprint(r))
			}
		}()
		vm = bytecode.NewVM(bc)
		err := vm.Run()
		if err != nil {
			o.err = c17firstLine(err.Error())
			if !errors.Is(err, bytecode.ErrPanic) && !errors.Is(err, bytecode.ErrInternal) {
				o.err = "undocumented error: " + o.err
			}
			return
		}
		o.ranOK = true
	}()
	if vm != nil {
		o.finalSP = vm.VerifSP()
	}
	if o.cutWhy == "heap" {
		vm = nil
		debug.FreeOSMemory()
	}
	return o
}

// checkTrace compares the recorded VM steps with the allowed (sp, next)
// pairs. It returns "" if the trace is a path of the specification.
func c17checkTrace(o c17runObs, allow map[int][][2]int, codeLen, locals int) string {
	for i, s := range o.steps {
		al, ok := allow[s.ip]
		if !ok {
			return fmt.Sprintf("step %d: VM executes ip %d which the specification never reaches", i, s.ip)
		}
		last := i == len(o.steps)-1
		if !last || o.ranOK {
			next := codeLen
			if !last {
				next = o.steps[i+1].ip
			}
			found := false
			for _, p := range al {
				if p[0] == s.sp && p[1] == next {
					found = true
				}
			}
			if !found {
				return fmt.Sprintf("step %d: at ip %d (op %d) the VM has sp=%d and continues at %d; specification allows (sp,next) in %v",
					i, s.ip, s.op, s.sp, next, al)
			}
		} else {
			found := false
			for _, p := range al {
				if p[0] == s.sp {
					found = true
				}
			}
			if !found {
				return fmt.Sprintf("step %d: at ip %d (op %d) the VM has sp=%d; specification allows (sp,next) in %v", i, s.ip, s.op, s.sp, al)
			}
		}
	}
	if o.ranOK && o.finalSP != locals {
		return fmt.Sprintf("after Run returned nil sp=%d, LocalCount=%d", o.finalSP, locals)
	}
	return ""
}

// ---------------------------------------------------------------------------
// c17compile

type c17compileCase struct {
	ID     string `json:"id"`
	Src    string `json:"src"`
	MaxTLC int    `json:"maxtlc"` // code longer than this is walked here (fallback)
	Limit  int    `json:"limit"`  // VM step limit
}

func stageC17Compile(raw json.RawMessage) Result {
	var c c17compileCase
	if err := json.Unmarshal(raw, &c); err != nil {
		return Result{OK: false, Diff: "harness: " + err.Error()}
	}
	if c.Limit == 0 {
		c.Limit = 20000
	}
	cp := c17compileSrc(c.Src)
	obs := map[string]any{"kinds": cp.kinds, "dropped": cp.dropped}
	if cp.parseErr != "" {
		obs["status"] = "parse-error"
		obs["err"] = cp.parseErr
		return Result{OK: true, Obs: obs}
	}
	if cp.compileErr != "" {
		obs["status"] = "compile-error"
		obs["err"] = cp.compileErr
		return Result{OK: true, Obs: obs}
	}
	bc := cp.bc
	code := []byte(bc.Instructions)
	obs["status"] = "compiled"
	obs["len"] = len(code)
	obs["nconst"] = len(bc.Constants)
	obs["globals"] = bc.GlobalCount
	obs["locals"] = bc.LocalCount
	obs["opendepth"] = cp.depth
	ins, ipx, derr := c17decode(code)
	obs["ninstr"] = len(ins)
	njump, nlocal := 0, 0
	for _, in := range ins {
		switch in.Op {
		case opJump, opJumpOnFalse:
			njump++
		case opGetLocal, opSetLocal:
			nlocal++
		}
	}
	obs["njump"] = njump
	obs["nlocalops"] = nlocal
	if len(code) <= c.MaxTLC {
		obs["bytes"] = c17bytesToInts(code)
		if ins == nil {
			ins = []c17instr{}
		}
		obs["instrs"] = ins
		obs["ipx"] = ipx
		obs["decode_err"] = derr
		return Result{OK: true, Obs: obs}
	}
	// fallback: code too long for TLC
	obs["fallback"] = true
	w := c17goWalk(code, len(bc.Constants), bc.GlobalCount, bc.LocalCount)
	obs["verdict"] = w.Verdict
	obs["walksteps"] = w.Steps
	if derr != "" {
		obs["decode_err"] = derr
	}
	ro := c17runVM(bc, c.Limit)
	c17fillRunObs(obs, ro)
	if w.Verdict == "ok" && ro.panicv == "" {
		obs["trace_diff"] = c17checkTrace(ro, w.Allow, len(code), bc.LocalCount)
	}
	return Result{OK: true, Obs: obs}
}

func c17fillRunObs(obs map[string]any, ro c17runObs) {
	obs["steps"] = len(ro.steps)
	obs["cut"] = ro.cut
	obs["cut_why"] = ro.cutWhy
	obs["run_err"] = ro.err
	obs["run_panic"] = ro.panicv
	obs["final_sp"] = ro.finalSP
	obs["ran_ok"] = ro.ranOK
	if len(ro.steps) > 0 {
		n := len(ro.steps)
		if n > 12 {
			n = 12
		}
		var t [][3]int
		for _, s := range ro.steps[len(ro.steps)-n:] {
			t = append(t, [3]int{s.ip, s.op, s.sp})
		}
		obs["last_steps"] = t
	}
}

// ---------------------------------------------------------------------------
// c17run

type runCase17 struct {
	ID      string              `json:"id"`
	Src     string              `json:"src"`
	Limit   int                 `json:"limit"`
	Verdict string              `json:"verdict"` // of VMStack.tla for this code
	Allow   map[string][][2]int `json:"allow"`   // ip -> (sp,next) pairs from VMStack.tla
	CodeSum string              `json:"codesum"`
}

func c17codeSum(code []byte, nconst, globals, locals int) string {
	h := uint64(1469598103934665603)
	for _, b := range code {
		h ^= uint64(b)
		h *= 1099511628211
	}
	return fmt.Sprintf("%d/%x/%d/%d/%d", len(code), h, nconst, globals, locals)
}

func stageC17Run(raw json.RawMessage) Result {
	var c runCase17
	if err := json.Unmarshal(raw, &c); err != nil {
		return Result{OK: false, Diff: "harness: " + err.Error()}
	}
	if c.Limit == 0 {
		c.Limit = 20000
	}
	cp := c17compileSrc(c.Src)
	if cp.bc == nil {
		return Result{OK: false, Diff: "harness: program no longer compiles: " + cp.parseErr + cp.compileErr}
	}
	bc := cp.bc
	code := []byte(bc.Instructions)
	obs := map[string]any{}
	if s := c17codeSum(code, len(bc.Constants), bc.GlobalCount, bc.LocalCount); c.CodeSum != "" && s != c.CodeSum {
		return Result{OK: false, Diff: "harness: compiler is not deterministic: " + s + " vs " + c.CodeSum}
	}
	allow := map[int][][2]int{}
	for k, v := range c.Allow {
		var ip int
		fmt.Sscanf(k, "%d", &ip)
		allow[ip] = v
	}
	// cross-check of the fallback walker against TLC's result
	w := c17goWalk(code, len(bc.Constants), bc.GlobalCount, bc.LocalCount)
	// (verdicts about the real decoder's records are TLC's alone: the Go walk decodes by itself)
	agree := w.Verdict == c.Verdict || strings.HasPrefix(c.Verdict, "decoder-")
	if agree && c.Verdict == "ok" {
		agree = c17sameAllow(w.Allow, allow)
	}
	obs["fallback_agrees"] = agree
	obs["fallback_verdict"] = w.Verdict
	ro := c17runVM(bc, c.Limit)
	c17fillRunObs(obs, ro)
	var diffs []string
	if ro.panicv != "" {
		diffs = append(diffs, "vm-panic: "+ro.panicv)
	} else if c.Verdict == "ok" {
		if d := c17checkTrace(ro, allow, len(code), bc.LocalCount); d != "" {
			diffs = append(diffs, "trace: "+d)
		}
	}
	if len(diffs) > 0 {
		return Result{OK: false, Diff: strings.Join(diffs, "\n"), Obs: obs}
	}
	return Result{OK: true, Obs: obs}
}

func c17sameAllow(a, b map[int][][2]int) bool {
	if len(a) != len(b) {
		return false
	}
	norm := func(x [][2]int) string {
		var s []string
		for _, p := range x {
			s = append(s, fmt.Sprint(p))
		}
		sort.Strings(s)
		// duplicates (both successors of a conditional jump to the same place) collapse
		var u []string
		for i, t := range s {
			if i == 0 || t != s[i-1] {
				u = append(u, t)
			}
		}
		return strings.Join(u, ",")
	}
	for k, v := range a {
		w, ok := b[k]
		if !ok || norm(v) != norm(w) {
			return false
		}
	}
	return true
}

// ---------------------------------------------------------------------------
// c17render: a Symtab behaviour rendered as an Evy program

type c17renderCase struct {
	ID       string  `json:"id"`
	Ops      []c17symOp `json:"ops"`
	Globals  int     `json:"globals"`
	MaxLocal int     `json:"maxlocal"`
}

func stageC17Render(raw json.RawMessage) Result {
	var c c17renderCase
	if err := json.Unmarshal(raw, &c); err != nil {
		return Result{OK: false, Diff: "harness: " + err.Error()}
	}
	// Push -> "if true", Pop -> "end", Define(n) -> "n := 0" followed by
	// "n = n" (the parser insists on a use; by the specification's
	// ResolveInnermost / DefineIdempotent the two extra resolves return the
	// symbol just defined), Resolve(n) -> "n = n" (the compiler resolves n
	// twice: OpGet*, OpSet*). A Define of a name the scope already has and a
	// Resolve of an unknown name change nothing in the specification and have
	// no Evy counterpart: they are skipped. An empty block gets
	// "while true / break / end" (no variable access; its own empty scope
	// is pushed and popped by the compiler, which can only raise LocalCount).
	var sb strings.Builder
	depth := 0
	type exp struct {
		kind  string // "set" or "get"
		scope string
		index int
	}
	var want []exp
	defined := []map[string]bool{{}}
	stmts := []int{0}
	for _, o := range c.Ops {
		ind := strings.Repeat("    ", depth)
		switch o.Op {
		case "push":
			sb.WriteString(ind + "if true\n")
			stmts[depth]++
			depth++
			defined = append(defined, map[string]bool{})
			stmts = append(stmts, 0)
		case "pop":
			if depth == 0 {
				return Result{OK: true, Obs: map[string]any{"status": "not-renderable"}}
			}
			if stmts[depth] == 0 {
				sb.WriteString(ind + "while true\n" + ind + "    break\n" + ind + "end\n")
			}
			depth--
			defined = defined[:depth+1]
			stmts = stmts[:depth+1]
			sb.WriteString(strings.Repeat("    ", depth) + "end\n")
		case "def":
			if defined[depth][o.Name] {
				continue
			}
			defined[depth][o.Name] = true
			stmts[depth]++
			sb.WriteString(ind + o.Name + " := 0\n" + ind + o.Name + " = " + o.Name + "\n")
			want = append(want, exp{"set", o.Scope, o.Index}, exp{"get", o.Scope, o.Index}, exp{"set", o.Scope, o.Index})
		case "res":
			if !o.Found {
				continue
			}
			stmts[depth]++
			sb.WriteString(ind + o.Name + " = " + o.Name + "\n")
			want = append(want, exp{"get", o.Scope, o.Index}, exp{"set", o.Scope, o.Index})
		}
	}
	for depth > 0 {
		if stmts[depth] == 0 {
			ind := strings.Repeat("    ", depth)
			sb.WriteString(ind + "while true\n" + ind + "    break\n" + ind + "end\n")
		}
		depth--
		sb.WriteString(strings.Repeat("    ", depth) + "end\n")
	}
	src := sb.String()
	cp := c17compileSrc(src)
	obs := map[string]any{}
	if len(src) < 4000 {
		obs["src"] = src
	}
	if cp.bc == nil {
		obs["status"] = "rejected"
		obs["err"] = cp.parseErr + cp.compileErr
		return Result{OK: true, Obs: obs}
	}
	obs["status"] = "compiled"
	ins, _, derr := c17decode(cp.bc.Instructions)
	if derr != "" {
		return Result{OK: false, Diff: "emitted code does not decode: " + derr, Obs: obs}
	}
	var got []exp
	for _, in := range ins {
		switch in.Op {
		case opGetGlobal:
			got = append(got, exp{"get", "GLOBAL", in.A[0]})
		case opSetGlobal:
			got = append(got, exp{"set", "GLOBAL", in.A[0]})
		case opGetLocal:
			got = append(got, exp{"get", "LOCAL", in.A[0]})
		case opSetLocal:
			got = append(got, exp{"set", "LOCAL", in.A[0]})
		}
	}
	var diffs []string
	if len(got) != len(want) {
		g, w := got, want
		if len(g) > 40 {
			g = g[:40]
		}
		if len(w) > 40 {
			w = w[:40]
		}
		diffs = append(diffs, fmt.Sprintf("%d variable accesses emitted, specification %d: got %v want %v", len(got), len(want), g, w))
	} else {
		nbad := 0
		for i := range got {
			if got[i] != want[i] {
				nbad++
				if nbad <= 4 {
					diffs = append(diffs, fmt.Sprintf("access %d: emitted %v, specification %v", i, got[i], want[i]))
				}
			}
		}
		if nbad > 4 {
			diffs = append(diffs, fmt.Sprintf("... %d accesses differ in total", nbad))
		}
	}
	if cp.bc.GlobalCount != c.Globals {
		diffs = append(diffs, fmt.Sprintf("GlobalCount: got %d, specification %d", cp.bc.GlobalCount, c.Globals))
	}
	if cp.bc.LocalCount < c.MaxLocal+1 {
		diffs = append(diffs, fmt.Sprintf("LocalCount %d < 1 + highest local index %d", cp.bc.LocalCount, c.MaxLocal))
	}
	obs["locals"] = cp.bc.LocalCount
	obs["globals"] = cp.bc.GlobalCount
	if len(diffs) > 0 {
		return Result{OK: false, Diff: strings.Join(diffs, "\n"), Obs: obs}
	}
	return Result{OK: true, Obs: obs}
}

// ---------------------------------------------------------------------------
// c17decode: run the real decoder over given raw bytes (used for the
// hand-written negative controls of VMStack.tla)

func init() { stages["c17decode"] = stageC17Decode }

func stageC17Decode(raw json.RawMessage) Result {
	var c struct {
		Bytes []int `json:"bytes"`
	}
	if err := json.Unmarshal(raw, &c); err != nil {
		return Result{OK: false, Diff: "harness: " + err.Error()}
	}
	code := make([]byte, len(c.Bytes))
	for i, b := range c.Bytes {
		code[i] = byte(b)
	}
	ins, ipx, derr := c17decode(code)
	if ins == nil {
		ins = []c17instr{}
	}
	return Result{OK: true, Obs: map[string]any{"instrs": ins, "ipx": ipx, "decode_err": derr, "bytes": c.Bytes}}
}

// ---------------------------------------------------------------------------
// c17symbatch: many Symtab behaviours in one case (API replay + rendering);
// the per-item results are returned in obs.results. A panic fails the whole
// batch; the caller then replays its items one by one.

func stageC17SymBatch(raw json.RawMessage) Result {
	var c struct {
		Items []json.RawMessage `json:"items"`
	}
	if err := json.Unmarshal(raw, &c); err != nil {
		return Result{OK: false, Diff: "harness: " + err.Error()}
	}
	out := make([]map[string]any, 0, len(c.Items))
	for _, it := range c.Items {
		a := stageC17Sym(it)
		b := stageC17Render(it)
		st, _ := b.Obs["status"].(string)
		out = append(out, map[string]any{"sym_ok": a.OK, "sym_diff": a.Diff, "ren_ok": b.OK, "ren_diff": b.Diff, "ren_status": st})
	}
	return Result{OK: true, Obs: map[string]any{"results": out}}
}
