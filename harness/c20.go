// C20 - sealed answers round-trip / answer verification is exact.
//
// Stages "c20seal" and "c20verify" replay behaviours of spec/Seal.tla and
// spec/Verify.tla on the real evylang.dev/evy/learn/pkg/learn package.
// Command "c20keys" generates fresh key pairs with learn.Keygen.
package main

import (
	"encoding/base64"
	"encoding/binary"
	"encoding/hex"
	"encoding/json"
	"errors"
	"fmt"
	"hash/fnv"
	"math/rand"
	"os"
	"path/filepath"
	"sort"
	"strconv"
	"strings"

	"evylang.dev/evy/learn/pkg/learn"
)

func init() {
	stages["c20seal"] = stageC20Seal
	stages["c20verify"] = stageC20Verify
	commands["c20keys"] = cmdC20Keys
}

// ---------------------------------------------------------------------------
// keys

func cmdC20Keys(args []string) int {
	// usage: c20keys <bits> <bits> ...
	var out []map[string]any
	for _, a := range args {
		bits, err := strconv.Atoi(a)
		if err != nil {
			fmt.Fprintln(os.Stderr, "c20keys: bad size", a)
			return 2
		}
		kp, err := learn.Keygen(bits)
		if err != nil {
			fmt.Fprintln(os.Stderr, "c20keys:", err)
			return 2
		}
		out = append(out, map[string]any{"bits": bits, "pub": kp.Public, "priv": kp.Private})
	}
	b, _ := json.Marshal(out)
	fmt.Println(string(b))
	return 0
}

// ---------------------------------------------------------------------------
// Seal

type sealStep struct {
	Kind   string `json:"kind"`
	Region string `json:"region"`
	Part   int    `json:"part"`
	Arg    string `json:"arg"`
}

type sealCase struct {
	ID     string         `json:"id"`
	TC     string         `json:"tc"`
	Key    string         `json:"key"`
	Bits   int            `json:"bits"`
	Pub    string         `json:"pub"`
	Priv   string         `json:"priv"`
	Wrong  []string       `json:"wrong"`
	Sched  []sealStep     `json:"sched"`
	Lens   []int          `json:"lens"`
	Seed   int64          `json:"seed"`
	Cap2   int            `json:"cap2"`  // variants sampled for steps after the first
	Cap1   int            `json:"cap1"`  // 0 = every variant of the first step
	Parts  map[string]int `json:"parts"` // abstract cells per region
	TagLen int            `json:"taglen"`
}

const b64alpha = "ABCDEFGHIJKLMNOPQRSTUVWXYZabcdefghijklmnopqrstuvwxyz0123456789+/"

var (
	mbRunes  = []rune{0xe9, 0xdf, 0x3bb, 0x416, 0x4e2d, 0x65e5, 0x20ac, 0x1d11e, 0x1f600, 0x301, 0xfeff, 0xfffd, 0x10ffff, 0x80, 0x7ff, 0x800, 0xffff, 0x10000}
	ctlRunes = []rune{'\n', '\r', '\t', 0, 0x7f, 0x1b, '\n', 0}
	oneRunes = []rune{'a', 'z', '\n', 0, ' ', 0xe9, 0x4e2d, 0x1f600, 0x10ffff, '=', '"', 0x7f}
)

func genText(tc string, n int, rnd *rand.Rand) string {
	ascii := func() rune { return rune(0x20 + rnd.Intn(0x5f)) }
	var rs []rune
	switch tc {
	case "empty":
		return ""
	case "one":
		return string(oneRunes[n%len(oneRunes)])
	case "ascii":
		if n <= 8 && rnd.Intn(2) == 0 { // typical choice answers: "a", "b, c" ...
			s := ""
			for len(s) < n {
				s += string(rune('a'+rnd.Intn(6))) + ", "
			}
			return s[:n]
		}
		for i := 0; i < n; i++ {
			rs = append(rs, ascii())
		}
	case "multibyte":
		for i := 0; i < n; i++ {
			rs = append(rs, mbRunes[rnd.Intn(len(mbRunes))])
		}
	case "ctl":
		for i := 0; i < n; i++ {
			if i == 0 || i == n-1 || rnd.Intn(3) == 0 {
				rs = append(rs, ctlRunes[rnd.Intn(len(ctlRunes))])
			} else {
				rs = append(rs, ascii())
			}
		}
	default: // mixed
		for i := 0; i < n; i++ {
			switch rnd.Intn(3) {
			case 0:
				rs = append(rs, ascii())
			case 1:
				rs = append(rs, mbRunes[rnd.Intn(len(mbRunes))])
			default:
				rs = append(rs, ctlRunes[rnd.Intn(len(ctlRunes))])
			}
		}
	}
	return string(rs)
}

// layout of a freshly sealed value
type layout struct {
	n      int // total bytes
	rsaLen int
	tagLen int
	parts  map[string]int
}

func (l layout) region(name string) (int, int) {
	switch name {
	case "ver":
		return 0, 1
	case "len":
		return 1, 3
	case "rsa":
		return 3, 3 + l.rsaLen
	case "ct":
		return 3 + l.rsaLen, l.n - l.tagLen
	case "tag":
		return l.n - l.tagLen, l.n
	case "junk":
		return l.n, l.n + 3
	}
	return 0, 0
}

// block returns the concrete byte range an abstract cell stands for.
func (l layout) block(region string, part int) (int, int) {
	s, e := l.region(region)
	p := l.parts[region]
	if region == "junk" {
		// junk cell 1 = first appended byte, cell 2 = the others
		if part == 1 {
			return s, s + 1
		}
		return s + 1, e
	}
	if p <= 1 {
		return s, e
	}
	size := e - s
	return s + (part-1)*size/p, s + part*size/p
}

type variant struct {
	raw   []byte // nil once final is set
	final *string
	desc  string
}

func (v variant) armoured() string {
	if v.final != nil {
		return *v.final
	}
	return base64.StdEncoding.EncodeToString(v.raw)
}

func clone(b []byte) []byte { return append([]byte(nil), b...) }

func lenClass(x, origL, curLen int) string {
	rel := "more"
	switch {
	case x == 0:
		rel = "zero"
	case x < origL:
		rel = "less"
	case x == origL:
		rel = "orig"
	}
	fit := "over"
	switch {
	case x+3 < curLen:
		fit = "in"
	case x+3 == curLen:
		fit = "exact"
	}
	return rel + "/" + fit
}

func strp(s string) *string { return &s }

// expand one abstract tamper step into every concrete variant it stands for.
func expandStep(cur variant, st sealStep, prev []sealStep, orig []byte, lay layout, rnd *rand.Rand) []variant {
	var out []variant
	raw := cur.raw
	add := func(r []byte, d string) { out = append(out, variant{raw: r, desc: cur.desc + " " + d}) }
	fin := func(s string, d string) { out = append(out, variant{final: strp(s), desc: cur.desc + " " + d}) }
	switch st.Kind {
	case "flip":
		s, e := lay.block(st.Region, st.Part)
		masks := []byte{0x01, 0x80, 0xff, byte(2 + rnd.Intn(0x7d))}
		for pos := s; pos < e && pos < len(raw); pos++ {
			for _, m := range masks {
				r := clone(raw)
				r[pos] ^= m
				add(r, fmt.Sprintf("flip[%d]^%02x", pos, m))
			}
		}
		for _, p := range prev { // a second corruption of the same cell may restore it
			if (p.Kind == "flip" || p.Kind == "a_subst") && p.Region == st.Region && e <= len(orig) && e <= len(raw) && s < e {
				r := clone(raw)
				copy(r[s:e], orig[s:e])
				add(r, fmt.Sprintf("restore[%d:%d]", s, e))
				break
			}
		}
	case "trunc":
		s, e := lay.block(st.Region, st.Part)
		for c := s; c < e && c < len(raw); c++ {
			add(clone(raw[:c]), fmt.Sprintf("trunc@%d", c))
		}
	case "extend":
		ms := []int{1}
		if st.Arg == "2" {
			ms = []int{2, 3}
		}
		for _, m := range ms {
			junk := make([]byte, m)
			rnd.Read(junk)
			add(append(clone(raw), junk...), fmt.Sprintf("extend+%x", junk))
			add(append(clone(raw), make([]byte, m)...), fmt.Sprintf("extend+0x%d", m))
			if len(raw) >= m {
				add(append(clone(raw), raw[len(raw)-m:]...), fmt.Sprintf("extend+dup%d", m))
			}
		}
	case "setlen":
		if len(raw) < 3 {
			break
		}
		curv := int(binary.BigEndian.Uint16(raw[1:]))
		cand := map[int]bool{}
		for x := 0; x <= len(raw)+8 && x <= 0xffff; x++ {
			cand[x] = true
		}
		for _, x := range []int{0xff, 0x100, 0x7fff, 0x8000, 0xfffe, 0xffff, (lay.rsaLen << 8) & 0xffff, lay.rsaLen | 0x8000, ((lay.rsaLen & 0xff) << 8) | (lay.rsaLen >> 8)} {
			cand[x] = true
		}
		xs := make([]int, 0, len(cand))
		for x := range cand {
			xs = append(xs, x)
		}
		sort.Ints(xs)
		for _, x := range xs {
			if x == curv || lenClass(x, lay.rsaLen, len(raw)) != st.Arg {
				continue
			}
			r := clone(raw)
			binary.BigEndian.PutUint16(r[1:], uint16(x))
			add(r, fmt.Sprintf("setlen=%d", x))
		}
	case "a_subst":
		s, e := lay.block(st.Region, st.Part)
		if e > len(raw) {
			e = len(raw)
		}
		str := base64.StdEncoding.EncodeToString(raw)
		nchars := (len(raw)*8 + 5) / 6
		for j := 0; j < nchars; j++ {
			lo, hi := j*6, j*6+6 // bit range of char j
			if hi > len(raw)*8 {
				hi = len(raw) * 8
			}
			if lo >= e*8 || hi <= s*8 || s >= e {
				continue
			}
			databits := hi - lo
			v := strings.IndexByte(b64alpha, str[j])
			full := 0x3f &^ ((1 << (6 - databits)) - 1) // data bits of this char
			for _, m := range []int{1 << (6 - databits), full, (1 + rnd.Intn(63)) & full} {
				if m == 0 {
					continue
				}
				b := []byte(str)
				b[j] = b64alpha[v^m]
				r, err := base64.StdEncoding.DecodeString(string(b))
				if err != nil || len(r) != len(raw) {
					continue
				}
				first := 0 // the step is labelled with the cell of the first byte that changes
				for first < len(r) && r[first] == raw[first] {
					first++
				}
				if first < s || first >= e {
					continue
				}
				add(r, fmt.Sprintf("b64[%d]:%c->%c", j, str[j], b[j]))
			}
		}
	case "a_trail":
		str := base64.StdEncoding.EncodeToString(raw)
		pad := strings.Count(str, "=")
		if pad == 0 {
			break
		}
		j := len(str) - pad - 1
		v := strings.IndexByte(b64alpha, str[j])
		unused := 2 * pad
		for m := 1; m < 1<<unused; m++ {
			b := []byte(str)
			b[j] = b64alpha[v^m]
			fin(string(b), fmt.Sprintf("b64trail[%d]^%x", j, m))
		}
	case "a_ws":
		str := base64.StdEncoding.EncodeToString(raw)
		for j := 0; j <= len(str); j++ {
			ws := []string{"\n", "\r\n", "\r"}[(j+int(rnd.Int31n(3)))%3]
			fin(str[:j]+ws+str[j:], fmt.Sprintf("b64ws@%d:%q", j, ws))
		}
	case "a_bad":
		str := base64.StdEncoding.EncodeToString(raw)
		pad := strings.Count(str, "=")
		body := len(str) - pad
		switch st.Arg {
		case "char":
			for j := 0; j < body; j++ {
				for _, c := range []string{"!", "-", "_", " ", "\x00", "\t", "\x80", "*"} {
					fin(str[:j]+c+str[j+1:], fmt.Sprintf("b64bad[%d]=%q", j, c))
				}
			}
		case "indel":
			for j := 0; j < len(str); j++ {
				fin(str[:j]+str[j+1:], fmt.Sprintf("b64del[%d]", j))
				fin(str[:j]+string(b64alpha[rnd.Intn(64)])+str[j:], fmt.Sprintf("b64ins[%d]", j))
			}
		case "pad":
			if pad > 0 {
				fin(str[:len(str)-1], "b64pad-1")
				fin(str[:body], "b64nopad")
				fin(str+"=", "b64pad+1")
				fin(str[:body]+strings.Repeat("A", pad), "b64pad->A")
				fin(str[:body]+"A"+strings.Repeat("=", pad-1), "b64pad1->A")
			} else {
				fin(str+"=", "b64+=")
				fin(str+"==", "b64+==")
				fin(str+"====", "b64+====")
			}
			for j := 0; j < body; j++ { // '=' in the middle; at the very end it is a valid shorter value
				fin(str[:j]+"="+str[j+1:], fmt.Sprintf("b64[%d]='='", j))
			}
			if body >= 2 && pad == 0 {
				fin(str[:body-2]+"==", "b64tail->==")
			}
		}
	case "a_trunc":
		str := base64.StdEncoding.EncodeToString(raw)
		for c := 0; c < len(str); c++ {
			if (st.Arg == "quantum") != (c%4 == 0) {
				continue
			}
			fin(str[:c], fmt.Sprintf("b64trunc@%d", c))
		}
	case "a_ext":
		str := base64.StdEncoding.EncodeToString(raw)
		for m := 1; m <= 5; m++ {
			if (st.Arg == "quantum") != (m == 4 && !strings.HasSuffix(str, "=")) {
				continue
			}
			b := make([]byte, m)
			for i := range b {
				b[i] = b64alpha[rnd.Intn(64)]
			}
			fin(str+string(b), fmt.Sprintf("b64ext+%s", b))
		}
	}
	return out
}

func sample(vs []variant, k int, rnd *rand.Rand) []variant {
	if k <= 0 || len(vs) <= k {
		return vs
	}
	// always keep first and last, sample the rest
	idx := map[int]bool{0: true, len(vs) - 1: true}
	for len(idx) < k {
		idx[rnd.Intn(len(vs))] = true
	}
	keys := make([]int, 0, k)
	for i := range idx {
		keys = append(keys, i)
	}
	sort.Ints(keys)
	out := make([]variant, 0, k)
	for _, i := range keys {
		out = append(out, vs[i])
	}
	return out
}

func safeDecrypt(priv, sealed string) (out string, err error, pan string) {
	defer func() {
		if r := recover(); r != nil {
			pan = fmt.Sprint(r)
		}
	}()
	out, err = learn.Decrypt(priv, sealed)
	return
}

// blindSweep alters every byte of a sealed value without knowing its layout.
func blindSweep(priv string, right bool, text string, orig []byte) (string, int) {
	n := 0
	try := func(raw []byte, what string) string {
		n++
		out, err, pan := safeDecrypt(priv, base64.StdEncoding.EncodeToString(raw))
		if pan != "" {
			return fmt.Sprintf("Decrypt PANIC %s after %s", pan, what)
		}
		if err == nil && out != text {
			return fmt.Sprintf("Decrypt returned a DIFFERENT text %q (hex %s) without error after %s; original %q", out, hex.EncodeToString([]byte(out)), what, text)
		}
		return ""
	}
	if right {
		if out, err, _ := safeDecrypt(priv, base64.StdEncoding.EncodeToString(orig)); err != nil || out != text {
			return fmt.Sprintf("round trip: untouched sealed value gives %q, %v; original %q", out, err, text), 1
		}
	}
	for i := range orig {
		for _, m := range []byte{0x01, 0x80, 0xff} {
			raw := append([]byte{}, orig...)
			raw[i] ^= m
			if d := try(raw, fmt.Sprintf("flipping byte %d with mask %02x", i, m)); d != "" {
				return d, n
			}
		}
		for v := byte(0); v < 4; v++ {
			if orig[i] == v {
				continue
			}
			raw := append([]byte{}, orig...)
			raw[i] = v
			if d := try(raw, fmt.Sprintf("setting byte %d to %d", i, v)); d != "" {
				return d, n
			}
		}
		if d := try(append([]byte{}, orig[:i]...), fmt.Sprintf("truncating to %d bytes", i)); d != "" {
			return d, n
		}
	}
	if d := try(append(append([]byte{}, orig...), 0), "appending a zero byte"); d != "" {
		return d, n
	}
	return "", n
}

func stageC20Seal(raw json.RawMessage) Result {
	var c sealCase
	if err := json.Unmarshal(raw, &c); err != nil {
		return Result{OK: false, Diff: "harness: " + err.Error()}
	}
	h := fnv.New64a()
	h.Write([]byte(c.ID))
	rnd := rand.New(rand.NewSource(c.Seed ^ int64(h.Sum64()>>1))) //nolint:gosec
	privs := []string{c.Priv}
	if c.Key == "wrong" {
		privs = c.Wrong
	}
	evals, nOrig, nRej, skipped := 0, 0, 0, 0
	var sampleDesc string
	fail := func(f string, a ...any) Result {
		return Result{OK: false, Diff: fmt.Sprintf(f, a...), Obs: map[string]any{"evals": evals}}
	}
	for _, n := range c.Lens {
		text := genText(c.TC, n, rnd)
		sealed, err := learn.Encrypt(c.Pub, text)
		if err != nil {
			return fail("seal: Encrypt failed for text %q (hex %s): %v", text, hex.EncodeToString([]byte(text)), err)
		}
		orig, err := base64.StdEncoding.DecodeString(sealed)
		if err != nil {
			return fail("layout: sealed value is not standard base64: %v", err)
		}
		lay := layout{n: len(orig), rsaLen: (c.Bits + 7) / 8, tagLen: c.TagLen, parts: c.Parts}
		if len(orig) != 3+lay.rsaLen+len(text)+lay.tagLen || orig[0] != 1 || int(binary.BigEndian.Uint16(orig[1:])) != lay.rsaLen {
			// The envelope is not laid out as Seal.tla assumes (the property does not prescribe a layout): the
			// region-wise schedule cannot be applied, so every byte position is altered blindly instead -
			// flips with masks 01 / 80 / ff, every small value, every truncation, one appended byte - and the
			// law is the same: rejected, or the original text.
			for _, priv := range privs {
				d, n := blindSweep(priv, c.Key == "right", text, orig)
				evals += n
				if d != "" {
					return fail("%s (envelope of %d bytes, header %x, not the layout of the model)", d, len(orig), orig[:3])
				}
			}
			skipped++
			continue
		}
		cur := []variant{{raw: orig, desc: ""}}
		for i, st := range c.Sched {
			var next []variant
			for _, v := range cur {
				if v.final != nil { // armour-terminal step already applied
					continue
				}
				vs := expandStep(v, st, c.Sched[:i], orig, lay, rnd)
				if i == 0 {
					vs = sample(vs, c.Cap1, rnd)
				} else {
					vs = sample(vs, c.Cap2, rnd)
				}
				next = append(next, vs...)
			}
			cur = next
		}
		if len(cur) == 0 {
			skipped++
			continue
		}
		for _, v := range cur {
			arm := v.armoured()
			for ki, priv := range privs {
				out, err, pan := safeDecrypt(priv, arm)
				evals++
				desc := fmt.Sprintf("text=%q (hex %s) key=%s#%d tamper:%s sealed=%s", text, hex.EncodeToString([]byte(text)), c.Key, ki, v.desc, arm)
				if pan != "" {
					r := fail("Decrypt PANIC %s on %s", pan, desc)
					r.Crash = true
					return r
				}
				if err != nil {
					nRej++
					if len(c.Sched) == 0 && c.Key == "right" {
						return fail("round trip: Decrypt rejected an untouched sealed value: %v; %s", err, desc)
					}
					continue
				}
				if out != text {
					return fail("Decrypt returned a DIFFERENT text %q (hex %s) without error; %s", out, hex.EncodeToString([]byte(out)), desc)
				}
				nOrig++
				if sampleDesc == "" {
					sampleDesc = desc
				}
			}
		}
		if len(c.Sched) == 0 && c.Key == "right" && text != "" {
			if d := fmRoundTrip(c, text); d != "" {
				return fail("%s", d)
			}
			evals++
			nOrig++
		}
	}
	return Result{OK: true, Obs: map[string]any{"evals": evals, "original": nOrig, "reject": nRej, "skipped_texts": skipped, "sample": sampleDesc}}
}

// fmRoundTrip seals and unseals text as the answer of a question's front
// matter (questionfm.go Seal / Unseal through QuestionModel.Seal / Unseal).
func fmRoundTrip(c sealCase, text string) string {
	fm := "---\ntype: question\ndifficulty: easy\nanswer-type: text\nanswer: x\n---\n"
	md := "Write it:\n\n```\nx\n```\n\nProgram:\n\n```evy\n\n```\n"
	m, err := learn.NewQuestionModel("course/unit/exercise/q.md", learn.WithRawMD(fm, md), learn.WithPrivateKey(c.Priv))
	if err != nil {
		return "harness: text question does not load: " + err.Error()
	}
	m.Frontmatter.Answer = text
	desc := fmt.Sprintf("answer %q (hex %s)", text, hex.EncodeToString([]byte(text)))
	if err := m.Seal(c.Pub); err != nil {
		return "fm-seal: Seal failed: " + err.Error() + "; " + desc
	}
	if m.Frontmatter.Answer != "" || m.Frontmatter.SealedAnswer == "" {
		return fmt.Sprintf("fm-seal: after Seal answer=%q sealed-answer=%q; %s", m.Frontmatter.Answer, m.Frontmatter.SealedAnswer, desc)
	}
	if err := m.Unseal(); err != nil {
		return "fm-seal: Unseal with the matching key failed: " + err.Error() + "; " + desc
	}
	if m.Frontmatter.Answer != text || m.Frontmatter.SealedAnswer != "" {
		return fmt.Sprintf("fm-seal: Unseal returned a DIFFERENT answer %q (hex %s); %s", m.Frontmatter.Answer, hex.EncodeToString([]byte(m.Frontmatter.Answer)), desc)
	}
	// the round trip holds for every text, also on an object that has sealed and unsealed before:
	// change the answer, seal again, unseal again
	for round, text2 := range []string{text + "#2", "z", text} {
		m.Frontmatter.Answer = text2
		if err := m.Seal(c.Pub); err != nil {
			return fmt.Sprintf("fm-seal: re-Seal %d failed: %v; %s", round, err, desc)
		}
		if err := m.Unseal(); err != nil {
			return fmt.Sprintf("fm-seal: Unseal after re-Seal %d failed: %v; %s", round, err, desc)
		}
		if m.Frontmatter.Answer != text2 {
			return fmt.Sprintf("fm-seal: after sealing %q on an object that had been unsealed before, Unseal returned %q; %s", text2, m.Frontmatter.Answer, desc)
		}
	}
	return ""
}

// ---------------------------------------------------------------------------
// Verify

type verifyCase struct {
	ID     string `json:"id"`
	Form   string `json:"form"`
	AType  string `json:"atype"`
	N      int    `json:"n"`
	Out    []int  `json:"out"`
	Marked []int  `json:"marked"`
	Expect string `json:"expect"`
	Spell  string `json:"spell"` // lower | upperfirst | upperlast: spelling of the marked letters
	Seed   int64  `json:"seed"`
	Tmp    string `json:"tmp"`
	Sealed bool   `json:"sealed"`
	Pub    string `json:"pub"`
	Priv   string `json:"priv"`
	Wrong  string `json:"wrong"`
}

var valueSets = [][3]string{
	{"hi", "ho", "hey"},
	{"3", "4", "12"},
	{"ab", "a b", "ba"},
	{"Evy", "evy", "EVY"},
}

// progFor returns a program for output class o: classes 0..2 print vals[o] and a newline; class 3
// prints the question's text (vals[0]) without the final line break.
func progFor(vals [3]string, o, variant int) string {
	if o == 3 {
		if variant%2 == 0 {
			return "printf \"" + vals[0] + "\"\n"
		}
		return "printf \"%v\" \"" + vals[0] + "\"\n"
	}
	return textProg(vals[o], variant)
}

// evy programs printing v, by variant
func textProg(v string, variant int) string {
	switch variant % 4 {
	case 1:
		return "x := \"" + v + "\"\nprint x\n"
	case 2:
		return "print \"" + v + "\" // say it\n"
	case 3:
		return "if true\n    print \"" + v + "\"\nend\n"
	}
	return "print \"" + v + "\"\n"
}

var drawings = [3][]string{
	{"move 50 50\ncircle 10\n", "move 50 50\ncircle 10 // dot\n", "x := 50\nmove x x\ncircle 10\n"},
	{"move 50 50\ncircle 20\n", "move 50 50\ncircle 20 // dot\n", "x := 50\nmove x x\ncircle 20\n"},
	{"move 20 20\nrect 10 10\n", "move 20 20\nrect 10 10 // box\n", "x := 10\nmove 20 20\nrect x x\n"},
}

func indent(s, pre string) string {
	lines := strings.Split(strings.TrimSuffix(s, "\n"), "\n")
	return strings.Join(lines, "\n"+pre)
}

func buildQuestion(c verifyCase, dir string, rnd *rand.Rand) (md string, answer string, err error) {
	vals := valueSets[rnd.Intn(len(valueSets))]
	var b strings.Builder
	b.WriteString("## A question\n\nLook at this:\n\n")
	write := func(name, content string) error {
		p := filepath.Join(dir, name)
		if err := os.MkdirAll(filepath.Dir(p), 0o755); err != nil {
			return err
		}
		return os.WriteFile(p, []byte(content), 0o644)
	}
	pv := rnd.Intn(4)
	switch c.Form {
	case "evyq_text": // question is a program, choices are text outputs
		b.WriteString("```evy\n" + textProg(vals[0], pv) + "```\n\nChoose:\n\n")
		for i := 0; i < c.N; i++ {
			b.WriteString("- ```\n  " + vals[c.Out[i]] + "\n  ```\n")
		}
	case "evyq_inline": // choices are inline code
		b.WriteString("```evy\n" + textProg(vals[0], pv) + "```\n\nChoose:\n\n")
		for i := 0; i < c.N; i++ {
			b.WriteString("- `" + vals[c.Out[i]] + "`\n")
		}
	case "textq_evy": // question is an output, choices are programs
		b.WriteString("```\n" + vals[0] + "\n```\n\nChoose:\n\n")
		for i := 0; i < c.N; i++ {
			b.WriteString("- ```evy\n  " + indent(progFor(vals, c.Out[i], pv+i), "  ") + "\n  ```\n")
		}
	case "link": // linked evy files
		if err := write("src/q.evy", textProg(vals[0], pv)); err != nil {
			return "", "", err
		}
		b.WriteString("[question](src/q.evy \"evy:text\")\n\nChoose:\n\n")
		for i := 0; i < c.N; i++ {
			name := fmt.Sprintf("src/c%d.evy", i)
			if err := write(name, progFor(vals, c.Out[i], pv+1+i)); err != nil {
				return "", "", err
			}
			b.WriteString("- [answer](" + name + " \"evy:source\")\n")
		}
	case "svg": // question is a drawing program, choices are images generated from evy files
		b.WriteString("```evy\n" + drawings[0][pv%3] + "```\n\nChoose:\n\n")
		for i := 0; i < c.N; i++ {
			name := fmt.Sprintf("img/c%d.evy", i)
			if err := write(name, drawings[c.Out[i]][(pv+1+i)%3]); err != nil {
				return "", "", err
			}
			b.WriteString("- ![answer](" + name + ".svg)\n")
		}
	default:
		return "", "", fmt.Errorf("unknown form %q", c.Form)
	}
	letters := make([]string, len(c.Marked))
	for i, m := range c.Marked {
		letters[i] = string(rune('a' + m - 1))
		if (c.Spell == "upperfirst" && i == 0) || (c.Spell == "upperlast" && i == len(c.Marked)-1) {
			letters[i] = strings.ToUpper(letters[i])
		}
	}
	switch rnd.Intn(3) {
	case 0:
		answer = strings.Join(letters, ", ")
	case 1:
		for i, j := 0, len(letters)-1; i < j; i, j = i+1, j-1 {
			letters[i], letters[j] = letters[j], letters[i]
		}
		answer = strings.Join(letters, ",")
	default:
		rnd.Shuffle(len(letters), func(i, j int) { letters[i], letters[j] = letters[j], letters[i] })
		answer = strings.Join(letters, ", ")
	}
	return b.String(), answer, nil
}

func frontmatter(c verifyCase, field, value string, rnd *rand.Rand) string {
	diff := []string{"easy", "medium", "hard"}[rnd.Intn(3)]
	return "---\ntype: question\ndifficulty: " + diff + "\nanswer-type: " + c.AType + "\n" + field + ": " + value + "\n---\n\n"
}

func verdictOf(err error) string {
	switch {
	case err == nil:
		return "accept"
	case errors.Is(err, learn.ErrWrongAnswer):
		return "reject"
	}
	return "other"
}

func stageC20Verify(raw json.RawMessage) Result {
	var c verifyCase
	if err := json.Unmarshal(raw, &c); err != nil {
		return Result{OK: false, Diff: "harness: " + err.Error()}
	}
	h := fnv.New64a()
	h.Write([]byte(c.ID))
	rnd := rand.New(rand.NewSource(c.Seed ^ int64(h.Sum64()>>1))) //nolint:gosec
	if err := os.MkdirAll(c.Tmp, 0o755); err != nil {
		return Result{OK: false, Diff: "harness: " + err.Error()}
	}
	root, err := os.MkdirTemp(c.Tmp, "q")
	if err != nil {
		return Result{OK: false, Diff: "harness: " + err.Error()}
	}
	defer os.RemoveAll(root)
	dir := filepath.Join(root, "course", "unit", "exercise")
	if err := os.MkdirAll(dir, 0o755); err != nil {
		return Result{OK: false, Diff: "harness: " + err.Error()}
	}
	md, answer, err := buildQuestion(c, dir, rnd)
	if err != nil {
		return Result{OK: false, Diff: "harness: " + err.Error()}
	}
	file := filepath.Join(dir, "q.md")
	content := frontmatter(c, "answer", answer, rnd) + md
	if err := os.WriteFile(file, []byte(content), 0o644); err != nil {
		return Result{OK: false, Diff: "harness: " + err.Error()}
	}
	obs := map[string]any{"answer": answer, "file": content}
	m, err := learn.NewQuestionModel(file)
	if err != nil && c.Spell != "" && c.Spell != "lower" {
		obs["verdict"] = "refused"
		return Result{OK: true, Obs: obs} // an upper-case letter may be refused when the question is read
	}
	if err != nil {
		obs["verdict"] = "other"
		obs["err"] = "load: " + err.Error()
		return Result{OK: false, Diff: "harness: valid question does not load: " + err.Error(), Obs: obs}
	}
	if len(m.AnswerChoices) != c.N {
		obs["verdict"] = "other"
		return Result{OK: false, Diff: fmt.Sprintf("harness: question has %d choices, wanted %d", len(m.AnswerChoices), c.N), Obs: obs}
	}
	verr := m.Verify()
	got := verdictOf(verr)
	obs["verdict"] = got
	if verr != nil {
		obs["err"] = verr.Error()
	}
	if got == "other" && c.Spell != "" && c.Spell != "lower" {
		obs["verdict"] = "refused"
		return Result{OK: true, Obs: obs} // an upper-case letter may be refused when the answer is read
	}
	if got == "other" {
		return Result{OK: false, Diff: "harness: unrelated error from Verify: " + verr.Error(), Obs: obs}
	}
	if got != c.Expect {
		return Result{OK: false, Diff: fmt.Sprintf("Verify: expected %s, got %s (answer %q, %d choices, outputs %v, question output 0; err=%v)", c.Expect, got, answer, c.N, c.Out, verr), Obs: obs}
	}
	if !c.Sealed {
		return Result{OK: true, Obs: obs}
	}
	// front-matter level: Seal / Unseal / getAnswer on the same question
	m, err = learn.NewQuestionModel(file, learn.WithPrivateKey(c.Priv))
	if err != nil {
		return Result{OK: false, Diff: "harness: reload: " + err.Error(), Obs: obs}
	}
	if err := m.Seal(c.Pub); err != nil {
		return Result{OK: false, Diff: fmt.Sprintf("fm-seal: Seal failed for answer %q: %v", answer, err), Obs: obs}
	}
	sealed := m.Frontmatter.SealedAnswer
	if m.Frontmatter.Answer != "" || sealed == "" || !m.IsSealed() {
		return Result{OK: false, Diff: fmt.Sprintf("fm-seal: after Seal answer=%q sealed-answer=%q", m.Frontmatter.Answer, sealed), Obs: obs}
	}
	if g := verdictOf(m.Verify()); g != got { // getAnswer unseals with the private key
		return Result{OK: false, Diff: fmt.Sprintf("fm-seal: verdict of the sealed question is %s, of the unsealed one %s (answer %q)", g, got, answer), Obs: obs}
	}
	sfile := filepath.Join(dir, "qs.md")
	if err := os.WriteFile(sfile, []byte(frontmatter(c, "sealed-answer", sealed, rnd)+md), 0o644); err != nil {
		return Result{OK: false, Diff: "harness: " + err.Error()}
	}
	m2, err := learn.NewQuestionModel(sfile, learn.WithPrivateKey(c.Priv))
	if err != nil {
		return Result{OK: false, Diff: "harness: sealed question does not load: " + err.Error(), Obs: obs}
	}
	if g := verdictOf(m2.Verify()); g != got {
		return Result{OK: false, Diff: fmt.Sprintf("fm-seal: verdict of the sealed file is %s, of the unsealed one %s (answer %q)", g, got, answer), Obs: obs}
	}
	if err := m2.Unseal(); err != nil {
		return Result{OK: false, Diff: fmt.Sprintf("fm-seal: Unseal with the matching key failed: %v (answer %q)", err, answer), Obs: obs}
	}
	if m2.Frontmatter.Answer != answer || m2.Frontmatter.SealedAnswer != "" {
		return Result{OK: false, Diff: fmt.Sprintf("fm-seal: Unseal returned answer %q (sealed-answer %q), original %q", m2.Frontmatter.Answer, m2.Frontmatter.SealedAnswer, answer), Obs: obs}
	}
	// wrong key: rejected, or still the same verdict; Unseal: error or the original answer
	m3, err := learn.NewQuestionModel(sfile, learn.WithPrivateKey(c.Wrong))
	if err != nil {
		return Result{OK: false, Diff: "harness: sealed question does not load (wrong key): " + err.Error(), Obs: obs}
	}
	if err := m3.Unseal(); err == nil && m3.Frontmatter.Answer != answer {
		return Result{OK: false, Diff: fmt.Sprintf("fm-seal: Unseal with ANOTHER key returned answer %q, original %q", m3.Frontmatter.Answer, answer), Obs: obs}
	}
	// corrupted sealed-answer in the front matter (one character)
	pos := rnd.Intn(len(sealed))
	repl := b64alpha[(strings.IndexByte(b64alpha, sealed[pos])+1+rnd.Intn(62))%64]
	if sealed[pos] == '=' {
		repl = 'A'
	}
	bad := sealed[:pos] + string(repl) + sealed[pos+1:]
	if err := os.WriteFile(sfile, []byte(frontmatter(c, "sealed-answer", bad, rnd)+md), 0o644); err != nil {
		return Result{OK: false, Diff: "harness: " + err.Error()}
	}
	m4, err := learn.NewQuestionModel(sfile, learn.WithPrivateKey(c.Priv))
	if err == nil {
		if err := m4.Unseal(); err == nil && m4.Frontmatter.Answer != answer {
			return Result{OK: false, Diff: fmt.Sprintf("fm-seal: Unseal of a corrupted sealed-answer (char %d) returned answer %q, original %q", pos, m4.Frontmatter.Answer, answer), Obs: obs}
		}
	}
	obs["fm_seal"] = true
	return Result{OK: true, Obs: obs}
}
