package main

// Stage "svg" (property C19): run a drawing program either in-process
// (cli.NewPlatform(cli.WithSVG(...)) + evaluator + WriteSVG, as main.go's
// runCmd does) or through the real binary `evy run --svg-out -`, flatten
// the SVG document and compare it with the shapes the specification
// (spec/Svg.tla) says are on the canvas.

import (
	"bytes"
	"context"
	"encoding/json"
	"errors"
	"fmt"
	"io"
	"math"
	"os"
	"os/exec"
	"path/filepath"
	"sort"
	"strings"
	"syscall"
	"time"

	"evylang.dev/evy/pkg/cli"
	"evylang.dev/evy/pkg/evaluator"
	"evylang.dev/evy/pkg/parser"
)

func init() {
	stages["svg"] = stageSVG
	stages["svgbatch"] = stageSVGBatch
}

// stageSVGBatch runs many "svg" cases in one round trip to the worker (the
// pipe hand-over per case costs more than the case itself). A hang or crash
// is then attributed to the batch; the driver re-runs such a batch case by
// case.
func stageSVGBatch(raw json.RawMessage) Result {
	var b struct {
		Cases []json.RawMessage `json:"cases"`
	}
	if err := json.Unmarshal(raw, &b); err != nil {
		return Result{OK: false, Diff: "harness: bad svgbatch case: " + err.Error()}
	}
	out := make([]Result, len(b.Cases))
	ok := true
	for i, c := range b.Cases {
		out[i] = dispatchCase(c)
		ok = ok && out[i].OK
	}
	return Result{OK: ok, Obs: map[string]any{"results": out}}
}

const nanSentinel = 2000000000

type svgExpShape struct {
	K   string         `json:"k"`
	G   []float64      `json:"g"`
	T   string         `json:"t"`
	St  map[string]any `json:"st"`
	Ts  map[string]any `json:"ts"`
	Obs []string       `json:"obs"`
	Ci  int            `json:"ci"`
}

type svgCase struct {
	ID        string            `json:"id"`
	Mode      string            `json:"mode"` // inproc | bin
	Evy       string            `json:"evy"`
	Tmp       string            `json:"tmp"`
	Stdin     bool              `json:"stdin"`
	Src       string            `json:"src"`
	Outcome   string            `json:"outcome"`
	Drawn     []svgExpShape     `json:"drawn"`
	Flags     map[string]string `json:"flags"`
	TimeoutMs int               `json:"timeoutMs"`
	KeepDoc   bool              `json:"keepDoc"`
	Doc       string            `json:"doc"`  // mode "doc": the document to check
	Unit      float64           `json:"unit"` // model units per canvas unit (default 10)
	Tol       float64           `json:"tol"`  // absolute tolerance on numbers (default: 1e-9 relative)
	CPUSecs   int               `json:"cpuSecs"`
	// Out: where --svg-out points: "" or "stdout" (-), "fresh" (a path that does not exist), "longer" / "shorter"
	// (an existing file that holds a longer / shorter document of an earlier run)
	Out string `json:"out"`
}

type svgDiff struct {
	I     int    `json:"i"` // index into drawn (-1: whole document)
	Field string `json:"field"`
	Exp   any    `json:"exp"`
	Got   any    `json:"got"`
	Kind  string `json:"kind"`
}

// model numbers are integers in units of 1/gUnit canvas unit (10 for the
// family: tenths; 100000 for recorded traces, compared with tolerance gTol)
var (
	gUnit = 10.0
	gTol  = 0.0
)

func tenth(v float64) float64 {
	if v == nanSentinel {
		return math.NaN()
	}
	return v / gUnit
}

func jsonNum(v float64) any {
	if math.IsNaN(v) {
		return "NaN"
	}
	if math.IsInf(v, 0) {
		return fmt.Sprint(v)
	}
	return v
}

var geomNames = map[string][]string{
	"line":    {"x1", "y1", "x2", "y2"},
	"rect":    {"x0", "y0", "x1", "y1"},
	"circle":  {"x", "y", "r"},
	"ellipse": {"x", "y", "rx", "ry", "tilt", "start", "end"},
	"text":    {"x", "y"},
	"clear":   {},
}

func stageSVG(raw json.RawMessage) Result {
	var c svgCase
	if err := json.Unmarshal(raw, &c); err != nil {
		return Result{OK: false, Diff: "harness: bad svg case: " + err.Error()}
	}
	var doc []byte
	var outcome, detail string
	gUnit, gTol = 10, 0
	if c.Unit > 0 {
		gUnit = c.Unit
	}
	if c.Tol > 0 {
		gTol = c.Tol
	}
	switch c.Mode {
	case "doc":
		doc, outcome = []byte(c.Doc), c.Outcome
	case "bin":
		var res *Result
		doc, outcome, detail, res = runEvyBinary(&c)
		if res != nil {
			return *res
		}
	default:
		doc, outcome, detail = runInProcess(&c)
	}
	obs := map[string]any{"outcome": outcome, "bytes": len(doc)}
	if c.KeepDoc {
		obs["doc"] = string(doc)
		obs["detail"] = detail
	}
	var diffs []svgDiff
	add := func(i int, kind, field string, exp, got any) {
		diffs = append(diffs, svgDiff{I: i, Kind: kind, Field: field, Exp: exp, Got: got})
	}
	if c.Outcome != "unspec" && outcome != c.Outcome {
		add(-1, "", "outcome", c.Outcome, outcome+" "+detail)
	}
	root, shapes, ferrs, fatal := flattenSVG(doc)
	if fatal != nil {
		add(-1, "", "wellformed", "a well-formed SVG document", fatal.Error()+" :: "+clip(string(doc), 300))
	} else {
		for _, e := range ferrs {
			add(-1, "", "flatten", "", e)
		}
		for _, k := range []string{"style", "width", "height"} {
			if want, ok := c.Flags[k]; ok && root.Attr[k] != want {
				add(-1, "", "root."+k, want, root.Attr[k])
			}
		}
		if c.Outcome != "unspec" {
			compareShapes(&c, shapes, add)
		}
		obs["shapes"] = len(shapes)
	}
	if len(diffs) == 0 {
		return Result{OK: true, Obs: obs}
	}
	obs["diffs"] = diffs
	var sb strings.Builder
	for i, d := range diffs {
		if i >= 6 {
			fmt.Fprintf(&sb, "... %d more\n", len(diffs)-i)
			break
		}
		fmt.Fprintf(&sb, "%s\n", diffLine(d))
	}
	return Result{OK: false, Diff: sb.String(), Obs: obs}
}

func diffLine(d svgDiff) string {
	e, _ := json.Marshal(d.Exp)
	g, _ := json.Marshal(d.Got)
	if d.I < 0 {
		return fmt.Sprintf("document: %s: spec %s, implementation %s", d.Field, e, g)
	}
	return fmt.Sprintf("shape %d (%s): %s: spec %s, implementation %s", d.I, d.Kind, d.Field, e, g)
}

func clip(s string, n int) string {
	if len(s) > n {
		return s[:n] + "..."
	}
	return s
}

func runInProcess(c *svgCase) (doc []byte, outcome, detail string) {
	rt := cli.NewPlatform(cli.WithSkipSleep(true), cli.WithOutputWriter(io.Discard),
		cli.WithSVG(c.Flags["style"], c.Flags["width"], c.Flags["height"]))
	eval := evaluator.NewEvaluator(rt)
	err := eval.Run(c.Src)
	outcome = classify(err)
	if err != nil {
		detail = err.Error()
	}
	var buf bytes.Buffer
	if !errors.As(err, &parser.Errors{}) { // as runCmd.Run does
		if werr := rt.WriteSVG(&buf); werr != nil {
			detail += " WriteSVG: " + werr.Error()
			outcome = "writesvg-error"
		}
	}
	return buf.Bytes(), outcome, detail
}

func runEvyBinary(c *svgCase) (doc []byte, outcome, detail string, res *Result) {
	// A hang is recognised by CPU time, not by wall-clock time (the machine may
	// be loaded): the child runs under `ulimit -t` (hard limit: SIGKILL; the Go
	// runtime ignores the soft limit's SIGXCPU), and under `timeout -s KILL` so
	// that it ends even if this worker is killed by the replay pool first.
	to := time.Duration(c.TimeoutMs) * time.Millisecond
	if to <= 0 {
		to = 60 * time.Second
	}
	cpu := c.CPUSecs
	if cpu <= 0 {
		cpu = 4
	}
	ctx, cancel := context.WithTimeout(context.Background(), to+5*time.Second)
	defer cancel()
	outPath := ""
	args := []string{"run", "--svg-out", "-"}
	if c.Out != "" && c.Out != "stdout" {
		if err := os.MkdirAll(c.Tmp, 0o755); err != nil {
			return nil, "", "", &Result{OK: false, Diff: "harness: " + err.Error()}
		}
		outPath = filepath.Join(c.Tmp, strings.ReplaceAll(c.ID, "/", "_")+".svg")
		os.Remove(outPath)
		old := `<svg xmlns="http://www.w3.org/2000/svg"><rect width="1" height="1"/></svg>` + "\n"
		if c.Out == "longer" {
			old = `<svg xmlns="http://www.w3.org/2000/svg">` + strings.Repeat(`<circle cx="1" cy="2" r="3"/>`+"\n", 4000) + `</svg>` + "\n"
		}
		if c.Out != "fresh" {
			if err := os.WriteFile(outPath, []byte(old), 0o644); err != nil {
				return nil, "", "", &Result{OK: false, Diff: "harness: " + err.Error()}
			}
		}
		defer os.Remove(outPath)
		args[2] = outPath
	}
	for _, k := range []string{"style", "width", "height"} {
		if v, ok := c.Flags[k]; ok {
			args = append(args, "--svg-"+k, v)
		}
	}
	var stdin io.Reader
	if c.Stdin {
		stdin = strings.NewReader(c.Src)
	} else {
		if err := os.MkdirAll(c.Tmp, 0o755); err != nil {
			return nil, "", "", &Result{OK: false, Diff: "harness: " + err.Error()}
		}
		p := filepath.Join(c.Tmp, strings.ReplaceAll(c.ID, "/", "_")+".evy")
		if err := os.WriteFile(p, []byte(c.Src), 0o644); err != nil {
			return nil, "", "", &Result{OK: false, Diff: "harness: " + err.Error()}
		}
		defer os.Remove(p)
		args = append(args, p)
	}
	script := fmt.Sprintf(`ulimit -t %d; exec "$0" "$@"`, cpu)
	full := append([]string{"-s", "KILL", fmt.Sprintf("%.1f", to.Seconds()), "sh", "-c", script, c.Evy}, args...)
	cmd := exec.CommandContext(ctx, "timeout", full...)
	cmd.SysProcAttr = &syscall.SysProcAttr{Pdeathsig: syscall.SIGKILL}
	cmd.Stdin = stdin
	var so, se bytes.Buffer
	cmd.Stdout = &so
	cmd.Stderr = &se
	t0 := time.Now()
	err := cmd.Run()
	elapsed := time.Since(t0)
	if ee := (*exec.ExitError)(nil); ctx.Err() == context.DeadlineExceeded ||
		(errors.As(err, &ee) && (ee.ExitCode() == 137 || ee.ExitCode() == -1)) {
		if elapsed < to-300*time.Millisecond {
			return nil, "", "", &Result{OK: false, Timeout: true, Obs: map[string]any{"cpulimit": true},
				Diff: fmt.Sprintf("no result within %d s of CPU time (hang): evy %s", cpu, strings.Join(args, " "))}
		}
		return nil, "", "", &Result{OK: false, Timeout: true, Obs: map[string]any{"walltimeout": true},
			Diff: fmt.Sprintf("no result within %v of wall-clock time: evy %s", to, strings.Join(args, " "))}
	}
	code := 0
	var ee *exec.ExitError
	if errors.As(err, &ee) {
		code = ee.ExitCode()
	} else if err != nil && !errors.Is(err, exec.ErrWaitDelay) {
		return nil, "", "", &Result{OK: false, Diff: "harness: cannot run evy: " + err.Error()}
	}
	detail = fmt.Sprintf("exit %d stderr %q", code, clip(se.String(), 200))
	switch {
	case code == 0 && se.Len() == 0:
		outcome = "ok"
	case code == 1 && strings.Contains(se.String(), "panic: bad arguments"):
		outcome = "panic:badargs"
	case code == 1 && strings.Contains(se.String(), "panic"):
		outcome = "panic:other"
	default:
		outcome = fmt.Sprintf("exit:%d", code)
	}
	if outPath != "" {
		// the document is what the file holds after the run
		b, rerr := os.ReadFile(outPath)
		if rerr != nil {
			if outcome == "ok" {
				return nil, "", "", &Result{OK: false, Obs: map[string]any{"src": c.Src}, Diff: "evy run --svg-out FILE ended normally but wrote no file: " + rerr.Error()}
			}
			b = nil
		}
		return b, outcome, detail, nil
	}
	return so.Bytes(), outcome, detail, nil
}

func expStyleValue(e *svgExpShape, field string) any {
	src := e.St
	if _, ok := e.St[field]; !ok {
		src = e.Ts
	}
	v := src[field]
	switch field {
	case "width", "size", "ls", "weight":
		f, _ := v.(float64)
		return tenth(f)
	case "dash":
		arr, _ := v.([]any)
		out := make([]float64, len(arr))
		for i, x := range arr {
			f, _ := x.(float64)
			out[i] = tenth(f)
		}
		return out
	case "stroke", "fill":
		s, _ := v.(string)
		if cp, ok := canonPaint(s); ok {
			return cp
		}
		return s
	}
	return v
}

func sameValue(a, b any) bool {
	switch x := a.(type) {
	case float64:
		y, ok := b.(float64)
		return ok && feq(x, y)
	case []float64:
		y, ok := b.([]float64)
		if !ok || len(x) != len(y) {
			return false
		}
		for i := range x {
			if !feq(x[i], y[i]) {
				return false
			}
		}
		return true
	case string:
		y, ok := b.(string)
		return ok && x == y
	}
	return false
}

func showValue(v any) any {
	switch x := v.(type) {
	case float64:
		return jsonNum(x)
	case []float64:
		out := make([]any, len(x))
		for i, f := range x {
			out[i] = jsonNum(f)
		}
		return out
	}
	return v
}

func compareShapes(c *svgCase, got []flatShape, add func(i int, kind, field string, exp, got any)) {
	if len(got) != len(c.Drawn) {
		kinds := func() (e, g []string) {
			for _, x := range c.Drawn {
				e = append(e, x.K)
			}
			for _, x := range got {
				g = append(g, x.Kind)
			}
			return
		}
		e, g := kinds()
		add(-1, "", "count", fmt.Sprintf("%d shapes %v", len(e), clipList(e)), fmt.Sprintf("%d shapes %v", len(g), clipList(g)))
		return
	}
	for i := range c.Drawn {
		e := &c.Drawn[i]
		g := &got[i]
		if e.K == "gline" {
			// the lines of one grid command: a set (neither the order of the lines nor
			// their direction is observable); handled block-wise below
			if i == 0 || c.Drawn[i-1].K != "gline" || c.Drawn[i-1].Ci != e.Ci {
				j := i
				for j < len(c.Drawn) && c.Drawn[j].K == "gline" && c.Drawn[j].Ci == e.Ci {
					j++
				}
				compareGrid(c, got, i, j, add)
			}
			continue
		} else if e.K != g.Kind {
			add(i, e.K, "kind", e.K, g.Kind+" <"+g.Elem+">")
			continue
		}
		switch e.K {
		case "poly":
			exp := make([]float64, len(e.G))
			for j, v := range e.G {
				exp[j] = tenth(v)
			}
			gp := g.Pts
			if gp == nil {
				gp = []float64{}
			}
			if !sameValue(exp, gp) {
				add(i, e.K, "pts", showValue(exp), showValue(gp))
			}
		default:
			names := geomNames[e.K]
			for j, nm := range names {
				if j >= len(e.G) {
					break
				}
				ev := tenth(e.G[j])
				if e.K == "ellipse" && (nm == "start" || nm == "end") {
					if !sameArc(tenth(e.G[5]), tenth(e.G[6]), g.Geom["start"], g.Geom["end"]) {
						add(i, e.K, nm, jsonNum(ev), jsonNum(g.Geom[nm]))
					}
					continue
				}
				gv, ok := g.Geom[nm]
				if ok && g.Arc && !math.IsNaN(ev) && math.Abs(ev-gv) <= 1e-6 {
					continue // centre and radii recovered from an arc's end points are ill-conditioned near half turns
				}
				if !ok || !feq(ev, gv) {
					add(i, e.K, nm, jsonNum(ev), jsonNum(gv))
				}
			}
		}
		if e.K == "text" && e.T != g.Text {
			add(i, e.K, "text", e.T, g.Text)
		}
		obs := append([]string(nil), e.Obs...)
		sort.Strings(obs)
		for _, fld := range obs {
			ev := expStyleValue(e, fld)
			gv := g.Style[fld]
			if !sameValue(ev, gv) {
				add(i, e.K, fld, showValue(ev), showValue(gv))
			}
		}
	}
}

// normLine orders the end points of a segment.
func normLine(v []float64) []float64 {
	if v[0] > v[2] || (v[0] == v[2] && v[1] > v[3]) {
		return []float64{v[2], v[3], v[0], v[1]}
	}
	return v
}

func lessLine(a, b []float64) bool {
	for i := range a {
		if a[i] != b[i] {
			return a[i] < b[i]
		}
	}
	return false
}

// compareGrid compares the expected lines c.Drawn[lo:hi] of one grid command
// with got[lo:hi] as sets of undirected segments with a style.
func compareGrid(c *svgCase, got []flatShape, lo, hi int, add func(i int, kind, field string, exp, got any)) {
	type ent struct {
		idx int
		g   []float64
	}
	var ex, gt []ent
	for i := lo; i < hi; i++ {
		e := &c.Drawn[i]
		ex = append(ex, ent{i, normLine([]float64{tenth(e.G[0]), tenth(e.G[1]), tenth(e.G[2]), tenth(e.G[3])})})
		g := &got[i]
		if g.Kind != "line" {
			add(i, "gline", "kind", "line", g.Kind+" <"+g.Elem+">")
			return
		}
		gt = append(gt, ent{i, normLine([]float64{g.Geom["x1"], g.Geom["y1"], g.Geom["x2"], g.Geom["y2"]})})
	}
	sort.SliceStable(ex, func(a, b int) bool { return lessLine(ex[a].g, ex[b].g) })
	sort.SliceStable(gt, func(a, b int) bool { return lessLine(gt[a].g, gt[b].g) })
	for k := range ex {
		e := &c.Drawn[ex[k].idx]
		g := &got[gt[k].idx]
		for j, nm := range geomNames["line"] {
			if !feq(ex[k].g[j], gt[k].g[j]) {
				add(ex[k].idx, "gline", nm, jsonNum(ex[k].g[j]), jsonNum(gt[k].g[j]))
			}
		}
		obs := append([]string(nil), e.Obs...)
		sort.Strings(obs)
		for _, fld := range obs {
			ev := expStyleValue(e, fld)
			gv := g.Style[fld]
			if !sameValue(ev, gv) {
				add(ex[k].idx, "gline", fld, showValue(ev), showValue(gv))
			}
		}
	}
}

// sameArc: the expected start/end angles (degrees) against the observed
// ones. A full turn is a full turn; otherwise start (mod 360) and the signed
// extent must agree, in either orientation (the documentation does not say
// whether angles run clockwise or counter-clockwise).
func sameArc(es, ee, gs, ge float64) bool {
	near := func(a, b float64) bool { return math.Abs(a-b) <= 1e-3 } // angles recovered from end points
	mod := func(a float64) float64 {
		a = math.Mod(a, 360)
		if a < 0 {
			a += 360
		}
		if near(a, 360) {
			a = 0
		}
		return a
	}
	if math.IsNaN(es) || math.IsNaN(ee) || math.IsNaN(gs) || math.IsNaN(ge) {
		return math.IsNaN(es) == math.IsNaN(gs) && math.IsNaN(ee) == math.IsNaN(ge)
	}
	efull, gfull := math.Abs(ee-es) >= 360-1e-9, math.Abs(ge-gs) >= 360-1e-9
	if efull || gfull {
		return efull && gfull
	}
	if near(mod(es), mod(gs)) && near(ee-es, ge-gs) {
		return true
	}
	return near(mod(-es), mod(gs)) && near(-(ee-es), ge-gs)
}

func nDiff(a, b []float64) int {
	n := 0
	for i := range a {
		if !feq(a[i], b[i]) {
			n++
		}
	}
	return n
}

func clipList(l []string) []string {
	if len(l) > 12 {
		return append(append([]string(nil), l[:12]...), "...")
	}
	return l
}
