package main

import (
	"errors"
	"fmt"
	"math"
	"sort"
	"strings"
	"time"

	"evylang.dev/evy/pkg/evaluator"
	"evylang.dev/evy/pkg/parser"
)

// recPlatform is a recording implementation of evaluator.Platform: every
// call the evaluator makes on the platform becomes one entry of Effects.
type recPlatform struct {
	Effects [][]any
	// YieldAt[i] is the number of yields seen when effect i was recorded.
	YieldAt []int
	Inputs  []string
	y       *recYielder
	// onEffect, when set, is called for every recorded effect.
	onEffect func(e []any)
}

type recYielder struct {
	n       int
	stopAt  int // raise the stop flag at this yield (1-based); 0 = never
	ev      *evaluator.Evaluator
	stopped bool
	// afterStop counts yields that happen after the flag was raised.
	afterStop int
	onRaise   func()
}

func (y *recYielder) Yield() {
	y.n++
	if y.stopped {
		y.afterStop++
	}
	if y.stopAt > 0 && y.n == y.stopAt && y.ev != nil {
		y.ev.Stopped = true
		y.stopped = true
		if y.onRaise != nil {
			y.onRaise()
		}
	}
}

func newRecPlatform(inputs []string, stopAt int) *recPlatform {
	return &recPlatform{Inputs: inputs, y: &recYielder{stopAt: stopAt}}
}

func (p *recPlatform) add(e ...any) {
	p.Effects = append(p.Effects, e)
	p.YieldAt = append(p.YieldAt, p.y.n)
	if p.onEffect != nil {
		p.onEffect(e)
	}
}

func (p *recPlatform) Print(s string) { p.add("print", s) }
func (p *recPlatform) Read() string {
	if len(p.Inputs) == 0 {
		p.add("read", "")
		return ""
	}
	s := p.Inputs[0]
	p.Inputs = p.Inputs[1:]
	p.add("read", s)
	return s
}
func (p *recPlatform) Cls()                      { p.add("cls") }
func (p *recPlatform) Sleep(d time.Duration)     { p.add("sleep", d.Seconds()) }
func (p *recPlatform) Yielder() evaluator.Yielder { return p.y }
func (p *recPlatform) Move(x, y float64)         { p.add("move", x, y) }
func (p *recPlatform) Line(x, y float64)         { p.add("line", x, y) }
func (p *recPlatform) Rect(dx, dy float64)       { p.add("rect", dx, dy) }
func (p *recPlatform) Circle(r float64)          { p.add("circle", r) }
func (p *recPlatform) Width(w float64)           { p.add("width", w) }
func (p *recPlatform) Color(s string)            { p.add("color", s) }
func (p *recPlatform) Clear(c string)            { p.add("clear", c) }
func (p *recPlatform) Poly(v [][]float64) {
	e := []any{"poly"}
	for _, pt := range v {
		for _, c := range pt {
			e = append(e, c)
		}
	}
	p.add(e...)
}
func (p *recPlatform) Ellipse(x, y, rx, ry, rot, sa, ea float64) {
	p.add("ellipse", x, y, rx, ry, rot, sa, ea)
}
func (p *recPlatform) Stroke(s string) { p.add("stroke", s) }
func (p *recPlatform) Fill(s string)   { p.add("fill", s) }
func (p *recPlatform) Dash(segs []float64) {
	e := []any{"dash"}
	for _, s := range segs {
		e = append(e, s)
	}
	p.add(e...)
}
func (p *recPlatform) Linecap(s string) { p.add("linecap", s) }
func (p *recPlatform) Text(s string)    { p.add("text", s) }
func (p *recPlatform) Font(props map[string]any) {
	keys := make([]string, 0, len(props))
	for k := range props {
		keys = append(keys, k)
	}
	sort.Strings(keys)
	e := []any{"font"}
	for _, k := range keys {
		e = append(e, k, props[k])
	}
	p.add(e...)
}
func (p *recPlatform) Gridn(unit float64, color string) { p.add("gridn", unit, color) }

// classify maps the error returned by the evaluator to the result class
// vocabulary of the specification (EvyMachine.tla, variable status).
func classify(err error) string {
	if err == nil {
		return "ok"
	}
	var exitErr evaluator.ExitError
	var testErrs evaluator.TestErrors
	var perrs parser.Errors
	var userPanic evaluator.PanicError
	switch {
	case errors.As(err, &perrs):
		return "parse"
	case errors.Is(err, evaluator.ErrStopped):
		return "stopped"
	case errors.As(err, &exitErr):
		return fmt.Sprintf("exit:%d", int(exitErr))
	case errors.As(err, &testErrs):
		return "testfail"
	case errors.Is(err, evaluator.ErrTest):
		return "testfail"
	case errors.Is(err, evaluator.ErrInternal):
		return "internal"
	case errors.As(err, &userPanic):
		return "panic:user"
	case errors.Is(err, evaluator.ErrBounds):
		return "panic:bounds"
	case errors.Is(err, evaluator.ErrIndexValue):
		return "panic:indexvalue"
	case errors.Is(err, evaluator.ErrSlice):
		return "panic:slice"
	case errors.Is(err, evaluator.ErrMapKey):
		return "panic:mapkey"
	case errors.Is(err, evaluator.ErrRangevalue):
		return "panic:range"
	case errors.Is(err, evaluator.ErrBadArguments):
		return "panic:badargs"
	case errors.Is(err, evaluator.ErrBadRepetition):
		return "panic:badrep"
	case errors.Is(err, evaluator.ErrAnyConversion):
		return "panic:anyconv"
	case errors.Is(err, evaluator.ErrVarNotSet):
		return "panic:varnotset"
	case errors.Is(err, evaluator.ErrPanic):
		return "panic:other"
	}
	return "unknown:" + err.Error()
}

// decode converts the JSON rendering of specification values into Go
// values: {"cp":[..]} is a string given by code points, {"m":..,"e":..} a
// dyadic rational m/2^e, {"sp":"inf"|"-inf"|"nan"} a special float.
func decode(v any) any {
	switch x := v.(type) {
	case map[string]any:
		if cp, ok := x["cp"]; ok {
			arr, _ := cp.([]any)
			var sb strings.Builder
			for _, c := range arr {
				sb.WriteRune(rune(int(c.(float64))))
			}
			return sb.String()
		}
		if bs, ok := x["bytes"]; ok {
			arr, _ := bs.([]any)
			b := make([]byte, len(arr))
			for i, c := range arr {
				b[i] = byte(int(c.(float64)))
			}
			return string(b)
		}
		if x["t"] == "bool" {
			if b, ok := x["b"].(bool); ok {
				return b
			}
		}
		if m, ok := x["m"]; ok {
			e, _ := x["e"].(float64)
			return m.(float64) / math.Pow(2, e)
		}
		if sp, ok := x["sp"]; ok {
			switch sp {
			case "inf":
				return math.Inf(1)
			case "-inf":
				return math.Inf(-1)
			case "nan":
				return math.NaN()
			}
		}
		out := map[string]any{}
		for k, e := range x {
			out[k] = decode(e)
		}
		return out
	case []any:
		out := make([]any, len(x))
		for i, e := range x {
			out[i] = decode(e)
		}
		return out
	}
	return v
}

// pieces joins a rendered token/whitespace list into source text.
func pieces(v any) string {
	arr, ok := v.([]any)
	if !ok {
		if s, ok := decode(v).(string); ok {
			return s
		}
		return ""
	}
	var sb strings.Builder
	for _, p := range arr {
		switch d := decode(p).(type) {
		case string:
			sb.WriteString(d)
		case []any:
			sb.WriteString(pieces(p))
		case float64:
			sb.WriteString(fmtNum(d))
		}
	}
	return sb.String()
}

func fmtNum(f float64) string {
	return strings.TrimSuffix(fmt.Sprintf("%v", f), ".0")
}

func normEffects(e [][]any) []any {
	out := make([]any, len(e))
	for i, x := range e {
		y := make([]any, len(x))
		for j, a := range x {
			switch v := a.(type) {
			case int:
				y[j] = float64(v)
			default:
				y[j] = v
			}
		}
		out[i] = y
	}
	return out
}

func effectString(e any) string {
	return fmt.Sprintf("%q", e)
}
