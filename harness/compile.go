package main

import (
	"encoding/json"
	"errors"
	"fmt"
	"sort"

	"evylang.dev/evy/pkg/bytecode"
	"evylang.dev/evy/pkg/evaluator"
	"evylang.dev/evy/pkg/parser"
)

func init() {
	stages["compile"] = stageCompile
}

type compileCase struct {
	ID      string `json:"id"`
	Src     any    `json:"src"`
	Divz    bool   `json:"divz"`
	Globals globalsMap `json:"globals"`
	Expect struct {
		Result []string `json:"result"`
	} `json:"expect"`
}

type globalVal struct {
	OK bool `json:"ok"`
	CP any  `json:"cp"`
}

// globalsMap decodes the specification's function name -> value; TLC prints
// the empty function as an empty JSON array.
type globalsMap map[string]globalVal

func (g *globalsMap) UnmarshalJSON(b []byte) error {
	if len(b) > 0 && b[0] == '[' {
		*g = globalsMap{}
		return nil
	}
	m := map[string]globalVal{}
	if err := json.Unmarshal(b, &m); err != nil {
		return err
	}
	*g = m
	return nil
}

func classifyVM(err error) string {
	switch {
	case err == nil:
		return "ok"
	case errors.Is(err, bytecode.ErrDivideByZero):
		return "panic:divzero"
	case errors.Is(err, bytecode.ErrBounds):
		return "panic:bounds"
	case errors.Is(err, bytecode.ErrIndexValue):
		return "panic:indexvalue"
	case errors.Is(err, bytecode.ErrMapKey):
		return "panic:mapkey"
	case errors.Is(err, bytecode.ErrSlice):
		return "panic:slice"
	case errors.Is(err, bytecode.ErrRangeValue):
		return "panic:range"
	case errors.Is(err, bytecode.ErrBadRepetition):
		return "panic:badrep"
	case errors.Is(err, bytecode.ErrStackOverflow):
		return "panic:stackoverflow"
	case errors.Is(err, bytecode.ErrInternal):
		return "internal"
	case errors.Is(err, bytecode.ErrPanic):
		return "panic:other"
	}
	return "unknown:" + err.Error()
}

// stageCompile is the three-way comparison of C16: specification (final
// globals in the case) vs tree-walking evaluator vs compiler + VM.
func stageCompile(raw json.RawMessage) Result {
	var c compileCase
	if err := json.Unmarshal(raw, &c); err != nil {
		return Result{OK: false, Diff: "harness: " + err.Error()}
	}
	src := pieces(c.Src)
	obs := map[string]any{"src": src}
	prog, err := parser.Parse(src, evaluator.BuiltinDecls())
	if err != nil {
		return Result{OK: false, Obs: obs, Diff: "specification says this program is well-formed, parser rejects it: " + firstLine(err.Error())}
	}
	want := map[string]string{}
	for n, g := range c.Globals {
		if g.OK {
			want[n], _ = decode(map[string]any{"cp": g.CP}).(string)
		}
	}
	specOK := contains(c.Expect.Result, "ok")
	// 1. evaluator
	plat := newRecPlatform(nil, 0)
	ev := evaluator.NewEvaluator(plat)
	eerr := ev.Eval(prog)
	ecls := classify(eerr)
	obs["evaluator"] = ecls
	if !contains(c.Expect.Result, ecls) {
		return Result{OK: false, Obs: obs, Diff: fmt.Sprintf("evaluator result: spec %v, implementation %s", c.Expect.Result, ecls)}
	}
	if specOK {
		got := ev.VerifGlobalStrings()
		for n, w := range want {
			if g, ok := got[n]; !ok || g != w {
				return Result{OK: false, Obs: obs, Diff: fmt.Sprintf("evaluator global %s: spec %q, implementation %q", n, w, g)}
			}
		}
	}
	// 2. compiler + VM (parse again: the compiler must see a fresh tree)
	prog2, _ := parser.Parse(src, evaluator.BuiltinDecls())
	comp := bytecode.NewCompiler()
	if cerr := comp.Compile(prog2); cerr != nil {
		obs["compile"] = cerr.Error()
		obs["vm"] = "rejected"
		return Result{OK: true, Obs: obs} // a compile-time rejection is always allowed
	}
	bc := comp.Bytecode()
	vm := bytecode.NewVM(bc)
	steps := 0
	bytecode.VerifStep = func(ip int, op byte, sp int) {
		steps++
		if steps > 2000000 {
			panic("verif: VM step limit exceeded (program terminates on the evaluator)")
		}
	}
	verr := vm.Run()
	bytecode.VerifStep = nil
	vcls := classifyVM(verr)
	obs["vm"] = vcls
	if vcls == "panic:divzero" {
		if c.Divz {
			return Result{OK: true, Obs: obs}
		}
		return Result{OK: false, Obs: obs, Diff: "VM reports division by zero, the specification evaluates no division or modulo by zero"}
	}
	if !contains(c.Expect.Result, vcls) {
		return Result{OK: false, Obs: obs, Diff: fmt.Sprintf("VM result: spec %v, VM %s (evaluator %s)", c.Expect.Result, vcls, ecls)}
	}
	if specOK {
		vals, _ := vm.VerifGlobals()
		syms := comp.VerifSymbols()
		names := make([]string, 0, len(want))
		for n := range want {
			names = append(names, n)
		}
		sort.Strings(names)
		for _, n := range names {
			idx, ok := syms[n]
			if !ok || idx >= len(vals) {
				return Result{OK: false, Obs: obs, Diff: fmt.Sprintf("VM has no global %s (the statement declaring it was left out); spec %q", n, want[n])}
			}
			if vals[idx] != want[n] {
				return Result{OK: false, Obs: obs, Diff: fmt.Sprintf("VM global %s: spec %q, VM %q (evaluator agrees with spec)", n, want[n], vals[idx])}
			}
		}
	}
	return Result{OK: true, Obs: obs}
}
