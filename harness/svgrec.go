package main

// Stage "svgrec" (property C19, direction B): run one drawing program of the
// repository on the real evaluator with the real pkg/cli/svg platform behind
// a recording front, and return the graphics calls the evaluator made (as
// command records of spec/Svg.tla, numbers in units of 1e-5 canvas unit)
// together with the SVG document the run produced.

import (
	"bytes"
	"encoding/json"
	"errors"
	"fmt"
	"io"
	"math"
	"os"
	"sort"
	"time"

	"evylang.dev/evy/pkg/cli"
	"evylang.dev/evy/pkg/evaluator"
	"evylang.dev/evy/pkg/parser"
)

func init() {
	stages["svgrec"] = stageSVGRec
}

const recUnit = 100000 // model units per canvas unit in recorded traces (U = 10000)

type recCmd struct {
	Op string    `json:"op"`
	N  []int64   `json:"n"`
	S  string    `json:"s"`
	Ns int       `json:"ns"`
	Hs []int64   `json:"hs"`
	Fp []recProp `json:"fp"`
	Vl []int     `json:"vl"`
}

type recProp struct {
	K   string `json:"k"`
	Num int64  `json:"num"`
	Str string `json:"str"`
}

// teePlatform records every graphics call and forwards it to the real SVG
// platform. Strings the model cannot hold verbatim are replaced by tokens.
type teePlatform struct {
	*cli.Platform
	g        evaluator.GraphicsPlatform
	ev       *evaluator.Evaluator
	calls    []recCmd
	strs     map[string]string // token -> string
	maxCalls int
	steps    int
	maxSteps int
	bad      string // set when a number cannot be represented
}

type teeYielder struct{ p *teePlatform }

func (y teeYielder) Yield() {
	y.p.steps++
	if y.p.steps > y.p.maxSteps && y.p.ev != nil {
		y.p.ev.Stopped = true
	}
}

func (p *teePlatform) Yielder() evaluator.Yielder { return teeYielder{p} }
func (p *teePlatform) Read() string               { return "" }
func (p *teePlatform) Sleep(time.Duration)        {}
func (p *teePlatform) Print(string)               {}
func (p *teePlatform) Cls()                       {}

func (p *teePlatform) num(v float64) int64 {
	if math.IsNaN(v) {
		return nanSentinel
	}
	if math.IsInf(v, 0) || math.Abs(v) > 15000 {
		p.bad = fmt.Sprintf("number %v is outside the fixed-point range of the trace specification", v)
		return 0
	}
	return int64(math.Round(v * recUnit))
}

func (p *teePlatform) nums(v ...float64) []int64 {
	out := make([]int64, len(v))
	for i, x := range v {
		out[i] = p.num(x)
	}
	return out
}

func (p *teePlatform) token(prefix, s string) string {
	t := fmt.Sprintf("%s%d", prefix, len(p.strs))
	for k, v := range p.strs {
		if v == s && k[:1] == prefix {
			return k
		}
	}
	p.strs[t] = s
	return t
}

// colour: canonical spelling of a valid CSS paint, the model's "bogus" otherwise.
func colourArg(s string) string {
	if c, ok := canonPaint(s); ok {
		return c
	}
	return "bogus"
}

func (p *teePlatform) add(c recCmd) {
	if c.N == nil {
		c.N = []int64{}
	}
	c.Hs = []int64{}
	if c.Fp == nil {
		c.Fp = []recProp{}
	}
	if c.Vl == nil {
		c.Vl = []int{}
	}
	p.calls = append(p.calls, c)
	if len(p.calls) >= p.maxCalls && p.ev != nil {
		p.ev.Stopped = true
	}
}

func (p *teePlatform) Move(x, y float64)   { p.add(recCmd{Op: "move", N: p.nums(x, y)}); p.g.Move(x, y) }
func (p *teePlatform) Line(x, y float64)   { p.add(recCmd{Op: "line", N: p.nums(x, y)}); p.g.Line(x, y) }
func (p *teePlatform) Rect(w, h float64)   { p.add(recCmd{Op: "rect", N: p.nums(w, h)}); p.g.Rect(w, h) }
func (p *teePlatform) Circle(r float64)    { p.add(recCmd{Op: "circle", N: p.nums(r)}); p.g.Circle(r) }
func (p *teePlatform) Width(w float64)     { p.add(recCmd{Op: "width", N: p.nums(w)}); p.g.Width(w) }
func (p *teePlatform) Color(s string)      { p.add(recCmd{Op: "color", S: colourArg(s), Ns: 1}); p.g.Color(s) }
func (p *teePlatform) Stroke(s string)     { p.add(recCmd{Op: "stroke", S: colourArg(s), Ns: 1}); p.g.Stroke(s) }
func (p *teePlatform) Fill(s string)       { p.add(recCmd{Op: "fill", S: colourArg(s), Ns: 1}); p.g.Fill(s) }
func (p *teePlatform) Linecap(s string)    { p.add(recCmd{Op: "linecap", S: s, Ns: 1}); p.g.Linecap(s) }
func (p *teePlatform) Text(s string)       { p.add(recCmd{Op: "text", S: p.token("T", s), Ns: 1}); p.g.Text(s) }
func (p *teePlatform) Dash(segs []float64) { p.add(recCmd{Op: "dash", N: p.nums(segs...)}); p.g.Dash(segs) }
func (p *teePlatform) Clear(s string) {
	if s == "" {
		p.add(recCmd{Op: "clear"})
	} else {
		p.add(recCmd{Op: "clear", S: colourArg(s), Ns: 1})
	}
	p.g.Clear(s)
}
func (p *teePlatform) Gridn(u float64, s string) {
	p.add(recCmd{Op: "gridn", N: p.nums(u), S: colourArg(s), Ns: 1})
	p.g.Gridn(u, s)
}
func (p *teePlatform) Poly(v [][]float64) {
	c := recCmd{Op: "poly"}
	for _, pt := range v {
		c.N = append(c.N, p.nums(pt...)...)
		c.Vl = append(c.Vl, len(pt))
	}
	p.add(c)
	p.g.Poly(v)
}
func (p *teePlatform) Ellipse(x, y, rx, ry, rot, sa, ea float64) {
	p.add(recCmd{Op: "ellipse", N: p.nums(x, y, rx, ry, rot, sa, ea)})
	p.g.Ellipse(x, y, rx, ry, rot, sa, ea)
}
func (p *teePlatform) Font(props map[string]any) {
	keys := make([]string, 0, len(props))
	for k := range props {
		keys = append(keys, k)
	}
	sort.Strings(keys)
	c := recCmd{Op: "font"}
	for _, k := range keys {
		switch v := props[k].(type) {
		case float64:
			c.Fp = append(c.Fp, recProp{K: k, Num: p.num(v)})
		case string:
			if k == "family" {
				v = p.token("F", v)
			}
			c.Fp = append(c.Fp, recProp{K: k, Str: v})
		}
	}
	p.add(c)
	p.g.Font(props)
}

type svgRecCase struct {
	ID       string `json:"id"`
	Path     string `json:"path"`
	MaxCalls int    `json:"maxCalls"`
}

func stageSVGRec(raw json.RawMessage) Result {
	var c svgRecCase
	if err := json.Unmarshal(raw, &c); err != nil {
		return Result{OK: false, Diff: "harness: bad svgrec case: " + err.Error()}
	}
	src, err := os.ReadFile(c.Path)
	if err != nil {
		return Result{OK: false, Diff: "harness: " + err.Error()}
	}
	base := cli.NewPlatform(cli.WithSkipSleep(true), cli.WithOutputWriter(io.Discard), cli.WithSVG("", "", ""))
	tee := &teePlatform{Platform: base, g: base.GraphicsPlatform, strs: map[string]string{},
		maxCalls: c.MaxCalls, maxSteps: 400000}
	if tee.maxCalls <= 0 {
		tee.maxCalls = 400
	}
	ev := evaluator.NewEvaluator(tee)
	tee.ev = ev
	rerr := ev.Run(string(src))
	obs := map[string]any{"outcome": classify(rerr), "ncalls": len(tee.calls)}
	if errors.As(rerr, &parser.Errors{}) {
		obs["skip"] = "parse error"
		return Result{OK: true, Obs: obs}
	}
	if tee.bad != "" {
		obs["skip"] = tee.bad
		return Result{OK: true, Obs: obs}
	}
	var buf bytes.Buffer
	if err := base.WriteSVG(&buf); err != nil {
		return Result{OK: false, Diff: "WriteSVG: " + err.Error(), Obs: obs}
	}
	obs["calls"] = tee.calls
	obs["strs"] = tee.strs
	obs["doc"] = buf.String()
	return Result{OK: true, Obs: obs}
}
