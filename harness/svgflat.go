package main

// Flattening of an SVG document for property C19: the document is parsed
// with encoding/xml (well-formedness), inherited presentation attributes are
// resolved (root, <g> ancestors, SVG initial values), and every rendered
// primitive is mapped back to an Evy drawing command: geometry in Evy
// coordinates (user space / 10, y axis flipped - ONE transform for every kind
// of shape) and the pen style in Evy terms. Nothing here knows how
// pkg/cli/svg groups elements.

import (
	"bytes"
	"encoding/xml"
	"fmt"
	"io"
	"math"
	"regexp"
	"strconv"
	"strings"
)

type xnode struct {
	Name     string
	Space    string
	Attr     map[string]string
	Children []*xnode
	Text     string
}

// parseXML checks well-formedness (strict decoder, exactly one root element,
// nothing but white space around it) and returns the element tree.
func parseXML(doc []byte) (*xnode, error) {
	dec := xml.NewDecoder(bytes.NewReader(doc))
	dec.Strict = true
	var root *xnode
	var stack []*xnode
	for {
		tok, err := dec.Token()
		if err == io.EOF {
			break
		}
		if err != nil {
			return nil, fmt.Errorf("not well-formed XML: %w", err)
		}
		switch t := tok.(type) {
		case xml.StartElement:
			n := &xnode{Name: t.Name.Local, Space: t.Name.Space, Attr: map[string]string{}}
			for _, a := range t.Attr {
				key := a.Name.Local
				if a.Name.Space != "" && a.Name.Space != "xmlns" && a.Name.Local != "xmlns" {
					key = a.Name.Space + ":" + a.Name.Local
				}
				if _, dup := n.Attr[key]; dup {
					return nil, fmt.Errorf("not well-formed XML: duplicate attribute %q on <%s>", key, n.Name)
				}
				n.Attr[key] = a.Value
			}
			if len(stack) == 0 {
				if root != nil {
					return nil, fmt.Errorf("not well-formed XML: second root element <%s>", n.Name)
				}
				root = n
			} else {
				p := stack[len(stack)-1]
				p.Children = append(p.Children, n)
			}
			stack = append(stack, n)
		case xml.EndElement:
			stack = stack[:len(stack)-1]
		case xml.CharData:
			if len(stack) == 0 {
				if strings.TrimSpace(string(t)) != "" {
					return nil, fmt.Errorf("not well-formed XML: text outside the root element: %q", string(t))
				}
			} else {
				stack[len(stack)-1].Text += string(t)
			}
		}
	}
	if root == nil {
		return nil, fmt.Errorf("not well-formed XML: no root element (%d bytes)", len(doc))
	}
	if len(stack) != 0 {
		return nil, fmt.Errorf("not well-formed XML: unclosed element")
	}
	return root, nil
}

// flatShape is one rendered primitive in Evy terms.
type flatShape struct {
	Kind  string             // line rect clear circle ellipse poly text
	Geom  map[string]float64 // named geometry fields, Evy units
	Pts   []float64          // poly
	Text  string
	Style map[string]any // stroke fill (string) width (float) dash ([]float64) cap; text: family size weight fstyle ls align baseline
	Elem  string
	Arc   bool // an ellipse given as an arc path: start/end are angles in user space
}

const svgNS = "http://www.w3.org/2000/svg"

var inheritedProps = []string{"fill", "stroke", "stroke-width", "stroke-linecap", "stroke-dasharray",
	"font-size", "font-weight", "font-style", "font-family", "letter-spacing", "text-anchor", "dominant-baseline"}

// SVG initial values.
var initialProps = map[string]string{
	"fill": "black", "stroke": "none", "stroke-width": "1", "stroke-linecap": "butt", "stroke-dasharray": "none",
	"font-size": "medium", "font-weight": "400", "font-style": "normal", "font-family": "", "letter-spacing": "0",
	"text-anchor": "start", "dominant-baseline": "auto",
}

var cssNamed = map[string]bool{}

func init() {
	for _, n := range strings.Fields(`aliceblue antiquewhite aqua aquamarine azure beige bisque black blanchedalmond blue
 blueviolet brown burlywood cadetblue chartreuse chocolate coral cornflowerblue cornsilk crimson cyan darkblue darkcyan
 darkgoldenrod darkgray darkgreen darkgrey darkkhaki darkmagenta darkolivegreen darkorange darkorchid darkred darksalmon
 darkseagreen darkslateblue darkslategray darkslategrey darkturquoise darkviolet deeppink deepskyblue dimgray dimgrey
 dodgerblue firebrick floralwhite forestgreen fuchsia gainsboro ghostwhite gold goldenrod gray green greenyellow grey
 honeydew hotpink indianred indigo ivory khaki lavender lavenderblush lawngreen lemonchiffon lightblue lightcoral
 lightcyan lightgoldenrodyellow lightgray lightgreen lightgrey lightpink lightsalmon lightseagreen lightskyblue
 lightslategray lightslategrey lightsteelblue lightyellow lime limegreen linen magenta maroon mediumaquamarine
 mediumblue mediumorchid mediumpurple mediumseagreen mediumslateblue mediumspringgreen mediumturquoise mediumvioletred
 midnightblue mintcream mistyrose moccasin navajowhite navy oldlace olive olivedrab orange orangered orchid
 palegoldenrod palegreen paleturquoise palevioletred papayawhip peachpuff peru pink plum powderblue purple
 rebeccapurple red rosybrown royalblue saddlebrown salmon sandybrown seagreen seashell sienna silver skyblue slateblue
 slategray slategrey snow springgreen steelblue tan teal thistle tomato turquoise violet wheat white whitesmoke yellow
 yellowgreen transparent currentcolor`) {
		cssNamed[n] = true
	}
}

var (
	reHex  = regexp.MustCompile(`^#([0-9a-fA-F]{3,4}|[0-9a-fA-F]{6}|[0-9a-fA-F]{8})$`)
	reFunc = regexp.MustCompile(`^(rgb|rgba|hsl|hsla|hwb|lab|lch|oklab|oklch|color)\(([^()<>&"]*)\)$`)
	reNum  = regexp.MustCompile(`[-+]?(?:\d+\.?\d*|\.\d+)(?:[eE][-+]?\d+)?`)
)

// canonPaint returns the canonical spelling of a CSS paint value and whether
// it is one at all (an invalid value of a presentation attribute is ignored
// by a renderer, i.e. the property is inherited / initial).
func canonPaint(v string) (string, bool) {
	s := strings.TrimSpace(v)
	l := strings.ToLower(s)
	if l == "none" || cssNamed[l] {
		return l, true
	}
	if reHex.MatchString(s) {
		return l, true
	}
	if m := reFunc.FindStringSubmatch(l); m != nil {
		if m[1] == "hsl" || m[1] == "hsla" {
			nums := reNum.FindAllString(m[2], -1)
			if len(nums) < 3 || len(nums) > 4 {
				return "", false
			}
			f := make([]string, 4)
			for i := range f {
				if i < len(nums) {
					x, _ := strconv.ParseFloat(nums[i], 64)
					f[i] = strconv.FormatFloat(x, 'f', -1, 64)
				} else {
					f[i] = "100"
				}
			}
			return fmt.Sprintf("hsl(%sdeg %s%% %s%% / %s%%)", f[0], f[1], f[2], f[3]), true
		}
		return strings.Join(strings.Fields(l), " "), true
	}
	return "", false
}

func validProp(name, v string) bool {
	t := strings.TrimSpace(v)
	switch name {
	case "fill", "stroke":
		_, ok := canonPaint(v)
		return ok
	case "stroke-linecap":
		return t == "butt" || t == "round" || t == "square"
	case "text-anchor":
		return t == "start" || t == "middle" || t == "end"
	case "dominant-baseline":
		switch t {
		case "auto", "text-bottom", "alphabetic", "ideographic", "middle", "central", "mathematical", "hanging",
			"text-top", "use-script", "no-change", "reset-size", "text-after-edge", "text-before-edge":
			return true
		}
		return false
	}
	return true
}

func parseNum(s string) (float64, error) {
	t := strings.TrimSpace(s)
	t = strings.TrimSuffix(t, "px")
	return strconv.ParseFloat(t, 64)
}

func numList(s string) ([]float64, error) {
	f := strings.FieldsFunc(s, func(r rune) bool { return r == ',' || r == ' ' || r == '\t' || r == '\n' || r == '\r' })
	out := make([]float64, 0, len(f))
	for _, x := range f {
		v, err := parseNum(x)
		if err != nil {
			return nil, err
		}
		out = append(out, v)
	}
	return out, nil
}

type flattener struct {
	shapes []flatShape
	errs   []string
}

func ux(v float64) float64 { return v / 10 }       // user space x -> Evy x
func uy(v float64) float64 { return 100 - v/10 }   // user space y -> Evy y (flip)
func ul(v float64) float64 { return v / 10 }       // lengths

func (f *flattener) attrNum(n *xnode, name string, def float64) float64 {
	s, ok := n.Attr[name]
	if !ok {
		return def
	}
	v, err := parseNum(s)
	if err != nil {
		f.errs = append(f.errs, fmt.Sprintf("<%s %s=%q>: not a number", n.Name, name, s))
		return math.NaN()
	}
	return v
}

func (f *flattener) walk(n *xnode, inh map[string]string) {
	props := map[string]string{}
	for k, v := range inh {
		props[k] = v
	}
	for _, p := range inheritedProps {
		if v, ok := n.Attr[p]; ok && validProp(p, v) && strings.TrimSpace(v) != "inherit" {
			props[p] = v
		}
	}
	if _, ok := n.Attr["transform"]; ok && n.Name != "ellipse" {
		f.errs = append(f.errs, fmt.Sprintf("<%s transform=...>: the flattener expects one uniform coordinate transform", n.Name))
	}
	switch n.Name {
	case "svg", "g":
		for _, c := range n.Children {
			f.walk(c, props)
		}
		return
	case "title", "desc", "defs", "metadata", "style":
		return
	}
	sh := flatShape{Elem: n.Name, Geom: map[string]float64{}, Style: f.style(props)}
	switch n.Name {
	case "line":
		sh.Kind = "line"
		sh.Geom["x1"] = ux(f.attrNum(n, "x1", 0))
		sh.Geom["y1"] = uy(f.attrNum(n, "y1", 0))
		sh.Geom["x2"] = ux(f.attrNum(n, "x2", 0))
		sh.Geom["y2"] = uy(f.attrNum(n, "y2", 0))
	case "rect":
		w, h := strings.TrimSpace(n.Attr["width"]), strings.TrimSpace(n.Attr["height"])
		x, y := f.attrNum(n, "x", 0), f.attrNum(n, "y", 0)
		var wv, hv float64
		if strings.HasSuffix(w, "%") {
			p, err := strconv.ParseFloat(strings.TrimSuffix(w, "%"), 64)
			if err != nil {
				f.errs = append(f.errs, fmt.Sprintf("<rect width=%q>", w))
			}
			wv = p * 10
		} else {
			wv = f.attrNum(n, "width", 0)
		}
		if strings.HasSuffix(h, "%") {
			p, err := strconv.ParseFloat(strings.TrimSuffix(h, "%"), 64)
			if err != nil {
				f.errs = append(f.errs, fmt.Sprintf("<rect height=%q>", h))
			}
			hv = p * 10
		} else {
			hv = f.attrNum(n, "height", 0)
		}
		if w == "100%" && h == "100%" && x == 0 && y == 0 {
			sh.Kind = "clear"
		} else {
			sh.Kind = "rect"
			sh.Geom["x0"] = ux(x)
			sh.Geom["x1"] = ux(x + wv)
			sh.Geom["y0"] = uy(y + hv)
			sh.Geom["y1"] = uy(y)
		}
	case "circle":
		sh.Kind = "circle"
		sh.Geom["x"] = ux(f.attrNum(n, "cx", 0))
		sh.Geom["y"] = uy(f.attrNum(n, "cy", 0))
		sh.Geom["r"] = ul(f.attrNum(n, "r", 0))
	case "ellipse":
		sh.Kind = "ellipse"
		cx, cy := f.attrNum(n, "cx", 0), f.attrNum(n, "cy", 0)
		sh.Geom["x"] = ux(cx)
		sh.Geom["y"] = uy(cy)
		sh.Geom["rx"] = ul(f.attrNum(n, "rx", 0))
		sh.Geom["ry"] = ul(f.attrNum(n, "ry", 0))
		sh.Geom["tilt"] = 0
		sh.Geom["start"] = 0
		sh.Geom["end"] = 360
		if tr, ok := n.Attr["transform"]; ok && strings.TrimSpace(tr) != "" {
			m := regexp.MustCompile(`^\s*rotate\(([^)]*)\)\s*$`).FindStringSubmatch(tr)
			var a []float64
			var err error
			if m != nil {
				a, err = numList(m[1])
			}
			if m == nil || err != nil || (len(a) != 1 && len(a) != 3) {
				f.errs = append(f.errs, fmt.Sprintf("<ellipse transform=%q>: only rotate(a cx cy) is understood", tr))
			} else {
				sh.Geom["tilt"] = math.Abs(a[0])
				rcx, rcy := 0.0, 0.0
				if len(a) == 3 {
					rcx, rcy = a[1], a[2]
				}
				if !feq(rcx, cx) || !feq(rcy, cy) {
					f.errs = append(f.errs, fmt.Sprintf("<ellipse transform=%q>: rotation centre is not the centre %v,%v of the ellipse", tr, cx, cy))
				}
			}
		}
	case "path":
		// the only path understood: one elliptical arc "M x1 y1 A rx ry rot large sweep x2 y2"
		// (an ellipse with start and end angles); anything else is unsupported
		if !f.arcPath(n, &sh) {
			sh.Kind = "unsupported:path"
		}
	case "polyline", "polygon":
		sh.Kind = "poly"
		pts, err := numList(n.Attr["points"])
		if err != nil || len(pts)%2 != 0 {
			f.errs = append(f.errs, fmt.Sprintf("<%s points=%q>: bad point list", n.Name, n.Attr["points"]))
		}
		for i := 0; i+1 < len(pts); i += 2 {
			sh.Pts = append(sh.Pts, ux(pts[i]), uy(pts[i+1]))
		}
		if n.Name == "polygon" && len(sh.Pts) >= 2 {
			sh.Pts = append(sh.Pts, sh.Pts[0], sh.Pts[1])
		}
	case "text":
		sh.Kind = "text"
		sh.Geom["x"] = ux(f.attrNum(n, "x", 0))
		sh.Geom["y"] = uy(f.attrNum(n, "y", 0))
		sh.Text = n.Text
		if len(n.Children) > 0 {
			f.errs = append(f.errs, "<text> with child elements")
		}
	default:
		sh.Kind = "unsupported:" + n.Name
	}
	f.shapes = append(f.shapes, sh)
}

var reArc = regexp.MustCompile(`^\s*[Mm]([^AaZz]*)A([^Zz]*)$`)

// arcPath recovers centre, radii, tilt and the start/end angles of a single
// elliptical arc (SVG implementation notes F.6.5, end point to centre
// parametrisation). Angles are measured in user space (y down), i.e.
// clockwise on screen, like the canvas API.
func (f *flattener) arcPath(n *xnode, sh *flatShape) bool {
	m := reArc.FindStringSubmatch(n.Attr["d"])
	if m == nil {
		return false
	}
	p0, err0 := numList(m[1])
	a, err1 := numList(m[2])
	if err0 != nil || err1 != nil || len(p0) != 2 || len(a) != 7 {
		return false
	}
	x1, y1 := p0[0], p0[1]
	rx, ry, phi := math.Abs(a[0]), math.Abs(a[1]), a[2]*math.Pi/180
	fa, fs := a[3] != 0, a[4] != 0
	x2, y2 := a[5], a[6]
	if rx == 0 || ry == 0 {
		return false
	}
	cosp, sinp := math.Cos(phi), math.Sin(phi)
	dx, dy := (x1-x2)/2, (y1-y2)/2
	x1p := cosp*dx + sinp*dy
	y1p := -sinp*dx + cosp*dy
	if l := x1p*x1p/(rx*rx) + y1p*y1p/(ry*ry); l > 1 {
		rx *= math.Sqrt(l)
		ry *= math.Sqrt(l)
	}
	num := rx*rx*ry*ry - rx*rx*y1p*y1p - ry*ry*x1p*x1p
	den := rx*rx*y1p*y1p + ry*ry*x1p*x1p
	fac := 0.0
	if den != 0 && num > 0 {
		fac = math.Sqrt(num / den)
	}
	if fa == fs {
		fac = -fac
	}
	cxp := fac * rx * y1p / ry
	cyp := fac * -ry * x1p / rx
	cx := cosp*cxp - sinp*cyp + (x1+x2)/2
	cy := sinp*cxp + cosp*cyp + (y1+y2)/2
	ang := func(ux, uy, vx, vy float64) float64 {
		return math.Atan2(ux*vy-uy*vx, ux*vx+uy*vy) * 180 / math.Pi
	}
	th1 := ang(1, 0, (x1p-cxp)/rx, (y1p-cyp)/ry)
	dth := ang((x1p-cxp)/rx, (y1p-cyp)/ry, (-x1p-cxp)/rx, (-y1p-cyp)/ry)
	if !fs && dth > 0 {
		dth -= 360
	} else if fs && dth < 0 {
		dth += 360
	}
	sh.Kind = "ellipse"
	sh.Geom["x"] = ux(cx)
	sh.Geom["y"] = uy(cy)
	sh.Geom["rx"] = ul(rx)
	sh.Geom["ry"] = ul(ry)
	sh.Geom["tilt"] = math.Abs(a[2])
	sh.Geom["start"] = th1
	sh.Geom["end"] = th1 + dth
	sh.Arc = true
	return true
}

// style converts resolved SVG properties to the Evy pen style.
func (f *flattener) style(p map[string]string) map[string]any {
	st := map[string]any{}
	st["stroke"], _ = canonPaint(p["stroke"])
	st["fill"], _ = canonPaint(p["fill"])
	if w, err := parseNum(p["stroke-width"]); err == nil {
		st["width"] = ul(w)
	} else {
		st["width"] = "?" + p["stroke-width"]
	}
	st["cap"] = strings.TrimSpace(p["stroke-linecap"])
	d := strings.TrimSpace(p["stroke-dasharray"])
	dash := []float64{}
	if d != "" && d != "none" {
		l, err := numList(d)
		if err != nil {
			st["dash"] = "?" + d
		} else {
			for _, x := range l {
				dash = append(dash, ul(x))
			}
			if len(dash)%2 == 1 {
				dash = append(dash, dash...)
			}
		}
	}
	if _, bad := st["dash"]; !bad {
		st["dash"] = dash
	}
	// text
	if fam := strings.TrimSpace(p["font-family"]); fam == "" {
		st["family"] = "default"
	} else {
		st["family"] = p["font-family"]
	}
	if s, err := parseNum(p["font-size"]); err == nil {
		st["size"] = ul(s)
	} else {
		st["size"] = "?" + p["font-size"]
	}
	switch w := strings.TrimSpace(p["font-weight"]); w {
	case "normal":
		st["weight"] = 400.0
	case "bold":
		st["weight"] = 700.0
	default:
		if x, err := parseNum(w); err == nil {
			st["weight"] = x
		} else {
			st["weight"] = "?" + w
		}
	}
	st["fstyle"] = strings.TrimSpace(p["font-style"])
	switch ls := strings.TrimSpace(p["letter-spacing"]); ls {
	case "normal", "":
		st["ls"] = 0.0
	default:
		if x, err := parseNum(ls); err == nil {
			st["ls"] = ul(x)
		} else {
			st["ls"] = "?" + ls
		}
	}
	switch strings.TrimSpace(p["text-anchor"]) {
	case "middle":
		st["align"] = "center"
	case "end":
		st["align"] = "right"
	default:
		st["align"] = "left"
	}
	switch b := strings.TrimSpace(p["dominant-baseline"]); b {
	case "auto", "alphabetic":
		st["baseline"] = "alphabetic"
	case "hanging", "text-before-edge", "text-top":
		st["baseline"] = "top"
	case "middle", "central":
		st["baseline"] = "middle"
	case "ideographic", "text-after-edge", "text-bottom":
		st["baseline"] = "bottom"
	default:
		st["baseline"] = b
	}
	return st
}

func feq(a, b float64) bool {
	if math.IsNaN(a) || math.IsNaN(b) {
		return math.IsNaN(a) && math.IsNaN(b)
	}
	if math.IsInf(a, 0) || math.IsInf(b, 0) {
		return a == b
	}
	if gTol > 0 {
		return math.Abs(a-b) <= gTol
	}
	return math.Abs(a-b) <= 1e-9*math.Max(1, math.Max(math.Abs(a), math.Abs(b)))
}

// flattenSVG parses and flattens a document. rootErr reports a document
// that is not an SVG document in the documented coordinate system.
func flattenSVG(doc []byte) (root *xnode, shapes []flatShape, errs []string, fatal error) {
	root, err := parseXML(doc)
	if err != nil {
		return nil, nil, nil, err
	}
	if root.Name != "svg" {
		return root, nil, nil, fmt.Errorf("root element is <%s>, not <svg>", root.Name)
	}
	if root.Space != svgNS {
		return root, nil, nil, fmt.Errorf("root <svg> is not in the SVG namespace (xmlns=%q)", root.Space)
	}
	if vb, _ := numList(root.Attr["viewBox"]); len(vb) != 4 || vb[0] != 0 || vb[1] != 0 || vb[2] != 1000 || vb[3] != 1000 {
		return root, nil, nil, fmt.Errorf("viewBox is %q, expected the canvas scaled by ten: 0 0 1000 1000", root.Attr["viewBox"])
	}
	f := &flattener{}
	inh := map[string]string{}
	for k, v := range initialProps {
		inh[k] = v
	}
	f.walk(root, inh)
	return root, f.shapes, f.errs, nil
}
