// Command evyverif is the conformance harness that binds the TLA+
// specification in /verif/spec to the real evylang/evy packages.
//
// It is deliberately dumb: it reads "case" lines that TLC printed (one JSON
// object per behaviour of the specification), runs the stage the case names
// against the real code, compares every observable the case predicts and
// writes one result line per case. Direction B (recording traces from the
// real code for validation by a trace specification) lives in record*.go.
package main

import (
	"bufio"
	"encoding/json"
	"flag"
	"fmt"
	"io"
	"os"
	"os/exec"
	"runtime/debug"
	"strings"
	"sync"
	"time"
)

// Case is one behaviour of the specification. Only the fields a stage needs
// are decoded by that stage (Raw keeps the whole line).
type Case struct {
	ID    string          `json:"id"`
	Stage string          `json:"stage"`
	Raw   json.RawMessage `json:"-"`
}

// Result is what the harness observed for one case.
type Result struct {
	ID      string         `json:"id"`
	OK      bool           `json:"ok"`
	Diff    string         `json:"diff,omitempty"`
	Crash   bool           `json:"crash,omitempty"`
	Timeout bool           `json:"timeout,omitempty"`
	Obs     map[string]any `json:"obs,omitempty"`
}

type stageFunc func(raw json.RawMessage) Result

var stages = map[string]stageFunc{}

func main() {
	if len(os.Args) < 2 {
		fmt.Fprintln(os.Stderr, "usage: evyverif <replay|worker|...> [flags]")
		os.Exit(2)
	}
	switch os.Args[1] {
	case "worker":
		worker()
	case "replay":
		replay(os.Args[2:])
	default:
		if cmd, ok := commands[os.Args[1]]; ok {
			os.Exit(cmd(os.Args[2:]))
		}
		fmt.Fprintln(os.Stderr, "unknown command", os.Args[1])
		os.Exit(2)
	}
}

// commands are additional sub-commands registered by other files
// (recorders, strace drivers ...).
var commands = map[string]func(args []string) int{}

func dispatchCase(line []byte) (res Result) {
	var c Case
	if err := json.Unmarshal(line, &c); err != nil {
		return Result{ID: "?", OK: false, Diff: "harness: bad case line: " + err.Error()}
	}
	defer func() {
		if r := recover(); r != nil {
			res = Result{ID: c.ID, OK: false, Crash: true,
				Diff: fmt.Sprintf("go panic: %v\n%s", r, trimStack(debug.Stack()))}
		}
	}()
	f, ok := stages[c.Stage]
	if !ok {
		return Result{ID: c.ID, OK: false, Diff: "harness: unknown stage " + c.Stage}
	}
	res = f(json.RawMessage(line))
	res.ID = c.ID
	return res
}

func trimStack(b []byte) string {
	lines := strings.Split(string(b), "\n")
	var keep []string
	for _, l := range lines {
		if strings.Contains(l, "evylang.dev/evy") || strings.Contains(l, "/repo/") {
			keep = append(keep, strings.TrimSpace(l))
		}
		if len(keep) >= 8 {
			break
		}
	}
	return strings.Join(keep, "\n")
}

func worker() {
	debug.SetMaxStack(64 << 20)
	in := bufio.NewReaderSize(os.Stdin, 1<<20)
	out := bufio.NewWriter(os.Stdout)
	for {
		line, err := in.ReadBytes('\n')
		if len(line) > 1 {
			res := dispatchCase(line)
			b, _ := json.Marshal(res)
			out.Write(b)
			out.WriteByte('\n')
			out.Flush()
		}
		if err != nil {
			return
		}
	}
}

type proc struct {
	cmd    *exec.Cmd
	stdin  io.WriteCloser
	stdout *bufio.Reader
	stderr *tailBuf
}

type tailBuf struct {
	mu sync.Mutex
	b  []byte
}

func (t *tailBuf) Write(p []byte) (int, error) {
	t.mu.Lock()
	defer t.mu.Unlock()
	t.b = append(t.b, p...)
	if len(t.b) > 8192 {
		t.b = t.b[len(t.b)-8192:]
	}
	return len(p), nil
}

func (t *tailBuf) String() string {
	t.mu.Lock()
	defer t.mu.Unlock()
	return string(t.b)
}

func startProc() (*proc, error) {
	cmd := exec.Command(os.Args[0], "worker")
	stdin, err := cmd.StdinPipe()
	if err != nil {
		return nil, err
	}
	stdout, err := cmd.StdoutPipe()
	if err != nil {
		return nil, err
	}
	tb := &tailBuf{}
	cmd.Stderr = tb
	if err := cmd.Start(); err != nil {
		return nil, err
	}
	return &proc{cmd: cmd, stdin: stdin, stdout: bufio.NewReaderSize(stdout, 1<<20), stderr: tb}, nil
}

func (p *proc) kill() {
	p.stdin.Close()
	p.cmd.Process.Kill()
	p.cmd.Wait()
}

// replay feeds every case to a pool of worker sub-processes. A worker that
// dies or exceeds the per-case deadline is attributed to the in-flight case
// (that is a verdict about the system under test, not a harness error).
func replay(args []string) {
	fs := flag.NewFlagSet("replay", flag.ExitOnError)
	inPath := fs.String("in", "", "cases ndjson")
	outPath := fs.String("out", "", "results ndjson")
	nw := fs.Int("workers", 12, "worker processes")
	deadline := fs.Duration("deadline", 10*time.Second, "per-case deadline")
	fs.Parse(args)
	inF, err := os.Open(*inPath)
	if err != nil {
		fmt.Fprintln(os.Stderr, err)
		os.Exit(2)
	}
	defer inF.Close()
	outF, err := os.Create(*outPath)
	if err != nil {
		fmt.Fprintln(os.Stderr, err)
		os.Exit(2)
	}
	defer outF.Close()
	outW := bufio.NewWriter(outF)
	defer outW.Flush()

	lines := make(chan []byte, 256)
	results := make(chan Result, 256)
	var wg sync.WaitGroup
	for i := 0; i < *nw; i++ {
		wg.Add(1)
		go func() {
			defer wg.Done()
			var p *proc
			defer func() {
				if p != nil {
					p.kill()
				}
			}()
			for line := range lines {
				if p == nil {
					var err error
					p, err = startProc()
					if err != nil {
						results <- Result{ID: caseID(line), OK: false, Diff: "harness: cannot start worker: " + err.Error()}
						continue
					}
				}
				type rd struct {
					b   []byte
					err error
				}
				ch := make(chan rd, 1)
				if _, err := p.stdin.Write(line); err != nil {
					results <- Result{ID: caseID(line), OK: false, Crash: true, Diff: "worker died before case: " + p.stderr.String()}
					p.kill()
					p = nil
					continue
				}
				go func(p *proc) {
					b, err := p.stdout.ReadBytes('\n')
					ch <- rd{b, err}
				}(p)
				select {
				case r := <-ch:
					if r.err != nil {
						p.cmd.Wait()
						results <- Result{ID: caseID(line), OK: false, Crash: true,
							Diff: "worker process died: " + tail(p.stderr.String(), 1500)}
						p.kill()
						p = nil
						continue
					}
					var res Result
					if err := json.Unmarshal(r.b, &res); err != nil {
						res = Result{ID: caseID(line), OK: false, Diff: "harness: bad result line"}
					}
					results <- res
				case <-time.After(*deadline):
					results <- Result{ID: caseID(line), OK: false, Timeout: true,
						Diff: fmt.Sprintf("no result within %v (hang)", *deadline)}
					p.kill()
					p = nil
				}
			}
		}()
	}
	go func() {
		wg.Wait()
		close(results)
	}()
	go func() {
		rd := bufio.NewReaderSize(inF, 1<<20)
		for {
			line, err := rd.ReadBytes('\n')
			if len(line) > 1 {
				if line[len(line)-1] != '\n' {
					line = append(line, '\n')
				}
				lines <- line
			}
			if err != nil {
				break
			}
		}
		close(lines)
	}()
	for res := range results {
		b, _ := json.Marshal(res)
		outW.Write(b)
		outW.WriteByte('\n')
	}
}

func tail(s string, n int) string {
	if len(s) > n {
		return s[:n/2] + "\n...\n" + s[len(s)-n/2:]
	}
	return s
}

func caseID(line []byte) string {
	var c Case
	json.Unmarshal(line, &c)
	return c.ID
}
