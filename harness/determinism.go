package main

import (
	"encoding/json"
	"fmt"

	"evylang.dev/evy/pkg/evaluator"
	"evylang.dev/evy/pkg/parser"
)

func init() {
	stages["determinism"] = stageDeterminism
}

type detObs struct {
	ParseErr  string
	Formatted string
	Effects   []any
	Result    string
	RunErr    string
}

func observeOnce(src string) detObs {
	var o detObs
	prog, err := parser.Parse(src, evaluator.BuiltinDecls())
	if err != nil {
		o.ParseErr = err.Error()
		return o
	}
	o.Formatted = prog.Format()
	ex := execute(src, []string{"in1", "in2"}, []eventSpec{{Name: "key", Args: []any{"a"}}, {Name: "down", Args: []any{1.0, 2.0}}}, 20000, false, false, 7)
	o.Effects = normEffects(ex.Effects)
	for _, ee := range ex.EvEffects {
		o.Effects = append(o.Effects, normEffects(ee)...)
	}
	o.Result = ex.Result
	if ex.ResultErr != nil {
		o.RunErr = ex.ResultErr.Error()
	}
	return o
}

// stageDeterminism repeats parse, format and run of one program and
// demands byte-identical observations. Go starts the iteration of a small
// map at a random entry, so a result that depends on map order differs
// between two repetitions with probability >= 1/2.
func stageDeterminism(raw json.RawMessage) Result {
	var c struct {
		Src  any `json:"src"`
		Reps int `json:"reps"`
	}
	if err := json.Unmarshal(raw, &c); err != nil {
		return Result{OK: false, Diff: "harness: " + err.Error()}
	}
	src := pieces(c.Src)
	obs := map[string]any{"src": src}
	first := observeOnce(src)
	obs["parseErr"] = first.ParseErr
	obs["result"] = first.Result
	for i := 1; i < c.Reps; i++ {
		o := observeOnce(src)
		switch {
		case o.ParseErr != first.ParseErr:
			return Result{OK: false, Obs: obs, Diff: fmt.Sprintf("repetition %d: parse errors differ:\n%s\n--- vs ---\n%s", i+1, first.ParseErr, o.ParseErr)}
		case o.Formatted != first.Formatted:
			return Result{OK: false, Obs: obs, Diff: fmt.Sprintf("repetition %d: formatted text differs", i+1)}
		case effectString(o.Effects) != effectString(first.Effects): // as text: a NaN argument is not equal to itself
			return Result{OK: false, Obs: obs, Diff: fmt.Sprintf("repetition %d: platform calls differ: %s vs %s", i+1, effectString(first.Effects), effectString(o.Effects))}
		case o.Result != first.Result || o.RunErr != first.RunErr:
			return Result{OK: false, Obs: obs, Diff: fmt.Sprintf("repetition %d: result differs: %s %q vs %s %q", i+1, first.Result, first.RunErr, o.Result, o.RunErr)}
		}
	}
	obs["formatted"] = first.Formatted
	obs["effects"] = first.Effects
	obs["runErr"] = first.RunErr
	return Result{OK: true, Obs: obs}
}
